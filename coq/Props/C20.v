(* C20 - a graph backed by a SPARQL endpoint mirrors and updates the endpoint
   faithfully.  Property theorems only; proofs are in Remote/Proofs.v.

   The model (Remote/Model.v) represents every request of SPARQLStore /
   SPARQLUpdateStore by the algebra its text denotes and mirrors the edit
   queue statement by statement.  Request TEXT, regex rewriting and HTTP are
   not modelled (conformance only, see notes/C20.md).
   The four findings F13a-d have been repaired in the code ("fix:" commits
   168749f3, d390f22b, f0b9913b, e1d625e1); the model follows the repaired
   code and every theorem is stated without a trigger hypothesis. *)
From RV Require Import Remote.Model Remote.Proofs Remote.Text Remote.TextProofs Remote.NamedGraph Remote.NamedGraphProofs.
Local Open Scope N_scope.

(* The tie between model and checker: what the model does is accepted by the
   specification checker, for every history (including histories with updates
   the endpoint rejects). *)
Theorem C20_spec_ok_model : forall c, wf c -> spec_ok c (model_obs c) = true.
Proof. exact spec_ok_model. Qed.
Print Assumptions C20_spec_ok_model.

(* Each write (add, addN, remove with wildcards, add_graph, remove_graph,
   update incl. initBindings) is one request that the endpoint accepts and
   whose effect on the endpoint's dataset is the effect the write has on a
   local dataset - on either endpoint flavour. *)
Theorem C20_writes_mirror : forall alias o w, classify o = KWrite w ->
  exists us, compile o = Some us /\
    forall e, exists e', send alias e us = Some e' /\ ep_equiv e' (s_apply e w).
Proof. exact writes_mirror. Qed.
Print Assumptions C20_writes_mirror.

(* triples(pattern, context), all 8 shapes, any context, either endpoint
   flavour: a duplicate-free enumeration of exactly the matching triples of
   that graph of the endpoint's dataset. *)
Theorem C20_triples_mirror : forall alias p c e, NoDup (quads e) ->
  exists l, read_ans alias (OTriples p c) e = ATriples l /\ NoDup l /\
    forall t, In t l <-> In (t, cid_of c) (quads e) /\ matches p t = true.
Proof. exact triples_mirror. Qed.
Print Assumptions C20_triples_mirror.

(* query(text, queryGraph) for the modelled query shapes: same *)
Theorem C20_query_mirror : forall alias k p c e, NoDup (quads e) ->
  exists l, read_ans alias (OQuery k p c) e = ATriples l /\ NoDup l /\
    forall t, In t l <-> In (t, cid_of c) (quads e) /\ matches p t = true.
Proof. exact query_mirror. Qed.
Print Assumptions C20_query_mirror.

(* len(graph) is the number of triples of that graph at the endpoint *)
Theorem C20_len : forall alias c e, NoDup (quads e) ->
  exists l, read_ans alias (OLen c) e = ANum (N.of_nat (length l)) /\ NoDup l /\
    forall t, In t l <-> In (t, cid_of c) (quads e).
Proof. exact len_mirror. Qed.
Print Assumptions C20_len.

(* contexts(triple): exactly the named graphs of the endpoint that contain the
   triple, each once - for every triple, falsy terms included *)
Theorem C20_contexts : forall alias t e, NoDup (quads e) ->
  exists l, read_ans alias (OContexts (Some t)) e = ANames l /\ NoDup l /\
    forall g, In g l <-> In (t, g) (quads e) /\ g <> 0.
Proof. exact contexts_mirror. Qed.
Print Assumptions C20_contexts.

(* The edit queue.  [q_step] says which writes are DUE at the endpoint: with
   autocommit every write at once (together with anything still queued);
   without it, at commit() or before the next read unless dirty_reads;
   rollback() drops exactly the queued ones; a transaction containing a
   statement the endpoint rejects is dropped as a whole when it is sent.  For
   every history, after every step, the endpoint's dataset is the due writes
   executed in order on the initial dataset - nothing more, nothing less. *)
Theorem C20_queue : forall c, wf c ->
  Forall2 (fun ob dn => ep_equiv (fst ob) (fold_left s_apply dn (init_ep c)))
          (model_obs c) (due_run (q0 c) (c_ops c)).
Proof. exact queue_model. Qed.
Print Assumptions C20_queue.

(* Readings of the boolean checker, for ANY observation sequence (in
   particular the implementation's): acceptance means that after every step
   the observed endpoint dataset is the due writes executed in order ... *)
Theorem C20_spec_reading_queue : forall init ops s q obs, Q init s q -> spec_run s ops obs = true ->
  Forall2 (fun ob dn => ep_equiv (fst ob) (fold_left s_apply dn init)) obs (due_run q ops).
Proof. exact spec_run_due. Qed.
Print Assumptions C20_spec_reading_queue.

(* ... and that an accepted triples() answer is a duplicate-free enumeration
   of the matching triples of the observed dataset. *)
Theorem C20_spec_reading_triples : forall p c now l, read_ok (OTriples p c) now (ATriples l) = true <->
  NoDup l /\ forall t, In t l <-> In (t, cid_of c) (quads now) /\ matches p t = true.
Proof. exact read_ok_triples. Qed.
Print Assumptions C20_spec_reading_triples.

(* ---- request TEXT (Remote/Text.v: AST, printer = the exact wire text, denotation) ---- *)

(* reads: the AST from which the text of triples() [SELECT of the unbound
   positions / ASK], __len__ [count] and contexts() [GRAPH ?name] is printed,
   evaluated by the denotation of the AST at the endpoint (one-triple basic
   graph patterns, projection, the default-graph-uri parameter) and decoded the
   way the store decodes the rows, is the answer of the request algebra - the
   term the simulation theorem uses.  (The printer print_q occurs in no theorem:
   there is no parser model; that an endpoint reads the printed text back as
   this AST is observed by the suites, not proved.) *)
Theorem C20_text_reads_denote : forall alias o q dg e, read_q o = Some (q, dg) -> NoDup (quads e) ->
  decode o (sem_q alias q dg e) = read_ans alias o e.
Proof. exact reads_denote. Qed.
Print Assumptions C20_text_reads_denote.

(* writes: the AST from which each statement of add / addN / remove / add_graph /
   remove_graph is printed [INSERT DATA with or without GRAPH, (WITH g) DELETE {tp}
   WHERE {tp} with ?S ?P ?O, CREATE GRAPH, DROP GRAPH / DROP DEFAULT] denotes, on
   every endpoint dataset, the request-algebra term [compile] gives for it.
   (Same remark: about the AST, not about the characters.) *)
Theorem C20_text_writes_denote : forall alias o asts, write_asts o = Some asts ->
  exists us, compile o = Some us /\
    Forall2 (fun a u => forall e, sem_u alias a e = apply_upd alias e u) asts us.
Proof. exact writes_denote. Qed.
Print Assumptions C20_text_writes_denote.

(* ---- _insert_named_graph (Remote/NamedGraph.v, character level) ---- *)

(* the level/pos loop, over the match sequence of ANY text with block structure
   [l] (nesting of any depth, any chunking of the text between braces): the
   GRAPH wrapper goes around the content of exactly the non-blank top-level
   blocks, everything else is kept *)
Theorem C20_insert_items_wraps : forall g l, insert_items g (items_of l) = wrap_spec g l.
Proof. exact insert_items_wraps. Qed.
Print Assumptions C20_insert_items_wraps.

(* ... and with the scanner (BLOCK_FINDING_PATTERN, character by character): for
   every text that can be written as a sequence of tokens - nested blocks;
   short string literals (also the empty one, unless a third quote follows) and
   LONG string literals in either quote style containing braces / quotes /
   escapes; IRIs; comments to the end of the line or of the text; escaped
   characters; a quote, "<" or backslash at which no alternative of the
   pattern matches (FILTER(?o < 3), an unpaired quote); any other character.
   [toks_ok l []] checks each token in the context of the text that follows it.
   Partial in this sense: texts whose braces (outside strings, IRIs, comments)
   do not balance have no such token sequence, and that every balanced text has
   one is not proved. *)
Theorem C20_insert_named_graph_wraps_partial : forall g l, toks_ok l [] = true ->
  insert_named_graph g (flat_map tok_text l) = wrap_spec g (map erase l)
  /\ render (map erase l) = flat_map tok_text l.
Proof. exact insert_named_graph_wraps. Qed.
Print Assumptions C20_insert_named_graph_wraps_partial.

(* non-vacuity: a text with a brace pair and an escaped quote inside a string, a brace inside a
   comment and a blank block is in the token language; only the first block gets the wrapper *)
Example C20_named_graph_nonvacuous :
  toks_ok ex_toks [] = true /\ insert_named_graph ex_graph (flat_map tok_text ex_toks) = ex_out.
Proof. vm_compute. split; reflexivity. Qed.

(* ordinary SPARQL is in the language:  W { ?o < 3 . ?s ?p "" } #{   (a "<" that opens no IRI, the
   empty literal, a comment running to the end of the text with a brace in it) *)
Example C20_named_graph_ordinary_sparql :
  toks_ok ex_toks2 [] = true /\ insert_named_graph ex_graph (flat_map tok_text ex_toks2) = ex_out2.
Proof. vm_compute. split; reflexivity. Qed.

(* F13e (before 45087ba7, the LONG alternatives after the short ones): a block holding one LONG
   string literal - the n3 form rdflib gives a literal with a newline, a quote and braces - was not
   wrapped as a block, the wrapper ended up inside the literal; with the repaired order it is *)
Theorem C20_long_string_refuted :
  insert_named_graph_hist ex_graph ([cLBRACE] ++ bad_lit ++ [cRBRACE])
  <> [cLBRACE] ++ graph_open ex_graph ++ bad_lit ++ graph_close ++ [cRBRACE]
  /\ insert_named_graph ex_graph ([cLBRACE] ++ bad_lit ++ [cRBRACE])
     = [cLBRACE] ++ graph_open ex_graph ++ bad_lit ++ graph_close ++ [cRBRACE].
Proof. exact long_string_refuted. Qed.
Print Assumptions C20_long_string_refuted.

(* ---- the historical definitions do not have the property ------------ *)

(* F13a (before e1d625e1): the identifier <urn:x-rdflib:default> passed as
   queryGraph designated a NAMED graph on a generic endpoint *)
Theorem C20_hist_default_graph_iri_refuted :
  resolve false (qg_ref_hist (Some 0)) <> cid_of (Some 0) /\ resolve false (qg_ref (Some 0)) = cid_of (Some 0).
Proof. exact hist_default_iri_refuted. Qed.
Print Assumptions C20_hist_default_graph_iri_refuted.

(* F13b (before 168749f3): contexts((s,p,o)) turned a falsy bound term into a variable *)
Theorem C20_hist_contexts_truthiness_refuted :
  exists t s, NoDup s /\ ctx_rows (truthy_pat_hist t) s <> ctx_rows (pat_of t) s.
Proof. exact hist_contexts_truthiness_refuted. Qed.
Print Assumptions C20_hist_contexts_truthiness_refuted.

(* non-vacuity: a history with queued writes, a wildcard remove, a flushing
   read, a rollback, a dirty read, a rejected update inside a transaction
   (the commit raises and the transaction is gone) is accepted, and its due
   writes are what one expects *)
Example C20_nonvacuous :
  let c := {| c_alias := false; c_auto := false; c_dirty := false;
              c_init := [((1, 3, 10), 1)]; c_names := [1];
              c_ops := [OAdd (2, 3, 15) (Some 1); ORemove (Some 1, None, None) (Some 1);
                        OTriples all_pat (Some 1); OAddN [((2, 4, 16), 2); ((2, 4, 16), 0)]; ORollback;
                        OAdd (2, 4, 17) None; OSetDirty true; OLen None; OCommit; OLen None;
                        OAdd (2, 4, 5) (Some 2); OBadUpdate; OCommit; OContexts (Some (2, 4, 5))] |} in
  spec_ok c (model_obs c) = true
  /\ map snd (model_obs c) = [ANone; ANone; ATriples [(2, 3, 15)]; ANone; ANone; ANone; ANone; ANum 0; ANone; ANum 1;
                              ANone; ANone; ARaised; ANames []]
  /\ q_done (fold_left q_step (c_ops c) (q0 c))
     = [WAdd [((2, 3, 15), 1)]; WRemove (Some 1, None, None) 1; WAdd [((2, 4, 17), 0)]].
Proof. vm_compute. repeat split. Qed.
