(* C20 - a graph backed by a SPARQL endpoint mirrors and updates the endpoint
   faithfully.  Property theorems only; proofs are in Remote/Proofs.v.

   The model (Remote/Model.v) represents every request of SPARQLStore /
   SPARQLUpdateStore by the algebra its text denotes and mirrors the edit
   queue statement by statement.  Request TEXT, regex rewriting and HTTP are
   not modelled (conformance only, see notes/C20.md).
   [good alias o] is the per-operation form of [kf c = 0]: the operation is
   outside the four known findings F13a-d. *)
From RV Require Import Remote.Model Remote.Proofs.
Local Open Scope N_scope.

(* The tie between model and checker: outside the findings, what the model
   does is accepted by the specification checker, for every history. *)
Theorem C20_spec_ok_model : forall c, wf c -> kf c = 0 -> spec_ok c (model_obs c) = true.
Proof. exact spec_ok_model. Qed.
Print Assumptions C20_spec_ok_model.

(* Each write (add, addN, remove with wildcards, add_graph, remove_graph,
   update) is one request that the endpoint accepts and whose effect on the
   endpoint's dataset is the effect the write has on a local dataset. *)
Theorem C20_writes_mirror : forall alias o w, good alias o = true -> classify o = KWrite w ->
  exists us, compile o = Some us /\
    forall e, exists e', send alias e us = Some e' /\ ep_equiv e' (s_apply e w).
Proof. exact writes_mirror. Qed.
Print Assumptions C20_writes_mirror.

(* triples(pattern, context), all 8 shapes, any context, either endpoint
   flavour: a duplicate-free enumeration of exactly the matching triples of
   that graph of the endpoint's dataset. *)
Theorem C20_triples_mirror : forall alias p c e, NoDup (quads e) ->
  exists l, read_ans alias (OTriples p c) e = ATriples l /\ NoDup l /\
    forall t, In t l <-> In (t, cid_of c) (quads e) /\ matches p t = true.
Proof. exact triples_mirror. Qed.
Print Assumptions C20_triples_mirror.

(* len(graph) is the number of triples of that graph at the endpoint *)
Theorem C20_len : forall alias c e, NoDup (quads e) ->
  exists l, read_ans alias (OLen c) e = ANum (N.of_nat (length l)) /\ NoDup l /\
    forall t, In t l <-> In (t, cid_of c) (quads e).
Proof. exact len_mirror. Qed.
Print Assumptions C20_len.

(* contexts(triple), when no term of the triple is falsy in Python: exactly the
   named graphs of the endpoint that contain the triple *)
Theorem C20_contexts_partial : forall alias t e, NoDup (quads e) ->
  falsy_contexts (OContexts (Some t)) = false ->
  exists l, read_ans alias (OContexts (Some t)) e = ANames l /\ NoDup l /\
    forall g, In g l <-> In (t, g) (quads e) /\ g <> 0.
Proof. exact contexts_mirror. Qed.
Print Assumptions C20_contexts_partial.

(* The edit queue.  [q_step] says which writes are DUE at the endpoint: with
   autocommit every write at once (together with anything still queued);
   without it, at commit() or before the next read unless dirty_reads;
   rollback() drops exactly the queued ones.  For every history, after every
   step, the endpoint's dataset is the due writes executed in order on the
   initial dataset - nothing more, nothing less. *)
Theorem C20_queue : forall c, wf c -> kf c = 0 ->
  Forall2 (fun ob dn => ep_equiv (fst ob) (fold_left s_apply dn (init_ep c)))
          (model_obs c) (due_run (q0 c) (c_ops c)).
Proof. exact queue_model. Qed.
Print Assumptions C20_queue.

(* Readings of the boolean checker, for ANY observation sequence (in
   particular the implementation's): acceptance means that after every step
   the observed endpoint dataset is the due writes executed in order ... *)
Theorem C20_spec_reading_queue : forall init ops s q obs, Q init s q -> spec_run s ops obs = true ->
  Forall2 (fun ob dn => ep_equiv (fst ob) (fold_left s_apply dn init)) obs (due_run q ops).
Proof. exact spec_run_due. Qed.
Print Assumptions C20_spec_reading_queue.

(* ... and that an accepted triples() answer is a duplicate-free enumeration
   of the matching triples of the observed dataset. *)
Theorem C20_spec_reading_triples : forall p c now l, read_ok (OTriples p c) now (ATriples l) = true <->
  NoDup l /\ forall t, In t l <-> In (t, cid_of c) (quads now) /\ matches p t = true.
Proof. exact read_ok_triples. Qed.
Print Assumptions C20_spec_reading_triples.

(* ---- findings: the faithful model leaves the specification ---------- *)

(* F13a: addN (and update()/query() through a Graph or Dataset) name the
   default graph by rdflib's internal IRI <urn:x-rdflib:default>; on an
   endpoint that is not itself an rdflib Dataset the quad lands in a named
   graph and the default graph does not get it. *)
Theorem C20_default_graph_iri_refuted : exists c, wf c /\ spec_ok c (model_obs c) = false.
Proof. apply (@refuted_by wit_a); vm_compute; reflexivity. Qed.
Print Assumptions C20_default_graph_iri_refuted.

(* F13b: contexts((s,p,o)) turns a falsy bound term into a variable *)
Theorem C20_contexts_truthiness_refuted : exists c, wf c /\ spec_ok c (model_obs c) = false.
Proof. apply (@refuted_by wit_b); vm_compute; reflexivity. Qed.
Print Assumptions C20_contexts_truthiness_refuted.

(* F13c: an update the endpoint rejects stays in the edit queue: every later
   write fails too (until rollback()) *)
Theorem C20_rejected_update_refuted : exists c, wf c /\ spec_ok c (model_obs c) = false.
Proof. apply (@refuted_by wit_c); vm_compute; reflexivity. Qed.
Print Assumptions C20_rejected_update_refuted.

(* F13d: update(initBindings=...) pastes the bindings in as a regex replacement
   template: DELETE ... with ?o = "c\\nd" deletes the triple with "c<newline>d" *)
Theorem C20_initbindings_template_refuted : exists c, wf c /\ spec_ok c (model_obs c) = false.
Proof. apply (@refuted_by wit_d); vm_compute; reflexivity. Qed.
Print Assumptions C20_initbindings_template_refuted.

(* non-vacuity: a history with queued writes, a wildcard remove, a flushing
   read, a rollback and a dirty read is in scope (kf = 0), accepted, and its
   due writes are what one expects *)
Example C20_nonvacuous :
  let c := {| c_alias := false; c_auto := false; c_dirty := false;
              c_init := [((1, 3, 10), 1)]; c_names := [1];
              c_ops := [OAdd (2, 3, 15) (Some 1); ORemove (Some 1, None, None) (Some 1);
                        OTriples all_pat (Some 1); OAddN [((2, 4, 16), 2)]; ORollback;
                        OAdd (2, 4, 17) None; OSetDirty true; OLen None; OCommit; OLen None] |} in
  kf c = 0 /\ spec_ok c (model_obs c) = true
  /\ map snd (model_obs c) = [ANone; ANone; ATriples [(2, 3, 15)]; ANone; ANone; ANone; ANone; ANum 0; ANone; ANum 1]
  /\ q_done (fold_left q_step (c_ops c) (q0 c))
     = [WAdd [((2, 3, 15), 1)]; WRemove (Some 1, None, None) 1; WAdd [((2, 4, 17), 0)]].
Proof. vm_compute. repeat split. Qed.
