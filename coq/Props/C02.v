(* C02 - Dataset (and ConjunctiveGraph) keep named graphs isolated; the union
   view is the union of the graphs.  Property theorems only; the model is
   Dataset/Model.v (graph.py's ConjunctiveGraph / Dataset over the abstract
   Memory store), the proofs are in Dataset/Proofs.v.
   [holds d g t]  : the quad (t, g) is in the store behind front end d;
   [listed d g]   : g is among the names of Dataset.graphs(). *)
From RV Require Import Dataset.Model Dataset.Proofs Dataset.OverMemory Dataset.OverMemoryProofs Dataset.OverMemoryReads Dataset.OverMemoryRun.
Local Open Scope N_scope.

(* ---- isolation: true of EVERY state of the model, no hypothesis ---- *)

(* adding a quad changes the graph it names and no other; a Graph object
   backed by another store given as the graph is merged into the graph of its
   name on the way (ConjunctiveGraph._graph(c, copy=True) copies it: add, addN
   and Dataset.graph only, since the "fix:" commit for F19) *)
Theorem C02_add_isolated : forall d t a g t',
  holds (cg_add d t (CQuad (Some a))) g t' <->
  holds d g t' \/ (g = arg_name a /\ (t' = t \/ In t' (arg_content a))).
Proof. exact add_isolated. Qed.
Print Assumptions C02_add_isolated.

(* a bare triple, and (since the "fix:" commit for F18) a quad whose graph is
   None, go to the default graph and nowhere else *)
Theorem C02_add_triple_default : forall d t ca g t',
  ca = CTriple \/ ca = CQuad None ->
  (holds (cg_add d t ca) g t' <-> holds d g t' \/ (g = 0 /\ t' = t)).
Proof. exact add_triple_default. Qed.
Print Assumptions C02_add_triple_default.

(* removing with a graph given touches that graph only ... *)
Theorem C02_remove_quad_isolated : forall d p c g t,
  holds (cg_remove d p (CQuad (Some (GId c)))) g t <-> holds d g t /\ ~ (g = c /\ matches p t = true).
Proof. exact remove_quad_isolated. Qed.
Print Assumptions C02_remove_quad_isolated.

(* ... and with no graph given removes from all graphs *)
Theorem C02_remove_triple_all_graphs : forall d p g t,
  holds (cg_remove d p CTriple) g t <-> holds d g t /\ matches p t = false.
Proof. exact remove_triple_all_graphs. Qed.
Print Assumptions C02_remove_triple_all_graphs.

(* remove_graph empties that graph only, forgets that name only, and the
   default graph is always listed *)
Theorem C02_remove_graph : forall d a,
  (forall g t, holds (ds_remove_graph d (Some a)) g t <-> holds d g t /\ g <> arg_name a)
  /\ (is_ds d = true -> forall g,
        listed (ds_remove_graph d (Some a)) g <-> g = 0 \/ (listed d g /\ g <> arg_name a)).
Proof. intros d a. split; [intros g t; apply remove_graph_holds|intros E g; now apply remove_graph_listed]. Qed.
Print Assumptions C02_remove_graph.

(* a triple that lives in several graphs survives its removal from one of
   them, whether by remove or by remove_graph.  (In this model the store is
   the quad set; that the Memory store realises the quad set whatever the
   order in which the contexts were attached is property C01's, and is
   exercised here by the correspondence runs.) *)
Theorem C02_shared_triple_survives : forall d p g1 g2 t a,
  holds d g1 t -> g1 <> g2 -> arg_name a = g2 ->
  holds (cg_remove d p (CQuad (Some (GId g2)))) g1 t /\ holds (ds_remove_graph d (Some a)) g1 t.
Proof.
  intros d p g1 g2 t a H Hne Ha. split.
  - apply remove_quad_isolated. split; auto. intros [? _]. congruence.
  - apply remove_graph_holds. split; auto. congruence.
Qed.
Print Assumptions C02_shared_triple_survives.

(* a read restricted to a graph (4th component or context=; identifier,
   same-store Graph object or Graph object of another store, which merely names
   the graph) answers from that graph and from nothing else, whatever the state
   - in particular nothing for an empty or unknown graph.
   PARTIAL: the hypothesis [du = false \/ g <> 0] is not a trigger of the case but
   the region of finding F20: under default_union a read that NAMES the default
   graph is answered from the merged view (C02_default_union_alias_refuted). *)
Theorem C02_no_fallback_partial : forall d p ca kw du g,
  eff_graph ca kw = Some g -> (du = false \/ g <> 0) ->
  (forall t, In t (snd (cg_triples d p ca kw du)) <-> holds d g t /\ matches p t = true)
  /\ ((forall t, ~ holds d g t) -> snd (cg_triples d p ca kw du) = []).
Proof.
  intros d p ca kw du g H3 H4. split.
  - now apply no_fallback.
  - now apply no_fallback_empty.
Qed.
Print Assumptions C02_no_fallback_partial.

(* quad membership: (t, g) in ds  iff  t is in graph g - same region *)
Theorem C02_contains_exact_partial : forall d t a du,
  (du = false \/ arg_name a <> 0) ->
  (snd (cg_contains d (pat_of t) (CQuad (Some a)) du) = true <-> holds d (arg_name a) t).
Proof. exact contains_exact. Qed.
Print Assumptions C02_contains_exact_partial.

(* F20 (open): with default_union=True the views DISAGREE about the default
   graph: it is empty (quads((..,default)) = [], len(Graph(store, default)) = 0,
   no quad (t', default)), yet (t, default) in ds is True and
   triples(context=default) yields t, which lives in graph 1 only - a read
   restricted to an empty graph falling back to another graph. *)
Theorem C02_default_union_alias_refuted :
  exists d t, (forall t', ~ holds d 0 t')
    /\ snd (cg_contains d (pat_of t) (CQuad (Some (GId 0))) true) = true
    /\ snd (cg_triples d pall CTriple (Some (GView 0)) true) = [t]
    /\ snd (cg_quads d pall (CQuad (Some (GId 0)))) = [] /\ view_len d 0 = 0.
Proof. exact default_union_alias_refuted. Qed.
Print Assumptions C02_default_union_alias_refuted.

Theorem C02_alias_case_refuted :
  exists c, kf c = 2 /\ spec_ok c (model_obs c) = false /\ spec_ok_w c (model_obs c) = true.
Proof. exact alias_case_refuted. Qed.
Print Assumptions C02_alias_case_refuted.

(* ---- round 3: reads and return values that were only run before ---- *)

(* triples() given a bare triple (no graph anywhere): with default_union the
   merged view - every triple of every graph (and union-only triples, should a
   store hold any) - otherwise the default graph, each filtered by the pattern *)
Theorem C02_triples_plain : forall d p du t,
  In t (snd (cg_triples d p CTriple None du)) <->
  matches p t = true /\
  (if du then (exists g, holds d g t) \/ In t (orphans (st d)) else holds d 0 t).
Proof. exact triples_plain. Qed.
Print Assumptions C02_triples_plain.

(* quads() without a graph never looks at default_union (the model's quads has
   no such parameter because the code does not read the flag there; the harness
   runs it under both settings): it yields exactly the quads, each once *)
Theorem C02_quads_all : forall d p,
  (forall t g, In (t, g) (snd (cg_quads d p CTriple)) <-> holds d g t /\ matches p t = true)
  /\ (NoDup (quads (st d)) -> NoDup (orphans (st d)) ->
      (forall t, In t (orphans (st d)) -> forall g, ~ holds d g t) -> NoDup (snd (cg_quads d p CTriple))).
Proof. intros d p. split; [intros t g; apply quads_all|apply quads_all_NoDup]. Qed.
Print Assumptions C02_quads_all.

(* graphs(triple) / contexts(triple): the graphs holding the triple; a Dataset
   adds its default graph in any case; no quad is written *)
Theorem C02_contexts_of_triple : forall d t,
  (forall g, In g (snd (cg_contexts_of d t)) <-> holds d g t \/ (is_ds d = true /\ g = 0))
  /\ quads (st (fst (cg_contexts_of d t))) = quads (st d).
Proof. intros d t. split; [intros g; apply contexts_of_triple|apply contexts_of_no_quad_write]. Qed.
Print Assumptions C02_contexts_of_triple.

(* graph()/add_graph(): the graph handed back is listed afterwards, and the
   only triples that appear are those of a Graph object of another store given
   as the argument, in the graph of its name *)
Theorem C02_graph_returns : forall d oa,
  In (ds_graph_name d oa) (known (st (ds_graph d oa)))
  /\ (forall a, oa = Some a -> forall g t,
        holds (ds_graph d oa) g t <-> holds d g t \/ (g = arg_name a /\ In t (arg_content a))).
Proof.
  intros d oa. split; [apply graph_returns_listed|]. intros a -> g t. apply graph_holds.
Qed.
Print Assumptions C02_graph_returns.

(* the expression the code had before the "fix:" commit for F1 did fall back *)
Theorem C02_hist_context_or_c_refuted :
  exists d g, (forall t, ~ holds d g t) /\ snd (cg_triples_hist d pall CTriple (Some (GView g)) false) <> [].
Proof. exact hist_context_or_c_refuted. Qed.
Print Assumptions C02_hist_context_or_c_refuted.

(* ---- all views describe the same mapping, over every history ---- *)

(* FULL STRENGTH, every history, no trigger hypothesis: after every operation the
   whole snapshot (quads(), graphs(), every Graph(store, name) view and its len,
   len(ds), the default_union view, the default graph, the quad membership
   matrix) and every operation's own answer are duplicate-free enumerations of
   the images of ONE mapping graph name -> triple set with its set of known
   names, evolved by the specification's set operations - with ONLY the answers
   of the known-finding STEPS exempt ([waived]: a restricted quads() that leaks,
   F17; a default_union read naming the default graph, F20).  The rest of such
   a history stays judged. *)
Theorem C02_views_agree_stepwise : forall c, spec_ok_w c (model_obs c) = true.
Proof. exact spec_ok_w_model. Qed.
Print Assumptions C02_views_agree_stepwise.

(* the strict checker - the one the correspondence run evaluates on rdflib's
   answers - is satisfied outside the two trigger regions *)
Theorem C02_views_agree_partial : forall c, kf c = 0 -> spec_ok c (model_obs c) = true.
Proof. exact spec_ok_model. Qed.
Print Assumptions C02_views_agree_partial.

Theorem C02_views_agree_from_partial : forall c ops d sp,
  R d sp -> is_ds d = c_ds c -> trig_run waived sp ops = false ->
  spec_run c sp ops (run c d ops) = true.
Proof. exact spec_run_model. Qed.
Print Assumptions C02_views_agree_from_partial.

(* without the trigger hypothesis the statement is false: F17 (kept as a known
   finding: test_aggregate_graphs.py::test_aggregate2 pins the behaviour) *)
Theorem C02_quads_restricted_refuted : exists c, kf c = 1 /\ spec_ok c (model_obs c) = false.
Proof. exact quads_restricted_refuted. Qed.
Print Assumptions C02_quads_restricted_refuted.

(* the _spoc the code had before the "fix:" commit for F18 filed a quad whose
   graph is None under NO graph: the merged view shows it, no graph holds it *)
Theorem C02_hist_spoc_none_refuted :
  exists t, let d := cg_add_hist (ds_init true) t (CQuad None) in
    In t (snd (cg_triples d pall CTriple None true)) /\ forall g, ~ holds d g t.
Proof. exact hist_spoc_none_refuted. Qed.
Print Assumptions C02_hist_spoc_none_refuted.

(* a read never writes a quad, whatever graph argument it is handed; the
   _graph of before the "fix:" commit for F19 copied a foreign Graph in *)
Theorem C02_triples_no_write : forall d p ca kw du,
  quads (st (fst (cg_triples d p ca kw du))) = quads (st d).
Proof. exact triples_no_write. Qed.
Print Assumptions C02_triples_no_write.

Theorem C02_hist_graph_copies_refuted :
  exists d c ts, quads (st (fst (cg_graph_hist d (Some (GForeign c ts))))) <> quads (st d)
                 /\ quads (st (fst (cg_graph d (Some (GForeign c ts)) false))) = quads (st d).
Proof. exact hist_graph_copies_refuted. Qed.
Print Assumptions C02_hist_graph_copies_refuted.

(* ---- what the boolean checker means ---- *)
Theorem C02_snapshot_reading : forall c sp s,
  snap_ok c sp s = true ->
  (NoDup (o_quads s) /\ forall q, In q (o_quads s) <-> In q (sq sp))
  /\ (c_ds c = true -> NoDup (o_graphs s) /\ forall g, In g (o_graphs s) <-> In g (sk sp))
  /\ (forall g l, In (g, l) (o_views s) -> NoDup l /\ forall t, In t l <-> In (t, g) (sq sp))
  /\ (NoDup (o_union s) /\ forall t, In t (o_union s) <-> exists g, In (t, g) (sq sp))
  /\ (NoDup (o_dflt s) /\ forall t, In t (o_dflt s) <-> In (t, 0) (sq sp))
  /\ o_len s = N.of_nat (length (all_triples (sq sp))).
Proof. exact snap_ok_reading. Qed.
Print Assumptions C02_snapshot_reading.

Theorem C02_trigger_reading : forall c, kf c = 0 <-> trig_run waived sp_init (c_ops c) = false.
Proof. exact kf_zero. Qed.
Print Assumptions C02_trigger_reading.

Theorem C02_result_reading : forall b sp,
  (forall p ca kw du l, res_ok b sp (OTriples p ca kw du) (RTriples l) = true <->
     NoDup l /\ forall t, In t l <-> In t (sp_triples sp p (eff_graph ca kw) du))
  /\ (forall p ca l, res_ok b sp (OQuads p ca) (RQuads l) = true <->
     NoDup l /\ forall q, In q l <-> In q (sq sp) /\ qsel p (eff_graph ca None) q = true)
  /\ (forall p ca du x, res_ok b sp (OContains p ca du) (RBool x) = true <->
     (x = true <-> sp_triples sp p (eff_graph ca None) du <> []))
  /\ (forall t l, res_ok b sp (OContexts t) (RNames l) = true <->
     NoDup l /\ forall g, In g l <-> (In (t, g) (sq sp) \/ (b = true /\ g = 0))).
Proof. exact res_ok_reading. Qed.
Print Assumptions C02_result_reading.

(* the specification machine itself: an add moves one graph, remove_graph
   empties one graph, the default graph never leaves the known set *)
Theorem C02_spec_reading : forall sp,
  (forall t c g t', In (t', g) (sq (sp_step sp (OAdd t (CQuad (Some (GId c)))))) <->
                    In (t', g) (sq sp) \/ (g = c /\ t' = t))
  /\ (forall a g t, In (t, g) (sq (sp_step sp (ORemoveGraph (Some a)))) <-> In (t, g) (sq sp) /\ g <> arg_name a)
  /\ (forall ops, In 0 (sk sp) -> In 0 (sk (fold_left sp_step ops sp))).
Proof.
  intros sp. split; [|split].
  - intros. apply sp_step_add_reading.
  - intros. apply sp_step_remove_graph_reading.
  - intros. now apply sp_default_always_known.
Qed.
Print Assumptions C02_spec_reading.

(* ---- round 5: C01's Memory model REALISES the abstract store (review C02-3) ----
   [AbsM m s]: the Memory state m (spo/pos/osp indexes, per-triple context
   dictionaries with default-context compression, per-context triple sets,
   registered graphs - coq/Store/Model.v, the model of memory.py that property
   C01 ties to the code) satisfies Memory's invariant, holds graph by graph the
   triples of the abstract store s and has registered the same graphs. *)

(* every store-level write the dataset model performs - add to a graph, remove
   with a graph or with None, add_graph, remove_graph - is simulated by the
   Memory model's operation (Memory.add's index and context bookkeeping,
   Memory.remove's context walk, ...) *)
Theorem C02_memory_simulates_writes : forall m s o,
  AbsM m s -> AbsM (mem_top m o) (st_top s o).
Proof. exact AbsM_step. Qed.
Print Assumptions C02_memory_simulates_writes.

(* every store-level read of the Memory model is a duplicate-free enumeration of
   what the abstract store's read returns: triples(pattern, graph-or-None),
   __len__, contexts(), contexts(triple) *)
Theorem C02_memory_realises_reads : forall m s, AbsM m s ->
  (forall k p, NoDup (mem_triples_k m k p) /\ forall t, In t (mem_triples_k m k p) <-> In t (st_match s p k))
  /\ (forall k, mem_len_k m k = st_len s k)
  /\ (NoDup (mem_contexts m) /\ forall c, In c (mem_contexts m) <-> In c (known s))
  /\ (forall t, NoDup (mem_contexts_of m t) /\ forall c, In c (mem_contexts_of m t) <-> In c (ctxs_of t (quads s))).
Proof.
  intros m s H. split; [|split; [|split]].
  - intros k p. destruct (mem_triples_realises m s k p H) as (H1 & _ & H3). auto.
  - intros k. now apply mem_len_realises.
  - now apply mem_contexts_realises.
  - intros t. now apply mem_contexts_of_realises.
Qed.
Print Assumptions C02_memory_realises_reads.

(* a front-end operation of the dataset model IS its list of store-level writes
   ([wops]; reads issue none), so running those writes on the Memory model is
   running the front end over Memory *)
Theorem C02_front_end_is_store_calls : forall d o,
  fst (do_op d o) = mk_ds (fold_left st_top (wops (fresh d) o) (st d)) (is_ds d) (fresh_step (fresh d) o).
Proof. exact do_op_as_ops. Qed.
Print Assumptions C02_front_end_is_store_calls.

Theorem C02_memory_realises_history : forall ops m d,
  AbsM m (st d) -> AbsM (mem_after m (fresh d) ops) (st (ds_after d ops)).
Proof. exact mem_after_realises. Qed.
Print Assumptions C02_memory_realises_history.

(* COROLLARY: ConjunctiveGraph/Dataset over the Memory model of memory.py, started
   empty, after EVERY history of front-end operations: Memory's invariant holds;
   graph by graph it holds exactly the triples the C02 mapping prescribes; its
   registered graphs are the known names (the default graph is listed by the
   front end without being registered); triples(pattern, graph), triples(pattern,
   None), contexts(triple), __len__ enumerate the mapping's graph, merged view,
   graphs of the triple, sizes.  The isolation theorems above therefore hold of
   the Memory model, whatever the order in which contexts were attached to a
   triple and whatever the default-context compression did. *)
Theorem C02_memory_history : forall ops,
  let m := mem_after mem_empty 0 ops in
  let sp := fold_left sp_step ops sp_init in
  MemInv m
  /\ (forall c t, mem_holds m c t = q_mem (t, c) (sq sp))
  /\ (forall c, In c (sk sp) <-> c = 0 \/ In c (mem_contexts m))
  /\ (forall c p, NoDup (mem_triples_k m (Some c) p) /\ forall t, In t (mem_triples_k m (Some c) p) <-> In t (sp_graph sp c p))
  /\ (forall p, NoDup (mem_triples_k m None p) /\ forall t, In t (mem_triples_k m None p) <-> In t (sp_union sp p))
  /\ (forall t, NoDup (mem_contexts_of m t) /\ forall c, In c (mem_contexts_of m t) <-> In (t, c) (sq sp))
  /\ (forall c, mem_len_k m (Some c) = N.of_nat (length (sp_graph sp c pall)))
  /\ mem_len_k m None = N.of_nat (length (all_triples (sq sp))).
Proof. exact memory_history. Qed.
Print Assumptions C02_memory_history.

(* ---- round 5b: the front end's READS over the Memory model ----
   [m_triples] (default_union dispatch with the F20 alias, as the code has it),
   [m_quads] (with the F17 leak), [m_contains], [m_len], views, [m_graphs],
   [m_contexts_of] are computed from the Memory model's store reads (triples,
   contexts(triple), contexts(), __len__) call by call as graph.py makes them.
   Under [AbsM] each is a duplicate-free enumeration of (or equal to) the answer
   of the list-level dataset model. *)
Theorem C02_memory_front_end_reads : forall m d, AbsM m (st d) ->
  (forall p ca kw du, NoDup (m_triples m p ca kw du)
      /\ forall t, In t (m_triples m p ca kw du) <-> In t (snd (cg_triples d p ca kw du)))
  /\ (forall p ca, NoDup (m_quads m p ca) /\ forall q, In q (m_quads m p ca) <-> In q (snd (cg_quads d p ca)))
  /\ (forall p ca du, m_contains m p ca du = snd (cg_contains d p ca du))
  /\ (m_len m = cg_len d /\ forall c, m_view_len m c = view_len d c)
  /\ (forall c p, NoDup (m_view_triples m c p) /\ forall t, In t (m_view_triples m c p) <-> In t (view_triples d c p))
  /\ (NoDup (m_graphs (is_ds d) m) /\ forall c, In c (m_graphs (is_ds d) m) <-> In c (snd (ds_graphs d)))
  /\ (forall t, NoDup (m_contexts_of (is_ds d) m t)
      /\ forall c, In c (m_contexts_of (is_ds d) m t) <-> In c (snd (cg_contexts_of d t))).
Proof.
  intros m d H. split; [|split; [|split; [|split; [|split; [|split]]]]].
  - intros. now apply m_triples_realises.
  - intros. now apply m_quads_realises.
  - intros. now apply m_contains_realises.
  - now apply m_len_realises.
  - intros. now apply m_view_realises.
  - now apply m_graphs_realises.
  - intros. now apply m_contexts_of_realises.
Qed.
Print Assumptions C02_memory_front_end_reads.

(* the history theorem, LITERALLY of ConjunctiveGraph/Dataset over the Memory model
   of memory.py, reads included: the observations computed over Memory
   ([m_model_obs]: every operation's own answer and the whole snapshot after it)
   satisfy the waiving specification checker on EVERY history - only the answers
   of the F17 / F20 steps exempt, as in C02_views_agree_stepwise *)
Theorem C02_views_agree_stepwise_memory : forall c, spec_ok_w c (m_model_obs c) = true.
Proof. exact m_spec_ok_w. Qed.
Print Assumptions C02_views_agree_stepwise_memory.

Theorem C02_views_agree_memory_partial : forall c, kf c = 0 -> spec_ok c (m_model_obs c) = true.
Proof.
  intros c Hkf. apply kf_zero in Hkf. unfold spec_ok. rewrite <- (spec_run_w_strict c _ _ _ Hkf). apply m_spec_ok_w.
Qed.
Print Assumptions C02_views_agree_memory_partial.

(* non-vacuity of the Memory composition: a triple shared by an IRI- and a
   blank-node-named graph, attached in one order and removed from the first *)
Example C02_memory_nonvacuous :
  let ops := [OAdd (1, 3, 5) (CQuad (Some (GId 1))); OAdd (1, 3, 5) (CQuad (Some (GId 3)));
              OAdd (2, 3, 1) (CQuad None); ORemove (Some 1, None, None) (CQuad (Some (GId 1)));
              OGraph (Some (GId 2)); ORemoveGraph (Some (GView 0))] in
  let m := mem_after mem_empty 0 ops in
  mem_holds m 3 (1, 3, 5) = true /\ mem_holds m 1 (1, 3, 5) = false /\ mem_holds m 0 (2, 3, 1) = false
  /\ mem_triples_k m None pall = [(1, 3, 5)] /\ mem_contexts_of m (1, 3, 5) = [3].
Proof. cbv zeta. repeat split; vm_compute; reflexivity. Qed.

(* non-vacuity: a history with an IRI- and a blank-node-named graph of the
   same string, a shared triple, a foreign graph, removal from one graph,
   remove_graph and restricted reads is in scope and accepted to the end *)
Example C02_nonvacuous :
  let c := {| c_ds := true; c_names := [0; 1; 3; 2]; c_vocab := [(1, 3, 5); (2, 3, 1)];
              c_ops := [OAdd (1, 3, 5) (CQuad (Some (GId 1))); OAdd (1, 3, 5) (CQuad (Some (GId 3)));
                        OAdd (2, 3, 1) (CQuad (Some (GForeign 3 [(1, 3, 5)]))); OGraph (Some (GId 2));
                        OAdd (9, 3, 9) (CQuad None);
                        ORemove (Some 1, None, None) (CQuad (Some (GId 1)));
                        OTriples pall CTriple (Some (GView 1)) true;
                        OQuads pall (CQuad (Some (GId 3)));
                        ORemoveGraph (Some (GView 3)); OContains (pat_of (1, 3, 5)) (CQuad (Some (GId 3))) false;
                        OTriples pall CTriple (Some (GForeign 2 [(7, 3, 7)])) false;
                        ORemove pall (CQuad (Some (GForeign 1 [(7, 3, 7)])));
                        OContexts (9, 3, 9)] |} in
  kf c = 0 /\ length (model_obs c) = 13%nat
  /\ exists s, nth_error (model_obs c) 3 = Some (RNames [2], s) /\ o_graphs s = [1; 3; 2; 0]
               /\ o_views s = [(0, []); (1, [(1, 3, 5)]); (3, [(1, 3, 5); (2, 3, 1)]); (2, [])].
Proof.
  cbv zeta. split; [vm_compute; reflexivity|]. split; [vm_compute; reflexivity|].
  eexists. vm_compute. split; [reflexivity|]. split; reflexivity.
Qed.
