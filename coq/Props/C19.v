(* C19 - an RDF Collection behaves like the Python list it represents.
   Property theorems only; proofs are in Collection/Proofs.v (histories on a
   well-formed list), Collection/Reads.v (reads on arbitrary graphs) and
   Collection/Historical.v (the code before the repairs).
   The model is rdflib/collection.py after the repairs 6f3b46c5, 2134a9f3,
   96e75001, 6814bca0.  One defect remains (finding F3d, narrowed): item
   assignment at index = len(c) - [kf_op xs o] is 2 exactly for [OSet i v] with
   i = length xs and 0 for every other operation. *)
From RV Require Import Collection.Model Collection.Proofs Collection.Reads Collection.Historical Collection.Histories.

(* [frozen s]: s is below the cell numbers and is neither the head nor rdf:nil -
   a subject that can never be a cell of the collection under test.  The graph
   may hold ANY triples with frozen subjects: other collections (also with a tail
   leading into this one), lists nested as members, unrelated statements.
   [Inv frozen s xs]: the graph of state s is duplicate-free and its
   rdf:first/rdf:rest triples with a non-frozen subject are exactly a chain
   HEAD -> ... -> rdf:nil carrying xs (none at all when xs = []), cells pairwise
   distinct, not frozen, none of them rdf:nil, all below the counter that stands
   for BNode(), which never returns a frozen node.
   [Frame frozen g g']: g and g' have the same triples with a frozen subject. *)

(* the initial state of every case in scope satisfies the invariant, and its
   frozen part is the frozen part of the case's noise triples *)
Theorem C19_init_represents : forall c, wfb c = true ->
  Inv frozen (init_st c) (c_init c) /\ FrameInv (c_noise c) (gr (init_st c)).
Proof. exact init_Inv. Qed.
Print Assumptions C19_init_represents.

(* refinement and frame, one operation: every operation - any index, negative
   ones, index = len(c) for reads and deletes, del c[0], += [], on any list
   including the empty one, any members - except c[len(c)] = v returns what the
   Python list returns (exception class included; [lstep] records the one deviation D1:
   index() of an absent item on an EMPTY collection raises Exception, not ValueError), leaves a state that
   represents the list's new value with list(c) = the list, and changes no triple
   with a frozen subject.  Stated for any set fz of frozen subjects that contains
   neither rdf:nil nor the head. *)
Theorem C19_refines : forall fz, fz NIL = false -> fz HEAD = false ->
  forall s xs o, Inv fz s xs -> kf_op xs o = 0%N ->
  let '(s', r) := c_step HEAD s o in
  let '(xs', e) := lstep xs o in
  Inv fz s' xs' /\ Frame fz (gr s) (gr s') /\ c_iter (gr s') HEAD = RList xs' /\ r = e.
Proof. exact refines_step. Qed.
Print Assumptions C19_refines.

(* a represented list is well-formed: after taking away the triples with a frozen
   subject, the first/rest triples are exactly the chain *)
Theorem C19_represented_is_wf : forall fz s xs, Inv fz s xs -> WF (own_part fz (gr s)) HEAD xs.
Proof. exact Inv_WF. Qed.
Print Assumptions C19_represented_is_wf.

(* the trigger hypothesis of C19_refines, spelled out *)
Theorem C19_trigger_is_setitem_at_len : forall xs o,
  kf_op xs o <> 0%N <-> exists v, o = OSet (Z.of_nat (length xs)) v.
Proof.
  intros xs o. destruct o; simpl; try (split; [congruence|intros [? H]; discriminate]).
  destruct (Z.eqb_spec i (Z.of_nat (length xs))) as [->|Hne].
  - split; [eauto|discriminate].
  - split; [congruence|]. intros [v' H]. inversion H. congruence.
Qed.
Print Assumptions C19_trigger_is_setitem_at_len.

(* deletion and indexing need no hypothesis at all *)
Theorem C19_getitem_refines : forall fz, fz NIL = false -> fz HEAD = false ->
  forall s xs i, Inv fz s xs -> c_getitem (gr s) HEAD i = snd (lstep xs (OGet i)).
Proof. exact step_get. Qed.
Print Assumptions C19_getitem_refines.

Theorem C19_delitem_refines : forall fz, fz NIL = false -> fz HEAD = false ->
  forall s xs i, Inv fz s xs ->
  Inv fz {| gr := fst (c_delitem (gr s) HEAD i); fresh := fresh s |} (fst (lstep xs (ODel i)))
  /\ Frame fz (gr s) (fst (c_delitem (gr s) HEAD i))
  /\ snd (c_delitem (gr s) HEAD i) = snd (lstep xs (ODel i)).
Proof. exact step_del. Qed.
Print Assumptions C19_delitem_refines.

(* c += c (and += any iterator over c itself, += another Collection object on the
   same node): the list doubles - at full strength, no trigger (repair 3075b467) *)
Theorem C19_iadd_self_doubles : forall fz, fz NIL = false -> fz HEAD = false ->
  forall s xs, Inv fz s xs ->
  Inv fz (fst (c_iadd_self s HEAD)) (xs ++ xs) /\ Frame fz (gr s) (gr (fst (c_iadd_self s HEAD)))
  /\ snd (c_iadd_self s HEAD) = RNone.
Proof. exact step_iadd_self. Qed.
Print Assumptions C19_iadd_self_doubles.

(* refinement and frame for EVERY reachable state (induction over the operations,
   no bound on their number): from any represented list, any trigger-free history
   ops leaves a state that represents the Python list the same history produces
   ([lsteps] folds [lstep]), list(c) is that list, the answers on the way
   ([c_trace]) are the list's answers ([l_trace]), and no triple with a frozen
   subject has changed since the start *)
Theorem C19_refines_history : forall fz, fz NIL = false -> fz HEAD = false ->
  forall ops s xs, Inv fz s xs -> kf_run xs ops = 0%N ->
  Inv fz (c_steps s ops) (lsteps xs ops) /\
  Frame fz (gr s) (gr (c_steps s ops)) /\
  c_iter (gr (c_steps s ops)) HEAD = RList (lsteps xs ops) /\
  c_trace s ops = l_trace xs ops.
Proof. exact refines_history. Qed.
Print Assumptions C19_refines_history.

(* ... so len(c) and every c[i] (negative and out-of-range indices included) after
   the history are those of that list *)
Theorem C19_history_len_getitem : forall fz, fz NIL = false -> fz HEAD = false ->
  forall ops s xs i, Inv fz s xs -> kf_run xs ops = 0%N ->
  c_len (gr (c_steps s ops)) HEAD = RNat (N.of_nat (length (lsteps xs ops))) /\
  c_getitem (gr (c_steps s ops)) HEAD i = snd (lstep (lsteps xs ops) (OGet i)).
Proof.
  intros fz Hn Hh ops s xs i HI Hk. split;
    [exact (history_len fz Hn Hh ops s xs HI Hk)|exact (history_getitem fz Hn Hh ops s xs i HI Hk)].
Qed.
Print Assumptions C19_history_len_getitem.

(* histories compose: a concatenated history is trigger-free exactly when its first
   part is and the second part is from the list the first part produces; states and
   answers split at the seam - so the theorem above applies piecewise *)
Theorem C19_history_composes : forall a b s xs,
  (kf_run xs (a ++ b) = 0%N <-> kf_run xs a = 0%N /\ kf_run (lsteps xs a) b = 0%N) /\
  c_steps s (a ++ b) = c_steps (c_steps s a) b /\
  lsteps xs (a ++ b) = lsteps (lsteps xs a) b /\
  c_trace s (a ++ b) = c_trace s a ++ c_trace (c_steps s a) b.
Proof.
  intros a b s xs. split; [apply kf_run_app|]. split; [apply c_steps_app|].
  split; [apply lsteps_app|apply c_trace_app].
Qed.
Print Assumptions C19_history_composes.

(* non-vacuity of the two: the initial state of a concrete case with noise meets
   Inv (C19_init_represents) and this history is trigger-free and changes the list *)
Example C19_history_nonvacuous :
  let ops := [ODel 0; OAppend 7%N; OSet (-1) 14%N; OIadd [6; 6]%N; OIaddSelf; ODel (-2)] in
  kf_run [6; 5]%N ops = 0%N /\ lsteps [6; 5]%N ops = [5; 14; 6; 6; 5; 14; 6]%N
  /\ l_trace [6; 5]%N ops = [RNone; RNone; RNone; RNone; RNone; RNone].
Proof. repeat split; vm_compute; reflexivity. Qed.

(* refinement, whole histories, in the form the conformance check evaluates *)
Theorem C19_spec_ok_model : forall c, wfb c = true -> kf c = 0%N -> spec_ok c (model_obs c) = true.
Proof. exact spec_ok_model. Qed.
Print Assumptions C19_spec_ok_model.

(* what the checker's verdict on one snapshot means *)
Theorem C19_snap_ok_reading : forall noise head xs sn, snap_ok noise head xs sn = true ->
  s_items sn = RList xs /\ s_len sn = RNat (N.of_nat (length xs)) /\
  s_gets sn = map RTerm xs /\ WF (own_part frozen (s_triples sn)) head xs /\
  (forall t, frozen (subj t) = true -> (In t (s_triples sn) <-> In t noise)).
Proof. exact snap_ok_reading. Qed.
Print Assumptions C19_snap_ok_reading.

(* the boolean well-formedness test is a decision procedure for WF: for ANY list
   of triples (any order, duplicates allowed) it answers true exactly when - for
   xs = [] - there is no first/rest triple at all, and otherwise there are cells
   cs, as many as members, pairwise distinct, none rdf:nil, the first one the head,
   such that the first/rest triples are exactly
   (c_i first x_i), (c_i rest c_i+1), (c_last rest nil) *)
Theorem C19_wf_check_decides : forall head xs T,
  wf_check head xs T = true <->
  match xs with
  | [] => forall t, In t T -> is_fr t = false
  | _ => exists cs, length cs = length xs /\ NoDup cs /\ ~ In NIL cs /\ hd NIL cs = head /\
                    seteq (filter is_fr T) (chainT (combine cs xs) NIL)
  end.
Proof. intros. split; [apply wf_check_sound|apply wf_check_complete]. Qed.
Print Assumptions C19_wf_check_decides.

(* IndexError exactly where the list raises it: every index outside
   -len(c) .. len(c)-1, negative ones included; nothing is changed.  For item
   assignment the single index len(c) is excepted (F3d). *)
Theorem C19_index_error : forall fz, fz NIL = false -> fz HEAD = false ->
  forall s xs i, Inv fz s xs -> norm_index (length xs) i = None ->
  c_getitem (gr s) HEAD i = RExc IndexError /\
  c_delitem (gr s) HEAD i = (gr s, RExc IndexError) /\
  (i <> Z.of_nat (length xs) -> forall v, c_setitem (gr s) HEAD i v = (gr s, RExc IndexError)).
Proof. exact index_error. Qed.
Print Assumptions C19_index_error.

(* F3d, what is left of it: c[len(c)] = v raises nothing and writes (rdf:nil rdf:first v) *)
Theorem C19_setitem_len_refuted : exists c,
  wfb c = true /\ kf c = 2%N /\ spec_ok c (model_obs c) = false /\
  exists sn, nth_error (model_obs c) 0 = Some sn /\ s_res sn = RNone /\
             memb triple_eqb (NIL, FIRST, 5%N) (s_triples sn) = true.
Proof.
  exists {| c_init := [1; 6]%N; c_noise := []; c_ops := [OSet 2 5%N] |}.
  repeat split; try (vm_compute; reflexivity). eexists. repeat split; vm_compute; reflexivity.
Qed.
Print Assumptions C19_setitem_len_refuted.

(* ---- reads on arbitrary graphs: cyclic, broken, forked chains ---- *)

(* Graph.items and (since 6f3b46c5) Collection.index carry a visited set:
   iteration, len, membership, indexing and index() terminate on EVERY graph
   (the model never runs out of its length g + 3 units of fuel; pigeonhole) *)
Theorem C19_reads_terminate : forall g head i v,
  c_iter g head <> RHang /\ c_len g head <> RHang /\ c_contains g head v <> RHang /\
  c_getitem g head i <> RHang /\ c_index g head v <> RHang.
Proof.
  intros. repeat split;
    [apply iter_total|apply len_total|apply contains_total|apply getitem_total|apply index_total].
Qed.
Print Assumptions C19_reads_terminate.

(* on a chain whose walk (first rest link, stopping at a falsy node like
   Graph.items) revisits a node, list(c) and len(c) raise ValueError *)
Theorem C19_cyclic_reads_raise : forall g head, cyclic_iter g head = true ->
  c_iter g head = RExc ValueError /\ c_len g head = RExc ValueError.
Proof. exact cyclic_reads_raise. Qed.
Print Assumptions C19_cyclic_reads_raise.

(* ... and only then: the cycle test of the specification (which never runs out
   of fuel either) characterises exactly when iteration raises *)
Theorem C19_iter_raises_iff_cyclic : forall g head,
  cyclic_iter g head = true <-> c_iter g head = RExc ValueError.
Proof. exact iter_raises_iff_cyclic. Qed.
Print Assumptions C19_iter_raises_iff_cyclic.

Theorem C19_cycle_test_total : forall stop g head, cyclic_f stop (fuel_of g) g head [head] <> None.
Proof. exact cyclic_f_total. Qed.
Print Assumptions C19_cycle_test_total.

(* index() of an item that is no rdf:first object of the graph raises, on every
   graph - looping chains included *)
Theorem C19_index_absent_raises : forall g head v,
  g_has (None, Some FIRST, Some v) g = false -> is_exc (c_index g head v) = true.
Proof. exact index_absent_raises. Qed.
Print Assumptions C19_index_absent_raises.

(* which reads raise on a cyclic chain: exactly those that have to walk the whole
   chain - list(c), len(c), n3(), a negative index (it needs len), an unsuccessful
   membership test, index() of an absent item; c[i] with i >= 0 walks at most i
   links and "x in c" / index(x) may find x before the loop closes (they terminate:
   C19_reads_terminate).  This is the reading of "reads on a cyclic chain raise
   instead of looping forever" that the check uses. *)
Theorem C19_cyclic_reads_exact : forall g head, cyclic_iter g head = true ->
  c_iter g head = RExc ValueError /\ c_len g head = RExc ValueError /\
  (forall v, c_contains g head v = RBool true \/ c_contains g head v = RExc ValueError) /\
  (forall i, (i < 0)%Z -> c_getitem g head i = RExc ValueError) /\
  (forall v, g_has (None, Some FIRST, Some v) g = false -> is_exc (c_index g head v) = true).
Proof. exact cyclic_reads_exact. Qed.
Print Assumptions C19_cyclic_reads_exact.

(* what the `collreads` suite evaluates: no read hangs; list(c)/len(c)/n3() raise on
   a cyclic and on a BROKEN chain, an unsuccessful "x in c" raises on a broken
   chain - for every graph and every sequence of reads outside trigger F3i *)
Theorem C19_reads_spec_ok_model : forall c, r_wfb c = true -> r_kf c = 0%N -> r_spec c (r_model c) = true.
Proof. exact r_spec_model. Qed.
Print Assumptions C19_reads_spec_ok_model.

(* F3i: on a broken chain - (h first 1) (h rest c) (c first 2), c without rdf:rest -
   iteration ends silently: list(c) = [1, 2], len(c) = 2, "12 in c" is False; only
   index() of an absent item raises *)
Theorem C19_broken_reads_refuted : exists c,
  r_wfb c = true /\ r_kf c = 1%N /\ r_spec c (r_model c) = false /\
  r_model c = [RList [1; 2]%N; RNat 2; RBool false; RExc OtherError].
Proof.
  exists {| r_graph := [(30, 21, 1); (30, 22, 100); (100, 21, 2)]%N;
            r_ops := [OIter; OLen; OContains 12%N; OIndex 12%N] |}.
  repeat split; vm_compute; reflexivity.
Qed.
Print Assumptions C19_broken_reads_refuted.

(* ---- the code before the repairs did not have the property ---- *)

(* F3b (fixed 96e75001): del c[0] on [1, 6] left a head cell without rdf:first *)
Theorem C19_prefix_del_head_refuted :
  let g' := fst (old_delitem (graph_of [1; 6]%N) HEAD 0) in
  snd (old_delitem (graph_of [1; 6]%N) HEAD 0) = RNone /\ wf_check HEAD [6%N] g' = false
  /\ old_getitem g' HEAD 0 = RExc KeyError.
Proof. exact old_del_head. Qed.
Print Assumptions C19_prefix_del_head_refuted.

(* F3d reads/deletes and F3e (fixed 2134a9f3) *)
Theorem C19_prefix_indices_refuted :
  old_getitem (graph_of [1; 6]%N) HEAD 2 = RExc KeyError /\
  old_getitem (graph_of [1; 6; 5]%N) HEAD (-1) = RTerm 1%N /\
  memb triple_eqb (HEAD, REST, HEAD) (fst (old_delitem (graph_of [1; 6; 5]%N) HEAD (-1))) = true.
Proof. exact old_indices. Qed.
Print Assumptions C19_prefix_indices_refuted.

(* F3g (fixed 6814bca0) *)
Theorem C19_prefix_iadd_empty_refuted :
  gr (fst (old_iadd {| gr := []; fresh := 100%N |} HEAD [])) = [(HEAD, REST, NIL)].
Proof. exact old_iadd_empty. Qed.
Print Assumptions C19_prefix_iadd_empty_refuted.

(* F3c (fixed 6f3b46c5): index() of an absent item on (h first 1) (h rest h)
   exhausted every amount of fuel; the repaired index() raises *)
Theorem C19_prefix_index_cyclic_refuted :
  (forall fuel idx, old_index_f fuel loop_graph HEAD 12%N idx = RHang) /\
  c_index loop_graph HEAD 12%N = RExc ValueError.
Proof. split; [exact old_index_loops|vm_compute; reflexivity]. Qed.
Print Assumptions C19_prefix_index_cyclic_refuted.

(* F3h (fixed 3075b467): before the repair the loop of __iadd__ pulled its items
   lazily from the chain it was extending; the model of that code runs out of
   fuel on [1] and on [1, 6, 5] *)
Theorem C19_prefix_iadd_self_refuted :
  snd (old_iadd_self {| gr := graph_of [1%N]; fresh := 100%N |} HEAD) = RHang /\
  snd (old_iadd_self {| gr := graph_of [1; 6; 5]%N; fresh := 102%N |} HEAD) = RHang.
Proof. exact old_iadd_self_hangs. Qed.
Print Assumptions C19_prefix_iadd_self_refuted.

(* non-vacuity: a trigger-free history over falsy members and duplicates with
   negative indices, deletion of the head, the tail, a middle and the only
   element, reads and deletes at len(c), += [] on the emptied collection *)
Example C19_nonvacuous :
  let c := {| c_init := [6; 5; 6; 7]%N; c_noise := [(1, 3, 30); (30, 4, 5); (50, 21, 6); (50, 22, 51); (51, 21, 1); (51, 22, 100); (2, 21, 1)]%N;
              c_ops := [ODel 0; OGet (-1); OSet (-3) 14%N; ODel (-1); ODel 2; OGet 2; ODel 0; ODel 0;
                        OIadd []; OGet 0; OAppend 7%N; OIadd [6; 6]%N; ODel 1; OIndex 6%N;
                        OClear; OIadd [14]%N; OContains 14%N; OIndex 1%N; OGet (-2);
                        OInit [50; 6]%N; OIaddSelf; ON3; ODel 0; OLen] |} in
  wfb c = true /\ kf c = 0%N /\ spec_ok c (model_obs c) = true /\ length (model_obs c) = 24%nat.
Proof. repeat split; vm_compute; reflexivity. Qed.
