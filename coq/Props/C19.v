From RV Require Import Collection.Model.
