(* C19 - an RDF Collection behaves like the Python list it represents.
   Property theorems only; proofs are in Collection/Proofs.v.
   The unrestricted statement is FALSE for the code as it is (findings F3b, F3d,
   F3e, F3g, F3c: the *_refuted theorems below give the witnesses); what holds
   is proved for every history that stays outside the trigger regions
   ([kf_op xs o = 0], a condition on the Python list and the operation only). *)
From RV Require Import Collection.Model Collection.Proofs Collection.Reads.

(* [Inv s xs]: the graph of state s is duplicate-free and its rdf:first/rdf:rest
   triples are exactly a chain HEAD -> ... -> rdf:nil carrying xs (no triple at
   all when xs = []), cells pairwise distinct, none of them rdf:nil, all below
   the counter that stands for BNode(). *)

(* the initial state of every case in scope satisfies the invariant *)
Theorem C19_init_represents : forall c, wfb c = true -> Inv (init_st c) (c_init c).
Proof. exact init_Inv. Qed.
Print Assumptions C19_init_represents.

(* refinement, one operation: outside the trigger regions every operation
   returns what the Python list returns (index() of an absent item: raises),
   and leaves a state that again represents the list's new value, whose chain
   is well-formed and whose iteration yields exactly the list *)
Theorem C19_refines_partial : forall s xs o, Inv s xs -> kf_op xs o = 0%N ->
  let '(s', r) := c_step HEAD s o in
  let '(xs', e) := lstep xs o in
  Inv s' xs' /\ WF (gr s') HEAD xs' /\ c_iter (gr s') HEAD = RList xs' /\
  (match o, e with OIndex _, RExc _ => is_exc r = true | _, _ => r = e end).
Proof. exact refines_step. Qed.
Print Assumptions C19_refines_partial.

(* refinement, whole histories, in the form the conformance check evaluates:
   for any starting list, noise triples and history without a trigger the
   model's observations (result, list(c), len(c), every c[i], all triples after
   every operation) pass the specification checker *)
Theorem C19_spec_ok_model : forall c, wfb c = true -> kf c = 0%N -> spec_ok c (model_obs c) = true.
Proof. exact spec_ok_model. Qed.
Print Assumptions C19_spec_ok_model.

(* what the checker's verdict on one snapshot means *)
Theorem C19_snap_ok_reading : forall head xs sn, snap_ok head xs sn = true ->
  s_items sn = RList xs /\ s_len sn = RNat (N.of_nat (length xs)) /\
  s_gets sn = map RTerm xs /\ WF (s_triples sn) head xs.
Proof. exact snap_ok_reading. Qed.
Print Assumptions C19_snap_ok_reading.

(* ... and WF unfolds to: for xs = [] no rdf:first/rdf:rest triple at all, otherwise
   there are cells cs, as many as members, pairwise distinct, none rdf:nil, the first
   one the head, such that the first/rest triples are exactly
   (c_i first x_i), (c_i rest c_i+1), (c_last rest nil) *)
Theorem C19_wf_check_reading : forall head xs T, wf_check head xs T = true ->
  match xs with
  | [] => forall t, In t T -> is_fr t = false
  | _ => exists cs, length cs = length xs /\ NoDup cs /\ ~ In NIL cs /\ hd NIL cs = head /\
                    seteq (filter is_fr T) (chainT (combine cs xs) NIL)
  end.
Proof. exact wf_check_sound. Qed.
Print Assumptions C19_wf_check_reading.

(* IndexError where the list raises it - for every index beyond len(c);
   index = len(c) and negative indices are findings F3d / F3e *)
Theorem C19_index_error_partial : forall s xs i, Inv s xs -> (Z.of_nat (length xs) < i)%Z ->
  c_getitem (gr s) HEAD i = RExc IndexError /\
  (forall v, c_setitem (gr s) HEAD i v = (gr s, RExc IndexError)) /\
  c_delitem (gr s) HEAD i = (gr s, RExc IndexError).
Proof. exact index_error. Qed.
Print Assumptions C19_index_error_partial.

(* ---- the unrestricted property fails: witnesses (replayed on rdflib, corpus/C19) ---- *)
Definition refuted (n : N) (c : case) : Prop :=
  wfb c = true /\ kf c = n /\ spec_ok c (model_obs c) = false.

(* F3b: del c[0] on [1, 6] leaves the head cell without rdf:first *)
Theorem C19_del_head_refuted : exists c, refuted 1 c.
Proof. exists {| c_init := [1; 6]%N; c_noise := []; c_ops := [ODel 0] |}. repeat split; vm_compute; reflexivity. Qed.
Print Assumptions C19_del_head_refuted.

(* F3d: c[len(c)] raises KeyError, c[len(c)] = v writes (rdf:nil rdf:first v) *)
Theorem C19_index_len_refuted : exists c, refuted 2 c.
Proof. exists {| c_init := [1; 6]%N; c_noise := []; c_ops := [OGet 2; OSet 2 5%N] |}. repeat split; vm_compute; reflexivity. Qed.
Print Assumptions C19_index_len_refuted.

(* F3e: c[-1] is c[0]; del c[-1] links the head to itself, append then hangs *)
Theorem C19_negative_index_refuted : exists c, refuted 3 c /\
  exists sn, nth_error (model_obs c) 2 = Some sn /\ s_res sn = RHang.
Proof.
  exists {| c_init := [1; 6; 5]%N; c_noise := []; c_ops := [OGet (-1); ODel (-1); OAppend 1%N] |}.
  split; [repeat split; vm_compute; reflexivity|]. eexists. split; vm_compute; reflexivity.
Qed.
Print Assumptions C19_negative_index_refuted.

(* F3g: c += [] on an empty collection leaves (head rdf:rest rdf:nil) *)
Theorem C19_iadd_empty_refuted : exists c, refuted 4 c.
Proof. exists {| c_init := []; c_noise := []; c_ops := [OIadd []] |}. repeat split; vm_compute; reflexivity. Qed.
Print Assumptions C19_iadd_empty_refuted.

(* ---- reads on arbitrary graphs: cyclic, broken, forked chains ---- *)

(* Graph.items carries a visited set: iteration, len, membership and indexing
   terminate on EVERY graph (the model never runs out of its length g + 3 units
   of fuel; pigeonhole on the visited set) *)
Theorem C19_reads_terminate : forall g head i v,
  c_iter g head <> RHang /\ c_len g head <> RHang /\ c_contains g head v <> RHang /\ c_getitem g head i <> RHang.
Proof.
  intros. repeat split; [apply iter_total|apply len_total|apply contains_total|apply getitem_total].
Qed.
Print Assumptions C19_reads_terminate.

(* on a chain whose walk (first rest link, stopping at a falsy node like
   Graph.items) revisits a node, list(c) and len(c) raise ValueError *)
Theorem C19_cyclic_reads_raise : forall g head, cyclic_iter g head = true ->
  c_iter g head = RExc ValueError /\ c_len g head = RExc ValueError.
Proof. exact cyclic_reads_raise. Qed.
Print Assumptions C19_cyclic_reads_raise.

(* index() terminates when the rest links from the head do not loop ... *)
Theorem C19_index_terminates_partial : forall g head v,
  cyclic_rest g head = false -> c_index g head v <> RHang.
Proof. exact index_terminates. Qed.
Print Assumptions C19_index_terminates_partial.

(* ... and does not otherwise (F3c): on the chain (h first 1) (h rest h), index() of
   an absent item exhausts every amount of fuel, while len(c) raises *)
Theorem C19_index_cyclic_refuted :
  (forall fuel idx, index_f fuel loop_graph HEAD 12%N idx = RHang) /\ cyclic_rest loop_graph HEAD = true /\ c_len loop_graph HEAD = RExc ValueError.
Proof. split; [exact index_loops|split; vm_compute; reflexivity]. Qed.
Print Assumptions C19_index_cyclic_refuted.

(* what the `collreads` suite evaluates: no read hangs, and list(c)/len(c) raise
   on a cyclic chain - for every graph and every sequence of reads without
   index() on a looping chain *)
Theorem C19_reads_spec_ok_model : forall c, r_wfb c = true -> r_kf c = 0%N -> r_spec c (r_model c) = true.
Proof. exact r_spec_model. Qed.
Print Assumptions C19_reads_spec_ok_model.

(* non-vacuity: a trigger-free history over falsy members and duplicates that
   deletes the tail, a middle element and the only element, clears, appends
   to the emptied collection and extends it *)
Example C19_nonvacuous :
  let c := {| c_init := [6; 5; 6; 7]%N; c_noise := [(1, 3, 30); (30, 4, 5)]%N;
              c_ops := [ODel 3; ODel 1; OSet 1 5%N; OIndex 5%N; ODel 1; ODel 0; OAppend 7%N;
                        OIadd [6; 6]%N; OGet 5; OClear; OIadd [14]%N; OContains 14%N; OIndex 1%N] |} in
  wfb c = true /\ kf c = 0%N /\ spec_ok c (model_obs c) = true /\ length (model_obs c) = 13%nat.
Proof. repeat split; vm_compute; reflexivity. Qed.
