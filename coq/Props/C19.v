(* C19 - an RDF Collection behaves like the Python list it represents.
   Property theorems only; proofs are in Collection/Proofs.v (histories on a
   well-formed list), Collection/Reads.v (reads on arbitrary graphs) and
   Collection/Historical.v (the code before the repairs).
   The model is rdflib/collection.py after the repairs 6f3b46c5, 2134a9f3,
   96e75001, 6814bca0.  One defect remains (finding F3d, narrowed): item
   assignment at index = len(c) - [kf_op xs o] is 2 exactly for [OSet i v] with
   i = length xs and 0 for every other operation. *)
From RV Require Import Collection.Model Collection.Proofs Collection.Reads Collection.Historical.

(* [Inv s xs]: the graph of state s is duplicate-free and its rdf:first/rdf:rest
   triples are exactly a chain HEAD -> ... -> rdf:nil carrying xs (no triple at
   all when xs = []), cells pairwise distinct, none of them rdf:nil, all below
   the counter that stands for BNode(). *)

(* the initial state of every case in scope satisfies the invariant *)
Theorem C19_init_represents : forall c, wfb c = true -> Inv (init_st c) (c_init c).
Proof. exact init_Inv. Qed.
Print Assumptions C19_init_represents.

(* refinement, one operation: every operation - any index, negative ones,
   index = len(c) for reads and deletes, del c[0], += [], on any list including
   the empty one, any members - except c[len(c)] = v returns what the Python
   list returns (index() of an absent item: raises) and leaves a state that
   represents the list's new value, whose chain is well-formed and whose
   iteration yields exactly the list *)
Theorem C19_refines : forall s xs o, Inv s xs -> kf_op xs o = 0%N ->
  let '(s', r) := c_step HEAD s o in
  let '(xs', e) := lstep xs o in
  Inv s' xs' /\ WF (gr s') HEAD xs' /\ c_iter (gr s') HEAD = RList xs' /\
  (match o, e with OIndex _, RExc _ => is_exc r = true | _, _ => r = e end).
Proof. exact refines_step. Qed.
Print Assumptions C19_refines.

(* the trigger hypothesis of C19_refines, spelled out *)
Theorem C19_trigger_is_setitem_at_len : forall xs o,
  kf_op xs o <> 0%N <-> exists v, o = OSet (Z.of_nat (length xs)) v.
Proof.
  intros xs o. destruct o; simpl; try (split; [congruence|intros [? H]; discriminate]).
  destruct (Z.eqb_spec i (Z.of_nat (length xs))) as [->|Hne].
  - split; [eauto|discriminate].
  - split; [congruence|]. intros [v' H]. inversion H. congruence.
Qed.
Print Assumptions C19_trigger_is_setitem_at_len.

(* deletion and indexing need no hypothesis at all *)
Theorem C19_getitem_refines : forall s xs i, Inv s xs ->
  c_getitem (gr s) HEAD i = snd (lstep xs (OGet i)).
Proof. exact step_get. Qed.
Print Assumptions C19_getitem_refines.

Theorem C19_delitem_refines : forall s xs i, Inv s xs ->
  Inv {| gr := fst (c_delitem (gr s) HEAD i); fresh := fresh s |} (fst (lstep xs (ODel i)))
  /\ snd (c_delitem (gr s) HEAD i) = snd (lstep xs (ODel i)).
Proof. exact step_del. Qed.
Print Assumptions C19_delitem_refines.

(* refinement, whole histories, in the form the conformance check evaluates *)
Theorem C19_spec_ok_model : forall c, wfb c = true -> kf c = 0%N -> spec_ok c (model_obs c) = true.
Proof. exact spec_ok_model. Qed.
Print Assumptions C19_spec_ok_model.

(* what the checker's verdict on one snapshot means *)
Theorem C19_snap_ok_reading : forall head xs sn, snap_ok head xs sn = true ->
  s_items sn = RList xs /\ s_len sn = RNat (N.of_nat (length xs)) /\
  s_gets sn = map RTerm xs /\ WF (s_triples sn) head xs.
Proof. exact snap_ok_reading. Qed.
Print Assumptions C19_snap_ok_reading.

Theorem C19_wf_check_reading : forall head xs T, wf_check head xs T = true ->
  match xs with
  | [] => forall t, In t T -> is_fr t = false
  | _ => exists cs, length cs = length xs /\ NoDup cs /\ ~ In NIL cs /\ hd NIL cs = head /\
                    seteq (filter is_fr T) (chainT (combine cs xs) NIL)
  end.
Proof. exact wf_check_sound. Qed.
Print Assumptions C19_wf_check_reading.

(* IndexError exactly where the list raises it: every index outside
   -len(c) .. len(c)-1, negative ones included; nothing is changed.  For item
   assignment the single index len(c) is excepted (F3d). *)
Theorem C19_index_error : forall s xs i, Inv s xs -> norm_index (length xs) i = None ->
  c_getitem (gr s) HEAD i = RExc IndexError /\
  c_delitem (gr s) HEAD i = (gr s, RExc IndexError) /\
  (i <> Z.of_nat (length xs) -> forall v, c_setitem (gr s) HEAD i v = (gr s, RExc IndexError)).
Proof. exact index_error. Qed.
Print Assumptions C19_index_error.

(* F3d, what is left of it: c[len(c)] = v raises nothing and writes (rdf:nil rdf:first v) *)
Theorem C19_setitem_len_refuted : exists c,
  wfb c = true /\ kf c = 2%N /\ spec_ok c (model_obs c) = false /\
  exists sn, nth_error (model_obs c) 0 = Some sn /\ s_res sn = RNone /\
             memb triple_eqb (NIL, FIRST, 5%N) (s_triples sn) = true.
Proof.
  exists {| c_init := [1; 6]%N; c_noise := []; c_ops := [OSet 2 5%N] |}.
  repeat split; try (vm_compute; reflexivity). eexists. repeat split; vm_compute; reflexivity.
Qed.
Print Assumptions C19_setitem_len_refuted.

(* ---- reads on arbitrary graphs: cyclic, broken, forked chains ---- *)

(* Graph.items and (since 6f3b46c5) Collection.index carry a visited set:
   iteration, len, membership, indexing and index() terminate on EVERY graph
   (the model never runs out of its length g + 3 units of fuel; pigeonhole) *)
Theorem C19_reads_terminate : forall g head i v,
  c_iter g head <> RHang /\ c_len g head <> RHang /\ c_contains g head v <> RHang /\
  c_getitem g head i <> RHang /\ c_index g head v <> RHang.
Proof.
  intros. repeat split;
    [apply iter_total|apply len_total|apply contains_total|apply getitem_total|apply index_total].
Qed.
Print Assumptions C19_reads_terminate.

(* on a chain whose walk (first rest link, stopping at a falsy node like
   Graph.items) revisits a node, list(c) and len(c) raise ValueError *)
Theorem C19_cyclic_reads_raise : forall g head, cyclic_iter g head = true ->
  c_iter g head = RExc ValueError /\ c_len g head = RExc ValueError.
Proof. exact cyclic_reads_raise. Qed.
Print Assumptions C19_cyclic_reads_raise.

(* index() of an item that is no rdf:first object of the graph raises, on every
   graph - looping chains included *)
Theorem C19_index_absent_raises : forall g head v,
  g_has (None, Some FIRST, Some v) g = false -> is_exc (c_index g head v) = true.
Proof. exact index_absent_raises. Qed.
Print Assumptions C19_index_absent_raises.

(* what the `collreads` suite evaluates: no read hangs, list(c)/len(c) raise on
   a cyclic chain - for every graph and every sequence of reads *)
Theorem C19_reads_spec_ok_model : forall c, r_wfb c = true -> r_spec c (r_model c) = true.
Proof. exact r_spec_model. Qed.
Print Assumptions C19_reads_spec_ok_model.

(* ---- the code before the repairs did not have the property ---- *)

(* F3b (fixed 96e75001): del c[0] on [1, 6] left a head cell without rdf:first *)
Theorem C19_prefix_del_head_refuted :
  let g' := fst (old_delitem (graph_of [1; 6]%N) HEAD 0) in
  snd (old_delitem (graph_of [1; 6]%N) HEAD 0) = RNone /\ wf_check HEAD [6%N] g' = false
  /\ old_getitem g' HEAD 0 = RExc KeyError.
Proof. exact old_del_head. Qed.
Print Assumptions C19_prefix_del_head_refuted.

(* F3d reads/deletes and F3e (fixed 2134a9f3) *)
Theorem C19_prefix_indices_refuted :
  old_getitem (graph_of [1; 6]%N) HEAD 2 = RExc KeyError /\
  old_getitem (graph_of [1; 6; 5]%N) HEAD (-1) = RTerm 1%N /\
  memb triple_eqb (HEAD, REST, HEAD) (fst (old_delitem (graph_of [1; 6; 5]%N) HEAD (-1))) = true.
Proof. exact old_indices. Qed.
Print Assumptions C19_prefix_indices_refuted.

(* F3g (fixed 6814bca0) *)
Theorem C19_prefix_iadd_empty_refuted :
  gr (fst (old_iadd {| gr := []; fresh := 100%N |} HEAD [])) = [(HEAD, REST, NIL)].
Proof. exact old_iadd_empty. Qed.
Print Assumptions C19_prefix_iadd_empty_refuted.

(* F3c (fixed 6f3b46c5): index() of an absent item on (h first 1) (h rest h)
   exhausted every amount of fuel; the repaired index() raises *)
Theorem C19_prefix_index_cyclic_refuted :
  (forall fuel idx, old_index_f fuel loop_graph HEAD 12%N idx = RHang) /\
  c_index loop_graph HEAD 12%N = RExc ValueError.
Proof. split; [exact old_index_loops|vm_compute; reflexivity]. Qed.
Print Assumptions C19_prefix_index_cyclic_refuted.

(* non-vacuity: a trigger-free history over falsy members and duplicates with
   negative indices, deletion of the head, the tail, a middle and the only
   element, reads and deletes at len(c), += [] on the emptied collection *)
Example C19_nonvacuous :
  let c := {| c_init := [6; 5; 6; 7]%N; c_noise := [(1, 3, 30); (30, 4, 5)]%N;
              c_ops := [ODel 0; OGet (-1); OSet (-3) 14%N; ODel (-1); ODel 2; OGet 2; ODel 0; ODel 0;
                        OIadd []; OGet 0; OAppend 7%N; OIadd [6; 6]%N; ODel 1; OIndex 6%N;
                        OClear; OIadd [14]%N; OContains 14%N; OIndex 1%N; OGet (-2)] |} in
  wfb c = true /\ kf c = 0%N /\ spec_ok c (model_obs c) = true /\ length (model_obs c) = 19%nat.
Proof. repeat split; vm_compute; reflexivity. Qed.
