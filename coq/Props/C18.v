(* C18 - Rollback restores, commit keeps: the auditable store is atomic over
   any history.  Property theorems only; proofs are in Auditable/Proofs.v. *)
From RV Require Import Auditable.Model Auditable.Proofs Auditable.Batch Auditable.BatchProofs.
From RV Require Import Auditable.SpecExt Auditable.OverStore Auditable.OverStoreProofs Auditable.OverMemory Auditable.OverMemoryProofs.

(* Two wrappers over one store, any interleaving: after every add/remove the
   store is the set the operation prescribes, after commit it is unchanged,
   and after rollback of wrapper w every quad w changed in its open transaction
   is back to the membership it had before w first changed it while every
   other quad (in particular the other wrapper's changes) is as it was just
   before the rollback.  A history leaves the scope of the statement at the
   first operation that changes a quad the *other* wrapper has changed in its
   still-open transaction (the property's disjointness hypothesis). *)
Theorem C18_two_wrappers : forall init ops,
  NoDup init -> spec_run (s_init init) ops (a_run (a_init init) ops) = true.
Proof. intros init ops H. exact (spec_run_model ops _ _ (R_init init H)). Qed.
Print Assumptions C18_two_wrappers.

(* Reading of the two-wrapper rollback clause of the checker: a content accepted after a rollback of
   wrapper w holds a quad exactly if the quad was present before w FIRST changed it in this transaction
   (for quads w changed) or just before the rollback (for all others: the other wrapper's changes stay). *)
Theorem C18_rollback_clause_reading : forall s w now s',
  spec_step s (ARollback w) now = Good s' ->
  NoDup now /\ forall q, q_mem q now = expect_after_rollback s w q.
Proof. exact spec_step_rollback_reading. Qed.
Print Assumptions C18_rollback_clause_reading.

(* One wrapper, strong form: after rollback the store content IS the content
   at the beginning of the transaction; after commit it is the content reached. *)
Theorem C18_rollback_restores_commit_keeps : forall init ops,
  NoDup init -> only_wrapper0 ops = true ->
  single_run init init ops (a_run (a_init init) ops) = true.
Proof. exact single_run_model. Qed.
Print Assumptions C18_rollback_restores_commit_keeps.

(* The general checker implies the strong form for ANY observation sequence,
   not only the model's: the two statements are consistent. *)
Theorem C18_general_implies_strong : forall ops obs init,
  only_wrapper0 ops = true ->
  spec_run (s_init init) ops obs = true -> single_run init init ops obs = true.
Proof. intros ops obs init Hw. exact (single_from_spec ops obs (s_init init) init Hw (J_init init)). Qed.
Print Assumptions C18_general_implies_strong.

(* What the correspondence check evaluates on the implementation's answers is
   satisfied by the model on every case. *)
Theorem C18_spec_ok_model : forall c, NoDup (c_init c) -> spec_ok c (model_obs c) = true.
Proof. exact spec_ok_model. Qed.
Print Assumptions C18_spec_ok_model.

Theorem C18_idempotent : forall s w,
  store (a_rollback (a_rollback s w) w) = store (a_rollback s w)
  /\ store (a_commit (a_rollback s w) w) = store (a_rollback s w)
  /\ store (a_rollback (a_commit s w) w) = store s.
Proof. exact rollback_idempotent. Qed.
Print Assumptions C18_idempotent.

(* Bulk adds (Graph.addN / ConjunctiveGraph.addN go through Store.addN, a loop
   of add() calls): only the content after the whole batch can be observed; the
   checker rebuilds the intermediate contents from the specification and judges
   the flattened history.  The model meets it for every history with batches. *)
Theorem C18_batches : forall c, NoDup (b_init c) -> bspec_ok c (bmodel_obs c) = true.
Proof. exact bspec_ok_model. Qed.
Print Assumptions C18_batches.

(* ------------------------------------------------------------------ *)
(* The wrapper over a CONCRETE store (Auditable/OverStore.v): auditable.py again,
   but every access to the wrapped store goes through the store's own add /
   remove / triples, whose enumeration order decides the order of the log.   *)

(* For ANY store whose add, remove and triples satisfy the three exactness laws,
   and any history of both wrappers: after every operation the store holds exactly
   the quads that the list-level model of Auditable/Model.v holds (so every theorem
   above transfers).  The logs agree only up to permutation; the proof goes through
   the invariant that no quad has both an "add" and a "remove" entry. *)
Theorem C18_over_any_store :
  forall (St : Type) (s_add : St -> cid -> triple -> St) (s_rem : St -> cid -> pat -> St)
         (s_tri : St -> cid -> pat -> list triple) (holds : St -> cid -> triple -> bool) (Inv : St -> Prop),
    (forall m c t0, Inv m -> Inv (s_add m c t0) /\
       forall c' t, holds (s_add m c t0) c' t = (N.eqb c' c && triple_eqb t t0) || holds m c' t) ->
    (forall m c p, Inv m -> Inv (s_rem m c p) /\
       forall c' t, holds (s_rem m c p) c' t = holds m c' t && negb (N.eqb c' c && matches p t)) ->
    (forall m c p, Inv m -> NoDup (s_tri m c p) /\
       forall t, In t (s_tri m c p) <-> matches p t = true /\ holds m c t = true) ->
    forall ops m S, Inv m -> (forall c t, holds m c t = q_mem (t, c) S) -> NoDup S ->
      Forall2 (fun m' S' => forall c t, holds m' c t = q_mem (t, c) S')
              (x_run St s_add s_rem s_tri (x_init m) ops)
              (a_run (a_init S) (map to_aop ops)).
Proof.
  intros St s_add s_rem s_tri holds Inv A1 A2 A3 ops m S Hi Ha Hn.
  apply (over_store_refines St s_add s_rem s_tri holds Inv A1 A2 A3). now apply Sim_init.
Qed.
Print Assumptions C18_over_any_store.

(* The Memory model of C01 (three nested indexes, per-triple context dict with the
   default-context compression, per-context triple sets) is such a store: C01's theorems
   mem_add_ok, mem_remove_ok, mem_triples_exact are the three laws. *)
Theorem C18_over_memory_refines : forall ops m S,
  Store.MemProofs.MemInv m -> (forall c t, mem_holds m c t = q_mem (t, c) S) -> NoDup S ->
  Forall2 (fun m' S' => forall c t, mem_holds m' c t = q_mem (t, c) S')
          (x_run mem mem_add mem_remove mem_triples (x_init m) ops)
          (a_run (a_init S) (map to_aop ops)).
Proof. exact mem_refines. Qed.
Print Assumptions C18_over_memory_refines.

(* One wrapper over the Memory model, any initial content, any history: after every add /
   remove the Memory store holds what the operation prescribes, after commit what it held,
   after rollback EXACTLY what it held when the transaction began - in terms of the
   store's own membership function mem_holds ([xsingle] spells this out).  The initial Memory state is
   any state built from the empty store by adds ([mem_of S]); for an arbitrary state satisfying the
   store invariant use C18_over_memory_refines. *)
Theorem C18_over_memory_rollback_restores : forall S ops,
  NoDup S -> only_w0 ops = true ->
  xsingle mem mem_holds (mem_of S) (mem_of S) ops
          (x_run mem mem_add mem_remove mem_triples (x_init (mem_of S)) ops).
Proof. exact mem_single. Qed.
Print Assumptions C18_over_memory_rollback_restores.

Theorem C18_xsingle_rollback_reading : forall (St : Type) (holds : St -> cid -> triple -> bool)
    snap prev w r now obs,
  xsingle St holds snap prev (CRollback w :: r) (now :: obs) ->
  forall c t, holds now c t = holds snap c t.
Proof. intros St holds snap prev w r now obs [H _]. exact H. Qed.
Print Assumptions C18_xsingle_rollback_reading.

(* what the suite `auditable_memory` evaluates: the Memory-level model's observations
   (the quads of the universe that mem_holds reports) equal, as sets, those of the list-level model *)
Theorem C18_over_memory_obs : forall c,
  NoDup (m_init c) -> obs_eqb (mm_obs c) (model_obs (m_case c)) = true.
Proof. exact mm_obs_agrees. Qed.
Print Assumptions C18_over_memory_obs.

(* the tie theorem of the suite `auditable_memory` *)
Theorem C18_over_memory_spec_ok : forall c, NoDup (m_init c) -> mspec_ok c (mm_obs c) = true.
Proof. exact mm_spec_ok. Qed.
Print Assumptions C18_over_memory_spec_ok.

(* The verdict of the specification checker depends only on WHICH quads each observed
   content holds, not on how it is listed: observation sequences whose members are
   duplicate-free and pairwise hold the same quads are judged alike.  (So "the model's
   observation is obs_eqb to the implementation's" and "the checker accepts the model's"
   together imply "the checker accepts the implementation's".) *)
Theorem C18_spec_respects_set_equality : forall c obs obs',
  Forall2 (fun a b => qseteq a b /\ NoDup a /\ NoDup b) obs obs' -> spec_ok c obs = spec_ok c obs'.
Proof. exact spec_ok_ext. Qed.
Print Assumptions C18_spec_respects_set_equality.

Example C18_over_memory_nonvacuous :
  let c := {| m_init := [((1, 2, 3), 7); ((4, 2, 3), 7)]%N;
              m_ops := [CRemove false (None, Some 2, None)%N 7%N; CAdd false (9, 2, 3)%N 8%N;
                        CAdd false (1, 2, 3)%N 7%N; CRollback false] |} in
  NoDup (m_init c) /\ only_w0 (m_ops c) = true
  /\ mspec_ok c (mm_obs c) = true
  /\ qseteqb (last (mm_obs c) []) (m_init c) = true
  /\ map (@length quad) (mm_obs c) = [0; 1; 2; 2]%nat.
Proof.
  cbv zeta. split; [cbn [m_init]; repeat constructor; simpl; intuition congruence|].
  split; [vm_compute; reflexivity|]. split; [vm_compute; reflexivity|]. split; vm_compute; reflexivity.
Qed.

(* The code as it was before the "fix:" commit (finding F2) does not have the
   property: witness history remove; re-add; rollback. *)
Theorem C18_prefix_add_refuted :
  exists init ops, NoDup init /\
    ~ qseteq (store (fold_left prefix_step ops (a_init init))) init
    /\ last ops (ACommit false) = ARollback false.
Proof. exact prefix_add_refuted. Qed.
Print Assumptions C18_prefix_add_refuted.

(* non-vacuity: a history with both wrappers, a wildcard remove, a re-add and
   rollbacks stays in scope and is accepted to the end *)
Example C18_nonvacuous :
  let init := [((1, 2, 3), 7); ((4, 2, 3), 7); ((1, 2, 3), 8)]%N in
  let ops := [ARemove false (None, Some 2, Some 3)%N (Some 7%N);
              AAdd true (9, 2, 3)%N 8%N;
              AAdd false (1, 2, 3)%N 7%N;
              ARollback false; ARollback true] in
  NoDup init /\ in_scope (s_init init) ops (a_run (a_init init) ops) = true
  /\ a_run (a_init init) ops <> [] /\ qseteqb (last (a_run (a_init init) ops) []) init = true.
Proof.
  simpl. split; [repeat constructor; simpl; intuition congruence|].
  split; [vm_compute; reflexivity|split; [discriminate|vm_compute; reflexivity]].
Qed.
