(* C18 - Rollback restores, commit keeps: the auditable store is atomic over
   any history.  Property theorems only; proofs are in Auditable/Proofs.v. *)
From RV Require Import Auditable.Model Auditable.Proofs Auditable.Batch Auditable.BatchProofs.

(* Two wrappers over one store, any interleaving: after every add/remove the
   store is the set the operation prescribes, after commit it is unchanged,
   and after rollback of wrapper w every quad w changed in its open transaction
   is back to the membership it had before w first changed it while every
   other quad (in particular the other wrapper's changes) is as it was just
   before the rollback.  A history leaves the scope of the statement at the
   first operation that changes a quad the *other* wrapper has changed in its
   still-open transaction (the property's disjointness hypothesis). *)
Theorem C18_two_wrappers : forall init ops,
  NoDup init -> spec_run (s_init init) ops (a_run (a_init init) ops) = true.
Proof. intros init ops H. exact (spec_run_model ops _ _ (R_init init H)). Qed.
Print Assumptions C18_two_wrappers.

(* One wrapper, strong form: after rollback the store content IS the content
   at the beginning of the transaction; after commit it is the content reached. *)
Theorem C18_rollback_restores_commit_keeps : forall init ops,
  NoDup init -> only_wrapper0 ops = true ->
  single_run init init ops (a_run (a_init init) ops) = true.
Proof. exact single_run_model. Qed.
Print Assumptions C18_rollback_restores_commit_keeps.

(* The general checker implies the strong form for ANY observation sequence,
   not only the model's: the two statements are consistent. *)
Theorem C18_general_implies_strong : forall ops obs init,
  only_wrapper0 ops = true ->
  spec_run (s_init init) ops obs = true -> single_run init init ops obs = true.
Proof. intros ops obs init Hw. exact (single_from_spec ops obs (s_init init) init Hw (J_init init)). Qed.
Print Assumptions C18_general_implies_strong.

(* What the correspondence check evaluates on the implementation's answers is
   satisfied by the model on every case. *)
Theorem C18_spec_ok_model : forall c, NoDup (c_init c) -> spec_ok c (model_obs c) = true.
Proof. exact spec_ok_model. Qed.
Print Assumptions C18_spec_ok_model.

Theorem C18_idempotent : forall s w,
  store (a_rollback (a_rollback s w) w) = store (a_rollback s w)
  /\ store (a_commit (a_rollback s w) w) = store (a_rollback s w)
  /\ store (a_rollback (a_commit s w) w) = store s.
Proof. exact rollback_idempotent. Qed.
Print Assumptions C18_idempotent.

(* Bulk adds (Graph.addN / ConjunctiveGraph.addN go through Store.addN, a loop
   of add() calls): only the content after the whole batch can be observed; the
   checker rebuilds the intermediate contents from the specification and judges
   the flattened history.  The model meets it for every history with batches. *)
Theorem C18_batches : forall c, NoDup (b_init c) -> bspec_ok c (bmodel_obs c) = true.
Proof. exact bspec_ok_model. Qed.
Print Assumptions C18_batches.

(* The code as it was before the "fix:" commit (finding F2) does not have the
   property: witness history remove; re-add; rollback. *)
Theorem C18_prefix_add_refuted :
  exists init ops, NoDup init /\
    ~ qseteq (store (fold_left prefix_step ops (a_init init))) init
    /\ last ops (ACommit false) = ARollback false.
Proof. exact prefix_add_refuted. Qed.
Print Assumptions C18_prefix_add_refuted.

(* non-vacuity: a history with both wrappers, a wildcard remove, a re-add and
   rollbacks stays in scope and is accepted to the end *)
Example C18_nonvacuous :
  let init := [((1, 2, 3), 7); ((4, 2, 3), 7); ((1, 2, 3), 8)]%N in
  let ops := [ARemove false (None, Some 2, Some 3)%N (Some 7%N);
              AAdd true (9, 2, 3)%N 8%N;
              AAdd false (1, 2, 3)%N 7%N;
              ARollback false; ARollback true] in
  NoDup init /\ in_scope (s_init init) ops (a_run (a_init init) ops) = true
  /\ a_run (a_init init) ops <> [] /\ qseteqb (last (a_run (a_init init) ops) []) init = true.
Proof.
  simpl. split; [repeat constructor; simpl; intuition congruence|].
  split; [vm_compute; reflexivity|split; [discriminate|vm_compute; reflexivity]].
Qed.
