(* C06 - Quad syntaxes round-trip a Dataset: each triple returns to the graph it
   was in.  Property theorems only; proofs are in Routing/*.v.

   Scope: dataset-level ROUTING (which graph label a serialiser writes for each
   statement and which graph the parser puts it into, with the parsers'
   blank-node label policies).  Identifiers are numbers, odd = blank node (the
   same odd number is the same blank node as a term and as a graph name),
   graph id 0 = the default graph.  [iso A B]: B is A with its blank nodes
   renamed injectively.  [wfd D]: the store lists every graph that holds a triple. *)
From RV Require Import Codec.Model Codec.Hext Routing.Text Routing.TextProofs Routing.HextText Routing.TrixTree.
From RV Require Import Routing.Model Routing.Proofs Routing.Relabel Routing.Trix Routing.Trig Routing.Patch Routing.Bridge.

(* ---- the comparison used by the specification checker ---- *)

Theorem C06_isob_reflects_iso : forall A B, isob A B = true <-> iso A B.
Proof. exact isob_spec. Qed.
Print Assumptions C06_isob_reflects_iso.

(* what [spec_ok] says about an observed result *)
Theorem C06_spec_ok_reading : forall c o,
  spec_ok c o = true <->
  match c_fmt c with
  | PatchDiff => qseteq (snd o) (d_quads (c_tgt c))
  | _ => iso (d_quads (c_src c)) (snd o)
  end.
Proof.
  intros c o. unfold spec_ok. destruct (c_fmt c); try apply isob_spec. apply qseteqb_spec.
Qed.
Print Assumptions C06_spec_ok_reading.

(* [iso] is an equivalence (reflexive by the identity): the routing theorems can be read in either direction *)
Theorem C06_iso_sym : forall A B, iso A B -> iso B A.
Proof. exact iso_sym. Qed.
Print Assumptions C06_iso_sym.

Theorem C06_iso_trans : forall A B C, iso A B -> iso B C -> iso A C.
Proof. exact iso_trans. Qed.
Print Assumptions C06_iso_trans.

(* ---- N-Quads, HexTuples: hold for every dataset ---- *)

(* any number of graphs, IRI or blank-node names, shared triples, blank nodes
   shared across graphs and with graph names *)
Theorem C06_nquads : forall D, wfd D -> iso (d_quads D) (roundtrip Nquads D).
Proof. exact nquads_roundtrip. Qed.
Print Assumptions C06_nquads.

(* HexTuples keeps labels: the very same quads come back *)
Theorem C06_hext : forall D, wfd D -> qseteq (roundtrip Hext D) (d_quads D).
Proof. exact hext_roundtrip. Qed.
Print Assumptions C06_hext.

(* ---- TriG ---- *)

(* full strength: every dataset.  A blank-node object with a single reference
   is written inline as [ ... ] (a brand-new node after parsing); because the
   graph label counts as a reference such a node occurs nowhere else, so the
   result is still a renaming of the original. *)
Theorem C06_trig_routing : forall D, wfd D -> iso (d_quads D) (roundtrip Trig D).
Proof. exact trig_roundtrip. Qed.
Print Assumptions C06_trig_routing.

Definition trig_witness : dset :=
  {| d_ctxs := [0; 27]%N; d_quads := [((24, 8, 27), 27)]%N |}.

(* the code before the repair of finding F19 (graph label not counted as a
   reference) did not have the property *)
Theorem C06_trig_prefix_refuted :
  exists D, wfd D /\ ~ iso (d_quads D) (parse_doc true (ser_trig_gen false D)).
Proof.
  exists trig_witness. split; [apply wfdb_spec; vm_compute; reflexivity|].
  intros H. apply isob_complete in H. vm_compute in H. discriminate.
Qed.
Print Assumptions C06_trig_prefix_refuted.

(* ---- TriX ---- *)

(* full statement is FALSE (finding F17); it holds when no blank node names a
   non-empty graph and is a node of some triple at the same time *)
Theorem C06_trix_routing_partial : forall D, wfd D -> names_apart D -> iso (d_quads D) (roundtrip Trix D).
Proof. exact trix_roundtrip. Qed.
Print Assumptions C06_trix_routing_partial.

Definition trix_witness : dset :=
  {| d_ctxs := [0; 17]%N; d_quads := [((2, 6, 17), 0); ((2, 6, 4), 17)]%N |}.

Theorem C06_trix_routing_refuted :
  exists D, wfd D /\ ~ iso (d_quads D) (roundtrip Trix D).
Proof.
  exists trix_witness. split; [apply wfdb_spec; vm_compute; reflexivity|].
  intros H. apply isob_complete in H. vm_compute in H. discriminate.
Qed.
Print Assumptions C06_trix_routing_refuted.

(* ---- JSON-LD ---- *)

(* full statement is FALSE (finding F8b); it holds when no blank-node-named
   graph holds a triple - and then labels are kept: the same quads come back *)
Theorem C06_jsonld_routing_partial : forall D, wfd D -> no_bnode_graph D ->
  qseteq (roundtrip Jsonld D) (d_quads D).
Proof. exact jsonld_roundtrip. Qed.
Print Assumptions C06_jsonld_routing_partial.

(* what comes back in general: the triples of every blank-node-named graph are
   in the default graph, IRI-named graphs are intact *)
Theorem C06_jsonld_merges : forall D q,
  In q (roundtrip Jsonld D) <->
    (snd q = 0%N /\ (In (fst q, 0%N) (d_quads D)
                     \/ exists c, isb c = true /\ In c (ds_contexts D) /\ In (fst q, c) (d_quads D)))
    \/ (isb (snd q) = false /\ snd q <> 0%N /\ In (snd q) (ds_contexts D) /\ In q (d_quads D)).
Proof. exact jsonld_roundtrip_In. Qed.
Print Assumptions C06_jsonld_merges.

(* inside finding F8b NOTHING ELSE happens, for every dataset: what comes back is exactly the
   dataset with each blank-node-named graph folded into the default graph (labels kept).  The
   correspondence check compares the implementation with this prediction on every JSON-LD case
   that has such a graph (a KNOWN-FINDING needs model = implementation). *)
Theorem C06_jsonld_only_merges : forall D, wfd D -> qseteq (roundtrip Jsonld D) (f8b_expected D).
Proof. exact jsonld_only_merges. Qed.
Print Assumptions C06_jsonld_only_merges.

Definition jsonld_witness : dset :=
  {| d_ctxs := [0; 209]%N; d_quads := [((2, 6, 4), 209)]%N |}.

Theorem C06_jsonld_routing_refuted :
  exists D, wfd D /\ ~ iso (d_quads D) (roundtrip Jsonld D).
Proof.
  exists jsonld_witness. split; [apply wfdb_spec; vm_compute; reflexivity|].
  intros H. apply isob_complete in H. vm_compute in H. discriminate.
Qed.
Print Assumptions C06_jsonld_routing_refuted.

(* ---- RDF Patch ---- *)

Theorem C06_patch_add : forall D, wfd D -> qseteq (roundtrip PatchAdd D) (d_quads D).
Proof. exact patch_add_roundtrip. Qed.
Print Assumptions C06_patch_add.

(* full strength: every pair of datasets, empty target included *)
Theorem C06_patch_diff_apply : forall S T,
  qseteq (apply_patch (ser_patch_diff S T) (d_quads S)) (d_quads T).
Proof. exact patch_diff_apply. Qed.
Print Assumptions C06_patch_diff_apply.

(* the code before the repair of finding F18 (target tested by truthiness)
   did not have the property *)
Theorem C06_patch_diff_prefix_refuted :
  exists S T, wfd S /\ wfd T /\ ~ qseteq (apply_patch (ser_patch_diff_prefix S T) (d_quads S)) (d_quads T).
Proof.
  exists {| d_ctxs := [0%N]; d_quads := [((2, 6, 4), 0)]%N |}, {| d_ctxs := [0%N]; d_quads := [] |}.
  split; [apply wfdb_spec; vm_compute; reflexivity|]. split; [apply wfdb_spec; vm_compute; reflexivity|].
  intros H. apply qseteqb_spec in H. vm_compute in H. discriminate.
Qed.
Print Assumptions C06_patch_diff_prefix_refuted.

(* ---- model and checker ---- *)

(* What the correspondence check evaluates on the implementation's answers is
   satisfied by the model on every case outside the two open findings (F8b, F17). *)
Theorem C06_spec_ok_model : forall c, wf c -> kf c = 0%N -> spec_ok c (model_obs c) = true.
Proof. exact spec_ok_model. Qed.
Print Assumptions C06_spec_ok_model.

(* ================================================================== text level
   N-Quads and RDF Patch documents as strings of code points, on top of C03's
   model of the N-Triples term spelling and readline (coq/Codec).  A text-level
   quad is (triple, None | Some graph name); [good_tquad]: what rdflib accepts
   when writing (valid IRIs with a scheme, legal labels / language tags).  The
   reader returns blank-node LABELS; the label policy is the routing level above. *)

(* one statement line of the N-Quads writer is read back by parseline as that quad *)
Theorem C06_nquads_line : forall q, good_tquad q = true -> nq_parseline (nq_line q) = Got q.
Proof. exact nq_parseline_line. Qed.
Print Assumptions C06_nquads_line.

(* every well-formed dataset, any buffer size of readline: the document written by
   NQuadsSerializer.serialize is read back as exactly the quads of the dataset *)
Theorem C06_nquads_text : forall n, (1 <= n)%nat -> forall qs, forallb good_tquad qs = true ->
  exists s, nq_doc qs = Some s /\ nq_parse_doc n s = Some qs.
Proof. exact nq_text_roundtrip. Qed.
Print Assumptions C06_nquads_text.

(* header rows, TX, A / D rows (N-Triples rows for the default graph, N-Quads rows
   otherwise), TC: read back as exactly the rows.  [patch_ok]: no IRI begins with '_'
   (the patch reader takes "<_" for a labelled blank node; no legal IRI does) *)
Theorem C06_patch_text : forall n, (1 <= n)%nat -> forall hid hprev rs,
  h_no_nl hid = true -> h_no_nl hprev = true -> forallb good_prow rs = true ->
  exists s, patch_doc hid hprev rs = Some s /\ patch_parse_doc n s = Some rs.
Proof. exact patch_text_roundtrip. Qed.
Print Assumptions C06_patch_text.

(* apply (read (write (diff a b))) a = b, at text level, for every pair of datasets *)
Theorem C06_patch_text_diff_apply : forall n, (1 <= n)%nat -> forall hid hprev a b,
  h_no_nl hid = true -> h_no_nl hprev = true ->
  forallb good_tquad a = true -> forallb good_tquad b = true ->
  forallb patch_ok a = true -> forallb patch_ok b = true ->
  exists s rs, patch_doc hid hprev (diff_rows a b) = Some s /\ patch_parse_doc n s = Some rs
               /\ forall q, In q (apply_prows rs a) <-> In q b.
Proof. exact patch_text_diff_apply. Qed.
Print Assumptions C06_patch_text_diff_apply.

Theorem C06_text_spec_model : forall c, tx_wf c = true -> tx_spec c (tx_model c) = true.
Proof. exact tx_spec_model. Qed.
Print Assumptions C06_text_spec_model.

Theorem C06_text_spec_reading_nquads : forall qs text back,
  forallb good_tquad qs = true -> tx_spec (NqWrite qs) (ObsNq text back) = true ->
  exists t r, text = Some t /\ back = Some r /\ forall q, In q r <-> In q qs.
Proof. exact tx_spec_reading_nq. Qed.
Print Assumptions C06_text_spec_reading_nquads.

Theorem C06_text_spec_reading_patch : forall hid hprev a b text applied,
  tx_wf (PtWrite hid hprev a b) = true -> tx_spec (PtWrite hid hprev a b) (ObsPt text applied) = true ->
  exists t r, text = Some t /\ applied = Some r /\ forall q, In q r <-> In q b.
Proof. exact tx_spec_reading_patch. Qed.
Print Assumptions C06_text_spec_reading_patch.

(* ---- HexTuples rows of datasets (row = the six strings handed to json; coq/Codec/Hext.v for the triple part) *)

(* a row with its graph column is read back as the quad; a simple literal comes back as xsd:string *)
Theorem C06_hext_row : forall q, hext_good q = true -> hext_parse (hext_row_q q) = Some (hext_norm_q q).
Proof. exact hext_row_q_roundtrip. Qed.
Print Assumptions C06_hext_row.

(* every well-formed dataset: the rows written (the default graph's twice) are read back as its quads *)
Theorem C06_hext_text : forall qs, forallb hext_good qs = true ->
  exists back, hext_read (hext_doc qs) = Some back /\ forall q, In q back <-> In q (map hext_norm_q qs).
Proof. exact hext_text_roundtrip. Qed.
Print Assumptions C06_hext_text.

Theorem C06_hext_text_spec_model : forall c, hq_spec c (hq_model c) = true.
Proof. exact hq_spec_model. Qed.
Print Assumptions C06_hext_text_spec_model.

(* ---- TriX at the level of the XML tree *)

(* the tree _writeGraph/_writeTriple build is read by the TriXHandler state machine as the
   graphs of the dataset, for EVERY well-formed dataset: IRI-named graphs under their
   name, blank-node-named graphs as ANONYMOUS graphs (F17, visible in [expect_doc]).
   The reader strips XML white space only, which no valid IRI or label contains. *)
Theorem C06_trix_tree : forall gs, forallb trix_wf gs = true -> rd_doc (wr_doc gs) = Some (expect_doc gs).
Proof. exact trix_tree_roundtrip. Qed.
Print Assumptions C06_trix_tree.

(* the reader before the repair of finding F20 (str.strip() without argument, i.e. the class
   str.isspace) did not have the property: U+00A0 at the end of an IRI was removed *)
Theorem C06_trix_tree_prefix_refuted :
  forallb trix_wf f20_witness = true
  /\ opt_eqb segs_eqb (rd_doc_gen is_space (wr_doc f20_witness)) (Some (expect_doc f20_witness)) = false.
Proof. exact trix_strip_prefix_refuted. Qed.
Print Assumptions C06_trix_tree_prefix_refuted.

Theorem C06_trix_tree_spec_model : forall c, xt_wf c = true -> xt_spec c (xt_model c) = true.
Proof. exact xt_spec_model. Qed.
Print Assumptions C06_trix_tree_spec_model.

(* ================================================================== the two levels agree
   [iri_of], [obj_of], [lab_of]: ANY spelling of the routing level's numbers as IRIs / object
   terms / blank-node labels that rdflib accepts when writing (an odd number gets the same
   label as a term and as a graph name).  Rows = the statements of the routing-level document
   with the label of their block. *)

Theorem C06_nquads_levels_agree :
  forall (iri_of : N -> CM.str) (obj_of : N -> CM.obj) (lab_of : N -> CM.str),
  (forall x, CM.wf_iri (iri_of x) = true /\ CP.valid_str (iri_of x) = true) ->
  (forall x, CM.wf_label (lab_of x) = true /\ CP.valid_str (lab_of x) = true) ->
  (forall x, CM.wf_obj (obj_of x) = true /\ CP.pystr_obj (obj_of x) = true) ->
  forall D, wfd D -> forall n, (1 <= n)%nat ->
  let R := rows (ser_nquads D) in
  let enc := enc_row iri_of obj_of lab_of in
  (* the encoded rows of the routing-level document are the encoded quads of the dataset *)
  map enc R = map (enc_quad iri_of obj_of lab_of) (map row_quad R)
  /\ (forall q, In q (d_quads D) <-> In q (map row_quad R))
  (* the text the text-level writer produces for them is read back as exactly these rows *)
  /\ (exists text, TX.nq_doc (map enc R) = Some text /\ TX.nq_parse_doc n text = Some (map enc R))
  (* and the routing-level reader on these rows gives the original dataset up to blank-node renaming *)
  /\ iso (d_quads D) (parse_doc true (rowdoc R)).
Proof. exact nquads_levels_agree. Qed.
Print Assumptions C06_nquads_levels_agree.

Theorem C06_patch_levels_agree :
  forall (iri_of : N -> CM.str) (obj_of : N -> CM.obj) (lab_of : N -> CM.str),
  (forall x, CM.wf_iri (iri_of x) = true /\ CP.valid_str (iri_of x) = true) ->
  (forall x, CM.wf_label (lab_of x) = true /\ CP.valid_str (lab_of x) = true) ->
  (forall x, CM.wf_obj (obj_of x) = true /\ CP.pystr_obj (obj_of x) = true) ->
  (forall x, match iri_of x with c :: _ => N.eqb c 95 = false | [] => True end) ->
  (forall x, match obj_of x with CM.ONode (CM.Iri (c :: _)) => N.eqb c 95 = false | _ => True end) ->
  forall S T n, (1 <= n)%nat ->
  let R := ser_patch_diff S T in
  let enc := enc_prow iri_of obj_of lab_of in
  (exists text, TX.patch_doc None None (map enc R) = Some text /\ TX.patch_parse_doc n text = Some (map enc R))
  /\ qseteq (apply_patch R (d_quads S)) (d_quads T).
Proof. exact patch_levels_agree. Qed.
Print Assumptions C06_patch_levels_agree.

Theorem C06_hext_levels_agree :
  forall (iri_of : N -> CM.str) (obj_of : N -> CM.obj) (lab_of : N -> CM.str),
  (forall x, CM.wf_iri (iri_of x) = true /\ CP.valid_str (iri_of x) = true) ->
  (forall x, CM.wf_label (lab_of x) = true /\ CP.valid_str (lab_of x) = true) ->
  (forall x, CM.wf_obj (obj_of x) = true /\ CP.pystr_obj (obj_of x) = true) ->
  (forall x, match iri_of x with c :: _ => N.eqb c 95 = false | [] => True end) ->
  (forall x, CH.has_bn_marker (lab_of x) = false) ->
  (forall x, match obj_of x with CM.ONode n => CH.hext_node_ok n = true | _ => True end) ->
  forall D, wfd D ->
  let R := rows (ser_hext D) in
  let R0 := rows (blocks_of lab_std D (ds_contexts D)) in
  let enc := enc_row iri_of obj_of lab_of in
  (forall x, In x (HT.hext_doc (map enc R0)) <-> In x (map HT.hext_row_q (map enc R)))
  /\ (forall q, In q (d_quads D) <-> In q (map row_quad R))
  /\ HT.hext_read (map HT.hext_row_q (map enc R)) = Some (map HT.hext_norm_q (map enc R))
  /\ qseteq (parse_doc false (ser_hext D)) (d_quads D).
Proof. exact hext_levels_agree. Qed.
Print Assumptions C06_hext_levels_agree.

(* TriX: the tree level and the routing level describe the same document; F17 appears at both
   (anonymous segment / GAnon block) and is the hypothesis [names_apart] of the routing theorem *)
Theorem C06_trix_levels_agree :
  forall (iri_of : N -> CM.str) (obj_of : N -> CM.obj) (lab_of : N -> CM.str),
  (forall x, CM.wf_iri (iri_of x) = true /\ CP.valid_str (iri_of x) = true) ->
  (forall x, CM.wf_label (lab_of x) = true /\ CP.valid_str (lab_of x) = true) ->
  (forall x, CM.wf_obj (obj_of x) = true /\ CP.pystr_obj (obj_of x) = true) ->
  forall D, wfd D -> names_apart D ->
  XT.wr_doc (map (enc_graph iri_of obj_of lab_of D) (ds_contexts D)) = map (tree_block iri_of obj_of lab_of) (ser_trix D)
  /\ XT.rd_doc (map (tree_block iri_of obj_of lab_of) (ser_trix D))
      = Some (flat_map (seg_block iri_of obj_of lab_of) (ser_trix D))
  /\ iso (d_quads D) (parse_doc true (ser_trix D)).
Proof. exact trix_levels_agree. Qed.
Print Assumptions C06_trix_levels_agree.

(* the hypotheses on the spelling are satisfiable, e.g. IRIs u:xx...x and labels bxx...x *)
Example C06_levels_spelling_exists :
  exists (iri_of : N -> CM.str) (obj_of : N -> CM.obj) (lab_of : N -> CM.str),
    (forall x, CM.wf_iri (iri_of x) = true /\ CP.valid_str (iri_of x) = true)
    /\ (forall x, CM.wf_label (lab_of x) = true /\ CP.valid_str (lab_of x) = true)
    /\ (forall x, CM.wf_obj (obj_of x) = true /\ CP.pystr_obj (obj_of x) = true)
    /\ (forall x y, iri_of x = iri_of y -> x = y) /\ (forall x y, lab_of x = lab_of y -> x = y).
Proof. exact spelling_exists. Qed.

(* non-vacuity: two named graphs (one IRI-named, one blank-node-named), an empty
   named graph, a triple present in three graphs, a blank node shared by the
   graphs and one that is a graph name and a term: N-Quads renames (the result is
   not the same list of numbers) and the result is accepted *)
Example C06_nonvacuous :
  let D := {| d_ctxs := [0; 202; 17; 204]%N;
              d_quads := [((2, 6, 27), 0); ((2, 6, 27), 202); ((2, 6, 27), 17);
                          ((27, 8, 12), 202); ((4, 6, 17), 0)]%N |} in
  let c := {| c_fmt := Nquads; c_src := D; c_tgt := {| d_ctxs := []; d_quads := [] |} |} in
  wf c /\ kf c = 0%N /\ qseteqb (snd (model_obs c)) (d_quads D) = false
  /\ spec_ok c (model_obs c) = true /\ length (snd (model_obs c)) = 5%nat.
Proof.
  cbv zeta. split; [unfold wf; cbn [c_fmt c_src c_tgt]; split; [apply wfdb_spec; vm_compute; reflexivity|exact I]|].
  split; [vm_compute; reflexivity|]. split; [vm_compute; reflexivity|].
  split; vm_compute; reflexivity.
Qed.
