(* C06 - Quad syntaxes round-trip a Dataset: each triple returns to the graph it
   was in.  Property theorems only; proofs are in Routing/*.v.

   Scope: dataset-level ROUTING (which graph label a serialiser writes for each
   statement and which graph the parser puts it into, with the parsers'
   blank-node label policies).  Identifiers are numbers, odd = blank node (the
   same odd number is the same blank node as a term and as a graph name),
   graph id 0 = the default graph.  [iso A B]: B is A with its blank nodes
   renamed injectively.  [wfd D]: the store lists every graph that holds a triple. *)
From RV Require Import Routing.Model Routing.Proofs Routing.Relabel Routing.Trix Routing.Trig Routing.Patch.

(* ---- the comparison used by the specification checker ---- *)

Theorem C06_isob_reflects_iso : forall A B, isob A B = true <-> iso A B.
Proof. exact isob_spec. Qed.
Print Assumptions C06_isob_reflects_iso.

(* what [spec_ok] says about an observed result *)
Theorem C06_spec_ok_reading : forall c o,
  spec_ok c o = true <->
  match c_fmt c with
  | PatchDiff => qseteq (snd o) (d_quads (c_tgt c))
  | _ => iso (d_quads (c_src c)) (snd o)
  end.
Proof.
  intros c o. unfold spec_ok. destruct (c_fmt c); try apply isob_spec. apply qseteqb_spec.
Qed.
Print Assumptions C06_spec_ok_reading.

(* ---- N-Quads, HexTuples: hold for every dataset ---- *)

(* any number of graphs, IRI or blank-node names, shared triples, blank nodes
   shared across graphs and with graph names *)
Theorem C06_nquads : forall D, wfd D -> iso (d_quads D) (roundtrip Nquads D).
Proof. exact nquads_roundtrip. Qed.
Print Assumptions C06_nquads.

(* HexTuples keeps labels: the very same quads come back *)
Theorem C06_hext : forall D, wfd D -> qseteq (roundtrip Hext D) (d_quads D).
Proof. exact hext_roundtrip. Qed.
Print Assumptions C06_hext.

(* ---- TriG ---- *)

(* full strength: every dataset.  A blank-node object with a single reference
   is written inline as [ ... ] (a brand-new node after parsing); because the
   graph label counts as a reference such a node occurs nowhere else, so the
   result is still a renaming of the original. *)
Theorem C06_trig_routing : forall D, wfd D -> iso (d_quads D) (roundtrip Trig D).
Proof. exact trig_roundtrip. Qed.
Print Assumptions C06_trig_routing.

Definition trig_witness : dset :=
  {| d_ctxs := [0; 27]%N; d_quads := [((24, 8, 27), 27)]%N |}.

(* the code before the repair of finding F19 (graph label not counted as a
   reference) did not have the property *)
Theorem C06_trig_prefix_refuted :
  exists D, wfd D /\ ~ iso (d_quads D) (parse_doc true (ser_trig_gen false D)).
Proof.
  exists trig_witness. split; [apply wfdb_spec; vm_compute; reflexivity|].
  intros H. apply isob_complete in H. vm_compute in H. discriminate.
Qed.
Print Assumptions C06_trig_prefix_refuted.

(* ---- TriX ---- *)

(* full statement is FALSE (finding F17); it holds when no blank node names a
   non-empty graph and is a node of some triple at the same time *)
Theorem C06_trix_routing_partial : forall D, wfd D -> names_apart D -> iso (d_quads D) (roundtrip Trix D).
Proof. exact trix_roundtrip. Qed.
Print Assumptions C06_trix_routing_partial.

Definition trix_witness : dset :=
  {| d_ctxs := [0; 17]%N; d_quads := [((2, 6, 17), 0); ((2, 6, 4), 17)]%N |}.

Theorem C06_trix_routing_refuted :
  exists D, wfd D /\ ~ iso (d_quads D) (roundtrip Trix D).
Proof.
  exists trix_witness. split; [apply wfdb_spec; vm_compute; reflexivity|].
  intros H. apply isob_complete in H. vm_compute in H. discriminate.
Qed.
Print Assumptions C06_trix_routing_refuted.

(* ---- JSON-LD ---- *)

(* full statement is FALSE (finding F8b); it holds when no blank-node-named
   graph holds a triple - and then labels are kept: the same quads come back *)
Theorem C06_jsonld_routing_partial : forall D, wfd D -> no_bnode_graph D ->
  qseteq (roundtrip Jsonld D) (d_quads D).
Proof. exact jsonld_roundtrip. Qed.
Print Assumptions C06_jsonld_routing_partial.

(* what comes back in general: the triples of every blank-node-named graph are
   in the default graph, IRI-named graphs are intact *)
Theorem C06_jsonld_merges : forall D q,
  In q (roundtrip Jsonld D) <->
    (snd q = 0%N /\ (In (fst q, 0%N) (d_quads D)
                     \/ exists c, isb c = true /\ In c (ds_contexts D) /\ In (fst q, c) (d_quads D)))
    \/ (isb (snd q) = false /\ snd q <> 0%N /\ In (snd q) (ds_contexts D) /\ In q (d_quads D)).
Proof. exact jsonld_roundtrip_In. Qed.
Print Assumptions C06_jsonld_merges.

Definition jsonld_witness : dset :=
  {| d_ctxs := [0; 209]%N; d_quads := [((2, 6, 4), 209)]%N |}.

Theorem C06_jsonld_routing_refuted :
  exists D, wfd D /\ ~ iso (d_quads D) (roundtrip Jsonld D).
Proof.
  exists jsonld_witness. split; [apply wfdb_spec; vm_compute; reflexivity|].
  intros H. apply isob_complete in H. vm_compute in H. discriminate.
Qed.
Print Assumptions C06_jsonld_routing_refuted.

(* ---- RDF Patch ---- *)

Theorem C06_patch_add : forall D, wfd D -> qseteq (roundtrip PatchAdd D) (d_quads D).
Proof. exact patch_add_roundtrip. Qed.
Print Assumptions C06_patch_add.

(* full strength: every pair of datasets, empty target included *)
Theorem C06_patch_diff_apply : forall S T,
  qseteq (apply_patch (ser_patch_diff S T) (d_quads S)) (d_quads T).
Proof. exact patch_diff_apply. Qed.
Print Assumptions C06_patch_diff_apply.

(* the code before the repair of finding F18 (target tested by truthiness)
   did not have the property *)
Theorem C06_patch_diff_prefix_refuted :
  exists S T, wfd S /\ wfd T /\ ~ qseteq (apply_patch (ser_patch_diff_prefix S T) (d_quads S)) (d_quads T).
Proof.
  exists {| d_ctxs := [0%N]; d_quads := [((2, 6, 4), 0)]%N |}, {| d_ctxs := [0%N]; d_quads := [] |}.
  split; [apply wfdb_spec; vm_compute; reflexivity|]. split; [apply wfdb_spec; vm_compute; reflexivity|].
  intros H. apply qseteqb_spec in H. vm_compute in H. discriminate.
Qed.
Print Assumptions C06_patch_diff_prefix_refuted.

(* ---- model and checker ---- *)

(* What the correspondence check evaluates on the implementation's answers is
   satisfied by the model on every case outside the two open findings (F8b, F17). *)
Theorem C06_spec_ok_model : forall c, wf c -> kf c = 0%N -> spec_ok c (model_obs c) = true.
Proof. exact spec_ok_model. Qed.
Print Assumptions C06_spec_ok_model.

(* non-vacuity: two named graphs (one IRI-named, one blank-node-named), an empty
   named graph, a triple present in three graphs, a blank node shared by the
   graphs and one that is a graph name and a term: N-Quads renames (the result is
   not the same list of numbers) and the result is accepted *)
Example C06_nonvacuous :
  let D := {| d_ctxs := [0; 202; 17; 204]%N;
              d_quads := [((2, 6, 27), 0); ((2, 6, 27), 202); ((2, 6, 27), 17);
                          ((27, 8, 12), 202); ((4, 6, 17), 0)]%N |} in
  let c := {| c_fmt := Nquads; c_src := D; c_tgt := {| d_ctxs := []; d_quads := [] |} |} in
  wf c /\ kf c = 0%N /\ qseteqb (snd (model_obs c)) (d_quads D) = false
  /\ spec_ok c (model_obs c) = true /\ length (snd (model_obs c)) = 5%nat.
Proof.
  cbv zeta. split; [unfold wf; cbn [c_fmt c_src c_tgt]; split; [apply wfdb_spec; vm_compute; reflexivity|exact I]|].
  split; [vm_compute; reflexivity|]. split; [vm_compute; reflexivity|].
  split; vm_compute; reflexivity.
Qed.
