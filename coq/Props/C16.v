(* C16 - SPARQL results survive their exchange formats.  Property theorems only;
   the model is Results/Model.v, proofs are in Results/Proofs*.v and Results/Main.v.
   Terms are IRI s | BNode s | Lit lex dt lang over strings of code points; the Python
   constructor Literal(lex, dt, lang) is taken to keep that triple (its normalisation is C09).
   The model mirrors the code after the repairs of F11a-F11h (notes/C16.md): no trigger
   region is left, every theorem below is stated for all well-formed cases. *)
From RV Require Import Results.Model Results.Proofs Results.ProofsXml Results.ProofsTsv Results.ProofsTsvDoc Results.Main.
Local Open Scope N_scope.

(* JSON: parseJsonTerm inverts termToJSON on every term *)
Theorem C16_json_term : forall t, term_wf t = true ->
  exists j, termToJSON (Some t) = Some j /\ parseJsonTerm j = Some t.
Proof. exact json_term. Qed.
Print Assumptions C16_json_term.

(* JSON: for ANY json library with loads (dumps v) = v, a SELECT result comes back with its
   variables in order and, row by row, exactly its bound cells - rows with nothing bound included
   (bound_of r = [] for them, and the row is still there); an ASK result keeps its answer *)
Theorem C16_json_result : forall (text : Type) (dumps : json -> text) (loads : text -> json),
  (forall v, loads (dumps v) = v) ->
  forall vars rows, forallb (row_wf vars) rows = true ->
    json_parse (loads (dumps (json_serialize None vars rows))) = OSel vars (map bound_of rows)
    /\ rows_ok vars rows (map bound_of rows) = true
    /\ forall b, json_parse (loads (dumps (json_serialize (Some b) vars rows))) = OAsk b.
Proof.
  intros text dumps loads H vars rows Hw. split; [|split].
  - exact (json_select text dumps loads H vars rows Hw).
  - exact (rows_ok_bound_of vars rows Hw).
  - intro b. exact (json_ask text dumps loads H b vars rows).
Qed.
Print Assumptions C16_json_result.

(* XML, character level: what SPARQLXMLWriter._characters writes (escape of & < >, CR as the
   reference &#13; between the pieces of text.split(CR)) is read back unchanged for EVERY string of
   XML Chars, carriage returns included; what quoteattr writes likewise *)
Theorem C16_xml_text : forall s, str_xml s = true -> xml_read false (xml_characters s) = Some s.
Proof. exact xml_read_characters. Qed.
Print Assumptions C16_xml_text.

Theorem C16_xml_attr : forall s, forallb is_xml_char s = true -> xml_read_attr (sax_quoteattr s) = Some s.
Proof. exact xml_read_attr_ok. Qed.
Print Assumptions C16_xml_attr.

(* XML, one term: element written by write_binding, decoded by the XML reader, parseTerm - any
   well-formed term over XML Chars: empty IRI, empty datatype IRI, CR, falsy values included *)
Theorem C16_xml_term : forall t,
  term_wf t = true -> forallb str_xml (term_strings t) = true -> xml_elem_roundtrip t = Some t.
Proof. exact xml_term_ok. Qed.
Print Assumptions C16_xml_term.

(* XML, a SELECT result: if every string is expressible in XML 1.0 it comes back with its variables
   in order and row by row its bound cells (all-unbound rows kept); otherwise the serialiser refuses
   (ResultException) - it never writes a document that cannot be read or that reads differently *)
Theorem C16_xml_select : forall c, wf c = true -> c_fmt c = FXml -> c_ask c = None ->
  model_obs c = if xml_expressible c then OSel (c_vars c) (map bound_of (c_rows c)) else ORefused.
Proof. exact xml_select. Qed.
Print Assumptions C16_xml_select.

Theorem C16_xml_result : forall c, wf c = true -> c_fmt c = FXml -> spec_ok c (model_obs c) = true.
Proof. exact xml_ok. Qed.
Print Assumptions C16_xml_result.

(* TSV: the reader's TERM scanner recovers every term from every rendering of the W3C term grammar
   (either quote, optional ECHARs - that of the other quote included -, bare integers and booleans),
   whatever follows in the row *)
Theorem C16_tsv_terms : forall st t rest,
  term_wf t = true -> term_tsv_ok t = true -> at_empty rest = true ->
  scan_term (render_term st t ++ rest) = Some (t, rest).
Proof. exact scan_term_render. Qed.
Print Assumptions C16_tsv_terms.

(* TSV, one row: ROW applied to the rendering of a table row (any pattern of unbound cells, trailing
   ones included) yields its cells in order, and zip(vars, cells) agrees with the row on every variable *)
Theorem C16_tsv_row : forall st vars r,
  vars <> [] -> NoDup vars -> (forall v, In v vars -> cell_ok st (cell v r)) ->
  exists cells, scan_row (S (List.length (render_row st vars r))) (render_row st vars r) = Some cells
                /\ row_ok vars r (zip_row vars cells) = true.
Proof. exact tsv_row_ok. Qed.
Print Assumptions C16_tsv_row.

(* TSV, the whole document, from any kind of source: the reader gives back the variables in order
   and one dictionary per table row, in order - rows with nothing bound included, any legal variable
   names, any characters inside IRIs and literals (U+2028, FF, U+0085 ... are no line ends).
   All hypotheses are well-formedness. *)
Theorem C16_tsv_rows : forall st vars rows,
  vars <> [] -> forallb varname_ok vars = true ->
  (forall r, In r rows -> forall v, In v vars -> cell_ok st (cell v r)) ->
  (forall r, In r rows -> forall t, In t (row_terms r) -> term_tsv_ok t = true) ->
  tsv_parse (render_doc st vars rows)
  = OSel vars (map (fun r => zip_row vars (map (fun v => cell v r) vars)) rows).
Proof. exact tsv_doc_ok. Qed.
Print Assumptions C16_tsv_rows.

Theorem C16_tsv_result : forall c, wf c = true -> c_fmt c = FTsv -> spec_ok c (model_obs c) = true.
Proof. exact tsv_ok. Qed.
Print Assumptions C16_tsv_result.

(* CSV: header, row sequence and the string value of every cell *)
Theorem C16_csv_cells : forall c, wf c = true -> c_fmt c = FCsv -> spec_ok c (model_obs c) = true.
Proof. exact csv_main. Qed.
Print Assumptions C16_csv_cells.

(* model and checker, all four formats, every well-formed case *)
Theorem C16_spec_ok_model : forall c, wf c = true -> spec_ok c (model_obs c) = true.
Proof. exact spec_ok_model. Qed.
Print Assumptions C16_spec_ok_model.

(* Prop-level readings of the checker *)
Theorem C16_spec_select_reading : forall c vs ps,
  c_fmt c <> FCsv -> c_ask c = None -> (c_fmt c = FXml -> xml_expressible c = true) ->
  (spec_ok c (OSel vs ps) = true <-> vs = c_vars c /\ Forall2 (row_agrees (c_vars c)) (c_rows c) ps).
Proof. exact spec_ok_select_reading. Qed.
Print Assumptions C16_spec_select_reading.

Theorem C16_spec_refusal_reading : forall c o,
  c_fmt c = FXml -> c_ask c = None -> xml_expressible c = false ->
  (spec_ok c o = true <-> o = ORefused).
Proof. exact spec_ok_refusal_reading. Qed.
Print Assumptions C16_spec_refusal_reading.

Theorem C16_spec_ask_reading : forall c b o,
  c_fmt c <> FCsv -> c_ask c = Some b -> (spec_ok c o = true <-> o = OAsk b).
Proof. exact spec_ok_ask_reading. Qed.
Print Assumptions C16_spec_ask_reading.

Theorem C16_spec_csv_reading : forall c o,
  c_fmt c = FCsv ->
  (spec_ok c o = true <->
   o = OCells (c_vars c :: map (fun r => map (fun v => csv_value (cell v r)) (c_vars c)) (c_rows c))).
Proof. exact spec_ok_csv_reading. Qed.
Print Assumptions C16_spec_csv_reading.

(* history: the TSV row loop before 40b19e31 (kept in the model as tsv_rows_prefix) drops the row
   with nothing bound, the current one keeps it; line splitting as before e84c9b4e on byte sources
   (split_lines true) cuts a row at U+2028, the current one (split_lines false) does not *)
Theorem C16_tsv_rows_prefix_refuted :
  tsv_rows_prefix [vx] (split_lines true [] (flat_map (fun r => render_row st0 [vx] r ++ [10]) (c_rows w_F11a)))
  = Some [[(vx, iri_a)]; [(vx, iri_a)]]
  /\ tsv_rows [vx] (split_lines true [] (flat_map (fun r => render_row st0 [vx] r ++ [10]) (c_rows w_F11a)))
    = Some [[(vx, iri_a)]; []; [(vx, iri_a)]].
Proof. exact tsv_rows_prefix_refuted. Qed.
Print Assumptions C16_tsv_rows_prefix_refuted.

Theorem C16_split_lines_prefix_refuted :
  List.length (split_lines true [] (render_doc st0 [vx] (c_rows w_F11e))) = 3%nat
  /\ List.length (split_lines false [] (render_doc st0 [vx] (c_rows w_F11e))) = 2%nat.
Proof. exact split_lines_prefix_refuted. Qed.
Print Assumptions C16_split_lines_prefix_refuted.

(* non-vacuity: an XML case with specials, CR, a falsy literal, the empty IRI, an empty datatype,
   an unbound row and a trailing unbound column; an inexpressible one that is refused; a TSV case
   with all styles, a line separator inside a literal and an all-unbound row *)
Example C16_nonvacuous :
  let t1 := Lit [97; 38; 60; 34; 39; 9; 10; 13; 128512] None (Some [101; 110]) in
  let t2 := Lit [55] (Some []) None in
  let t0 := Lit [48] (Some xsd_integer) None in
  let c := {| c_fmt := FXml; c_ask := None; c_vars := [[120]; [121]];
              c_rows := [[([120], Some t1)]; []; [([120], Some t2)]; [([121], Some (IRI [])); ([120], Some t0)]];
              c_style := st0; c_bytes := true |} in
  wf c = true /\ xml_expressible c = true
  /\ model_obs c = OSel [[120]; [121]] [[([120], t1)]; []; [([120], t2)]; [([121], IRI []); ([120], t0)]]
  /\ (wf w_F11b = true /\ xml_expressible w_F11b = false /\ model_obs w_F11b = ORefused)
  /\ let c' := {| c_fmt := FTsv; c_ask := None; c_vars := [[120]; [121]];
                  c_rows := [[([121], Some (Lit [97; 8232; 39; 34] None None))]; [];
                             [([120], Some t0); ([121], Some (BNode [98; 46; 99]))]];
                  c_style := {| st_sq := true; st_esc_all := true; st_bare := true; st_cross := true |};
                  c_bytes := true |} in
     wf c' = true /\ spec_ok c' (model_obs c') = true.
Proof. vm_compute. repeat split. Qed.
