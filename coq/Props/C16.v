(* C16 - SPARQL results survive their exchange formats.  Property theorems only;
   the model is Results/Model.v, proofs are in Results/Proofs*.v and Results/Main.v.
   Terms are IRI s | BNode s | Lit lex dt lang over strings of code points; the Python
   constructor Literal(lex, dt, lang) is taken to keep that triple (its normalisation is C09).
   The model mirrors the code after the repairs of F11a-F11i (notes/C16.md): no trigger
   region is left, every theorem below is stated for all well-formed cases. *)
From RV Require Import Results.Model Results.Proofs Results.ProofsXml Results.ProofsTsv Results.ProofsTsvDoc Results.ProofsCsv Results.Main Results.Dispatch.
From Coq Require Import String.
Local Open Scope N_scope.
Local Open Scope list_scope.

(* JSON: parseJsonTerm inverts termToJSON on every term *)
Theorem C16_json_term : forall t, term_wf t = true ->
  exists j, termToJSON (Some t) = Some j /\ parseJsonTerm j = Some t.
Proof. exact json_term. Qed.
Print Assumptions C16_json_term.

(* JSON: for ANY json library with loads (dumps v) = v, a SELECT result comes back with its
   variables in order and, row by row, exactly its bound cells - rows with nothing bound included
   (bound_of r = [] for them, and the row is still there); an ASK result keeps its answer *)
Theorem C16_json_result : forall (text : Type) (dumps : json -> text) (loads : text -> json),
  (forall v, loads (dumps v) = v) ->
  forall vars rows, forallb name_ok vars = true -> forallb (row_wf vars) rows = true ->
    json_parse (loads (dumps (json_serialize None vars rows))) = OSel vars (map bound_of rows)
    /\ rows_ok vars rows (map bound_of rows) = true
    /\ forall b, json_parse (loads (dumps (json_serialize (Some b) vars rows))) = OAsk b.
Proof.
  intros text dumps loads H vars rows Hn Hw. split; [|split].
  - exact (json_select text dumps loads H vars rows Hn Hw).
  - exact (rows_ok_bound_of vars rows Hw).
  - intro b. exact (json_ask text dumps loads H b vars rows).
Qed.
Print Assumptions C16_json_result.

(* XML, character level: what SPARQLXMLWriter._characters writes (escape of & < >, CR as the
   reference &#13; between the pieces of text.split(CR)) is read back unchanged for EVERY string of
   XML Chars, carriage returns included; what quoteattr writes likewise *)
Theorem C16_xml_text : forall s, str_xml s = true -> xml_read false (xml_characters s) = Some s.
Proof. exact xml_read_characters. Qed.
Print Assumptions C16_xml_text.

Theorem C16_xml_attr : forall s, forallb is_xml_char s = true -> xml_read_attr (sax_quoteattr s) = Some s.
Proof. exact xml_read_attr_ok. Qed.
Print Assumptions C16_xml_attr.

(* XML, the reader is modelled over a generic element tree (find / findall / tag filters / binding[0] /
   attribute look-ups of XMLResult.__init__ and parseTerm as they are): on the tree node of a decoded
   term it computes what parseTerm computes on the term *)
Theorem C16_xml_parseTerm_tree : forall p, xml_parseTerm_e (tree_of_pterm p) = xml_parseTerm p.
Proof. exact parseTerm_tree. Qed.
Print Assumptions C16_xml_parseTerm_tree.

(* XML, one term: element written by write_binding, decoded by the XML reader, parseTerm - any
   well-formed term over XML Chars: empty IRI, empty datatype IRI, CR, falsy values included *)
Theorem C16_xml_term : forall t,
  term_wf t = true -> forallb str_xml (term_strings t) = true -> xml_elem_roundtrip t = Some t.
Proof. exact xml_term_ok. Qed.
Print Assumptions C16_xml_term.

(* XML, a SELECT result: if every string is expressible in XML 1.0 it comes back with its variables
   in order and row by row its bound cells (all-unbound rows kept); otherwise the serialiser refuses
   (ResultException) - it never writes a document that cannot be read or that reads differently *)
Theorem C16_xml_select : forall c, wf c = true -> c_fmt c = FXml -> c_ask c = None ->
  format_obs c = if xml_expressible c then OSel (c_vars c) (map bound_of (c_rows c)) else ORefused.
Proof. exact xml_select. Qed.
Print Assumptions C16_xml_select.

Theorem C16_xml_result : forall c, wf c = true -> c_fmt c = FXml -> spec_ok c (format_obs c) = true.
Proof. exact xml_ok. Qed.
Print Assumptions C16_xml_result.

(* TSV: the reader's TERM scanner recovers every term from every rendering of this family (16 styles):
   IRIREF, BLANK_NODE_LABEL, STRING_LITERAL1/2 with any choice of the optional ECHARs, language tag or
   datatype; and the bare forms true/false, INTEGER and -INTEGER (canonical), DECIMAL and -DECIMAL
   (canonical integer part) - i.e. every shorthand whose lexical form Literal() keeps.  NOT in the family:
   DOUBLE shorthands and +signed numbers (rdflib reads them but Literal() re-spells the lexical form: "1e0"
   comes back as "1.0"^^xsd:double - the value survives, the term of the rendering does not; such terms are
   not fixed points of rdflib's own constructor and cannot be written by rdflib), long-quoted strings and
   \u escapes (not part of the TSV term syntax the reader's grammar uses). *)
Theorem C16_tsv_terms : forall st t rest,
  term_wf t = true -> term_tsv_ok t = true -> at_empty rest = true ->
  scan_term (render_term st t ++ rest) = Some (t, rest).
Proof. exact scan_term_render. Qed.
Print Assumptions C16_tsv_terms.

(* TSV, one row: ROW applied to the rendering of a table row (any pattern of unbound cells, trailing
   ones included) yields its cells in order, and zip(vars, cells) agrees with the row on every variable *)
Theorem C16_tsv_row : forall st vars r,
  vars <> [] -> NoDup vars -> (forall v, In v vars -> cell_ok st (cell v r)) ->
  exists cells, scan_row (S (List.length (render_row st vars r))) (render_row st vars r) = Some cells
                /\ row_ok vars r (zip_row vars cells) = true.
Proof. exact tsv_row_ok. Qed.
Print Assumptions C16_tsv_row.

(* TSV, the whole document, from any kind of source: the reader gives back the variables in order
   and one dictionary per table row, in order - rows with nothing bound included, any legal variable
   names, any characters inside IRIs and literals (U+2028, FF, U+0085 ... are no line ends).
   All hypotheses are well-formedness. *)
Theorem C16_tsv_rows : forall st vars rows,
  vars <> [] -> forallb varname_ok vars = true ->
  (forall r, In r rows -> forall v, In v vars -> cell_ok st (cell v r)) ->
  (forall r, In r rows -> forall t, In t (row_terms r) -> term_tsv_ok t = true) ->
  tsv_parse (render_doc st vars rows)
  = OSel vars (map (fun r => zip_row vars (map (fun v => cell v r) vars)) rows).
Proof. exact tsv_doc_ok. Qed.
Print Assumptions C16_tsv_rows.

Theorem C16_tsv_result : forall c, wf c = true -> c_fmt c = FTsv -> spec_ok c (format_obs c) = true.
Proof. exact tsv_ok. Qed.
Print Assumptions C16_tsv_result.

(* CSV, the csv module: csv.reader (state machine of _csv.c for the dialect the serialiser configures:
   comma, double quote, doublequote, CRLF, QUOTE_MINIMAL) reads back EVERY table of strings that
   csv.writer wrote - embedded quotes, commas, CR, LF, empty fields, empty rows, the single empty field -
   whatever way the text is cut into lines, as long as no line ends inside a field written unquoted *)
Theorem C16_csv_roundtrip : forall k table,
  (forall row f, In row table -> In f row -> csv_field_cut k f = false) ->
  csv_read k (csv_text table) = Some table.
Proof. exact csv_roundtrip. Qed.
Print Assumptions C16_csv_roundtrip.

(* ... which no text stream does (newline="" or newline LF): CR and LF make a field quoted *)
Theorem C16_csv_roundtrip_text : forall k table,
  k = LUniversal \/ k = LLf -> csv_read k (csv_text table) = Some table.
Proof. exact csv_roundtrip_text. Qed.
Print Assumptions C16_csv_roundtrip_text.

(* CSV: header, row sequence and the string value of every cell, as Python's csv module reads them *)
Theorem C16_csv_cells : forall c, wf c = true -> c_fmt c = FCsv -> spec_ok c (format_obs c) = true.
Proof. exact csv_cells_ok. Qed.
Print Assumptions C16_csv_cells.

(* CSV read by rdflib's CSVResultParser: the variables and one dictionary per row whose terms carry the
   CSV values of the cells (empty value = unbound; the kind of term is not something CSV carries) *)
Theorem C16_csv_parse : forall k vars rows,
  (forall row f, In row (csv_serialize vars rows) -> In f row -> csv_field_cut k f = false) ->
  csv_parse k (csv_text (csv_serialize vars rows))
  = OSel vars (map (csv_zip vars) (map (fun r => map (fun v => csv_value (cell v r)) vars) rows)).
Proof. exact csv_parse_serialize. Qed.
Print Assumptions C16_csv_parse.

Theorem C16_csv_parse_result : forall c, wf c = true -> c_fmt c = FCsvP -> spec_ok c (format_obs c) = true.
Proof. exact csvp_ok. Qed.
Print Assumptions C16_csv_parse_result.

(* history (F11i, repaired by 60d20593): with lines cut as str.splitlines cuts them - what the codecs
   reader around a byte source did - an unquoted field with a form feed is split and the row sequence
   changes; the case itself is accepted now *)
Theorem C16_csv_bytes_prefix_refuted :
  (wf w_F11i = true /\ spec_ok w_F11i (format_obs w_F11i) = true
   /\ format_obs w_F11i = OSel [vx] [[(vx, Lit [97; 12; 98] None None)]; [(vx, iri_a)]])
  /\ csv_parse LSplit (csv_text (csv_serialize (c_vars w_F11i) (c_rows w_F11i)))
     = OSel [vx] [[(vx, Lit [97; 12] None None)]; [(vx, Lit [98] None None)]; [(vx, iri_a)]].
Proof. exact csv_bytes_prefix_refuted. Qed.
Print Assumptions C16_csv_bytes_prefix_refuted.

(* the formats, every well-formed case: what a format makes of the rows it is given satisfies the checker *)
Theorem C16_format_ok : forall c, wf c = true -> spec_ok c (format_obs c) = true.
Proof. exact format_ok. Qed.
Print Assumptions C16_format_ok.

(* the Result object between evaluation and serialisation: a lazily evaluated result (Graph.query) on which
   next() was called any number of times hands the serialisers all its rows (since ef926fa5 also the
   solutions without bindings the iteration passed) *)
Theorem C16_result_rows_kept : forall c, result_rows c = c_rows c.
Proof. exact result_rows_kept. Qed.
Print Assumptions C16_result_rows_kept.

(* history (F11j): what the iteration before ef926fa5 left of the witness *)
Theorem C16_partial_iteration_prefix_refuted :
  (wf w_F11j = true /\ spec_ok w_F11j (model_obs w_F11j) = true)
  /\ (let '(a, b) := consume_prefix 1 (c_rows w_F11j) in a ++ b) = [[(vx, Some iri_a)]; []; [(vx, Some iri_a)]].
Proof. exact partial_iteration_prefix_refuted. Qed.
Print Assumptions C16_partial_iteration_prefix_refuted.

(* model and checker: Result object + format, every well-formed case, no trigger *)
Theorem C16_spec_ok_model : forall c, wf c = true -> spec_ok c (model_obs c) = true.
Proof. exact spec_ok_model. Qed.
Print Assumptions C16_spec_ok_model.

(* the Result layer: the parser is chosen by the format name, else by the media type of the content type
   (its parameters do not matter), else XML; against the plugin tables reflected from the tree under test the
   four result formats are reached by their W3C media types and their short names *)
Theorem C16_parse_key_params : forall m params, m <> [] -> existsb (fun c => c =? 59) m = false ->
  parse_key None (Some (m ++ 59 :: params)) = m.
Proof. exact parse_key_params. Qed.
Print Assumptions C16_parse_key_params.

Theorem C16_dispatch_table :
  (forall params, parse_dispatch None (Some (media_json ++ 59 :: params)) = Some 1)
  /\ (forall params, parse_dispatch None (Some (media_xml ++ 59 :: params)) = Some 2)
  /\ (forall params, parse_dispatch None (Some (media_tsv ++ 59 :: params)) = Some 3)
  /\ (forall params, parse_dispatch None (Some (media_csv ++ 59 :: params)) = Some 4)
  /\ parse_dispatch None None = Some 2
  /\ map (fun n => parse_dispatch (Some (s2l n)) None) ["json"; "xml"; "tsv"; "csv"]%string = [Some 1; Some 2; Some 3; Some 4]
  /\ map (fun n => serialize_dispatch (Some (s2l n))) ["json"; "xml"; "csv"; "txt"]%string = [Some 1; Some 2; Some 4; Some 5]
  /\ serialize_dispatch None = Some 2.
Proof. exact dispatch_table_ok. Qed.
Print Assumptions C16_dispatch_table.

Theorem C16_dispatch_spec_model : forall c, dispatch_spec c (dispatch_obs c) = true.
Proof. exact dispatch_spec_model. Qed.
Print Assumptions C16_dispatch_spec_model.

(* Prop-level readings of the checker *)
Theorem C16_spec_select_reading : forall c vs ps,
  c_fmt c <> FCsv -> c_fmt c <> FCsvP -> c_ask c = None -> (c_fmt c = FXml -> xml_expressible c = true) ->
  (spec_ok c (OSel vs ps) = true <-> vs = c_vars c /\ Forall2 (row_agrees (c_vars c)) (c_rows c) ps).
Proof. exact spec_ok_select_reading. Qed.
Print Assumptions C16_spec_select_reading.

Theorem C16_spec_refusal_reading : forall c o,
  c_fmt c = FXml -> c_ask c = None -> xml_expressible c = false ->
  (spec_ok c o = true <-> o = ORefused).
Proof. exact spec_ok_refusal_reading. Qed.
Print Assumptions C16_spec_refusal_reading.

Theorem C16_spec_ask_reading : forall c b o,
  c_fmt c <> FCsv -> c_fmt c <> FCsvP -> c_ask c = Some b -> (spec_ok c o = true <-> o = OAsk b).
Proof. exact spec_ok_ask_reading. Qed.
Print Assumptions C16_spec_ask_reading.

Theorem C16_spec_csv_reading : forall c o,
  c_fmt c = FCsv ->
  (spec_ok c o = true <->
   o = OCells (c_vars c :: map (fun r => map (fun v => csv_value (cell v r)) (c_vars c)) (c_rows c))).
Proof. exact spec_ok_csv_reading. Qed.
Print Assumptions C16_spec_csv_reading.

Theorem C16_spec_csvp_reading : forall c vs ps,
  c_fmt c = FCsvP ->
  (spec_ok c (OSel vs ps) = true <-> vs = c_vars c /\ Forall2 (csvp_row_agrees (c_vars c)) (c_rows c) ps).
Proof. exact spec_ok_csvp_reading. Qed.
Print Assumptions C16_spec_csvp_reading.

(* history: the TSV row loop before 40b19e31 (kept in the model as tsv_rows_prefix) drops the row
   with nothing bound, the current one keeps it; line splitting as before e84c9b4e on byte sources
   (split_lines true) cuts a row at U+2028, the current one (split_lines false) does not *)
Theorem C16_tsv_rows_prefix_refuted :
  tsv_rows_prefix [vx] (split_lines true [] (flat_map (fun r => render_row st0 [vx] r ++ [10]) (c_rows w_F11a)))
  = Some [[(vx, iri_a)]; [(vx, iri_a)]]
  /\ tsv_rows [vx] (split_lines true [] (flat_map (fun r => render_row st0 [vx] r ++ [10]) (c_rows w_F11a)))
    = Some [[(vx, iri_a)]; []; [(vx, iri_a)]].
Proof. exact tsv_rows_prefix_refuted. Qed.
Print Assumptions C16_tsv_rows_prefix_refuted.

Theorem C16_split_lines_prefix_refuted :
  List.length (split_lines true [] (render_doc st0 [vx] (c_rows w_F11e))) = 3%nat
  /\ List.length (split_lines false [] (render_doc st0 [vx] (c_rows w_F11e))) = 2%nat.
Proof. exact split_lines_prefix_refuted. Qed.
Print Assumptions C16_split_lines_prefix_refuted.

(* non-vacuity: an XML case with specials, CR, a falsy literal, the empty IRI, an empty datatype,
   an unbound row and a trailing unbound column; an inexpressible one that is refused; a TSV case
   with all styles, a line separator inside a literal and an all-unbound row *)
Example C16_nonvacuous :
  let t1 := Lit [97; 38; 60; 34; 39; 9; 10; 13; 128512] None (Some [101; 110]) in
  let t2 := Lit [55] (Some []) None in
  let t0 := Lit [48] (Some xsd_integer) None in
  let c := {| c_fmt := FXml; c_ask := None; c_vars := [[120]; [121]];
              c_rows := [[([120], Some t1)]; []; [([120], Some t2)]; [([121], Some (IRI [])); ([120], Some t0)]];
              c_style := st0; c_bytes := true; c_src := 1; c_pre := 0 |} in
  wf c = true /\ xml_expressible c = true
  /\ format_obs c = OSel [[120]; [121]] [[([120], t1)]; []; [([120], t2)]; [([121], IRI []); ([120], t0)]]
  /\ (wf w_F11b = true /\ xml_expressible w_F11b = false /\ format_obs w_F11b = ORefused)
  /\ let c' := {| c_fmt := FTsv; c_ask := None; c_vars := [[120]; [121]];
                  c_rows := [[([121], Some (Lit [97; 8232; 39; 34] None None))]; [];
                             [([120], Some t0); ([121], Some (BNode [98; 46; 99]))]];
                  c_style := {| st_sq := true; st_esc_all := true; st_bare := true; st_cross := true |};
                  c_bytes := true; c_src := 1; c_pre := 0 |} in
     wf c' = true /\ spec_ok c' (format_obs c') = true.
Proof. vm_compute. repeat split. Qed.
