(* C16 - SPARQL results survive their exchange formats.  Property theorems only;
   the model is Results/Model.v, proofs are in Results/Proofs*.v and Results/Main.v.
   Terms are IRI s | BNode s | Lit lex dt lang over strings of code points; the Python
   constructor Literal(lex, dt, lang) is taken to keep that triple (its normalisation is C09). *)
From RV Require Import Results.Model Results.Proofs Results.ProofsXml Results.ProofsTsv Results.ProofsTsvDoc Results.Main.
Local Open Scope N_scope.

(* JSON: parseJsonTerm inverts termToJSON on every term *)
Theorem C16_json_term : forall t, term_wf t = true ->
  exists j, termToJSON (Some t) = Some j /\ parseJsonTerm j = Some t.
Proof. exact json_term. Qed.
Print Assumptions C16_json_term.

(* JSON: for ANY json library with loads (dumps v) = v, a SELECT result comes back with its
   variables in order and, row by row, exactly its bound cells - rows with nothing bound included
   (bound_of r = [] for them, and the row is still there); an ASK result keeps its answer *)
Theorem C16_json_result : forall (text : Type) (dumps : json -> text) (loads : text -> json),
  (forall v, loads (dumps v) = v) ->
  forall vars rows, forallb (row_wf vars) rows = true ->
    json_parse (loads (dumps (json_serialize None vars rows))) = OSel vars (map bound_of rows)
    /\ rows_ok vars rows (map bound_of rows) = true
    /\ forall b, json_parse (loads (dumps (json_serialize (Some b) vars rows))) = OAsk b.
Proof.
  intros text dumps loads H vars rows Hw. split; [|split].
  - exact (json_select text dumps loads H vars rows Hw).
  - exact (rows_ok_bound_of vars rows Hw).
  - intro b. exact (json_ask text dumps loads H b vars rows).
Qed.
Print Assumptions C16_json_result.

(* XML, character level: what XMLGenerator.characters writes is read back unchanged when it
   consists of XML Chars other than CR; what quoteattr writes is read back unchanged for all XML Chars *)
Theorem C16_xml_text : forall s, forallb text_char s = true -> xml_read false (sax_escape s) = Some s.
Proof. exact xml_read_text. Qed.
Print Assumptions C16_xml_text.

Theorem C16_xml_attr : forall s, forallb is_xml_char s = true -> xml_read_attr (sax_quoteattr s) = Some s.
Proof. exact xml_read_attr_ok. Qed.
Print Assumptions C16_xml_attr.

(* XML: outside the trigger regions (non-Chars F11b, CR in content F11c, a literal whose datatype is
   the empty IRI F11d) the result comes back as specified - literals with a falsy Python value and the
   empty IRI included, since the repairs of F11g and of the first half of F11d *)
Theorem C16_xml_result : forall c, wf c = true -> kf c = 0 -> c_fmt c = FXml -> spec_ok c (model_obs c) = true.
Proof. exact xml_ok. Qed.
Print Assumptions C16_xml_result.

(* TSV: the reader's TERM scanner recovers every term from every rendering of the W3C term grammar
   (either quote, optional ECHARs, bare integers and booleans), whatever follows in the row *)
Theorem C16_tsv_terms : forall st t rest,
  term_wf t = true -> term_tsv_ok t = true -> uses_cross st t = false -> at_empty rest = true ->
  scan_term (render_term st t ++ rest) = Some (t, rest).
Proof. exact scan_term_render. Qed.
Print Assumptions C16_tsv_terms.

(* TSV, one row: ROW applied to the rendering of a table row (any pattern of unbound cells, trailing
   ones included) yields its cells in order, and zip(vars, cells) agrees with the row on every variable *)
Theorem C16_tsv_row : forall st vars r,
  vars <> [] -> NoDup vars -> (forall v, In v vars -> cell_ok st (cell v r)) ->
  exists cells, scan_row (S (List.length (render_row st vars r))) (render_row st vars r) = Some cells
                /\ row_ok vars r (zip_row vars cells) = true.
Proof. exact tsv_row_ok. Qed.
Print Assumptions C16_tsv_row.

(* CSV: header, row sequence and the string value of every cell *)
Theorem C16_csv_cells : forall c, wf c = true -> c_fmt c = FCsv -> spec_ok c (model_obs c) = true.
Proof. exact csv_main. Qed.
Print Assumptions C16_csv_cells.

(* TSV, the whole document: the reader gives back the variables in order and one dictionary per
   table row, in order - rows with nothing bound included (since the repair of F11a) - provided the
   header survives strip() (F11h) and, on a byte source, no line-break character other than LF occurs
   raw (F11e).  The hypotheses are those of well-formed cases outside the triggers. *)
Theorem C16_tsv_rows : forall st bytes vars rows,
  vars <> [] -> forallb varname_ok vars = true ->
  py_isspace (last (render_header vars) 0) = false ->
  (forall r, In r rows -> forall v, In v vars -> cell_ok st (cell v r)) ->
  (forall r, In r rows -> forall t, In t (row_terms r) -> term_tsv_ok t = true) ->
  bytes && existsb raw_break (render_doc st vars rows) = false ->
  tsv_parse bytes (render_doc st vars rows)
  = OSel vars (map (fun r => zip_row vars (map (fun v => cell v r) vars)) rows).
Proof. exact tsv_doc_ok. Qed.
Print Assumptions C16_tsv_rows.

Theorem C16_tsv_result : forall c, wf c = true -> kf c = 0 -> c_fmt c = FTsv -> spec_ok c (model_obs c) = true.
Proof. exact tsv_ok. Qed.
Print Assumptions C16_tsv_result.

(* model and checker, all four formats *)
Theorem C16_spec_ok_model : forall c, wf c = true -> kf c = 0 -> spec_ok c (model_obs c) = true.
Proof. exact spec_ok_model. Qed.
Print Assumptions C16_spec_ok_model.

(* Prop-level readings of the checker *)
Theorem C16_spec_select_reading : forall c vs ps,
  c_fmt c <> FCsv -> c_ask c = None ->
  (spec_ok c (OSel vs ps) = true <-> vs = c_vars c /\ Forall2 (row_agrees (c_vars c)) (c_rows c) ps).
Proof. exact spec_ok_select_reading. Qed.
Print Assumptions C16_spec_select_reading.

Theorem C16_spec_ask_reading : forall c b o,
  c_fmt c <> FCsv -> c_ask c = Some b -> (spec_ok c o = true <-> o = OAsk b).
Proof. exact spec_ok_ask_reading. Qed.
Print Assumptions C16_spec_ask_reading.

Theorem C16_spec_csv_reading : forall c o,
  c_fmt c = FCsv ->
  (spec_ok c o = true <->
   o = OCells (c_vars c :: map (fun r => map (fun v => csv_value (cell v r)) (c_vars c)) (c_rows c))).
Proof. exact spec_ok_csv_reading. Qed.
Print Assumptions C16_spec_csv_reading.

(* the row loop as it was before the repair of F11a (kept in the model as tsv_rows_prefix) drops the
   row with nothing bound; the current one keeps it *)
Theorem C16_tsv_rows_prefix_refuted :
  tsv_rows_prefix [vx] (split_lines true [] (flat_map (fun r => render_row st0 [vx] r ++ [10]) (c_rows w_F11a)))
  = Some [[(vx, iri_a)]; [(vx, iri_a)]]
  /\ tsv_rows [vx] (split_lines true [] (flat_map (fun r => render_row st0 [vx] r ++ [10]) (c_rows w_F11a)))
    = Some [[(vx, iri_a)]; []; [(vx, iri_a)]].
Proof. exact tsv_rows_prefix_refuted. Qed.
Print Assumptions C16_tsv_rows_prefix_refuted.

(* the remaining findings: well-formed cases on which the faithful model violates the property *)
Theorem C16_xml_refuted :
  (exists c, wf c = true /\ c_fmt c = FXml /\ kf c = 2 /\ spec_ok c (model_obs c) = false)
  /\ (exists c, wf c = true /\ c_fmt c = FXml /\ kf c = 3 /\ spec_ok c (model_obs c) = false)
  /\ (exists c, wf c = true /\ c_fmt c = FXml /\ kf c = 4 /\ spec_ok c (model_obs c) = false).
Proof.
  split; [exists w_F11b|split; [exists w_F11c|exists w_F11d]]; vm_compute; repeat split.
Qed.
Print Assumptions C16_xml_refuted.

Theorem C16_tsv_reader_refuted :
  (exists c, wf c = true /\ c_fmt c = FTsv /\ kf c = 5 /\ spec_ok c (model_obs c) = false)
  /\ (exists c, wf c = true /\ c_fmt c = FTsv /\ kf c = 6 /\ spec_ok c (model_obs c) = false)
  /\ (exists c, wf c = true /\ c_fmt c = FTsv /\ kf c = 1 /\ spec_ok c (model_obs c) = false).
Proof. split; [exists w_F11e|split; [exists w_F11f|exists w_F11h]]; vm_compute; repeat split. Qed.
Print Assumptions C16_tsv_reader_refuted.

(* non-vacuity: a well-formed XML case outside every trigger region with specials, an unbound
   row and a trailing unbound column; and a TSV case with two styles *)
Example C16_nonvacuous :
  let t1 := Lit [97; 38; 60; 34; 39; 9; 10; 128512] None (Some [101; 110]) in
  let t2 := Lit [55] (Some xsd_integer) None in
  let t0 := Lit [48] (Some xsd_integer) None in
  let c := {| c_fmt := FXml; c_ask := None; c_vars := [[120]; [121]];
              c_rows := [[([120], Some t1)]; []; [([120], Some t2)]; [([121], Some (IRI [])); ([120], Some t0)]];
              c_style := st0; c_bytes := true |} in
  wf c = true /\ kf c = 0
  /\ model_obs c = OSel [[120]; [121]] [[([120], t1)]; []; [([120], t2)]; [([121], IRI []); ([120], t0)]]
  /\ let c' := {| c_fmt := FTsv; c_ask := None; c_vars := [[120]; [121]];
                  c_rows := [[([121], Some t1)]; []; [([120], Some t2); ([121], Some (BNode [98; 46; 99]))]];
                  c_style := {| st_sq := true; st_esc_all := true; st_bare := true; st_cross := false |};
                  c_bytes := true |} in
     wf c' = true /\ kf c' = 0 /\ spec_ok c' (model_obs c') = true.
Proof. vm_compute. repeat split. Qed.
