(* C14 - Graph isomorphism and canonicalisation decide equality up to
   blank-node renaming.  Property theorems only; proofs are in Iso/Proofs.v and
   Iso/Skolem.v.

   What is proved: the oracle (iso_dec decides iso), the laws every canonical
   relabelling obeys (soundness of equal canonical forms, partition laws of
   graph_diff), the skolem round trip, and that the model satisfies the
   specification checker the implementation is judged by.
   What is NOT proved: completeness of rdflib's _TripleCanonicalizer (see
   [C14_complete_statement]); the differential runs are the only evidence. *)
From RV Require Import Iso.Model Iso.Proofs Iso.Skolem Iso.Canon Iso.CanonInst.

(* The verified oracle: the backtracking search answers true exactly when some
   renaming, one-to-one on the blank nodes of g1, maps the set g1 onto g2. *)
Theorem C14_iso_dec_correct : forall g1 g2, iso_dec g1 g2 = true <-> iso g1 g2.
Proof. exact iso_dec_correct. Qed.
Print Assumptions C14_iso_dec_correct.

(* iso is an equivalence relation (so "isomorphic" is a sensible verdict), it
   only sees graphs as sets, and it preserves the number of triples *)
Theorem C14_iso_equivalence :
  (forall g, iso g g) /\ (forall g h, iso g h -> iso h g)
  /\ (forall g h k, iso g h -> iso h k -> iso g k)
  /\ (forall g g' h, gseteq g g' -> iso g h -> iso g' h)
  /\ (forall g h, NoDup g -> NoDup h -> iso g h -> length g = length h).
Proof.
  repeat split.
  - exact iso_refl.
  - exact iso_sym.
  - exact iso_trans.
  - exact iso_seteq_l.
  - exact iso_length.
Qed.
Print Assumptions C14_iso_equivalence.

(* No false positives of ANY canonicaliser that relabels blank nodes one-to-one:
   equal canonical forms imply isomorphic inputs. *)
Theorem C14_canon_sound : forall g1 g2 c1 c2,
  inj_on c1 (blanks g1) -> inj_on c2 (blanks g2) ->
  gseteq (rename_g c1 g1) (rename_g c2 g2) -> iso g1 g2.
Proof. exact canon_sound. Qed.
Print Assumptions C14_canon_sound.

(* graph_diff = set operators on the two canonical graphs: 'both'+'first' is
   (set-equal to the canonical form of, hence) isomorphic to g1, 'both'+'second'
   to g2, 'first' and 'second' share no triple. *)
Theorem C14_diff_partition : forall g1 g2 c1 c2,
  inj_on c1 (blanks g1) -> inj_on c2 (blanks g2) ->
  let cg1 := rename_g c1 g1 in let cg2 := rename_g c2 g2 in
  let both := g_inter cg1 cg2 in let first := g_diff cg1 cg2 in let second := g_diff cg2 cg1 in
  iso (g_union both first) g1 /\ iso (g_union both second) g2 /\ g_inter first second = []
  /\ gseteq (g_union both first) cg1 /\ gseteq (g_union both second) cg2.
Proof. exact diff_partition_canon. Qed.
Print Assumptions C14_diff_partition.

(* Completeness of the canonical labelling - isomorphic inputs get EQUAL
   canonical forms - for a canonicaliser [canon].  unproved; differential
   evidence only (this is the correctness of rdflib's Traces-style
   individualisation search with its pruning). *)
Definition C14_complete_statement (canon : graph -> graph) : Prop :=
  forall g1 g2, iso g1 g2 -> gseteq (canon g1) (canon g2).

(* If a canonicaliser is a one-to-one relabelling and complete in the sense
   above, then equality of canonical forms decides isomorphism (what the
   harness observes as isomorphic / to_isomorphic / to_canonical_graph). *)
Theorem C14_canon_decides_if_complete : forall (canon : graph -> graph) (lab : graph -> N -> N),
  (forall g, inj_on (lab g) (blanks g) /\ canon g = rename_g (lab g) g) ->
  C14_complete_statement canon ->
  forall g1 g2, gseteq (canon g1) (canon g2) <-> iso g1 g2.
Proof.
  intros canon lab Hl Hc g1 g2. split; [|apply Hc].
  destruct (Hl g1) as [I1 E1], (Hl g2) as [I2 E2]. rewrite E1, E2. now apply canon_sound.
Qed.
Print Assumptions C14_canon_decides_if_complete.

(* Skolemisation round trip on strings (blank-node ids and IRIs are lists of
   code points; urljoin / urlparse are section variables constrained by the
   hypotheses the skolem suite replays on the real functions). *)
Theorem C14_skolem_roundtrip :
  forall (join : str -> str) (parse : str -> urlinfo) (safe : str -> bool),
  (forall i, safe i = true ->
     join i = authority ++ rgenid ++ i /\ u_path (parse (join i)) = rgenid ++ i
     /\ u_clean (parse (join i)) = true /\ no47 i = true) ->
  forall g, sk_wf parse safe g ->
    deskolemize_g parse (skolemize_g join g) = g.
Proof. exact skolem_roundtrip. Qed.
Print Assumptions C14_skolem_roundtrip.

(* ... and therefore the result is isomorphic to the input, whatever reading
   of strings as blank-node numbers is chosen *)
Theorem C14_skolem_iso :
  forall (join : str -> str) (parse : str -> urlinfo) (safe : str -> bool) (num : sterm -> term),
  (forall i, safe i = true ->
     join i = authority ++ rgenid ++ i /\ u_path (parse (join i)) = rgenid ++ i
     /\ u_clean (parse (join i)) = true /\ no47 i = true) ->
  forall g, sk_wf parse safe g ->
    iso (abstract_g num (deskolemize_g parse (skolemize_g join g))) (abstract_g num g).
Proof. intros. rewrite (skolem_roundtrip join parse safe); auto. apply iso_refl. Qed.
Print Assumptions C14_skolem_iso.

(* Non-default basepath under /.well-known/genid/ (any authority): de_skolemize
   takes the external branch; the round trip is the input with every blank node
   in subject/object position renamed through [ext_label], which is injective
   when urljoin is - hence an isomorphic graph for RDF graphs (no blank predicate). *)
Theorem C14_skolem_roundtrip_external :
  forall (join : str -> str) (parse : str -> urlinfo) (safe : str -> bool),
  (forall i, safe i = true ->
     is_rdflib_skolem parse (join i) = false /\ is_external_skolem parse (join i) = true) ->
  (forall g, sk_wf parse safe g ->
     deskolemize_g parse (skolemize_g join g) = map (relabel_t join) g)
  /\ ((forall i j, join i = join j -> i = j) -> forall i j, ext_label join i = ext_label join j -> i = j).
Proof.
  intros join parse safe H. split.
  - intros g Hw. now apply (skolem_roundtrip_external join parse safe).
  - apply ext_label_inj.
Qed.
Print Assumptions C14_skolem_roundtrip_external.

(* GLUE, not a statement about compare.py: the expected
   observation of suite "iso" is the verified ORACLE's answer (plus one valid choice
   of canonical graphs), and that answer passes the oracle-based checker.  The
   suite is differential testing of rdflib against the oracle; the theorems about
   the transcription of compare.py are further down (C14_canonical_triples_relabels,
   C14_model_isomorphic_sound, C14_refine_invariant, C14_label_independent_partial). *)
Theorem C14_spec_ok_model_glue : forall c, spec_ok c (model_obs c) = true.
Proof. exact spec_ok_model. Qed.
Print Assumptions C14_spec_ok_model_glue.

(* Prop-level readings of the checker *)
Theorem C14_spec_verdicts_reading : forall c o,
  spec_verdicts c o = true <->
  ((o_iso o = true <-> iso (c_g1 c) (c_g2 c)) /\ (o_toiso o = true <-> iso (c_g1 c) (c_g2 c))
   /\ (o_caneq o = true <-> iso (c_g1 c) (c_g2 c))
   /\ (o_alt1 o = true <-> iso (c_g1 c) (c_g2 c)) /\ (o_alt2 o = true <-> iso (c_g1 c) (c_g2 c))).
Proof. exact spec_verdicts_reading. Qed.
Print Assumptions C14_spec_verdicts_reading.

Theorem C14_spec_canon_reading : forall c o,
  spec_canon c o = true <->
  (iso (o_cg1 o) (c_g1 c) /\ iso (o_cg2 o) (c_g2 c)
   /\ (gseteq (o_cg1 o) (o_cg2 o) <-> iso (c_g1 c) (c_g2 c))).
Proof. exact spec_canon_reading. Qed.
Print Assumptions C14_spec_canon_reading.

Theorem C14_spec_diff_reading : forall c o,
  spec_diff c o = true <->
  (iso (g_union (o_both o) (o_first o)) (c_g1 c) /\ iso (g_union (o_both o) (o_second o)) (c_g2 c)
   /\ (forall t, In t (o_first o) -> In t (o_second o) -> False)
   /\ gseteq (o_both o) (g_inter (o_cg1 o) (o_cg2 o))
   /\ gseteq (o_first o) (g_diff (o_cg1 o) (o_cg2 o))
   /\ gseteq (o_second o) (g_diff (o_cg2 o) (o_cg1 o))).
Proof. exact spec_diff_reading. Qed.
Print Assumptions C14_spec_diff_reading.

Theorem C14_spec_skolem_reading : forall c o,
  spec_skolem c o = true <-> iso (o_sk o) (c_g1 c) /\ iso (o_skv o) (c_g1 c).
Proof. exact spec_skolem_reading. Qed.
Print Assumptions C14_spec_skolem_reading.

(* Former finding FC14a (a blank node as predicate leaked its label into the
   colours; fixed by 07e5253f, which the model follows): the reviewer's witness
   {_:0 _:1 _:2 . _:2 <3> <4>} against a relabelled copy is isomorphic and the
   canonicaliser model (instance with the hash in N arithmetic) now says so. *)
Example C14_blank_predicate_regression :
  let g1 := [(Blank 0, Blank 1, Blank 2); (Blank 2, Const 3, Const 4)]%N in
  let g2 := [(Blank 5, Blank 6, Blank 7); (Blank 7, Const 3, Const 4)]%N in
  iso g1 g2 /\ isoN_i g1 g2 = Some true.
Proof. cbv zeta. split; [apply iso_dec_correct; vm_compute; reflexivity|vm_compute; reflexivity]. Qed.

(* non-vacuity: two 6-cycles with different labels are isomorphic, a 6-cycle and
   two triangles (same degree sequence) are not; the checker accepts the model on both *)
Example C14_nonvacuous :
  let cyc6 := [(Blank 0, Const 3, Blank 1); (Blank 1, Const 3, Blank 2); (Blank 2, Const 3, Blank 3);
               (Blank 3, Const 3, Blank 4); (Blank 4, Const 3, Blank 5); (Blank 5, Const 3, Blank 0)]%N in
  let cyc6' := [(Blank 9, Const 3, Blank 7); (Blank 12, Const 3, Blank 9); (Blank 7, Const 3, Blank 8);
                (Blank 8, Const 3, Blank 11); (Blank 10, Const 3, Blank 12); (Blank 11, Const 3, Blank 10)]%N in
  let tri2 := [(Blank 0, Const 3, Blank 1); (Blank 1, Const 3, Blank 2); (Blank 2, Const 3, Blank 0);
               (Blank 3, Const 3, Blank 4); (Blank 4, Const 3, Blank 5); (Blank 5, Const 3, Blank 3)]%N in
  iso cyc6 cyc6' /\ ~ iso cyc6 tri2
  /\ spec_ok {| c_g1 := cyc6; c_g2 := cyc6' |} (model_obs {| c_g1 := cyc6; c_g2 := cyc6' |}) = true
  /\ spec_ok {| c_g1 := cyc6; c_g2 := tri2 |} (model_obs {| c_g1 := cyc6; c_g2 := tri2 |}) = true.
Proof.
  cbv zeta. split; [apply iso_dec_correct; vm_compute; reflexivity|].
  split; [apply iso_dec_false; vm_compute; reflexivity|].
  split; vm_compute; reflexivity.
Qed.

(* The skolem suite: its checker is satisfied by its model on every case, and
   the concrete [safe] predicate on ids implies the side condition of the
   round-trip theorem, so the hypotheses it replays are the theorem's. *)
From RV Require Import Iso.SkolemCheck.
Theorem C14_skolem_suite_model_glue : forall c, sk_spec_ok c (sk_model_obs c) = true.
Proof. exact sk_spec_ok_model. Qed.
Print Assumptions C14_skolem_suite_model_glue.

Theorem C14_skolem_safe_no_slash : forall i, safe i = true -> no47 i = true.
Proof. exact safe_no47. Qed.
Print Assumptions C14_skolem_safe_no_slash.

(* Colour refinement core (Color.distinguish), hashes abstracted as equality of
   item multisets: one step only splits a colour class, and the signature a node
   is split by does not depend on blank-node labels - provided no blank node is
   a predicate (otherwise the predicate's label is part of the item: FC14a). *)
From Coq Require Import Permutation.
From RV Require Import Iso.Refine.
Theorem C14_distinguish_splits : forall keq g c hW W,
  Permutation (flat_map nodes (distinguish keq g c hW W)) (nodes c).
Proof. exact distinguish_splits. Qed.
Print Assumptions C14_distinguish_splits.

Theorem C14_signature_renaming_invariant : forall f g hW W n,
  inj_on f (blanks g) -> nopredb g -> within g n -> (forall w, In w W -> within g w) ->
  sig (rename_g f g) hW (map (rename f) W) (rename f n) = sig g hW W n.
Proof. exact sig_rename. Qed.
Print Assumptions C14_signature_renaming_invariant.

(* Histories on live IsomorphicGraph objects (suite "history"): the checker is
   satisfied by the model, and an accepted observation answers every == with
   true exactly when the contents at that moment are isomorphic, != with the negation. *)
From RV Require Import Iso.History.
Theorem C14_history_model_glue : forall c, h_spec_ok c (h_model_obs c) = true.
Proof. exact h_spec_ok_model. Qed.
Print Assumptions C14_history_model_glue.

Theorem C14_history_reading : forall c o,
  h_spec_ok c o = true -> answers (map (dedup triple_eqb) (h_graphs c)) (h_ops c) o.
Proof. exact h_spec_reading. Qed.
Print Assumptions C14_history_reading.

(* ------------------------------------------------------------------ *)
(* Round 3: the canonicaliser itself (Iso/Canon.v = rdflib/compare.py after the
   fix: commits 66dfcd58, e4e9757a and fef10715, over an abstract hash function). *)
From RV Require Import Iso.Canon Iso.CanonProofs Iso.CanonEquiv.

(* What canonical_triples returns is the input relabelled ONE-TO-ONE: every
   colouring that reaches it came out of _refine, whose final merge leaves
   pairwise different colour hashes.  No assumption on the hash. *)
Theorem C14_canonical_triples_relabels :
  forall hashfunc n3 hexs decs tstr g fuel cts,
  m_canonical_triples hashfunc n3 hexs decs tstr g fuel = Some cts ->
  exists lab : N -> str,
    (forall x y, In x (blanks g) -> In y (blanks g) -> lab x = lab y -> x = y)
    /\ cts = map (relab_t lab) g.
Proof. exact canonical_triples_relabels. Qed.
Print Assumptions C14_canonical_triples_relabels.

(* SOUNDNESS under an IDEAL hash: for every pair of graphs, any fuel, blank
   predicates included, the modelled compare.isomorphic (and
   IsomorphicGraph.__eq__) never answers True on non-isomorphic graphs - PROVIDED
   the hash is collision-free on sums (MA3: a sum of hash values determines the
   multiset of hashed strings) and canonical triples render injectively.  MA3 is
   an idealisation: it is satisfiable for hashfunc : str -> N (so the theorem is
   not vacuous) but false of the real SHA-256 by counting; what it buys is that
   a wrong True needs a hash collision, nothing else. *)
Theorem C14_model_isomorphic_sound :
  forall (hashfunc : str -> N) n3 hexs decs (tstr : ctriple -> str),
  (forall l1 l2 : list str, sum_h hashfunc l1 = sum_h hashfunc l2 -> Permutation.Permutation l1 l2) ->
  (forall a b, tstr a = tstr b -> a = b) ->
  forall fuel g1 g2,
    (m_isomorphic hashfunc n3 hexs decs tstr fuel g1 g2 = Some true -> iso g1 g2)
    /\ (m_iso_eq hashfunc n3 hexs decs tstr fuel g1 g2 = Some true -> iso g1 g2).
Proof.
  intros hf n3 hx dc ts H1 H2 fuel g1 g2. split.
  - now apply model_isomorphic_sound.
  - now apply model_iso_eq_sound.
Qed.
Print Assumptions C14_model_isomorphic_sound.

(* INVARIANCE of refinement: for a one-to-one renaming f (any graph, blank
   predicates included since fix 07e5253f), _initial_color and _refine commute with f - the colouring
   of the renamed graph is the renamed colouring (same hashes, same order), so
   isomorphic graphs get corresponding partitions. *)
Theorem C14_refine_invariant :
  forall hashfunc n3 hexs decs (f : N -> N) g,
  (forall x y, f x = f y -> x = y) ->
  m_initial_color hashfunc n3 hexs decs (rename_g f g) = map (rc f) (m_initial_color hashfunc n3 hexs decs g)
  /\ (forall fuel coloring sequence,
        m_refine hashfunc n3 hexs decs (rename_g f g) fuel (map (rc f) coloring) (map (rc f) sequence)
        = option_map (map (rc f)) (m_refine hashfunc n3 hexs decs g fuel coloring sequence))
  /\ (forall fuel,
        option_map (map nodes) (let c0 := m_initial_color hashfunc n3 hexs decs (rename_g f g) in
                                m_refine hashfunc n3 hexs decs (rename_g f g) fuel c0 c0)
        = option_map (map (fun c => map (rename f) (nodes c)))
                     (let c0 := m_initial_color hashfunc n3 hexs decs g in
                      m_refine hashfunc n3 hexs decs g fuel c0 c0)).
Proof.
  intros hf n3 hx dc f g Hf. split; [|split].
  - now apply initial_color_rc.
  - intros. now apply refine_rc.
  - intros. now apply refined_partition_invariant.
Qed.
Print Assumptions C14_refine_invariant.

(* COMPLETENESS, partial: on the class where refinement alone ends in a
   discrete colouring (no branching) a relabelled copy gets literally the same
   canonical triples, hence isomorphic() is True - for copies that keep the
   order of triples and of set iteration.
   MISSING for full completeness (stated, not proved):
   (L-order) the multiset of canonical triples does not depend on the order in
     which the triples of the graph and the members of Python sets are visited;
   (L-traces) when _refine does not end discrete, _traces returns a leaf whose
     canonical triples are invariant under isomorphism.  (L-traces) was FALSE of
     the code before fix fef10715 (ties between non-automorphic candidates with
     equal colour scores were resolved by iteration order, finding FC14c); the
     repaired _traces keeps tying candidates, prunes only by verified
     automorphisms and returns the leaf with the smallest certificate, which is
     what the standard argument needs (the set of leaf certificates is
     invariant, so its minimum is) - that argument is not formalised here. *)
Theorem C14_complete_discrete_partial :
  forall hashfunc n3 hexs decs tstr (f : N -> N) g fuel,
  (forall x y, f x = f y -> x = y) ->
  refine_decides hashfunc n3 hexs decs g fuel ->
  (m_canonical_triples hashfunc n3 hexs decs tstr (rename_g f g) fuel = m_canonical_triples hashfunc n3 hexs decs tstr g fuel)
  /\ (forall cts, m_canonical_triples hashfunc n3 hexs decs tstr g fuel = Some cts ->
        m_isomorphic hashfunc n3 hexs decs tstr fuel g (rename_g f g) = Some true).
Proof.
  intros hf n3 hx dc ts f g fuel Hf Hd. split.
  - now apply canonical_triples_label_independent_discrete.
  - intros cts Hc. eapply model_complete_discrete_sameorder; eauto.
Qed.
Print Assumptions C14_complete_discrete_partial.

(* NOTE on the scope of the next theorem: it speaks of relabelled copies that
   KEEP the order of triples and of set iteration.  A real relabelling never does
   (Python's set order depends on the hashes of the labels), so this theorem does
   not by itself give "equal canonical graphs for isomorphic inputs" for the
   implementation: completeness of rdflib's canonicaliser rests on the
   differential suites against the verified oracle.  What the theorem does show
   is that labels enter the algorithm in no other way than through that order. *)
(* LABEL INDEPENDENCE of the whole canonicaliser (refinement AND the
   individualisation search with its verified-automorphism pruning): a copy of a
   graph whose blank nodes are renamed one-to-one - keeping the order of triples
   and of set iteration - gets literally the same canonical triples, so the
   modelled isomorphic() answers True (when it answers at all: None is fuel
   exhaustion or a Python exception).  All graphs, blank predicates included
   (before fix 07e5253f the statement was false for them: former finding FC14a).
   What separates this from full completeness is ORDER independence only
   (lemmas L-order / L-traces above). *)
Theorem C14_label_independent_partial :
  forall hashfunc n3 hexs decs tstr (f : N -> N) g fuel,
  (forall x y, f x = f y -> x = y) ->
  (m_canonical_triples hashfunc n3 hexs decs tstr (rename_g f g) fuel = m_canonical_triples hashfunc n3 hexs decs tstr g fuel)
  /\ (forall cts, m_canonical_triples hashfunc n3 hexs decs tstr g fuel = Some cts ->
        m_isomorphic hashfunc n3 hexs decs tstr fuel g (rename_g f g) = Some true).
Proof.
  intros hf n3 hx dc ts f g fuel Hf. split.
  - now apply canonical_triples_label_independent.
  - intros cts Hc. eapply model_complete_sameorder; eauto.
Qed.
Print Assumptions C14_label_independent_partial.

(* ORDER INDEPENDENCE - the half of completeness that is still missing, stated
   for the repaired _traces (fix fef10715), NOT proved (it did not close in the
   time; no partial proof is claimed).
   [leafset_order_statement]: the canonical triples the model computes do not
   depend on the ORDER in which the triples of the graph are listed (Python: the
   order in which the store / the sets of nodes are iterated).  Together with
   C14_label_independent_partial this is exactly C14_complete_statement for the
   model: g1 iso g2 gives a relabelling f with rename_g f g1 a permutation of g2.
   The argument it needs, as three lemmas about Iso/Canon.v:
   (O1) m_refine - REFUTED as first stated ("the final colouring is the same set of
        (class, hash) pairs for every order in which the work list pops colours"):
        C14_refine_hash_order_refuted below.  The pop order is the order of the hash
        VALUES; a class that receives no new item keeps its parent's hash, so
        structurally different nodes can end with equal colour sums and be merged
        as a "collision" under one hash function and not under another.  What is
        true and proved: one step is free of the order of TRIPLES
        (C14_distinguish_triple_order_free) and the merge only regroups nodes and
        leaves distinct hashes (C14_collision_merge_regroups).  What completeness
        needs instead of (O1): (O1') for a FIXED hash function the colouring after
        m_refine, as a set of (class, hash), does not depend on the order of the
        triples nor on the order of the nodes inside the initial colour (the order of
        hash values is then fixed, so the pop order is, up to ties between colours of
        equal key - and colours of equal key are exactly the collisions that the
        final merge unites); not proved;
   (O2) m_traces: the SET of certificates of the leaves it explores is the same
        for such inputs - a candidate is skipped only when a VERIFIED automorphism
        maps it to a visited one (m_is_automorphism), score pruning uses
        order-free scores, ties are all kept;
   (O3) pick_leaf returns a leaf of minimal certificate, and two leaves with the
        same certificate give the same canonical triples as a multiset. *)
Definition C14_leafset_order_statement
  (hashfunc : str -> N) (n3 : term -> str) (hexs : N -> str) (decs : nat -> str) (tstr : ctriple -> str) : Prop :=
  forall g g' fuel cts,
    Permutation.Permutation g g' ->
    m_canonical_triples hashfunc n3 hexs decs tstr g fuel = Some cts ->
    exists fuel' cts',
      m_canonical_triples hashfunc n3 hexs decs tstr g' fuel' = Some cts'
      /\ Permutation.Permutation cts cts'.

(* ------------------------------------------------------------------ *)
(* Round 5b: how far _refine is order-free (Iso/CanonOrder.v) *)
From RV Require Import Iso.CanonOrder.

(* REFUTED: "the result of _refine, as a set of (class, hash) pairs, depends on the
   graph only".  The typed-neighbour shape w0 w1 w2 : U0, x y : U1, x p w1, x p w2,
   y p w0 (p = urn:p6) under two hash functions (the same mixing function with two
   seeds, in N arithmetic): x and y share a class under the first (7 classes) and
   not under the second (8 classes).  rdflib with SHA-256 behaves like the second on
   this predicate and like the first on urn:p2, p3, p5, p9. *)
Theorem C14_refine_hash_order_refuted :
  exists g h1 h2 p1 p2,
    refined_classes h1 g = Some p1 /\ refined_classes h2 g = Some p2
    /\ together (Blank 3) (Blank 4) p1 = true /\ together (Blank 3) (Blank 4) p2 = false
    /\ length p1 = 7%nat /\ length p2 = 8%nat.
Proof. exact refine_hash_order_refuted. Qed.
Print Assumptions C14_refine_hash_order_refuted.

(* One refinement step (Color.distinguish) yields the same classes - same nodes,
   same order - with the same hashes for any two enumerations of the triples of
   the graph: the hash of a colour is a sum, and a node collects the same multiset
   of items. *)
Theorem C14_distinguish_triple_order_free :
  forall hashfunc n3 hexs decs g g' c W,
  Permutation g g' ->
  map (fun x => (nodes x, chash x)) (m_distinguish hashfunc n3 hexs decs g' c W)
  = map (fun x => (nodes x, chash x)) (m_distinguish hashfunc n3 hexs decs g c W).
Proof. exact distinguish_triple_order_free. Qed.
Print Assumptions C14_distinguish_triple_order_free.

(* The "hash collision" merge at the end of _refine regroups the nodes (nothing is
   lost or duplicated) and leaves colours with pairwise different hashes. *)
Theorem C14_collision_merge_regroups :
  forall cs, Permutation (flat_map nodes (merge_colors cs)) (flat_map nodes cs)
             /\ distinct_hashes (merge_colors cs).
Proof. exact merge_colors_regroups. Qed.
Print Assumptions C14_collision_merge_regroups.
