(* C13 - reading a graph never changes it: reads are pure and repeatable.
   Property theorems only.  The model is Purity/Model.v over Dataset/Model.v:
   the reads whose path in graph.py goes through ConjunctiveGraph._graph
   (triples / quads / __contains__) or through a full pass of
   Dataset.graphs() are [ds -> ds * out] functions; serialisers, SPARQL
   engine, rdflib.compare, slicing and iteration are opaque reads whose purity
   holds in the model BY CONSTRUCTION - for them only the snapshot runs of
   harness/c13.py speak.
   [R d sp]: d is related to the C02 specification state sp (quads equal, no
   union-only triples, known names = listed names); every state reached by a
   history of writes is (C13_reachable).  [names d g]: g is the default graph
   or listed by the store. *)
From RV Require Import Dataset.Model Dataset.Proofs Purity.Model Purity.Proofs.
Local Open Scope N_scope.

Theorem C13_reachable : forall b ops,
  forallb (fun o => negb (is_read o)) ops = true ->
  R (build (ds_init b) ops) (fold_left sp_step ops sp_init).
Proof. exact reachable_R. Qed.
Print Assumptions C13_reachable.

(* EVERY read - whatever graph argument it is handed, a Graph object of
   another store included (F19 repaired) - leaves quads, the union-only
   triples and the set of graph names exactly as they were *)
Theorem C13_read_pure : forall d sp r,
  R d sp ->
  quads (st (fst (do_read d r))) = quads (st d)
  /\ orphans (st (fst (do_read d r))) = orphans (st d)
  /\ (forall g, names (fst (do_read d r)) g <-> names d g).
Proof. exact read_pure. Qed.
Print Assumptions C13_read_pure.

(* ... and the same read issued again answers the same *)
Theorem C13_repeatable : forall d sp r,
  R d sp ->
  pout_eqb (snd (do_read d r)) (snd (do_read (fst (do_read d r)) r)) = true.
Proof. exact read_repeatable. Qed.
Print Assumptions C13_repeatable.

(* what the correspondence run evaluates on rdflib's snapshots: the reads
   start from the state the C02 mapping prescribes, every snapshot shows the
   same dataset as the one before it, every read answers the same twice *)
Theorem C13_spec_ok_model : forall c, pwf c -> spec_ok c (model_obs c) = true.
Proof. exact spec_ok_model. Qed.
Print Assumptions C13_spec_ok_model.

(* the _graph of before the "fix:" commit for F19 copied a Graph object of
   another store into the dataset on read paths; the repaired read does not *)
Theorem C13_hist_foreign_read_refuted :
  exists d c ts,
    quads (st (fst (cg_graph_hist d (Some (GForeign c ts))))) <> quads (st d)
    /\ quads (st (fst (do_read d (RdContains (pat_of (12, 4, 12)) (CQuad (Some (GForeign c ts))) false)))) = quads (st d).
Proof. exact hist_foreign_read_refuted. Qed.
Print Assumptions C13_hist_foreign_read_refuted.

(* below the API, Dataset.graphs() does write: the first full pass registers
   the default graph with the store.  graphs() itself always lists the default
   graph, so the set of graphs the dataset shows does not change (C13_read_pure
   is about [names]); stated so that the write is on record. *)
Theorem C13_graphs_registers_default_refuted :
  exists d, known (st (fst (do_read d RdGraphs))) <> known (st d).
Proof. exact graphs_registers_default_refuted. Qed.
Print Assumptions C13_graphs_registers_default_refuted.

(* readings of the checker *)
Theorem C13_same_reading : forall a b,
  psnap_same a b = true <->
  (forall q, In q (fst a) <-> In q (fst b)) /\ (forall g, g = 0 \/ In g (snd a) <-> g = 0 \/ In g (snd b)).
Proof. exact psnap_same_reading. Qed.
Print Assumptions C13_same_reading.

Theorem C13_run_reading : forall prev s f l,
  pure_run prev ((s, f) :: l) = true <-> psnap_same prev s = true /\ f = true /\ pure_run s l = true.
Proof. exact pure_run_reading. Qed.
Print Assumptions C13_run_reading.

(* non-vacuity: a dataset with an IRI-named, a blank-node-named and an empty
   known graph; restricted reads through an identifier and through a
   same-store Graph object and through a Graph of another store, graphs(), and opaque reads are all in scope,
   accepted, and the snapshots are not empty *)
Example C13_nonvacuous :
  let c := {| p_ds := true;
              p_build := [OAdd (1, 3, 2) (CQuad (Some (GId 1))); OAdd (8, 4, 5) (CQuad (Some (GId 3)));
                          OAdd (1, 3, 2) CTriple; OAdd (2, 4, 5) (CQuad None); OGraph (Some (GId 2))];
              p_reads := [RdGraphs; RdTriples pall CTriple (Some (GView 1)) true; RdOpaque 7;
                          RdQuads pall (CQuad (Some (GId 3))); RdContains (pat_of (1, 3, 2)) (CQuad (Some (GView 2))) false;
                          RdTriples pall CTriple (Some (GForeign 1 [(12, 4, 12)])) false] |} in
  pwf c /\ spec_ok c (model_obs c) = true
  /\ length (fst (fst (model_obs c))) = 4%nat /\ length (snd (model_obs c)) = 6%nat.
Proof. cbv zeta. repeat split; vm_compute; reflexivity. Qed.
