(* C13 - reading a graph never changes it: reads are pure and repeatable.
   Property theorems only.  What is PROVED here, precisely:
   (A) about FOUR kinds of read of the C02 front-end model (Purity/Model.v
       [do_read]: triples / quads / __contains__ - the reads whose path in
       graph.py goes through ConjunctiveGraph._graph - and graphs()/contexts()):
       the state after the read IS the state before it, so the read answers the
       same again.  Every other read of the harness catalogue (serialisers, SPARQL,
       paths, rdflib.compare, slicing, iteration, plain-Graph reads ...) is
       [RdOpaque]: the identity on the model state BY DEFINITION - nothing is
       proved about those calls.
   (B) about the store's read INTERFACE as a language of programs
       (the C13_interface theorems): no operation of the language writes to the dataset,
       so these hold by construction of the language.  They apply to a concrete
       serialiser/query ONLY through the per-run recording of the store methods
       it calls (harness/c13.py, RecordingStore); no theorem says that an rdflib
       function is such a program.
   For the opaque reads the evidence is the run: snapshots before/after, exact
   comparison of the first and second answer, recorded store calls. *)
From RV Require Import Dataset.Model Dataset.Proofs Dataset.OverMemory Dataset.OverMemoryProofs Dataset.OverMemoryReads.
From RV Require Import Purity.Model Purity.Proofs Purity.Programs.
Local Open Scope N_scope.

Theorem C13_reachable : forall b ops,
  forallb (fun o => negb (is_read o)) ops = true ->
  R (build (ds_init b) ops) (fold_left sp_step ops sp_init).
Proof. exact reachable_R. Qed.
Print Assumptions C13_reachable.

(* (A) each of the four modelled kinds of read, whatever graph argument it is
   handed (identifier, same-store Graph, Graph of another store), in EVERY state:
   the state - quads, union-only triples, the store's list of graphs - is
   untouched (opaque reads: by definition of the model) *)
Theorem C13_read_pure : forall d r, fst (do_read d r) = d.
Proof. exact do_read_state. Qed.
Print Assumptions C13_read_pure.

(* ... and issuing it again gives the same state and the same answer *)
Theorem C13_repeatable : forall d r, do_read (fst (do_read d r)) r = do_read d r.
Proof. exact do_read_again. Qed.
Print Assumptions C13_repeatable.

(* what the correspondence run evaluates on rdflib's observations is satisfied by
   the model on every case whose building history consists of writes: the reads
   start from the state the C02 mapping prescribes, every snapshot shows exactly
   the same quads and the same graph list as the one before it, every read
   answers the same twice, no store call outside read methods + bind *)
Theorem C13_spec_ok_model : forall c, pwf c -> spec_ok c (model_obs c) = true.
Proof. exact spec_ok_model. Qed.
Print Assumptions C13_spec_ok_model.

(* (A') the same over C01's Memory model of memory.py (Dataset/OverMemory.v): a read
   operation of the front end issues NO store-level write, so the Memory state -
   indexes, context dictionaries, registered graphs, not only its abstraction -
   is the same object afterwards; and its answer, computed from Memory's store
   reads, is the list-level model's answer (collections as sets), hence the same
   when asked again *)
Theorem C13_read_pure_memory : forall m fr o, is_read o = true -> mem_after m fr [o] = m.
Proof. exact mem_after_read. Qed.
Print Assumptions C13_read_pure_memory.

Theorem C13_repeatable_memory : forall m d o, AbsM m (st d) -> is_read o = true ->
  res_eqb (m_read (is_ds d) (mem_after m (fresh d) [o]) o) (snd (do_op d o)) = true
  /\ m_read (is_ds d) (mem_after m (fresh d) [o]) o = m_read (is_ds d) m o.
Proof.
  intros m d o HA Hr. rewrite (mem_after_read m (fresh d) o Hr). split; [now apply m_read_realises|reflexivity].
Qed.
Print Assumptions C13_repeatable_memory.

(* historical witnesses (both repaired in /repo): the _graph of before the "fix:"
   commit for F19 copied a Graph object of another store into the dataset on read
   paths; the graphs() of before 6844ed54 registered the default graph with the
   store on its first pass (F21: first and second TriX serialisation differed) *)
Theorem C13_hist_foreign_read_refuted :
  exists d c ts, quads (st (fst (cg_graph_hist d (Some (GForeign c ts))))) <> quads (st d).
Proof. exact hist_foreign_read_refuted. Qed.
Print Assumptions C13_hist_foreign_read_refuted.

Theorem C13_hist_graphs_registers_default_refuted :
  exists d, known (st (fst (ds_graphs_hist d))) <> known (st d).
Proof. exact hist_graphs_registers_default_refuted. Qed.
Print Assumptions C13_hist_graphs_registers_default_refuted.

(* readings of the checker: nothing is absorbed *)
Theorem C13_same_reading : forall a b,
  psnap_same a b = true <->
  (forall q, In q (fst a) <-> In q (fst b)) /\ (forall g, In g (snd a) <-> In g (snd b)).
Proof. exact psnap_same_reading. Qed.
Print Assumptions C13_same_reading.

Theorem C13_run_reading : forall prev e l,
  pure_run prev (e :: l) = true <->
  psnap_same prev (e_snap e) = true /\ e_same e = true
  /\ (forall c, In c (e_calls e) -> In c (read_meths ++ benign_meths)) /\ pure_run (e_snap e) l = true.
Proof. exact pure_run_reading. Qed.
Print Assumptions C13_run_reading.

(* ---- (B) the read interface as a language: true by construction ---- *)

(* any program leaves the dataset component of the state exactly as it was *)
Theorem C13_interface_pure : forall A (pr : prog A) s, r_ds (fst (run pr s)) = r_ds s.
Proof. exact run_ds. Qed.
Print Assumptions C13_interface_pure.

(* PARTIAL (hypothesis [bind_free], not a trigger): a program that binds no
   prefix changes nothing and answers the same when run again after any other
   such programs.  With binds, the prefix table - which is not part of the
   property's state - may differ (see C13_interface_ns_blind_partial). *)
Theorem C13_interface_repeatable_partial : forall A (pr : prog A) between s,
  bind_free pr -> Forall sp_bind_free between ->
  fst (run pr s) = s
  /\ snd (run pr (fold_left sp_run between (fst (run pr s)))) = snd (run pr s).
Proof. intros A pr between s H1 H2. split; [now apply run_bind_free_id|now apply run_repeatable]. Qed.
Print Assumptions C13_interface_repeatable_partial.

(* PARTIAL (hypothesis [ns_blind]): a program that never asks for the prefix table
   answers the same whatever the table is, whatever it binds *)
Theorem C13_interface_ns_blind_partial : forall A (pr : prog A), ns_blind pr -> forall s s',
  r_ds s = r_ds s' -> snd (run pr s) = snd (run pr s').
Proof. exact run_ns_blind. Qed.
Print Assumptions C13_interface_ns_blind_partial.

(* by unfolding definitions: the model's quads(), graphs(), len() are runs of
   three particular programs (this is how the model is written, not a fact about
   rdflib) *)
Theorem C13_model_reads_unfold_to_programs : forall d ns p,
  cg_quads d p CTriple = (let (s', l) := run (prog_quads p) {| r_ds := d; r_ns := ns |} in (r_ds s', l))
  /\ ds_graphs d = (let (s', l) := run (prog_graphs (is_ds d)) {| r_ds := d; r_ns := ns |} in (r_ds s', l))
  /\ cg_len d = snd (run prog_len {| r_ds := d; r_ns := ns |}).
Proof.
  intros d ns p. split; [apply quads_is_program|]. split; [apply graphs_is_program|apply len_is_program].
Qed.
Print Assumptions C13_model_reads_unfold_to_programs.

(* every store method the checker lets a read call is an operation of the
   language; every write - add_graph of the default graph included - is rejected *)
Theorem C13_recorded_calls : (forall c, call_ok c = true -> meth_kind c <> None)
  /\ forallb (fun c => negb (call_ok c)) [21; 30; 31; 32; 33; 34; 35; 36; 37; 38; 39; 40; 41; 42; 43; 44] = true.
Proof. split; [exact call_ok_is_op|exact write_codes_rejected]. Qed.
Print Assumptions C13_recorded_calls.

(* non-vacuity *)
Example C13_nonvacuous :
  let c := {| p_ds := true;
              p_build := [OAdd (1, 3, 2) (CQuad (Some (GId 1))); OAdd (8, 4, 5) (CQuad (Some (GId 3)));
                          OAdd (1, 3, 2) CTriple; OAdd (2, 4, 5) (CQuad None); OGraph (Some (GId 2))];
              p_reads := [RdGraphs; RdTriples pall CTriple (Some (GView 1)) true; RdOpaque 7;
                          RdQuads pall (CQuad (Some (GId 3))); RdContains (pat_of (1, 3, 2)) (CQuad (Some (GView 2))) false;
                          RdTriples pall CTriple (Some (GForeign 1 [(12, 4, 12)])) false] |} in
  pwf c /\ spec_ok c (model_obs c) = true
  /\ length (fst (fst (model_obs c))) = 4%nat /\ length (snd (model_obs c)) = 6%nat.
Proof. cbv zeta. repeat split; vm_compute; reflexivity. Qed.
