(* C13 - reading a graph never changes it: reads are pure and repeatable.
   Property theorems only.  The model is Purity/Model.v over Dataset/Model.v:
   the reads that have a write on their path in graph.py (triples / quads /
   __contains__ through ConjunctiveGraph._graph, Dataset.graphs()) are
   [ds -> ds * out] functions; serialisers, SPARQL engine, rdflib.compare,
   slicing and iteration are opaque reads whose purity holds in the model BY
   CONSTRUCTION - for them only the snapshot runs of harness/c13.py speak
   (hence "_partial" on the run-level theorem).
   [R d sp]: d is related to the C02 specification state sp (quads equal, no
   union-only triples, known names = listed names); every state reached by a
   history of writes is (C13_reachable).  [names d g]: g is the default graph
   or listed by the store. *)
From RV Require Import Dataset.Model Dataset.Proofs Purity.Model Purity.Proofs.
Local Open Scope N_scope.

Theorem C13_reachable : forall b ops,
  forallb (fun o => negb (is_read o)) ops = true ->
  R (build (ds_init b) ops) (fold_left sp_step ops sp_init).
Proof. exact reachable_R. Qed.
Print Assumptions C13_reachable.

(* a read that is given no Graph object of another store leaves quads, the
   union-only triples and the set of graph names exactly as they were *)
Theorem C13_read_pure : forall d sp r,
  R d sp -> read_nf r = true ->
  quads (st (fst (do_read d r))) = quads (st d)
  /\ orphans (st (fst (do_read d r))) = orphans (st d)
  /\ (forall g, names (fst (do_read d r)) g <-> names d g).
Proof. exact read_pure. Qed.
Print Assumptions C13_read_pure.

(* ... and the same read issued again answers the same *)
Theorem C13_repeatable : forall d sp r,
  R d sp -> read_nf r = true ->
  pout_eqb (snd (do_read d r)) (snd (do_read (fst (do_read d r)) r)) = true.
Proof. exact read_repeatable. Qed.
Print Assumptions C13_repeatable.

(* what the correspondence run evaluates on rdflib's snapshots: the reads
   start from the state the C02 mapping prescribes, every snapshot shows the
   same dataset as the one before it, every read answers the same twice *)
Theorem C13_spec_ok_model_partial : forall c, pwf c -> pkf c = 0 -> spec_ok c (model_obs c) = true.
Proof. exact spec_ok_model. Qed.
Print Assumptions C13_spec_ok_model_partial.

(* reads that are handed a foreign Graph object write (finding F19) *)
Theorem C13_foreign_read_refuted :
  exists d r, read_nf r = false /\ quads (st (fst (do_read d r))) <> quads (st d).
Proof. exact foreign_read_refuted. Qed.
Print Assumptions C13_foreign_read_refuted.

Theorem C13_spec_ok_refuted : exists c, pwf c /\ pkf c = 1 /\ spec_ok c (model_obs c) = false.
Proof. exact spec_ok_refuted. Qed.
Print Assumptions C13_spec_ok_refuted.

(* below the API, Dataset.graphs() does write: the first full pass registers
   the default graph with the store.  graphs() itself always lists the default
   graph, so the set of graphs the dataset shows does not change (C13_read_pure
   is about [names]); stated so that the write is on record. *)
Theorem C13_graphs_registers_default_refuted :
  exists d, read_nf RdGraphs = true /\ known (st (fst (do_read d RdGraphs))) <> known (st d).
Proof. exact graphs_registers_default_refuted. Qed.
Print Assumptions C13_graphs_registers_default_refuted.

(* readings of the checker *)
Theorem C13_same_reading : forall a b,
  psnap_same a b = true <->
  (forall q, In q (fst a) <-> In q (fst b)) /\ (forall g, g = 0 \/ In g (snd a) <-> g = 0 \/ In g (snd b)).
Proof. exact psnap_same_reading. Qed.
Print Assumptions C13_same_reading.

Theorem C13_run_reading : forall prev s f l,
  pure_run prev ((s, f) :: l) = true <-> psnap_same prev s = true /\ f = true /\ pure_run s l = true.
Proof. exact pure_run_reading. Qed.
Print Assumptions C13_run_reading.

(* non-vacuity: a dataset with an IRI-named, a blank-node-named and an empty
   known graph; restricted reads through an identifier and through a
   same-store Graph object, graphs(), and opaque reads are all in scope,
   accepted, and the snapshots are not empty *)
Example C13_nonvacuous :
  let c := {| p_ds := true;
              p_build := [OAdd (1, 3, 2) (CQuad (Some (GId 1))); OAdd (8, 4, 5) (CQuad (Some (GId 3)));
                          OAdd (1, 3, 2) CTriple; OAdd (2, 4, 5) (CQuad None); OGraph (Some (GId 2))];
              p_reads := [RdGraphs; RdTriples pall CTriple (Some (GView 1)) true; RdOpaque 7;
                          RdQuads pall (CQuad (Some (GId 3))); RdContains (pat_of (1, 3, 2)) (CQuad (Some (GView 2))) false] |} in
  pwf c /\ pkf c = 0 /\ spec_ok c (model_obs c) = true
  /\ length (fst (fst (model_obs c))) = 4%nat /\ length (snd (model_obs c)) = 5%nat.
Proof. cbv zeta. repeat split; vm_compute; reflexivity. Qed.
