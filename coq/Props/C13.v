(* C13 - reading a graph never changes it: reads are pure and repeatable.
   Property theorems only.  The model is Purity/Model.v over Dataset/Model.v:
   the reads whose path in graph.py goes through ConjunctiveGraph._graph
   (triples / quads / __contains__) or through a full pass of
   Dataset.graphs() are [ds -> ds * out] functions; serialisers, SPARQL
   engine, rdflib.compare, slicing and iteration are opaque reads whose purity
   holds in the model BY CONSTRUCTION - for them only the snapshot runs of
   harness/c13.py speak.
   [R d sp]: d is related to the C02 specification state sp (quads equal, no
   union-only triples, known names = listed names); every state reached by a
   history of writes is (C13_reachable).  [names d g]: g is the default graph
   or listed by the store. *)
From RV Require Import Dataset.Model Dataset.Proofs Purity.Model Purity.Proofs Purity.Programs.
Local Open Scope N_scope.

Theorem C13_reachable : forall b ops,
  forallb (fun o => negb (is_read o)) ops = true ->
  R (build (ds_init b) ops) (fold_left sp_step ops sp_init).
Proof. exact reachable_R. Qed.
Print Assumptions C13_reachable.

(* EVERY read - whatever graph argument it is handed, a Graph object of
   another store included (F19 repaired) - leaves quads, the union-only
   triples and the set of graph names exactly as they were *)
Theorem C13_read_pure : forall d sp r,
  R d sp ->
  quads (st (fst (do_read d r))) = quads (st d)
  /\ orphans (st (fst (do_read d r))) = orphans (st d)
  /\ (forall g, names (fst (do_read d r)) g <-> names d g).
Proof. exact read_pure. Qed.
Print Assumptions C13_read_pure.

(* ... and the same read issued again answers the same *)
Theorem C13_repeatable : forall d sp r,
  R d sp ->
  pout_eqb (snd (do_read d r)) (snd (do_read (fst (do_read d r)) r)) = true.
Proof. exact read_repeatable. Qed.
Print Assumptions C13_repeatable.

(* what the correspondence run evaluates on rdflib's snapshots: the reads
   start from the state the C02 mapping prescribes, every snapshot shows the
   same dataset as the one before it, every read answers the same twice *)
Theorem C13_spec_ok_model : forall c, pwf c -> spec_ok c (model_obs c) = true.
Proof. exact spec_ok_model. Qed.
Print Assumptions C13_spec_ok_model.

(* the _graph of before the "fix:" commit for F19 copied a Graph object of
   another store into the dataset on read paths; the repaired read does not *)
Theorem C13_hist_foreign_read_refuted :
  exists d c ts,
    quads (st (fst (cg_graph_hist d (Some (GForeign c ts))))) <> quads (st d)
    /\ quads (st (fst (do_read d (RdContains (pat_of (12, 4, 12)) (CQuad (Some (GForeign c ts))) false)))) = quads (st d).
Proof. exact hist_foreign_read_refuted. Qed.
Print Assumptions C13_hist_foreign_read_refuted.

(* below the API, Dataset.graphs() does write: the first full pass registers
   the default graph with the store.  graphs() itself always lists the default
   graph, so the set of graphs the dataset shows does not change (C13_read_pure
   is about [names]); stated so that the write is on record. *)
Theorem C13_graphs_registers_default_refuted :
  exists d, known (st (fst (do_read d RdGraphs))) <> known (st d).
Proof. exact graphs_registers_default_refuted. Qed.
Print Assumptions C13_graphs_registers_default_refuted.

(* readings of the checker *)
Theorem C13_same_reading : forall a b,
  psnap_same a b = true <->
  (forall q, In q (fst a) <-> In q (fst b)) /\ (forall g, g = 0 \/ In g (snd a) <-> g = 0 \/ In g (snd b)).
Proof. exact psnap_same_reading. Qed.
Print Assumptions C13_same_reading.

Theorem C13_run_reading : forall prev e l,
  pure_run prev (e :: l) = true <->
  psnap_same prev (e_snap e) = true /\ e_same e = true
  /\ (forall c, In c (e_calls e) -> In c (read_meths ++ benign_meths)) /\ pure_run (e_snap e) l = true.
Proof. exact pure_run_reading. Qed.
Print Assumptions C13_run_reading.

(* ---- read programs: the purity of a serialiser, a query, a comparison is a
   consequence of ONE checked fact - that it talks to the store through read
   methods only (harness/c13.py records every store method a read calls; the
   checker rejects any other) ---- *)

(* ANY program over the store's read interface - whatever it computes in
   between - leaves quads, union-only triples, front-end kind and the set of
   graph names (default graph counted as present) as they were *)
Theorem C13_program_pure : forall A (pr : prog A) s,
  let s' := fst (run pr s) in
  quads (st (r_ds s')) = quads (st (r_ds s)) /\ orphans (st (r_ds s')) = orphans (st (r_ds s))
  /\ (forall g, (g = 0 \/ In g (known (st (r_ds s')))) <-> (g = 0 \/ In g (known (st (r_ds s))))).
Proof. intros A pr s. destruct (run_pure A pr s) as (H1 & H2 & _ & _ & H5 & _). auto. Qed.
Print Assumptions C13_program_pure.

(* a program that only asks changes nothing at all; one that also registers the
   default graph changes nothing once it is registered, and before that adds
   exactly that registration *)
Theorem C13_program_state : forall A (pr : prog A),
  (quiet pr -> forall s, fst (run pr s) = s)
  /\ (bind_free pr -> forall s, settled s -> fst (run pr s) = s)
  /\ (bind_free pr -> forall s, fst (run pr s) = s \/ (fst (run pr s) = touch0 s /\ ~ settled s)).
Proof.
  intros A pr. split; [apply run_quiet_id|split]; [apply run_settled_id|apply run_bind_free_known].
Qed.
Print Assumptions C13_program_state.

(* repeatability with other reads in between *)
Theorem C13_program_repeatable : forall A (pr : prog A) between s,
  settled s -> bind_free pr -> Forall sp_bind_free between ->
  snd (run pr (fold_left sp_run between (fst (run pr s)))) = snd (run pr s).
Proof. exact run_repeatable. Qed.
Print Assumptions C13_program_repeatable.

Theorem C13_program_repeatable_quiet : forall A (pr : prog A) between s,
  quiet pr -> Forall sp_quiet between ->
  snd (run pr (fold_left sp_run between (fst (run pr s)))) = snd (run pr s).
Proof. exact run_repeatable_quiet. Qed.
Print Assumptions C13_program_repeatable_quiet.

(* prefix bindings (the one other benign write) do not reach the data: a program
   that never asks for the prefix table answers the same whatever the table is *)
Theorem C13_program_ns_blind : forall A (pr : prog A), ns_blind pr -> forall s s',
  r_ds s = r_ds s' -> snd (run pr s) = snd (run pr s') /\ r_ds (fst (run pr s)) = r_ds (fst (run pr s')).
Proof. exact run_ns_blind. Qed.
Print Assumptions C13_program_ns_blind.

(* the front end's own reads are such programs, and every method code the
   checker accepts is an operation of the language; every write code is rejected *)
Theorem C13_front_end_reads_are_programs : forall d ns p,
  cg_quads d p CTriple = (let (s', l) := run (prog_quads p) {| r_ds := d; r_ns := ns |} in (r_ds s', l))
  /\ ds_graphs d = (let (s', l) := run (prog_graphs (is_ds d)) {| r_ds := d; r_ns := ns |} in (r_ds s', l))
  /\ cg_len d = snd (run prog_len {| r_ds := d; r_ns := ns |})
  /\ quiet (prog_quads p) /\ bind_free (prog_graphs (is_ds d)).
Proof.
  intros d ns p. split; [apply quads_is_program|]. split; [apply graphs_is_program|]. split; [apply len_is_program|].
  split; [apply prog_quads_quiet|apply prog_graphs_bind_free].
Qed.
Print Assumptions C13_front_end_reads_are_programs.

Theorem C13_recorded_calls : (forall c, call_ok c = true -> meth_kind c <> None)
  /\ forallb (fun c => negb (call_ok c)) [30; 31; 32; 33; 34; 35; 36; 37; 38; 39; 40; 41; 42; 43; 44] = true.
Proof. split; [exact call_ok_is_op|exact write_codes_rejected]. Qed.
Print Assumptions C13_recorded_calls.

(* non-vacuity: a dataset with an IRI-named, a blank-node-named and an empty
   known graph; restricted reads through an identifier and through a
   same-store Graph object and through a Graph of another store, graphs(), and opaque reads are all in scope,
   accepted, and the snapshots are not empty *)
Example C13_nonvacuous :
  let c := {| p_ds := true;
              p_build := [OAdd (1, 3, 2) (CQuad (Some (GId 1))); OAdd (8, 4, 5) (CQuad (Some (GId 3)));
                          OAdd (1, 3, 2) CTriple; OAdd (2, 4, 5) (CQuad None); OGraph (Some (GId 2))];
              p_reads := [RdGraphs; RdTriples pall CTriple (Some (GView 1)) true; RdOpaque 7;
                          RdQuads pall (CQuad (Some (GId 3))); RdContains (pat_of (1, 3, 2)) (CQuad (Some (GView 2))) false;
                          RdTriples pall CTriple (Some (GForeign 1 [(12, 4, 12)])) false] |} in
  pwf c /\ spec_ok c (model_obs c) = true
  /\ length (fst (fst (model_obs c))) = 4%nat /\ length (snd (model_obs c)) = 6%nat.
Proof. cbv zeta. repeat split; vm_compute; reflexivity. Qed.
