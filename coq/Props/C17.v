(* C17 - prefix bindings stay a consistent two-way map and compact IRIs expand
   back.  Property theorems only; proofs are in Namespace/*.v.

   [split], [split_s], [ncname] stand for split_uri(uri), split_uri(uri,
   NAME_START_CATEGORIES) and is_ncname, which depend on unicodedata.category;
   the theorems hold for every such function, and [exact f u] is the one fact
   used about them: if f splits u into (ns, ln) then ns ++ ln = u
   ([C17_split_exact] proves it of the executable split_uri for every
   character classification).

   The model is of the code after the "fix:" commits for F6a (caches emptied by
   _store_bind), F6b (store bind without override), F6c (XML namespace in
   split_uri); the last two were found by this check. *)
From RV Require Import Namespace.Model Namespace.Dict Namespace.StoreInv Namespace.Proofs Namespace.Final Namespace.Trie Namespace.TrieMgr.

(* After any history of bind (all flag combinations) / qname / curie / compute_qname(_strict)
   / normalizeUri / expand_curie / reset operations: namespaces() lists each prefix once and
   each namespace once, membership in the listing is lookup by prefix, and lookup by prefix
   and lookup by namespace are inverse of each other. *)
Theorem C17_bijection : forall split split_s ncname ops,
  let s := m_final split split_s ncname m_init ops in
  NoDup (map fst (p2n s)) /\ NoDup (map snd (p2n s)) /\ NoDup (map fst (n2p s)) /\
  (forall p n, In (p, n) (p2n s) <-> dget (p2n s) p = Some n) /\
  (forall p n, dget (p2n s) p = Some n <-> dget (n2p s) n = Some p).
Proof. intros split split_s ncname ops. exact (bijection split split_s ncname ops). Qed.
Print Assumptions C17_bijection.

(* Memory.bind alone: on mutually inverse dictionaries it never raises, keeps them mutually
   inverse, and with override the prefix is bound to the namespace afterwards. *)
Theorem C17_store_bind : forall s prefix ns ov, bij s ->
  snd (store_bind s prefix ns ov) = true /\ bij (fst (store_bind s prefix ns ov)) /\
  (ov = true -> dget (p2n (fst (store_bind s prefix ns ov))) prefix = Some ns).
Proof. exact store_bind_good. Qed.
Print Assumptions C17_store_bind.

(* The store bind as it was before the fix for F6b did not have the property:
   bind(a, h:e/); bind(b, h:e/a#); bind(a, h:e/a#, override=False) *)
Theorem C17_old_store_bind_refuted :
  exists s prefix ns, bij s /\ ~ bij (store_bind_old_noov s prefix ns).
Proof. eexists. eexists. eexists. exact old_store_bind_witness. Qed.
Print Assumptions C17_old_store_bind_refuted.

(* The prefix compute_qname (hence qname, curie, n3) answers with is bound to the
   namespace it answers with in the store as it is right after the call, in both
   directions - also when the answer comes from the cache. *)
Theorem C17_qname_bound_now : forall split split_s ncname ops u gen s' p ns nm,
  let s := m_final split split_s ncname m_init ops in
  m_compute split s u gen = (s', inl (p, ns, nm)) ->
  dget (p2n s') p = Some ns /\ dget (n2p s') ns = Some p.
Proof.
  intros split split_s ncname ops u gen s' p ns nm s E.
  destruct (qname_bound_now split split_s ncname ops u gen s' p ns nm E) as (A & B & _). auto.
Qed.
Print Assumptions C17_qname_bound_now.

Theorem C17_strict_bound_now : forall split split_s ncname ops u gen s' p ns nm,
  let s := m_final split split_s ncname m_init ops in
  m_compute_strict split split_s ncname s u gen = (s', inl (p, ns, nm)) ->
  dget (p2n s') p = Some ns /\ dget (n2p s') ns = Some p /\
  (exact split u -> exact split_s u -> ns ++ nm = u).
Proof. intros split split_s ncname ops u gen s' p ns nm s. apply strict_bound_now. Qed.
Print Assumptions C17_strict_bound_now.

(* Expanding gives the IRI back: expand_curie(curie(u)) = u, expand_curie(qname(u)) = u
   when the prefix is not empty, and with the empty prefix qname(u) is the bare local name
   whose namespace is the one bound to "".  (A prefix containing ':' cannot be expanded
   by expand_curie, which splits at the first colon.) *)
Theorem C17_qname_expands : forall split split_s ncname ops u gen s' p ns nm,
  let s := m_final split split_s ncname m_init ops in
  exact split u ->
  m_compute split s u gen = (s', inl (p, ns, nm)) ->
  has_colon p = false ->
  m_expand s' (curie_str (p, ns, nm)) = inl u /\
  (p <> [] -> m_expand s' (qname_str (p, ns, nm)) = inl u) /\
  (p = [] -> qname_str (p, ns, nm) = nm /\ dget (p2n s') [] = Some ns /\ ns ++ nm = u).
Proof. intros split split_s ncname ops u gen s' p ns nm s. apply qname_expands. Qed.
Print Assumptions C17_qname_expands.

(* The executable split_uri of the model is exact on every IRI, for every character
   classification. *)
Theorem C17_split_exact : forall cat strict u, exact (split_uri cat strict) u.
Proof. exact split_uri_exact. Qed.
Print Assumptions C17_split_exact.

(* uri.split(XMLNS)[1], the local name before the fix for F6c, was not. *)
Theorem C17_old_xml_split_refuted :
  exists u, starts_with u XMLNS = true /\ XMLNS ++ xml_local_old u <> u.
Proof. exact old_xml_split_witness. Qed.
Print Assumptions C17_old_xml_split_refuted.

(* What the correspondence check evaluates on the implementation's answers holds of the
   model on every case. *)
Theorem C17_spec_ok_model : forall c, spec_ok c (model_obs c) = true.
Proof. exact spec_ok_model. Qed.
Print Assumptions C17_spec_ok_model.

(* Readings of the boolean checker. *)
Theorem C17_snap_ok_reading : forall o x, snap_ok o x = true ->
  bij_ok (s_list x) (s_rev x) = true /\ s_api x = true /\ res_ok (s_list x) o (s_res x) = true.
Proof. exact snap_ok_reading. Qed.
Print Assumptions C17_snap_ok_reading.

Theorem C17_bij_ok_reading : forall l r, bij_ok l r = true ->
  NoDup (map fst l) /\ NoDup (map snd l) /\ NoDup (map fst r) /\
  (forall p n, In (p, n) l <-> dget l p = Some n) /\
  (forall p n, dget l p = Some n <-> dget r n = Some p).
Proof. exact bij_ok_reading. Qed.
Print Assumptions C17_bij_ok_reading.

Theorem C17_qn_ok_reading : forall l u p ns nm,
  qn_ok l u (p, ns, nm) = true <-> dget l p = Some ns /\ ns ++ nm = u.
Proof. exact qn_ok_reading. Qed.
Print Assumptions C17_qn_ok_reading.

Theorem C17_exp_ok_reading : forall isq u p ns nm e, exp_ok isq u (p, ns, nm) e = true ->
  has_colon p = false -> (isq = true -> p <> []) -> e = Some u.
Proof. exact exp_ok_reading. Qed.
Print Assumptions C17_exp_ok_reading.

(* non-vacuity: a history with rebinding, a numbered fallback, a generated prefix, a
   nested namespace bound after a qname of an IRI inside it, and a re-query; the second
   answer uses the longer namespace *)
Example C17_nonvacuous :
  let e := [104; 58; 101; 47]%N in let ea := [104; 58; 101; 47; 97]%N in
  let u := (e ++ [97; 98])%N in
  let ops := [OBind (Some [97]) e true false; OQname u; OBind (Some [97]) ea false false;
              OBind (Some [98]) ea true false; OQname u; OCurie (e ++ [121]) true]%N in
  let c := {| c_cats := [(97, 1); (98, 1); (101, 1); (104, 1); (120, 1); (121, 1)]%N; c_ops := ops; c_tag := 0 |} in
  map s_res (model_obs c) =
    [RUnit; RQ [97; 58; 97; 98]%N ([97], e, [97; 98])%N (Some u);
     RUnit; RUnit;
     RQ [98; 58; 98]%N ([98], ea, [98])%N (Some u);
     RQ [97; 58; 121]%N ([97], e, [121])%N (Some (e ++ [121])%N)]%N /\
  map s_list (model_obs c) =
    [[([97], e)]; [([97], e)]; [([97], e); ([97; 49], ea)]; [([97], e); ([98], ea)];
     [([97], e); ([98], ea)]; [([97], e); ([98], ea)]]%N.
Proof. vm_compute. repeat split; reflexivity. Qed.


(* get_longest_namespace after ANY insertion order: on the trie built by insert_trie from
   the namespaces vs (in the order given, repetitions allowed) it returns a namespace of vs
   that is a prefix of the value and that every other such namespace is a prefix of - the
   longest one; None iff no namespace of vs is a prefix of the value. *)
Theorem C17_trie : forall vs v,
  match gln (fold_left insert_trie vs (T [])) v with
  | Some k => In k vs /\ starts_with v k = true /\
              forall k', In k' vs -> starts_with v k' = true ->
                         starts_with k k' = true /\ length k' <= length k
  | None => forall k', In k' vs -> starts_with v k' = false
  end.
Proof.
  intros vs v. pose proof (gln_build vs v) as H. unfold build in H.
  destruct (gln (fold_left insert_trie vs (T [])) v) as [k|]; [|exact H].
  destruct H as (A & B & C). split; [exact A|]. split; [exact B|].
  intros k' H1 H2. split; [now apply C|]. apply sw_length. now apply C.
Qed.
Print Assumptions C17_trie.

(* The invariant behind it: insert_trie keeps a trie well-formed (sibling keys distinct and
   not prefixes of one another, every key below a node properly extends it) and adds exactly
   the value to its keys ... *)
Theorem C17_insert_trie_wellformed : forall t v, wft t ->
  wft (insert_trie t v) /\
  forall k, In k (trie_keys (insert_trie t v)) <-> k = v \/ In k (trie_keys t).
Proof. intros t v H. exact (insert_wft t H v). Qed.
Print Assumptions C17_insert_trie_wellformed.

(* ... and on a well-formed trie get_longest_namespace returns the longest key that is a
   prefix of the value. *)
Theorem C17_gln_wellformed : forall t v, wft t ->
  match gln t v with
  | Some k => In k (trie_keys t) /\ starts_with v k = true /\
              forall k', In k' (trie_keys t) -> starts_with v k' = true -> starts_with k k' = true
  | None => forall k', In k' (trie_keys t) -> starts_with v k' = false
  end.
Proof. intros t v H. exact (gln_longest t H v). Qed.
Print Assumptions C17_gln_wellformed.

(* In every reachable manager state the trie is well-formed, and so is the sub-dictionary
   self.__strie[namespace] that compute_qname hands to get_longest_namespace: the namespace
   it picks is the longest known one below the split namespace that is a prefix of the IRI. *)
Theorem C17_trie_reachable : forall split split_s ncname ops,
  let s := m_final split split_s ncname m_init ops in
  wft (trie_ s) /\
  forall ns0 sub u, find_sub (trie_ s) ns0 = Some sub ->
    wft sub /\
    match gln sub u with
    | Some k => In k (trie_keys sub) /\ starts_with u k = true /\
                forall k', In k' (trie_keys sub) -> starts_with u k' = true -> starts_with k k' = true
    | None => forall k', In k' (trie_keys sub) -> starts_with u k' = false
    end.
Proof.
  intros split split_s ncname ops s.
  assert (W : wft (trie_ s)) by (apply tinv_final, tinv_init).
  split; [exact W|]. intros ns0 sub u E.
  assert (Ws : wft sub) by (eapply find_sub_wft; eauto).
  split; [exact Ws|]. exact (gln_longest sub Ws u).
Qed.
Print Assumptions C17_trie_reachable.

(* non-vacuity of C17_trie: all 120 insertion orders of h:e/ h:e/a h:e/a/ h:e/a/b/ h:e/ab, six
   IRIs each, against a brute-force search *)
Example C17_trie_all_orders_sample :
  let e := [104; 58; 101; 47]%N in
  let vs := [e; e ++ [97]; e ++ [97; 47]; e ++ [97; 47; 98; 47]; e ++ [97; 98]]%N in
  let us := [e ++ [97; 47; 98; 47; 120]; e ++ [97; 98; 99]; e ++ [120]; e ++ [97; 47; 120]; [104; 58]; e ++ [97]]%N in
  forallb (fun p => forallb (fun u => opt_eqb str_eqb (gln (build p) u) (longest_of vs u)) us) (perms vs) = true.
Proof. vm_compute. reflexivity. Qed.

(* The suites hand observations over in a packed form (string table + indices); what is
   evaluated on them is the same checker after decoding, and it holds of the model. *)
Theorem C17_d_spec_model : forall c, d_spec c (d_model c) = true.
Proof. intros c. exact (spec_ok_model c). Qed.
Print Assumptions C17_d_spec_model.

(* The scope of the bound-now theorems is ONE manager per store.  With a second manager on
   the same store (a graph object that does not share the dataset's manager: seeded change
   C17-r2-3 for get_context, finding F6e for ConjunctiveGraph.default_context / Dataset.parse)
   the bijection still holds - it is a property of the store - but the first manager's cached
   answer names a prefix the second manager's bind has unbound. *)
Theorem C17_second_manager_refuted :
  exists split s p0 n0 u p ns nm,
    let s' := other_manager_bind s p0 n0 true false in
    bij s' /\ m_compute split s' u true = (s', inl (p, ns, nm)) /\ dget (p2n s') p = None.
Proof.
  destruct second_manager_witness as (B & p & ns & nm & E & D).
  eexists. eexists. eexists. eexists. eexists. exists p, ns, nm. cbn zeta. split; [exact B|]. split; [exact E|exact D].
Qed.
Print Assumptions C17_second_manager_refuted.

(* ---------------------------------------------------------------- *)
(* Several NamespaceManagers over one store (model [world]). *)
From RV Require Import Namespace.World Gen.Tables_nsdefaults.

(* Every interleaving of operations through any of the managers, and of new managers binding
   their stock prefixes, keeps the store's two dictionaries mutually inverse. *)
Theorem C17_world_bijection : forall split split_s ncname ops,
  let w := w_final split split_s ncname w_init ops in
  NoDup (map fst (w_p2n w)) /\ NoDup (map snd (w_p2n w)) /\ NoDup (map fst (w_n2p w)) /\
  (forall p n, In (p, n) (w_p2n w) <-> dget (w_p2n w) p = Some n) /\
  (forall p n, dget (w_p2n w) p = Some n <-> dget (w_n2p w) n = Some p).
Proof. exact w_bijection. Qed.
Print Assumptions C17_world_bijection.

(* ... and every answer is right about the store (prefix bound now to the namespace, expands
   back) unless it is read from a cache entry that has become stale, which only a bind through
   ANOTHER manager can cause: [w_kf c = 0] says no operation of the history did that. *)
Theorem C17_world_spec_ok_model_partial : forall c,
  wc_wf c = true -> w_kf c = 0%N -> w_spec_ok c (w_model_obs c) = true.
Proof. exact w_spec_ok_model. Qed.
Print Assumptions C17_world_spec_ok_model_partial.

(* Without the trigger hypothesis the statement is false (finding F6e): bind(a, h:e/) and
   qname(h:e/x) through manager 0, bind(b, h:e/) through manager 1, qname(h:e/x) through
   manager 0 again answers a:x from its cache. *)
Theorem C17_world_refuted :
  exists c, wc_wf c = true /\ w_kf c = 5%N /\ w_spec_ok c (w_model_obs c) = false.
Proof.
  exists {| wc_cats := [(97, 1); (101, 1); (104, 1); (120, 1)]%N;
            wc_ops := [WNew []; WNew [];
                       WOp 0 (OBind (Some [97%N]) w_e true false); WOp 0 (OQname (w_e ++ [120%N]));
                       WOp 1 (OBind (Some [98%N]) w_e true false); WOp 0 (OQname (w_e ++ [120%N]))] |}.
  vm_compute. auto.
Qed.
Print Assumptions C17_world_refuted.

(* The stock prefix tables reflected from the source: a fresh manager binds every one of them
   (no prefix or namespace of the table displaces another). *)
Example C17_stock_tables_bind_all :
  map fst (w_p2n (w_final (fun _ => None) (fun _ => None) (fun _ => true) w_init [WNew stock_rdflib]))
  = map fst stock_rdflib.
Proof. vm_compute. reflexivity. Qed.

(* ---------------------------------------------------------------- *)
(* The Turtle serialiser's prefix handling (model Namespace/SerModel.v). *)
From RV Require Import Namespace.SerModel Namespace.SerProofs.

(* preprocess() after any history of manager operations: the store is still a bijection (and
   the manager's caches right), the serialiser's prefix table has every prefix once, an entry
   once made is never changed, and every name prefix:local that getQName handed out is
   declared in the final table for a namespace ns with ns ++ local = the IRI (prefixes starting
   with "_" or clashing are rewritten to p..., consistently). *)
Theorem C17_serializer_names : forall split split_s ncname ops calls,
  let s := m_final split split_s ncname m_init ops in
  let z := ser_pre split s z_init calls in
  bij (fst (fst z)) /\ NoDup (map fst (z_ns (snd (fst z)))) /\
  Forall (fun e => match snd e with
                   | QName p l => exists ns, dget (z_ns (snd (fst z))) p = Some ns /\
                                             (exact split (fst e) -> ns ++ l = fst e)
                   | _ => True
                   end) (snd z).
Proof.
  intros split split_s ncname ops calls s z.
  assert (Hg : good split split_s true s) by (apply m_final_good; [reflexivity|apply good_init]).
  destruct (ser_pre_spec split split_s calls s z_init Hg) as (G & Z & _ & N); [constructor|].
  split; [exact (proj1 G)|]. split; [exact Z|exact N].
Qed.
Print Assumptions C17_serializer_names.

Theorem C17_serializer_add_namespace : forall t prefix ns, NoDup (map fst (z_ns t)) ->
  NoDup (map fst (z_ns (fst (add_ns t prefix ns)))) /\
  (forall k v, dget (z_ns t) k = Some v -> dget (z_ns (fst (add_ns t prefix ns))) k = Some v) /\
  (forall p, snd (add_ns t prefix ns) = Some p -> dget (z_ns (fst (add_ns t prefix ns))) p = Some ns).
Proof. exact add_ns_spec. Qed.
Print Assumptions C17_serializer_add_namespace.

(* the @prefix header, sorted(self.namespaces.items()), is a permutation of the table *)
Theorem C17_serializer_header : forall t, Permutation.Permutation (header_of t) (z_ns t).
Proof. exact header_perm. Qed.
Print Assumptions C17_serializer_header.

(* what the nsserial suite evaluates on the implementation's answers holds of the model *)
Theorem C17_serializer_spec_model : forall c, ser_spec c (ser_model c) = true.
Proof. exact ser_spec_model. Qed.
Print Assumptions C17_serializer_spec_model.

(* ---------------------------------------------------------------- *)
(* Exceptions.  The checker accepts an exception only where the code may raise it, and only the
   class it raises: reading of [exn_ok] for compute_qname / qname / curie. *)
Theorem C17_exn_ok_reading : forall sp sps l r u g e,
  exn_ok sp sps l r (OCompute u g) (RExn e) = true ->
  (e = EValue /\ (valid_uri u = false \/ (sp u = None /\ forall p, dget r u = Some p -> p = []))) \/
  (e = EKey /\ g = false /\ valid_uri u = true).
Proof.
  intros sp sps l r u g e. cbn [exn_ok]. unfold compute_exn_ok, sp_exists. destruct e; [| |discriminate].
  - rewrite !andb_true_iff, negb_true_iff. intros [[A B] _]. right. auto.
  - rewrite orb_true_iff, !negb_true_iff. intros [A|A]; left; split; auto.
    right. destruct (sp u); [discriminate|]. split; [reflexivity|].
    intros p Hp. rewrite Hp in A. now destruct p.
Qed.
Print Assumptions C17_exn_ok_reading.

(* The two numbered-prefix searches of the code (the "while 1" of NamespaceManager.bind and of
   compute_qname) end within |bindings|+1 rounds: the model's "does not end" outcome is
   unreachable (pigeonhole; "%s" % num is injective). *)
Theorem C17_while_loops_end : forall s base ns num,
  find_num s base ns (S (length (p2n s))) num <> NLoop /\ find_ns s (S (length (p2n s))) num <> None.
Proof. intros. split; [apply find_num_noloop|apply find_ns_some]. Qed.
Print Assumptions C17_while_loops_end.

(* ---------------------------------------------------------------- *)
(* Parsing Turtle (N3, TriG) with several @prefix / PREFIX directives (model: operation
   [OParse decls] = TurtleParser.parse's  for prefix, namespace in p._bindings.items():
   graph.bind(prefix, namespace)). *)
From RV Require Import Namespace.Parse.

(* p._bindings: a prefix declared again takes the namespace of the last directive *)
Theorem C17_parse_directives : forall decls p n,
  dget (eff_decls (decls ++ [(p, n)])) p = Some n /\
  forall p', p' <> p -> dget (eff_decls (decls ++ [(p, n)])) p' = dget (eff_decls decls) p'.
Proof.
  intros decls p n. unfold eff_decls. rewrite fold_left_app. cbn [fold_left fst snd]. split.
  - rewrite dget_dset. now rewrite str_eqb_refl.
  - intros p' H. rewrite dget_dset. destruct (str_eqb_spec p' p); [congruence|reflexivity].
Qed.
Print Assumptions C17_parse_directives.

(* After such a parse, in any reachable state and for directives with space-free prefixes and
   non-empty namespaces: the parse does not raise, the store is still a bijection, and every
   declared namespace n has a prefix; the LAST directive (p, n) for that namespace decides which:
   p itself, unless p was in use for another namespace when its turn came (then bind takes the
   numbered p1, p2, ... as always).  A later directive for another namespace never takes it away;
   a later directive for the SAME namespace re-points it (that is the hypothesis on l2). *)
Theorem C17_parse_binds : forall split split_s ncname ops decls l1 p n l2,
  let s := m_final split split_s ncname m_init ops in
  eff_decls decls = l1 ++ (p, n) :: l2 ->
  Forall decl_ok (eff_decls decls) ->
  (forall e, In e l2 -> snd e <> n) ->
  let r := m_step split split_s ncname s (OParse decls) in
  snd r = RUnit /\ bij (fst r) /\
  exists q, dget (n2p (fst r)) n = Some q /\ dget (p2n (fst r)) q = Some n /\
            (taken (fst (m_binds s l1)) p n = false -> q = p).
Proof.
  intros split split_s ncname ops decls l1 p n l2 s E Hd Hne. cbn [m_step]. rewrite E in *.
  assert (Hg : good split split_s true s) by (apply m_final_good; [reflexivity|apply good_init]).
  destruct (m_binds_result split split_s l1 p n l2 s Hg Hd Hne) as (Ok & B & q & H1 & H2 & H3).
  cbn [fst snd]. rewrite Ok. split; [reflexivity|]. split; [exact B|]. exists q. auto.
Qed.
Print Assumptions C17_parse_binds.

(* the two single-bind facts it is proved from *)
Theorem C17_bind_binds : forall split split_s s p n,
  good split split_s true s -> has_space p = false ->
  snd (m_bind s (Some p) n true false) = None /\
  exists q, dget (n2p (fst (m_bind s (Some p) n true false))) n = Some q /\ (taken s p n = false -> q = p).
Proof. intros split split_s s p n. apply m_bind_binds. Qed.
Print Assumptions C17_bind_binds.

Theorem C17_bind_keeps : forall split split_s s p n n0 q,
  good split split_s true s -> has_space p = false -> n0 <> n -> truthy n0 = true ->
  dget (n2p s) n0 = Some q -> dget (n2p (fst (m_bind s (Some p) n true false))) n0 = Some q.
Proof. intros split split_s s p n n0 q. apply m_bind_keeps. Qed.
Print Assumptions C17_bind_keeps.
