(* C17 - prefix bindings stay a consistent two-way map and compact IRIs expand
   back.  Property theorems only; proofs are in Namespace/*.v.

   [split], [split_s], [ncname] stand for split_uri(uri), split_uri(uri,
   NAME_START_CATEGORIES) and is_ncname, which depend on unicodedata.category;
   the theorems hold for every such function, and [exact f u] is the one fact
   used about them: if f splits u into (ns, ln) then ns ++ ln = u.

   [bad s] is the trigger of finding F6b: it becomes true when Memory.bind is
   entered with override=False while the prefix is bound to another namespace
   and the namespace is bound to some prefix - the only place where the two
   dictionaries stop being inverse of each other. *)
From RV Require Import Namespace.Model Namespace.Dict Namespace.StoreInv Namespace.Proofs Namespace.Final Namespace.Trie.

(* After any history of bind / qname / curie / compute_qname(_strict) / normalizeUri /
   expand_curie / reset operations that stays outside the F6b region: namespaces() lists
   each prefix once and each namespace once, membership in the listing is lookup by prefix,
   and lookup by prefix and lookup by namespace are inverse of each other. *)
Theorem C17_bijection_partial : forall split split_s ncname ops,
  let s := m_final split split_s ncname m_init ops in
  bad s = false ->
  NoDup (map fst (p2n s)) /\ NoDup (map snd (p2n s)) /\ NoDup (map fst (n2p s)) /\
  (forall p n, In (p, n) (p2n s) <-> dget (p2n s) p = Some n) /\
  (forall p n, dget (p2n s) p = Some n <-> dget (n2p s) n = Some p).
Proof. intros split split_s ncname ops. exact (bijection split split_s ncname ops). Qed.
Print Assumptions C17_bijection_partial.

(* The full statement (no trigger hypothesis) is false: finding F6b.
   bind(a, h:e/); bind(b, h:e/a#); bind(a, h:e/a#, override=False, replace=True)
   leaves  a -> h:e/, b -> h:e/  and  h:e/ -> b, h:e/a# -> b;  qname(h:e/a#x) then
   answers with prefix b, which is bound to h:e/. *)
Theorem C17_bijection_refuted :
  exists split ops,
    let s := m_final split split (fun _ => true) m_init ops in
    ~ bij s /\
    exists s' p ns nm u, m_compute split s u true = (s', inl (p, ns, nm)) /\ dget (p2n s') p <> Some ns.
Proof.
  exists w_split, w_f6b. destruct f6b_witness as (_ & H & s' & p & ns & nm & E & D).
  split; [exact H|]. exists s', p, ns, nm, (w_ea ++ [120%N]). auto.
Qed.
Print Assumptions C17_bijection_refuted.

(* The trigger never resets: once a history has entered the F6b region all its
   extensions are outside the scope of the partial theorems. *)
Theorem C17_trigger_monotone : forall split split_s ncname ops s,
  bad s = true -> bad (m_final split split_s ncname s ops) = true.
Proof. intros. now apply m_final_mono. Qed.
Print Assumptions C17_trigger_monotone.

(* The prefix compute_qname (hence qname, curie, n3) answers with is bound to the
   namespace it answers with in the store as it is right after the call, in both
   directions - also when the answer comes from the cache (this is what the F6a fix
   buys: _store_bind empties the caches). *)
Theorem C17_qname_bound_now_partial : forall split split_s ncname ops u gen s' p ns nm,
  let s := m_final split split_s ncname m_init ops in
  bad s = false ->
  m_compute split s u gen = (s', inl (p, ns, nm)) ->
  dget (p2n s') p = Some ns /\ dget (n2p s') ns = Some p.
Proof.
  intros split split_s ncname ops u gen s' p ns nm s Hb E.
  destruct (qname_bound_now split split_s ncname ops u gen s' p ns nm Hb E) as (A & B & _). auto.
Qed.
Print Assumptions C17_qname_bound_now_partial.

Theorem C17_strict_bound_now_partial : forall split split_s ncname ops u gen s' p ns nm,
  let s := m_final split split_s ncname m_init ops in
  bad s = false ->
  m_compute_strict split split_s ncname s u gen = (s', inl (p, ns, nm)) ->
  dget (p2n s') p = Some ns /\ dget (n2p s') ns = Some p /\
  (exact split u -> exact split_s u -> ns ++ nm = u).
Proof. intros split split_s ncname ops u gen s' p ns nm s. apply strict_bound_now. Qed.
Print Assumptions C17_strict_bound_now_partial.

(* Expanding gives the IRI back: expand_curie(curie(u)) = u, expand_curie(qname(u)) = u
   when the prefix is not empty, and with the empty prefix qname(u) is the bare local name
   whose namespace is the one bound to "".  (A prefix containing ':' cannot be expanded
   by expand_curie, which splits at the first colon.) *)
Theorem C17_qname_expands_partial : forall split split_s ncname ops u gen s' p ns nm,
  let s := m_final split split_s ncname m_init ops in
  bad s = false -> exact split u ->
  m_compute split s u gen = (s', inl (p, ns, nm)) ->
  has_colon p = false ->
  m_expand s' (curie_str (p, ns, nm)) = inl u /\
  (p <> [] -> m_expand s' (qname_str (p, ns, nm)) = inl u) /\
  (p = [] -> qname_str (p, ns, nm) = nm /\ dget (p2n s') [] = Some ns /\ ns ++ nm = u).
Proof. intros split split_s ncname ops u gen s' p ns nm s. apply qname_expands. Qed.
Print Assumptions C17_qname_expands_partial.

(* The executable split_uri of the model is exact for every character classification,
   except on IRIs that start with the XML namespace and contain it a second time ... *)
Theorem C17_split_exact : forall cat strict u,
  xml_twice u = false -> exact (split_uri cat strict) u.
Proof. exact split_uri_exact. Qed.
Print Assumptions C17_split_exact.

(* ... where it is not (finding F6c): uri.split(XMLNS)[1] stops at the second occurrence. *)
Theorem C17_split_refuted :
  exists cat u ns ln, split_uri cat false u = Some (ns, ln) /\ ns ++ ln <> u.
Proof. destruct f6c_witness as (u & ns & ln & H). eexists. exists u, ns, ln. exact H. Qed.
Print Assumptions C17_split_refuted.

(* What the correspondence check evaluates on the implementation's answers holds of the
   model on every case outside the two trigger regions. *)
Theorem C17_spec_ok_model : forall c, kf c = 0%N -> spec_ok c (model_obs c) = true.
Proof. exact spec_ok_model. Qed.
Print Assumptions C17_spec_ok_model.

(* Readings of the boolean checker. *)
Theorem C17_snap_ok_reading : forall o x, snap_ok o x = true ->
  bij_ok (s_list x) (s_rev x) = true /\ s_api x = true /\ res_ok (s_list x) o (s_res x) = true.
Proof. exact snap_ok_reading. Qed.
Print Assumptions C17_snap_ok_reading.

Theorem C17_bij_ok_reading : forall l r, bij_ok l r = true ->
  NoDup (map fst l) /\ NoDup (map snd l) /\ NoDup (map fst r) /\
  (forall p n, In (p, n) l <-> dget l p = Some n) /\
  (forall p n, dget l p = Some n <-> dget r n = Some p).
Proof. exact bij_ok_reading. Qed.
Print Assumptions C17_bij_ok_reading.

Theorem C17_qn_ok_reading : forall l u p ns nm,
  qn_ok l u (p, ns, nm) = true <-> dget l p = Some ns /\ ns ++ nm = u.
Proof. exact qn_ok_reading. Qed.
Print Assumptions C17_qn_ok_reading.

Theorem C17_exp_ok_reading : forall isq u p ns nm e, exp_ok isq u (p, ns, nm) e = true ->
  has_colon p = false -> (isq = true -> p <> []) -> e = Some u.
Proof. exact exp_ok_reading. Qed.
Print Assumptions C17_exp_ok_reading.

(* non-vacuity: a history with rebinding, a numbered fallback, a generated prefix, a
   nested namespace bound after a qname of an IRI inside it, and a re-query stays outside
   the trigger region; the second answer uses the longer namespace *)
Example C17_nonvacuous :
  let e := [104; 58; 101; 47]%N in let ea := [104; 58; 101; 47; 97]%N in
  let u := (e ++ [97; 98])%N in
  let ops := [OBind (Some [97]) e true false; OQname u; OBind (Some [97]) ea false false;
              OBind (Some [98]) ea true false; OQname u; OCurie (e ++ [121]) true]%N in
  let c := {| c_cats := [(97, 1); (98, 1); (101, 1); (104, 1); (120, 1); (121, 1)]%N; c_ops := ops |} in
  kf c = 0%N /\
  map s_res (model_obs c) =
    [RUnit; RQ [97; 58; 97; 98]%N ([97], e, [97; 98])%N (Some u);
     RUnit; RUnit;
     RQ [98; 58; 98]%N ([98], ea, [98])%N (Some u);
     RQ [97; 58; 121]%N ([97], e, [121])%N (Some (e ++ [121])%N)]%N /\
  map s_list (model_obs c) =
    [[([97], e)]; [([97], e)]; [([97], e); ([97; 49], ea)]; [([97], e); ([98], ea)];
     [([97], e); ([98], ea)]; [([97], e); ([98], ea)]]%N.
Proof. vm_compute. repeat split; reflexivity. Qed.

(* get_longest_namespace on a well-formed trie (sibling keys distinct and not prefixes of
   one another, every key below a node properly extends it) returns a key that is a prefix
   of the value and that every other such key is a prefix of - the longest one; None iff no
   key is a prefix of the value.  PARTIAL: that insert_trie keeps a trie well-formed (so
   that this holds "for any insertion order") is not proved; it is exercised by the
   correspondence runs and checked exhaustively for 5 nested namespaces below. *)
Theorem C17_trie_partial : forall t v, wft t ->
  match gln t v with
  | Some k => In k (trie_keys t) /\ starts_with v k = true /\
              forall k', In k' (trie_keys t) -> starts_with v k' = true -> starts_with k k' = true
  | None => forall k', In k' (trie_keys t) -> starts_with v k' = false
  end.
Proof. intros t v H. exact (gln_longest t H v). Qed.
Print Assumptions C17_trie_partial.

(* all 120 insertion orders of h:e/ h:e/a h:e/a/ h:e/a/b/ h:e/ab, six IRIs each *)
Example C17_trie_all_orders_sample :
  let e := [104; 58; 101; 47]%N in
  let vs := [e; e ++ [97]; e ++ [97; 47]; e ++ [97; 47; 98; 47]; e ++ [97; 98]]%N in
  let us := [e ++ [97; 47; 98; 47; 120]; e ++ [97; 98; 99]; e ++ [120]; e ++ [97; 47; 120]; [104; 58]; e ++ [97]]%N in
  forallb (fun p => forallb (fun u => opt_eqb str_eqb (gln (build p) u) (longest_of vs u)) us) (perms vs) = true.
Proof. vm_compute. reflexivity. Qed.
