(* C01 - a Graph is exactly the set of triples its history implies, under every
   pattern.  Property theorems only; proofs are in coq/Store/*.v.
   Model: Store/Model.v (SimpleMemory, Memory, Graph layer), Store/Iter.v (open
   iterators).  Specification: the quad set of Base/Quads.v. *)
From RV Require Import Store.Model Store.IndexProofs Store.SimpleProofs Store.MemProofs Store.GraphProofs
                       Store.Iter Store.IterProofs.

(* ------------------------------------------------------------------ *)
(* SimpleMemory                                                        *)

(* the three indexes hold the same triples, all key lists duplicate-free:
   true of the empty store, kept by add and by remove with any pattern *)
Theorem C01_simple_inv :
  sm_inv sm_empty
  /\ (forall m t, sm_inv m -> sm_inv (sm_add m t))
  /\ (forall m p, sm_inv m -> sm_inv (sm_remove m p)).
Proof.
  split; [exact sm_inv_empty|split; [exact sm_add_inv|]].
  intros m p H. exact (proj1 (sm_remove_ok m p H)).
Qed.
Print Assumptions C01_simple_inv.

(* triples(pattern), all 8 shapes: duplicate-free, exactly the matching stored triples *)
Theorem C01_simple_triples_exact : forall m p,
  sm_inv m ->
  NoDup (sm_triples m p) /\ forall t, In t (sm_triples m p) <-> matches p t = true /\ sm_holds m t = true.
Proof. exact sm_triples_exact. Qed.
Print Assumptions C01_simple_triples_exact.

Theorem C01_simple_add : forall m t t', sm_holds (sm_add m t) t' = triple_eqb t' t || sm_holds m t'.
Proof. exact sm_add_holds. Qed.
Print Assumptions C01_simple_add.

Theorem C01_simple_remove : forall m p, sm_inv m ->
  forall t', sm_holds (sm_remove m p) t' = sm_holds m t' && negb (matches p t').
Proof. intros m p H. exact (proj2 (sm_remove_ok m p H)). Qed.
Print Assumptions C01_simple_remove.

(* ------------------------------------------------------------------ *)
(* Memory: indexes + per-triple contexts (with the default-contexts
   compression) + per-context triple sets                              *)

Theorem C01_mem_inv :
  MemInv mem_empty
  /\ (forall m c t, MemInv m -> MemInv (mem_add m c t))
  /\ (forall m c p, MemInv m -> MemInv (mem_remove m c p)).
Proof.
  split; [exact MemInv_empty|split].
  - intros m c t H. exact (proj1 (mem_add_ok m c t H)).
  - intros m c p H. exact (proj1 (mem_remove_ok m c p H)).
Qed.
Print Assumptions C01_mem_inv.

(* add: graph c gains t; every other (graph, triple) pair is unchanged *)
Theorem C01_mem_add : forall m c t0, MemInv m ->
  forall c' t, mem_holds (mem_add m c t0) c' t = (N.eqb c' c && triple_eqb t t0) || mem_holds m c' t.
Proof. intros m c t0 H. exact (proj2 (mem_add_ok m c t0 H)). Qed.
Print Assumptions C01_mem_add.

(* remove with any of the 8 wildcard shapes: graph c loses exactly the matching
   triples; every other graph is unchanged *)
Theorem C01_mem_remove : forall m c p, MemInv m ->
  forall c' t, mem_holds (mem_remove m c p) c' t = mem_holds m c' t && negb (N.eqb c' c && matches p t).
Proof. intros m c p H. exact (proj2 (mem_remove_ok m c p H)). Qed.
Print Assumptions C01_mem_remove.

(* triples(pattern, context=graph), 8 shapes x any graph: duplicate-free and exact *)
Theorem C01_mem_triples_exact : forall m c p,
  MemInv m ->
  NoDup (mem_triples m c p) /\ forall t, In t (mem_triples m c p) <-> matches p t = true /\ mem_holds m c t = true.
Proof. exact mem_triples_exact. Qed.
Print Assumptions C01_mem_triples_exact.

Theorem C01_mem_len : forall m c, mem_len m c = N.of_nat (length (mem_triples m c all_pat)).
Proof. exact mem_len_ok. Qed.
Print Assumptions C01_mem_len.

(* ------------------------------------------------------------------ *)
(* Graph layer, both stores, histories                                 *)

(* THE TIE: what the correspondence check evaluates on the implementation's
   answers is satisfied by the model on every well-formed case outside the
   trigger of finding F10b *)
Theorem C01_spec_ok_model : forall c, wfb c = true -> kf c = 0%N -> spec_ok c (model_obs c) = true.
Proof. exact spec_ok_model. Qed.
Print Assumptions C01_spec_ok_model.

(* the property: after any history of add, addN, remove, set, +=, -= (aliased
   or not, same store or not) and + - * ^, every graph shows under every
   pattern a duplicate-free enumeration of exactly the matching triples of the
   set the same history produces on the mathematical quad set *)
Theorem C01_history : forall c ops,
  wfb c = true -> c_ops c = ops -> kf c = 0%N ->
  forall g p,
    enum_of (g_triples (w_run (w_init c) ops) g p)
            (filter (matches p) (sp_content (s_run c [] ops) (scid c g))).
Proof. exact history_exact. Qed.
Print Assumptions C01_history.

(* set operators: the result is exactly union / difference / intersection /
   symmetric difference (g_step leaves the world unchanged for them) *)
Theorem C01_setops : forall c w S b g h,
  Rel c w S ->
  enum_of (g_bin b w g h) (spec_bin b (sp_content S (scid c g)) (sp_content S (scid c h)))
  /\ fst (fst (g_step w (GBin b g h))) = w.
Proof. intros c w S b g h H. split; [now apply g_bin_ok|reflexivity]. Qed.
Print Assumptions C01_setops.

Theorem C01_spec_bin_reading : forall o a b t,
  In t (spec_bin o a b) <->
  match o with
  | OAdd => In t a \/ In t b
  | OSub => In t a /\ ~ In t b
  | OMul => In t a /\ In t b
  | OXor => (In t a /\ ~ In t b) \/ (In t b /\ ~ In t a)
  end.
Proof. exact spec_bin_reading. Qed.
Print Assumptions C01_spec_bin_reading.

(* += and -= (g and h may be the same graph) *)
Theorem C01_iadd : forall c w S g h,
  Rel c w S -> Rel c (g_iadd w g h) (sp_add_all (scid c g) (sp_content S (scid c h)) S).
Proof. exact Rel_iadd. Qed.
Print Assumptions C01_iadd.

Theorem C01_isub_partial : forall c w S g h,
  Rel c w S -> kf_hit c S (GISub g h) = false ->
  Rel c (fst (g_isub w g h)) (sp_remove_all (scid c g) (sp_content S (scid c h)) S)
  /\ snd (g_isub w g h) = false.
Proof. exact Rel_isub. Qed.
Print Assumptions C01_isub_partial.

(* readings of the boolean checker *)
Theorem C01_hobs_ok_reading : forall E probe it ln ps cs,
  hobs_ok E probe (it, ln, ps, cs) = true ->
  enum_of it E /\ ln = N.of_nat (length E)
  /\ Forall2 (fun p l => enum_of l (filter (matches p) E)) (masks probe) ps
  /\ Forall2 (fun p b => b = true <-> exists t, In t E /\ matches p t = true) (masks probe) cs.
Proof. exact hobs_ok_reading. Qed.
Print Assumptions C01_hobs_ok_reading.

Theorem C01_sobs_ok_reading : forall c S S' o probe raised res hs,
  sobs_ok c S S' o probe (raised, res, hs) = true ->
  raised = false
  /\ match o with
     | GBin b g h => enum_of res (spec_bin b (sp_content S (scid c g)) (sp_content S (scid c h)))
     | _ => res = []
     end
  /\ Forall2 (fun g ho => hobs_ok (sp_content S' (scid c g)) probe ho = true) (c_handles c) hs.
Proof. exact sobs_ok_reading. Qed.
Print Assumptions C01_sobs_ok_reading.

(* finding F10b: on one SimpleMemory store `g -= g` raises after one removal *)
Theorem C01_simple_isub_alias_refuted :
  exists c, wfb c = true /\ kf c = 1%N /\ spec_ok c (model_obs c) = false
            /\ last (model_obs c) (false, [], []) =
               (true, [], [([(2, 3, 5)], 1, [[(2, 3, 5)]; []; [(2, 3, 5)]; [(2, 3, 5)]; []; []; [(2, 3, 5)]; []],
                             [true; false; true; true; false; false; true; false])])%N.
Proof. exact simple_isub_alias_refuted. Qed.
Print Assumptions C01_simple_isub_alias_refuted.

(* non-vacuity: two graphs sharing one Memory store, wildcard remove, -=, ^ *)
Example C01_nonvacuous :
  let g1 := (false, 1, 1)%N in let g2 := (false, 2, 2)%N in
  let c := {| c_simple0 := false; c_simple1 := false; c_handles := [g1; g2];
              c_ops := [(GAdd g1 (1, 3, 5), (1, 3, 5)); (GAdd g2 (1, 3, 5), (1, 3, 5)); (GAdd g2 (1, 3, 6), (1, 3, 5));
                        (GRemove g1 (Some 1, None, None), (1, 3, 5)); (GISub g2 g1, (1, 3, 6));
                        (GBin OXor g1 g2, (1, 3, 6))]%N |} in
  wfb c = true /\ kf c = 0%N /\ spec_ok c (model_obs c) = true
  /\ sp_content (s_run c [] (c_ops c)) (scid c g2) = [(1, 3, 5); (1, 3, 6)]%N.
Proof. vm_compute. auto. Qed.

(* ------------------------------------------------------------------ *)
(* Open iterators on the default store (conformance-checked model; what is
   proved here: the readings of the checker and the F10 witness)        *)

(* what the iterator checker demands of the yields of one step: they match the
   iterator's pattern and lie in its window ... *)
Theorem C01_iter_yields_reading : forall c p W ys,
  yields_ok (c, p, W) ys = true <-> forall t, In t ys -> matches p t = true /\ In t W.
Proof. exact yields_ok_reading. Qed.
Print Assumptions C01_iter_yields_reading.

(* ... where the window is the content of the graph when the iterator was
   created, joined with its content after every later mutation *)
Theorem C01_iter_window_reading : forall S c p W t,
  In t (snd (widen S (c, p, W))) <-> In t W \/ In (t, c) S.
Proof. exact widen_reading. Qed.
Print Assumptions C01_iter_window_reading.

(* finding F10: the soundness clause is false of the faithful model *)
Theorem C01_iter_sound_refuted :
  exists c, ikf c = 1%N /\ ispec_ok c (imodel_obs c) = false
            /\ last (imodel_obs c) no_obs = (0, false, [(1, 3, 2)], 1)%N.
Proof. exact iter_sound_refuted. Qed.
Print Assumptions C01_iter_sound_refuted.

(* no next() of any iterator raises, for every schedule of mutations, opens and
   steps on the default store (starting from any store that has not yet seen an
   add, or from any store at all once it has) *)
Theorem C01_iter_no_raise : forall ops m its,
  Blank m -> Forall (Quiet m) its -> Forall (fun e => ob_st e <> 2%N) (i_run m its ops).
Proof. exact iter_no_raise. Qed.
Print Assumptions C01_iter_no_raise.

Theorem C01_iter_no_raise_model : forall c, Forall (fun e => ob_st e <> 2%N) (imodel_obs c).
Proof. exact iter_no_raise_model. Qed.
Print Assumptions C01_iter_no_raise_model.
