(* C01 - a Graph is exactly the set of triples its history implies, under every
   pattern.  Property theorems only; proofs are in coq/Store/*.v.
   Model: Store/Model.v (SimpleMemory, Memory, Graph layer), Store/Iter.v (open
   iterators).  Specification: the quad set of Base/Quads.v. *)
From RV Require Import Store.Model Store.IndexProofs Store.SimpleProofs Store.MemProofs Store.GraphProofs
                       Store.Iter Store.IterProofs Store.Reads Store.ReadsProofs
                       Store.StoreLevel Store.StoreLevelProofs Store.SimpleIter Store.SimpleIterProofs
                       Store.TransitiveGraph.

(* ------------------------------------------------------------------ *)
(* SimpleMemory                                                        *)

(* the three indexes hold the same triples, all key lists duplicate-free:
   true of the empty store, kept by add and by remove with any pattern *)
Theorem C01_simple_inv :
  sm_inv sm_empty
  /\ (forall m t, sm_inv m -> sm_inv (sm_add m t))
  /\ (forall m p, sm_inv m -> sm_inv (sm_remove m p)).
Proof.
  split; [exact sm_inv_empty|split; [exact sm_add_inv|]].
  intros m p H. exact (proj1 (sm_remove_ok m p H)).
Qed.
Print Assumptions C01_simple_inv.

(* triples(pattern), all 8 shapes: duplicate-free, exactly the matching stored triples *)
Theorem C01_simple_triples_exact : forall m p,
  sm_inv m ->
  NoDup (sm_triples m p) /\ forall t, In t (sm_triples m p) <-> matches p t = true /\ sm_holds m t = true.
Proof. exact sm_triples_exact. Qed.
Print Assumptions C01_simple_triples_exact.

Theorem C01_simple_add : forall m t t', sm_holds (sm_add m t) t' = triple_eqb t' t || sm_holds m t'.
Proof. exact sm_add_holds. Qed.
Print Assumptions C01_simple_add.

Theorem C01_simple_remove : forall m p, sm_inv m ->
  forall t', sm_holds (sm_remove m p) t' = sm_holds m t' && negb (matches p t').
Proof. intros m p H. exact (proj2 (sm_remove_ok m p H)). Qed.
Print Assumptions C01_simple_remove.

(* ------------------------------------------------------------------ *)
(* Memory: indexes + per-triple contexts (with the default-contexts
   compression) + per-context triple sets                              *)

Theorem C01_mem_inv :
  MemInv mem_empty
  /\ (forall m c t, MemInv m -> MemInv (mem_add m c t))
  /\ (forall m c p, MemInv m -> MemInv (mem_remove m c p)).
Proof.
  split; [exact MemInv_empty|split].
  - intros m c t H. exact (proj1 (mem_add_ok m c t H)).
  - intros m c p H. exact (proj1 (mem_remove_ok m c p H)).
Qed.
Print Assumptions C01_mem_inv.

(* add: graph c gains t; every other (graph, triple) pair is unchanged *)
Theorem C01_mem_add : forall m c t0, MemInv m ->
  forall c' t, mem_holds (mem_add m c t0) c' t = (N.eqb c' c && triple_eqb t t0) || mem_holds m c' t.
Proof. intros m c t0 H. exact (proj2 (mem_add_ok m c t0 H)). Qed.
Print Assumptions C01_mem_add.

(* remove with any of the 8 wildcard shapes: graph c loses exactly the matching
   triples; every other graph is unchanged *)
Theorem C01_mem_remove : forall m c p, MemInv m ->
  forall c' t, mem_holds (mem_remove m c p) c' t = mem_holds m c' t && negb (N.eqb c' c && matches p t).
Proof. intros m c p H. exact (proj2 (mem_remove_ok m c p H)). Qed.
Print Assumptions C01_mem_remove.

(* triples(pattern, context=graph), 8 shapes x any graph: duplicate-free and exact *)
Theorem C01_mem_triples_exact : forall m c p,
  MemInv m ->
  NoDup (mem_triples m c p) /\ forall t, In t (mem_triples m c p) <-> matches p t = true /\ mem_holds m c t = true.
Proof. exact mem_triples_exact. Qed.
Print Assumptions C01_mem_triples_exact.

Theorem C01_mem_len : forall m c, mem_len m c = N.of_nat (length (mem_triples m c all_pat)).
Proof. exact mem_len_ok. Qed.
Print Assumptions C01_mem_len.

(* ------------------------------------------------------------------ *)
(* Graph layer, both stores, histories                                 *)

(* THE TIE: what the correspondence check evaluates on the implementation's
   answers is satisfied by the model on every well-formed case *)
Theorem C01_spec_ok_model : forall c, wfb c = true -> spec_ok c (model_obs c) = true.
Proof. exact spec_ok_model. Qed.
Print Assumptions C01_spec_ok_model.

(* the property: after any history of add, addN, remove, set, +=, -= (aliased
   or not, same store or not) and + - * ^, every graph shows under every
   pattern a duplicate-free enumeration of exactly the matching triples of the
   set the same history produces on the mathematical quad set *)
Theorem C01_history : forall c ops,
  wfb c = true -> c_ops c = ops ->
  forall g p,
    enum_of (g_triples (w_run (w_init c) 2 ops) g p)
            (filter (matches p) (sp_content (s_run c 2 [] ops) (scid c g))).
Proof. exact history_exact. Qed.
Print Assumptions C01_history.

(* set operators: the result is exactly union / difference / intersection /
   symmetric difference ... *)
Theorem C01_setops : forall c w S b g h,
  Rel c w S ->
  enum_of (g_bin b w g h) (spec_bin b (sp_content S (scid c g)) (sp_content S (scid c h))).
Proof. intros c w S b g h H. now apply g_bin_ok. Qed.
Print Assumptions C01_setops.

(* ... and it is a NEW graph in a new store (number nx, not used so far), which
   stays in play: the world with the result refines the quad set extended by the
   result graph, every other graph (the operands included) being unchanged; later
   operations on the result or on the operands are covered by C01_history *)
Theorem C01_binop_result_in_play : forall c w S nx b g h,
  Rel c w S -> 2 <= nx -> Fresh w nx ->
  Rel c (fst (fst (g_step w nx (GBin b g h))))
      (sp_add_all (scid c (nx, fresh_cid, 0%N)) (spec_bin b (sp_content S (scid c g)) (sp_content S (scid c h))) S).
Proof. intros c w S nx b g h. apply Rel_bin. Qed.
Print Assumptions C01_binop_result_in_play.

Theorem C01_spec_bin_reading : forall o a b t,
  In t (spec_bin o a b) <->
  match o with
  | OAdd => In t a \/ In t b
  | OSub => In t a /\ ~ In t b
  | OMul => In t a /\ In t b
  | OXor => (In t a /\ ~ In t b) \/ (In t b /\ ~ In t a)
  end.
Proof. exact spec_bin_reading. Qed.
Print Assumptions C01_spec_bin_reading.

(* += and -= (g and h may be the same graph).
   SCOPE: [g_iadd]/[g_isub] (and [g_bin]) are DEFINED in Model.v over the list
   [g_triples w h all_pat] computed up front; in Python `for t in other` runs the live
   generator of the store interleaved with the adds/removals of the loop body (this
   interleaving is where finding F10b lived).  For a graph of the Memory store that the
   interleaved loop sees exactly that list is proved below (C01_memory_iteration_is_snapshot,
   on the generator model of Store/Iter.v).  For a graph of a SimpleMemory store (key lists
   snapshotted per loop level since 239260dc) the unconditional statement is false
   (C01_simple_iteration_snapshot_refuted) but it holds under the condition [si_chain]
   (C01_simple_iteration_chain), which is proved for the three loops that occur: store not
   written during the loop (C01_simple_iteration_const: operand in another store, binary
   operators), `g -= g` (C01_simple_isub_interleaved) and `g += g`
   (C01_simple_iadd_interleaved), on the generator model of Store/SimpleIter.v.  What
   remains a modelling assumption (MA2) is Memory.remove's own walk over partially bound
   patterns, tied by the histories / storelevel suites only. *)
Theorem C01_iadd : forall c w S g h,
  Rel c w S -> Rel c (g_iadd w g h) (sp_add_all (scid c g) (sp_content S (scid c h)) S).
Proof. exact Rel_iadd. Qed.
Print Assumptions C01_iadd.

(* every aliasing case included (`g -= g`, two graphs of one SimpleMemory store) - about
   the up-front-list model, see SCOPE above *)
Theorem C01_isub : forall c w S g h,
  Rel c w S -> Rel c (g_isub w g h) (sp_remove_all (scid c g) (sp_content S (scid c h)) S).
Proof. exact Rel_isub. Qed.
Print Assumptions C01_isub.

(* readings of the boolean checker *)
Theorem C01_hobs_ok_reading : forall E probe it ln ps cs,
  hobs_ok E probe (it, ln, ps, cs) = true ->
  enum_of it E /\ ln = N.of_nat (length E)
  /\ Forall2 (fun p l => enum_of l (filter (matches p) E)) (masks probe) ps
  /\ Forall2 (fun p b => b = true <-> exists t, In t E /\ matches p t = true) (masks probe) cs.
Proof. exact hobs_ok_reading. Qed.
Print Assumptions C01_hobs_ok_reading.

Theorem C01_sobs_ok_reading : forall c S S' o probe raised res hs,
  sobs_ok c S S' o probe (raised, res, hs) = true ->
  raised = false
  /\ match o with
     | GBin b g h => enum_of res (spec_bin b (sp_content S (scid c g)) (sp_content S (scid c h)))
     | _ => res = []
     end
  /\ Forall2 (fun g ho => hobs_ok (sp_content S' (scid c g)) probe ho = true) (c_handles c) hs.
Proof. exact sobs_ok_reading. Qed.
Print Assumptions C01_sobs_ok_reading.

(* former finding F10b (repaired in the code, the model follows the repair): with the
   historical SimpleMemory.triples, `g -= g` raised after one removal *)
Theorem C01_hist_simple_isub_alias_refuted :
  let g := (0%nat, 1%N, 1%N) in
  let w := g_add (g_add (w_init f10b_witness) g (1, 3, 5)%N) g (2, 3, 5)%N in
  snd (g_isub_hist w g g) = true /\ g_triples (fst (g_isub_hist w g g)) g all_pat = [(2, 3, 5)%N]
  /\ g_triples (g_isub w g g) g all_pat = [].
Proof. exact hist_simple_isub_alias_refuted. Qed.
Print Assumptions C01_hist_simple_isub_alias_refuted.

(* non-vacuity: two graphs sharing one Memory store, wildcard remove, -=, a
   difference with an EMPTY right operand whose result then lives its own life *)
Example C01_nonvacuous :
  let g1 := (0%nat, 1%N, 1%N) in let g2 := (0%nat, 2%N, 2%N) in let r := (2%nat, 0%N, 1002%N) in
  let c := {| c_simple0 := false; c_simple1 := false; c_handles := [g1; g2; r];
              c_ops := [(GAdd g1 (1, 3, 5), (1, 3, 5)); (GAdd g2 (1, 3, 5), (1, 3, 5)); (GAdd g2 (1, 3, 6), (1, 3, 5));
                        (GRemove g1 (Some 1, None, None), (1, 3, 5)); (GISub g2 g1, (1, 3, 6));
                        (GBin OSub g2 g1, (1, 3, 6)); (GAdd r (2, 3, 5), (1, 3, 6));
                        (GRemove g2 (None, None, Some 5), (1, 3, 5))]%N |} in
  wfb c = true /\ spec_ok c (model_obs c) = true
  /\ sp_content (s_run c 2 [] (c_ops c)) (scid c g2) = [(1, 3, 6)]%N
  /\ sp_content (s_run c 2 [] (c_ops c)) (scid c r) = [(1, 3, 5); (1, 3, 6); (2, 3, 5)]%N.
Proof. vm_compute. auto. Qed.

(* ------------------------------------------------------------------ *)
(* Open iterators on the default store                                 *)
(* SCOPE: the schedules model covers the generator Memory.triples(pattern, context=graph)
   as reached through Graph.triples / Graph.__iter__ (all 8 shapes).  Iterators with
   context=None (ConjunctiveGraph) and SimpleMemory iterators under mutation are not in it. *)

(* SOUNDNESS, for every schedule of opens, steps and mutations: take any iterator
   (opened by [SOpen c p] after the prefix [pre]; it is iterator number
   [count_opens pre]) and any later step [o] of it (next() or list()).  The step
   does not raise, and every triple it yields matches the pattern and was in
   graph [c] in the state reached after [pre ++ mid1] for some prefix [mid1] of the
   operations between the open and the step: at some moment between the creation
   of the iterator and the yield. *)
Theorem C01_iter_sound : forall pre c p mid o i,
  (o = SNext i \/ o = SDrain i) -> i = count_opens pre ->
  let e := last (imodel_obs {| ic_ops := pre ++ SOpen c p :: mid ++ [o] |}) no_obs in
  ob_st e <> 2%N
  /\ forall t, In t (ob_ys e) ->
       matches p t = true
       /\ exists mid1 mid2, mid = mid1 ++ mid2 /\ In (t, c) (s_state [] (pre ++ SOpen c p :: mid1)).
Proof. exact iter_sound_explicit. Qed.
Print Assumptions C01_iter_sound.

(* one step, local form: whatever is yielded matches the pattern and lies in the
   window; for every pattern other than (?,?,?) it is in the graph in the CURRENT
   state (leaf present and context test true now) *)
Theorem C01_iter_step_sound : forall m S it c p W,
  MemInv m -> HoldsRel m S -> ItRel it (c, p, W) -> WOK S (c, p, W) ->
  ItRel (snd (it_next m it)) (c, p, W) /\ fst (it_next m it) <> NRaise
  /\ forall t, fst (it_next m it) = NYield t ->
       matches p t = true /\ In t W /\ (is_wild p = false -> mem_holds m c t = true).
Proof. exact next_sound. Qed.
Print Assumptions C01_iter_step_sound.

(* `for t in other` over a graph of the Memory store, with arbitrary store states between
   the steps (whatever the loop body did): the loop variable takes exactly the values of
   the list computed up front in the state of the first next() *)
Theorem C01_memory_iteration_is_snapshot : forall m0 c ms,
  length (m0 :: ms) = length (mem_triples m0 c all_pat) ->
  drive (m0 :: ms) (it_open c all_pat) = mem_triples m0 c all_pat.
Proof. exact memory_iteration_is_snapshot. Qed.
Print Assumptions C01_memory_iteration_is_snapshot.

(* list(it) is defined by structural recursion over the snapshots (no fuel): it ends with
   StopIteration (status 1), never raises; there is no third outcome *)
Theorem C01_iter_list_exhausts : forall m S it c p W,
  MemInv m -> HoldsRel m S -> ItRel it (c, p, W) -> WOK S (c, p, W) -> snd (fst (it_drain m it)) = 1%N.
Proof. exact drain_exhausts. Qed.
Print Assumptions C01_iter_list_exhausts.

(* THE TIE for the iterator suite: the checker that judges the implementation
   accepts the model on every schedule *)
Theorem C01_iter_spec_ok_model : forall c, ispec_ok c (imodel_obs c) = true.
Proof. exact ispec_ok_model. Qed.
Print Assumptions C01_iter_spec_ok_model.

(* what the iterator checker demands of the yields of one step: they match the
   iterator's pattern and lie in its window ... *)
Theorem C01_iter_yields_reading : forall c p W ys,
  yields_ok (c, p, W) ys = true <-> forall t, In t ys -> matches p t = true /\ In t W.
Proof. exact yields_ok_reading. Qed.
Print Assumptions C01_iter_yields_reading.

(* ... where the window is the content of the graph when the iterator was
   created, joined with its content after every later mutation *)
Theorem C01_iter_window_reading : forall S c p W t,
  In t (snd (widen S (c, p, W))) <-> In t W \/ In (t, c) S.
Proof. exact widen_reading. Qed.
Print Assumptions C01_iter_window_reading.

(* no next() of any iterator raises (also from stores not reached from the empty one) *)
Theorem C01_iter_no_raise : forall ops m its,
  Blank m -> Forall (Quiet m) its -> Forall (fun e => ob_st e <> 2%N) (i_run m its ops).
Proof. exact iter_no_raise. Qed.
Print Assumptions C01_iter_no_raise.

(* former finding F10 (repaired in the code, the model follows the repair): the
   historical context test reported a triple that is not stored as a member of the
   graph of the default contexts; the repaired test does not *)
Theorem C01_hist_has_ctx_refuted :
  exists m t c, MemInv m /\ mem_leaf m t = false /\ hist_has_ctx_live m t c = Some true
                /\ has_ctx_live m t c = Some false.
Proof. exact hist_has_ctx_refuted. Qed.
Print Assumptions C01_hist_has_ctx_refuted.

(* the old witness schedule of F10 is now accepted: the iterator ends without yielding (1,3,2) *)
Example C01_f10_witness_passes :
  ispec_ok f10_witness (imodel_obs f10_witness) = true
  /\ last (imodel_obs f10_witness) no_obs = (0, false, [], 1)%N.
Proof. exact f10_witness_passes. Qed.

(* ------------------------------------------------------------------ *)
(* The derived read API (Store/Reads.v): functions of the SET of triples *)

(* THE TIE for the reads suite: after any well-formed history, what the checker
   demands of subjects/predicates/objects/subject_predicates/subject_objects/
   predicate_objects (unique False/True), value (any True/False) and
   triples_choices on every graph in play is satisfied by the model *)
Theorem C01_reads_spec_ok_model : forall c, rwfb c = true -> rspec_ok c (rmodel_obs c) = true.
Proof. exact rspec_ok_model. Qed.
Print Assumptions C01_reads_spec_ok_model.

(* the six generators are `uniq eqb u (map f (g_triples w g p))` for a projection f
   (Reads.v: g_subjects ... g_predicate_objects).  unique=False: one projection per
   matching triple of the graph's set - duplicates exactly when several matching
   triples have the same projection; unique=True: every such projection once. *)
Theorem C01_generators_exact : forall (A : Type) (eqb : A -> A -> bool),
  (forall x y, reflect (x = y) (eqb x y)) ->
  forall (f : triple -> A) c w S g p,
    Rel c w S ->
    let E := sp_content S (scid c g) in
    Permutation.Permutation (uniq eqb false (map f (g_triples w g p))) (map f (sel E p))
    /\ NoDup (uniq eqb true (map f (g_triples w g p)))
    /\ forall x, In x (uniq eqb true (map f (g_triples w g p))) <->
                 exists t, In t E /\ matches p t = true /\ f t = x.
Proof. exact gen_exact. Qed.
Print Assumptions C01_generators_exact.

(* value(): with any=True some matching term, None iff there is none (WHICH term is
   the first in dict order, not a function of the set); with any=False a function of
   the set: None / the only term / UniquenessError; fewer than two bound positions: None *)
Theorem C01_value_exact : forall c w S g q any,
  Rel c w S -> value_ok_pat (sp_content S (scid c g)) q any (g_value w g q any) = true.
Proof. exact value_model. Qed.
Print Assumptions C01_value_exact.

Theorem C01_value_ok_reading : forall vs any v,
  value_ok vs any v = true ->
  if any then (fst v = 0%N /\ vs = []) \/ (fst v = 1%N /\ In (snd v) vs)
  else match vs with
       | [] => fst v = 0%N
       | [y] => fst v = 1%N /\ snd v = y
       | _ => fst v = 2%N
       end.
Proof. exact value_ok_reading. Qed.
Print Assumptions C01_value_ok_reading.

(* triples_choices with a list in one slot: the matching triples once per element of
   the list (a repeated element repeats them), an empty list is a wildcard *)
Theorem C01_triples_choices_exact : forall c w S g p sl L,
  Rel c w S ->
  Permutation.Permutation (g_choices w g p sl L) (choices_set (sp_content S (scid c g)) p sl L).
Proof. exact choices_exact. Qed.
Print Assumptions C01_triples_choices_exact.

Theorem C01_ms_eqb_reading : forall (A : Type) (eqb : A -> A -> bool) a b,
  ms_eqb eqb a b = true -> length a = length b /\ forall x, In x a -> cnt eqb x a = cnt eqb x b.
Proof. exact @ms_eqb_reading. Qed.
Print Assumptions C01_ms_eqb_reading.

(* ------------------------------------------------------------------ *)
(* The stores driven directly (Store/StoreLevel.v): context=None, contexts(),
   add_graph, remove_graph; SimpleMemory ignoring every context          *)

(* THE TIE for the store-level suite: after every operation, for every context key
   (None = the store-wide union, or a graph): triples(all), __len__ and triples for
   the 8 shapes are exact w.r.t. the quad set; contexts() is the set of graphs added
   to / add_graph'ed since their last remove_graph; contexts(t) the graphs holding t *)
Theorem C01_store_spec_ok_model : forall c, tspec_ok c (tmodel_obs c) = true.
Proof. exact tspec_ok_model. Qed.
Print Assumptions C01_store_spec_ok_model.

(* Memory.triples(pattern, context) for a graph or None, 8 shapes *)
Theorem C01_mem_triples_any_context : forall m k p,
  MemInv m ->
  NoDup (mem_triples_k m k p) /\
  forall t, In t (mem_triples_k m k p) <-> matches p t = true /\ mem_holds_k m k t = true.
Proof. exact mem_triples_k_exact. Qed.
Print Assumptions C01_mem_triples_any_context.

(* context=None is the union of the graphs *)
Theorem C01_mem_union_view : forall m t,
  MemInv m -> (mem_holds_k m None t = true <-> exists c, mem_holds m c t = true).
Proof. intros m t Hi. rewrite holds_k_none by auto. now apply leaf_some_graph. Qed.
Print Assumptions C01_mem_union_view.

(* Memory.remove(pattern, context=None): EVERY graph (and the union) loses exactly the
   matching triples; the set of known graphs is unchanged *)
Theorem C01_mem_remove_noctx : forall m p,
  MemInv m ->
  MemInv (mem_remove_none m p) /\ m_all (mem_remove_none m p) = m_all m /\
  forall k t, mem_holds_k (mem_remove_none m p) k t = mem_holds_k m k t && negb (matches p t).
Proof. exact mem_remove_none_ok. Qed.
Print Assumptions C01_mem_remove_noctx.

(* one store-level operation of either store class refines one step of the specification *)
Theorem C01_store_step : forall st simple s o,
  TRel st simple s -> TRel (t_step st o) simple (tspec_step simple s o).
Proof. exact TRel_step. Qed.
Print Assumptions C01_store_step.

(* ------------------------------------------------------------------ *)
(* `for t in g` on a SimpleMemory store while the store is mutated
   (Store/SimpleIter.v: the generator SimpleMemory.triples((None,None,None)) with the
   three key-list snapshots the code takes since 239260dc)              *)

(* the condition: if no step of the loop body changes what is still to come
   ([si_chain]), the loop variable takes exactly the values of the list computed up front *)
Theorem C01_simple_iteration_chain : forall ms m st,
  si_chain m ms st -> length (m :: ms) = length (si_rem (s_spo m) st) ->
  si_drive (m :: ms) st = si_rem (s_spo m) st.
Proof. exact drive_chain. Qed.
Print Assumptions C01_simple_iteration_chain.

(* store unchanged during the loop (the iterated graph lives in another store than the
   one written to; or the body re-adds what is there): the list computed up front *)
Theorem C01_simple_iteration_const : forall m n,
  sm_inv m -> S n = length (sm_triples m all_pat) ->
  si_drive (repeat m (S n)) (si_start m) = sm_triples m all_pat.
Proof. exact simple_iteration_const. Qed.
Print Assumptions C01_simple_iteration_const.

(* `g -= g` / two graphs of one SimpleMemory store (the region of former finding F10b):
   every step removes the triple just yielded from the dicts being walked, and still
   the loop variable takes exactly the values of the list computed up front *)
Theorem C01_simple_isub_interleaved : forall m fuel,
  sm_inv m -> length (sm_triples m all_pat) < fuel ->
  fst (si_isub fuel m (si_start m)) = sm_triples m all_pat.
Proof. exact simple_isub_interleaved. Qed.
Print Assumptions C01_simple_isub_interleaved.

(* the unconditional snapshot statement (true of Memory, C01_memory_iteration_is_snapshot)
   is FALSE of SimpleMemory: a triple added to a bucket not yet reached is yielded *)
Theorem C01_simple_iteration_snapshot_refuted :
  exists m0 m1, sm_inv m0 /\
    In (2, 3, 6)%N (si_drive [m0; m1; m1] (si_start m0)) /\ ~ In (2, 3, 6)%N (sm_triples m0 all_pat).
Proof. exact simple_iteration_snapshot_refuted. Qed.
Print Assumptions C01_simple_iteration_snapshot_refuted.

(* ------------------------------------------------------------------ *)
(* Graph.transitive_objects / transitive_subjects (Store/Transitive.v,
   Store/TransitiveGraph.v): the recursion with its shared `remember` dict *)

(* the walk itself, over any successor function and any finite universe closed under
   it: with recursion depth beyond the number of nodes it visits exactly the nodes
   reachable from the start (start included), each once - cycles included *)
Theorem C01_dfs_exact : forall (succ : N -> list N) (U : list N),
  (forall u, In u U -> forall y, In y (succ u) -> In y U) ->
  forall x fuel, In x U -> length U < fuel ->
  NoDup (dfs succ fuel x []) /\ forall z, In z (dfs succ fuel x []) <-> reach succ x z.
Proof. exact dfs_exact. Qed.
Print Assumptions C01_dfs_exact.

(* on every graph of every history: transitive_objects(x, p) yields exactly the nodes
   reachable from x along the p-edges (p = None: any edge) of the graph's SET of
   triples, each once; the depth the model uses suffices for every graph *)
Theorem C01_transitive_objects_exact : forall c w S g, Rel c w S -> forall pp x,
  NoDup (g_transitive_objects w g x pp)
  /\ forall z, In z (g_transitive_objects w g x pp) <-> reach (e_succ_o (sp_content S (scid c g)) pp) x z.
Proof. exact g_transitive_objects_exact. Qed.
Print Assumptions C01_transitive_objects_exact.

Theorem C01_transitive_subjects_exact : forall c w S g, Rel c w S -> forall pp x,
  NoDup (g_transitive_subjects w g pp x)
  /\ forall z, In z (g_transitive_subjects w g pp x) <-> reach (e_succ_s (sp_content S (scid c g)) pp) x z.
Proof. exact g_transitive_subjects_exact. Qed.
Print Assumptions C01_transitive_subjects_exact.

(* THE TIE for the transitive suite *)
Theorem C01_transitive_spec_ok_model : forall c, trwfb c = true -> trspec_ok c (trmodel_obs c) = true.
Proof. exact trspec_ok_model. Qed.
Print Assumptions C01_transitive_spec_ok_model.

(* transitiveClosure(func, x) for any successor function: as a multiset, the successors
   of every node reachable from x - a node is yielded once per edge from a reachable
   node, the start only if it lies on a cycle *)
Theorem C01_transitiveClosure_walk_exact : forall (succ : N -> list N) (U : list N) x fuel,
  (forall u, In u U -> forall y, In y (succ u) -> In y U) -> In x U -> length U < fuel ->
  Permutation.Permutation (fst (tc succ fuel x [])) (flat_map succ (dfs succ fuel x []))
  /\ forall z, In z (fst (tc succ fuel x [])) <-> exists y, reach succ x y /\ In z (succ y).
Proof. exact tc_exact. Qed.
Print Assumptions C01_transitiveClosure_walk_exact.

(* ... on every graph of every history, with func = the objects of p *)
Theorem C01_transitiveClosure_exact : forall c w S g, Rel c w S -> forall pp x,
  let E := sp_content S (scid c g) in
  Permutation.Permutation (g_tclosure w g x pp) (flat_map (e_succ_o E pp) (dfs (e_succ_o E pp) (e_depth E) x []))
  /\ forall z, In z (g_tclosure w g x pp) <-> exists y, reach (e_succ_o E pp) x y /\ In z (e_succ_o E pp y).
Proof. exact g_tclosure_exact. Qed.
Print Assumptions C01_transitiveClosure_exact.

(* `g += g` / two graphs of one SimpleMemory store, interleaved: the loop variable takes
   exactly the values of the list computed up front and the store is unchanged *)
Theorem C01_simple_iadd_interleaved : forall m fuel,
  sm_inv m -> length (sm_triples m all_pat) < fuel ->
  si_iadd fuel m (si_start m) = (sm_triples m all_pat, m).
Proof. exact simple_iadd_interleaved. Qed.
Print Assumptions C01_simple_iadd_interleaved.
