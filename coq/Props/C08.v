(* C08 - Solution modifiers and aggregates follow SPARQL (DISTINCT, ORDER, slice, GROUP).
   Property theorems only; the proofs are in Modifiers/*.v.

   SCOPE OF THESE THEOREMS - read this first.
   * The solution sequence that ENTERS the modifiers is an INPUT of every statement (c_input):
     graph-pattern evaluation is property C04's subject.  In the correspondence runs it is what
     real rdflib returns for `SELECT * WHERE { P }` for one of six small base patterns.
   * The query-level translation (algebra.translate / translateAggregates: aggregates replaced by
     __agg_n__ variables, implicit SAMPLE of projected variables, Extend chains, HAVING after
     aliasing) is NOT modelled as a syntax transformation.  The model's pipeline
       Group/AggregateJoin -> Filter(HAVING) -> Extend -> OrderBy -> Project -> Distinct -> Slice
     is the INTENDED RESULT of that rewriting; that rdflib's translator produces it is checked only
     by the runs (every case is posed as query TEXT, so a translator error shows as a disagreement:
     seeded changes C08-3 and C08-r2-2 are of that kind), not proved.
   * What IS modelled statement by statement: evalDistinct, evalOrderBy, evalSlice, evalProject,
     evalAggregateJoin, the seven accumulators of aggregates.py, evalutils._val with the term
     comparison, the operators of operators.py used in aggregate arguments, datatypes.type_promotion
     over the reflected table.
   * TERM FRAGMENT (sort keys, group keys, aggregate members): blank nodes, IRIs, plain string
     literals, language-tagged strings (lower-case tags), xsd:boolean, xsd:integer, xsd:decimal -
     NOT dates, doubles, other datatypes (doubles only in the promotion suite: datatype proved,
     value to a tolerance).  The property's "sort keys of mixed term kinds and datatypes" is
     covered for these seven kinds.  Expressions (eval_t) over tagged strings / booleans are
     defined but not tied to rdflib.  Sort keys are variables (or aggregates as unprojected aliases); HAVING is one comparison
     of COUNT/SUM/AVG with an integer or of a grouping key with an IRI.
   * The literal order (numeric below string) is rdflib's choice where SPARQL 15.1 leaves the
     order of unrelated literals open: the checker is stricter than the standard there. *)
From Coq Require Import Permutation Sorting.Sorted.
From RV Require Import Modifiers.Model Modifiers.Order Modifiers.Post Modifiers.Agg
                       Modifiers.Proofs Modifiers.Readings Modifiers.PromoModel Modifiers.PromoProofs
                       Modifiers.ExprProofs Modifiers.Fuel Modifiers.SubModel Modifiers.SubProofs.

(* The tie between model and checker: on every well-formed case the rows the
   model computes (aggregation stage, query without slice, query) are accepted
   by the specification checker that the correspondence run applies to
   rdflib's rows.  No trigger hypothesis: the defects F-C08a,b,c,d,g have been
   repaired in the code (commits 0ada73ff, cdcdb849, bd5db65a, 127411f7) and
   the model follows the repaired code. *)
Theorem C08_spec_ok_model : forall c, wf c = true -> spec_ok c (model_obs c) = true.
Proof. exact spec_ok_model. Qed.
Print Assumptions C08_spec_ok_model.

(* DISTINCT: each solution once, same support, order of first occurrences. *)
Theorem C08_distinct : forall l : list sol,
  NoDup (eval_distinct true l)
  /\ (forall r, In r (eval_distinct true l) <-> In r l)
  /\ (forall l' r, eval_distinct true (l' ++ [r]) =
                   if memb sol_eqb r l' then eval_distinct true l' else eval_distinct true l' ++ [r]).
Proof. exact distinct_spec. Qed.
Print Assumptions C08_distinct.

(* The comparison of sort keys (unbound < blank node < IRI < numeric literal by
   value < string literal by code points) is a total preorder ... *)
Theorem C08_key_order_total_preorder :
  (forall a, kle a a = true)
  /\ (forall a b, kle a b = true \/ kle b a = true)
  /\ (forall a b c, kle a b = true -> kle b c = true -> kle a c = true).
Proof. split; [exact kle_refl|split; [exact kle_total|exact kle_trans]]. Qed.
Print Assumptions C08_key_order_total_preorder.

(* the classes of the order: unbound < blank node < IRI < boolean < numeric < plain string <
   language-tagged string; false < true; tagged strings by tag, then by string *)
Theorem C08_literal_class_order : forall l i b z m k s c tag t,
  klt None (Some (TB l)) = true /\ klt (Some (TB l)) (Some (TI i)) = true
  /\ klt (Some (TI i)) (Some (TBool b)) = true
  /\ klt (Some (TBool b)) (Some (TInt z)) = true /\ klt (Some (TBool b)) (Some (TDec m k)) = true
  /\ klt (Some (TInt z)) (Some (TStr s)) = true /\ klt (Some (TDec m k)) (Some (TStr s)) = true
  /\ klt (Some (TStr s)) (Some (TLang (c :: tag) t)) = true
  /\ klt (Some (TBool false)) (Some (TBool true)) = true
  /\ (forall tag1 tag2 s1 s2, str_lt tag1 tag2 = true -> klt (Some (TLang tag1 s1)) (Some (TLang tag2 s2)) = true)
  /\ (forall tg s1 s2, klt (Some (TLang tg s1)) (Some (TLang tg s2)) = str_lt s1 s2).
Proof.
  intros. repeat split; try reflexivity.
  - intros tag1 tag2 s1 s2 H. unfold klt. simpl. unfold lex2. simpl. now rewrite H.
  - intros tg s1 s2. unfold klt. simpl. unfold lex2. simpl.
    destruct (str_lt tg tg) eqn:E; [|reflexivity]. pose proof (str_lt_asym _ _ E). congruence.
Qed.
Print Assumptions C08_literal_class_order.

(* ... so ORDER BY with any number of ASC/DESC keys returns a permutation of
   its input in which no row is followed, at any distance, by a row that must
   precede it in the lexicographic order of the keys. *)
Theorem C08_orderby : forall keys l,
  Permutation (eval_orderby keys l) l /\ StronglySorted (lexP keys) (eval_orderby keys l).
Proof. exact orderby_spec. Qed.
Print Assumptions C08_orderby.

(* The same for one stable pass with ANY key comparison that is the strict
   part of a total preorder (the hypothesis the property depends on), on input
   already sorted by R: the result is sorted by "key first, then R". *)
Theorem C08_orderby_generic : forall (A : Type) (lt : A -> A -> bool),
  (forall a b, lt a b = true -> lt b a = false) ->
  (forall a b c, lt a c = true -> lt a b = true \/ lt b c = true) ->
  forall (R : A -> A -> Prop) l, StronglySorted R l ->
    Permutation (isort lt l) l /\ StronglySorted (lexR A lt R) (isort lt l).
Proof. exact orderby_generic. Qed.
Print Assumptions C08_orderby_generic.

(* "may precede" under any list of ASC/DESC keys is a total preorder on solutions ... *)
Theorem C08_lexP_total_preorder : forall keys,
  (forall a, lexP keys a a)
  /\ (forall a b, lexP keys a b \/ lexP keys b a)
  /\ (forall a b c, lexP keys a b -> lexP keys b c -> lexP keys a c).
Proof. intros keys. split; [apply lexP_refl|split; [apply lexP_total|apply lexP_trans]]. Qed.
Print Assumptions C08_lexP_total_preorder.

(* ... and ORDER BY is a STABLE sort for it: any rows that are pairwise tied on every key keep
   the order in which they arrived (p selects such a set of rows) *)
Theorem C08_orderby_stable : forall keys (p : sol -> bool) l,
  (forall k a b, In k keys -> p a = true -> p b = true -> row_lt (snd k) a b = false) ->
  filter p (eval_orderby keys l) = filter p l.
Proof. exact eval_orderby_stable. Qed.
Print Assumptions C08_orderby_stable.

Theorem C08_lex_le_reading : forall keys r1 r2, lex_le keys r1 r2 = true <-> lexP keys r1 r2.
Proof. exact lex_le_iff. Qed.
Print Assumptions C08_lex_le_reading.

(* LIMIT/OFFSET: exactly that slice of the sequence. *)
Theorem C08_slice : forall off n (l : list sol),
  eval_slice (Some (off, Some n)) l = firstn n (skipn off l)
  /\ eval_slice (Some (off, None)) l = skipn off l
  /\ eval_slice None l = l.
Proof. exact slice_spec. Qed.
Print Assumptions C08_slice.

(* Projection keeps exactly the named variables, with their values. *)
Theorem C08_project : forall pv r,
  (forall v, lookup v (project_row pv r) = if memb N.eqb v pv then lookup v r else None)
  /\ (forall b, In b (project_row pv r) <-> In b r /\ In (fst b) pv).
Proof. exact project_spec. Qed.
Print Assumptions C08_project.

(* What the checker of the ORDER BY / projection / DISTINCT stage says about
   any observed sequence f, given the rows a that entered it. *)
Theorem C08_post_reading : forall c a f,
  post_ok c a f = true ->
  let p := eval_project (c_proj c) a in
  Permutation f (if c_distinct c then dedup sol_eqb p else p)
  /\ (c_distinct c = true -> NoDup f /\ forall r, In r f <-> In r p)
  /\ (keys_visible c = true -> StronglySorted (lexP (c_order c)) f).
Proof. exact post_ok_reading. Qed.
Print Assumptions C08_post_reading.

(* GROUP BY partitions the solutions by key. *)
Theorem C08_group_partition : forall gv input,
  let gs := group_rows gv input in
  NoDup (map fst gs)
  /\ (forall k m, In (k, m) gs <-> (m = members gv k input /\ m <> []))
  /\ (forall r, In r input -> In (key_of gv r, members gv (key_of gv r) input) gs).
Proof. exact group_partition. Qed.
Print Assumptions C08_group_partition.

(* Every accumulator returns an admissible value of its aggregate over the
   rows it was fed: all seven kinds, with and without DISTINCT, unbound and
   non-numeric members included (the error case "non-numeric member => unbound
   for that group" is part of the statement, see C08_sum / C08_avg). *)
Theorem C08_accumulators : forall a m, agg_adm a m (agg_run a m) = true.
Proof. exact agg_run_adm. Qed.
Print Assumptions C08_accumulators.

(* ... and "admissible" means the SPARQL 18.5.1 value: *)
Theorem C08_count : forall a v rows r,
  a_arg a = Some v -> a_kind a = ACount -> agg_adm a rows r = true ->
  r = Some (TInt (Z.of_nat (length (avals a v rows)))).
Proof. exact count_reading. Qed.
Print Assumptions C08_count.

Theorem C08_count_star : forall a rows r,
  a_arg a = None -> agg_adm a rows r = true ->
  r = Some (TInt (Z.of_nat (length (if a_distinct a then dedup sol_eqb rows else rows)))).
Proof. exact count_star_reading. Qed.
Print Assumptions C08_count_star.

Theorem C08_distinct_values : forall a v rows,
  a_distinct a = true ->
  NoDup (avals a v rows) /\ forall t, In t (avals a v rows) <-> In t (bound (ovals v rows)).
Proof. exact avals_distinct. Qed.
Print Assumptions C08_distinct_values.

(* arg_error v rows: the argument EXPRESSION is an error in some solution of the group (an
   unbound plain variable does not count, such solutions are left out).  18.5.1.3/4: an error
   element or a non-numeric member makes SUM / AVG an error: the variable is unbound for
   that group. *)
Theorem C08_sum : forall a v rows r,
  a_arg a = Some v -> a_kind a = ASum -> agg_adm a rows r = true ->
  (arg_error v rows = false -> forallb is_numeric (avals a v rows) = true ->
     exists t, r = Some t /\ num_same t (lit_of_num (sum_nums (nums_of (avals a v rows)))) = true)
  /\ (arg_error v rows = true \/ forallb is_numeric (avals a v rows) = false -> r = None).
Proof. exact sum_reading. Qed.
Print Assumptions C08_sum.

Theorem C08_avg : forall a v rows r,
  a_arg a = Some v -> a_kind a = AAvg -> agg_adm a rows r = true ->
  (arg_error v rows = false -> forallb is_numeric (avals a v rows) = true ->
     (avals a v rows = [] -> r = Some (TInt 0))
     /\ (avals a v rows <> [] -> exists t, r = Some t /\
           num_same t (avg_lit (sum_nums (nums_of (avals a v rows)))
                               (Z.of_nat (length (avals a v rows)))) = true))
  /\ (arg_error v rows = true \/ forallb is_numeric (avals a v rows) = false -> r = None).
Proof. exact avg_reading. Qed.
Print Assumptions C08_avg.

(* the value SUM accumulates IS the arithmetic sum of the members: at any scale K that covers
   them, (value * 10^K) of the result = sum of (value * 10^K) of the members; exact, no rounding,
   hence independent of the order in which the solutions arrive *)
Theorem C08_sum_is_arithmetic_sum : forall l K,
  Forall (fun n => (scale_of n <= K)%N) l ->
  scaled (sum_nums l) K = zsum (map (fun n => scaled n K) l).
Proof. exact sum_nums_value. Qed.
Print Assumptions C08_sum_is_arithmetic_sum.

(* numeric comparison (ORDER BY, MIN/MAX, HAVING, <) is the comparison of the values *)
Theorem C08_numeric_order_is_value_order : forall m k m' k' K, (k <= K)%N -> (k' <= K)%N ->
  num_lt (m, k) (m', k') = (scaled (NDec m k) K <? scaled (NDec m' k') K)%Z.
Proof. exact num_lt_scaled. Qed.
Print Assumptions C08_numeric_order_is_value_order.

(* ------------------------------------------------------------------ *)
(* Expressions as aggregate arguments (eval_t / eval_b model operators.py; None = error).
   C08_accumulators and the readings above quantify over ALL argument expressions: the values an
   aggregate works on are [ovals e rows], one per solution, None where e is an error; COUNT, MIN,
   MAX, SAMPLE, GROUP_CONCAT leave such solutions out, SUM and AVG become an error themselves
   (arg_error).  The laws of the evaluator itself: *)
Theorem C08_expr_arithmetic_strict : forall r,
  (forall a t, eval_t (ENeg a) r = Some t ->
     exists x n, eval_t a r = Some x /\ numv_of x = Some n /\ t = lit_of_num (num_neg n))
  /\ (forall a t, eval_t (EPos a) r = Some t ->
     exists x n, eval_t a r = Some x /\ numv_of x = Some n /\ t = lit_of_num n)
  /\ (forall a b t, eval_t (EAdd a b) r = Some t ->
     exists x y n m, eval_t a r = Some x /\ eval_t b r = Some y /\ numv_of x = Some n /\ numv_of y = Some m
                     /\ t = lit_of_num (num_add n m))
  /\ (forall a b t, eval_t (ESub a b) r = Some t ->
     exists x y n m, eval_t a r = Some x /\ eval_t b r = Some y /\ numv_of x = Some n /\ numv_of y = Some m
                     /\ t = lit_of_num (num_add n (num_neg m))).
Proof. exact arith_strict. Qed.
Print Assumptions C08_expr_arithmetic_strict.

Theorem C08_expr_arithmetic_value : forall a b K,
  (scale_of a <= K)%N -> (scale_of b <= K)%N ->
  scaled (num_add a b) K = (scaled a K + scaled b K)%Z /\ scaled (num_neg a) K = (- scaled a K)%Z.
Proof. intros a b K Ha Hb. split; [now apply scaled_add|apply scaled_neg]. Qed.
Print Assumptions C08_expr_arithmetic_value.

Theorem C08_expr_coalesce_if_bound : forall r,
  (forall a b, eval_t (ECoalesce a b) r = match eval_t a r with Some t => Some t | None => eval_t b r end)
  /\ (forall v, eval_b (BBound v) r = Some (match lookup v r with Some _ => true | None => false end))
  /\ (forall c a b, eval_t (EIf c a b) r =
        match eval_b c r with Some true => eval_t a r | Some false => eval_t b r | None => None end)
  /\ (forall v a b, eval_t (EIf (BBound v) a b) r = match lookup v r with Some _ => eval_t a r | None => eval_t b r end)
  /\ (forall v a, eval_t (ECoalesce (EVar v) a) r = eval_t (EIf (BBound v) (EVar v) a) r).
Proof. exact coalesce_if_bound. Qed.
Print Assumptions C08_expr_coalesce_if_bound.

Theorem C08_expr_three_valued_logic : forall c d r,
  eval_b (BAnd c d) r = eval_b (BAnd d c) r
  /\ eval_b (BOr c d) r = eval_b (BOr d c) r
  /\ eval_b (BNot (BAnd c d)) r = eval_b (BOr (BNot c) (BNot d)) r
  /\ eval_b (BNot (BOr c d)) r = eval_b (BAnd (BNot c) (BNot d)) r
  /\ (eval_b c r = Some false -> eval_b (BAnd c d) r = Some false)
  /\ (eval_b c r = Some true -> eval_b (BOr c d) r = Some true)
  /\ (eval_b c r = None -> eval_b d r <> Some false -> eval_b (BAnd c d) r = None)
  /\ (eval_b c r = None -> eval_b d r <> Some true -> eval_b (BOr c d) r = None).
Proof. exact three_valued. Qed.
Print Assumptions C08_expr_three_valued_logic.

Theorem C08_expr_comparison_defined : forall op a b,
  (match op with OpEq | OpNe => True | _ => is_lit a && is_lit b = true end) <-> cmp_terms op a b <> None.
Proof. exact cmp_terms_defined. Qed.
Print Assumptions C08_expr_comparison_defined.

(* the repaired defect F-C08h on its witness {1, "x", 2}: COUNT(-?v) = 2, MIN(-?v) = -2,
   GROUP_CONCAT(-?v) = "-1 -2", SUM(-?v) unbound *)
Example C08_witness_error_valued_argument :
  let rows := [[(2, TInt 1)]; [(2, TStr [120])]; [(2, TInt 2)]]%N in
  let a k := {| a_kind := k; a_distinct := false; a_arg := Some (ENeg (EVar 2%N)) |} in
  agg_run (a ACount) rows = Some (TInt 2) /\ agg_run (a AMin) rows = Some (TInt (-2))
  /\ agg_run (a (AConcat [32%N])) rows = Some (TStr [45; 49; 32; 45; 50]%N) /\ agg_run (a ASum) rows = None
  /\ agg_adm (a ACount) rows (Some (TInt 3)) = false.
Proof. vm_compute. repeat split. Qed.

Theorem C08_min : forall a v rows r,
  a_arg a = Some v -> a_kind a = AMin -> agg_adm a rows r = true ->
  let vals := bound (ovals v rows) in
  match r with
  | None => vals = []
  | Some t => In t vals /\ forall x, In x vals -> kle (Some t) (Some x) = true
  end.
Proof. exact min_reading. Qed.
Print Assumptions C08_min.

Theorem C08_max : forall a v rows r,
  a_arg a = Some v -> a_kind a = AMax -> agg_adm a rows r = true ->
  let vals := bound (ovals v rows) in
  match r with
  | None => vals = []
  | Some t => In t vals /\ forall x, In x vals -> kle (Some x) (Some t) = true
  end.
Proof. exact max_reading. Qed.
Print Assumptions C08_max.

Theorem C08_sample : forall a v rows r,
  a_arg a = Some v -> a_kind a = ASample -> agg_adm a rows r = true ->
  match r with
  | None => bound (ovals v rows) = []
  | Some t => In t (bound (ovals v rows))
  end.
Proof. exact sample_reading. Qed.
Print Assumptions C08_sample.

Theorem C08_concat : forall a v rows r sep,
  a_arg a = Some v -> a_kind a = AConcat sep -> agg_adm a rows r = true ->
  exists l, Permutation l (map term_str (avals a v rows)) /\ r = Some (TStr (join sep l)).
Proof. exact concat_reading. Qed.
Print Assumptions C08_concat.

(* The rows of the aggregation stage: one row per group that passes HAVING
   (without GROUP BY the single group of all solutions, also when there are
   none), carrying an admissible value of every aggregate over exactly the
   members of its group.  For GROUP BY over NO solutions the checker accepts
   both no row (algebra, 18.5) and one row with nothing bound (W3C test
   aggregates/agg-empty-group). *)
Theorem C08_agg_cases : forall c gv a,
  c_group c = Some gv -> agg_ok c a = true ->
  (gv <> [] /\ c_input c = [] /\ (a = [] \/ a = [[]])) \/ agg_ok_groups c gv a = true.
Proof. exact agg_ok_cases. Qed.
Print Assumptions C08_agg_cases.

Theorem C08_group_by_empty_both_accepted : forall c g0 gv',
  c_group c = Some (g0 :: gv') -> c_input c = [] -> agg_ok c [] = true /\ agg_ok c [[]] = true.
Proof. exact agg_ok_empty_both. Qed.
Print Assumptions C08_group_by_empty_both_accepted.

Theorem C08_agg_rows : forall c gv a,
  agg_ok_groups c gv a = true ->
  let input := c_input c in
  NoDup (map (key_of gv) a)
  /\ (forall k, In k (map (key_of gv) a) <->
                (match gv with [] => k = [] | _ => exists r, In r input /\ key_of gv r = k end)
                /\ having_holds (c_having c) (members gv k input) = true)
  /\ (forall row, In row a ->
        (forall b, In b row -> In (fst b) (gv ++ map fst (c_aggs c)))
        /\ forall v s, In (v, s) (c_aggs c) ->
             agg_adm s (members gv (key_of gv row) input) (lookup v row) = true).
Proof. exact agg_ok_reading. Qed.
Print Assumptions C08_agg_rows.

Theorem C08_having : forall c gv a k,
  agg_ok_groups c gv a = true ->
  In k (map (key_of gv) a) -> having_holds (c_having c) (members gv k (c_input c)) = true.
Proof. exact having_reading. Qed.
Print Assumptions C08_having.

(* HAVING (agg op n): the checker evaluates the condition on the value the model's accumulator
   computes (having_holds calls agg_run) - that is no dependency on the model: the verdict is the
   same for EVERY admissible value of COUNT / SUM / AVG *)
Theorem C08_having_verdict_unique : forall a rows o o' op n,
  having_kind a = true -> agg_adm a rows o = true -> agg_adm a rows o' = true ->
  cond_holds op n o = cond_holds op n o'.
Proof. exact having_verdict_unique. Qed.
Print Assumptions C08_having_verdict_unique.

Theorem C08_having_holds_admissible : forall a op n rows o,
  having_kind a = true -> agg_adm a rows o = true ->
  having_holds (Some (HAgg a op n)) rows = cond_holds op n o.
Proof. exact having_holds_admissible. Qed.
Print Assumptions C08_having_holds_admissible.

(* The fuel of the digit functions suffices (exhaustion would give a short digit string on both
   sides of the checker, unnoticed): nat_str yields ALL digits - reading it back gives the number -
   so str(int) is injective; ndigits is the number of decimal digits; strip_zeros stops because of
   its condition.  (concat_match is used by the checker only: running out of fuel means "reject".) *)
Theorem C08_nat_str_all_digits : forall a, (0 <= a)%Z -> dval (nat_str a) 0 = a /\ nat_str a <> [].
Proof. exact nat_str_value. Qed.
Print Assumptions C08_nat_str_all_digits.

Theorem C08_z_str_injective : forall a b, z_str a = z_str b -> a = b.
Proof. exact z_str_injective. Qed.
Print Assumptions C08_z_str_injective.

Theorem C08_ndigits_is_digit_count : forall a, (0 <= a)%Z ->
  (1 <= ndigits a)%Z /\ (a < 10 ^ ndigits a)%Z /\ (1 <= a -> 10 ^ (ndigits a - 1) <= a)%Z.
Proof. exact ndigits_spec. Qed.
Print Assumptions C08_ndigits_is_digit_count.

Theorem C08_strip_zeros_fuel : forall f c e ideal, (ideal - e <= Z.of_nat f)%Z ->
  let r := strip_zeros f c e ideal in
  (ideal <= snd r \/ fst r mod 10 <> 0)%Z \/ (ideal <= e)%Z.
Proof. exact strip_zeros_spec. Qed.
Print Assumptions C08_strip_zeros_fuel.

(* HAVING on a grouping key without an aggregate: the condition is evaluated on the value the
   key has in the group (unbound key: error, the group is dropped for = and for !=) *)
Theorem C08_having_key : forall v ne iri r rows,
  having_holds (Some (HKey v ne iri)) (r :: rows) =
  match lookup v r with
  | None => false
  | Some t => if ne then negb (term_eqb t (TI iri)) else term_eqb t (TI iri)
  end.
Proof. reflexivity. Qed.
Print Assumptions C08_having_key.

(* ------------------------------------------------------------------ *)
(* Numeric type promotion, over the table REFLECTED from rdflib/plugins/sparql/datatypes.py
   (Gen/Tables_promo.v is regenerated from the tree under test at every run, so these are
   re-proved against the current source).  Codes: 0 integer, 1 decimal, 2 float, 3 double. *)
Theorem C08_promotion_lattice : forall a b,
  (a < 4)%N -> (b < 4)%N -> type_promotion a b = Some (N.max a b).
Proof. exact promo_lattice. Qed.
Print Assumptions C08_promotion_lattice.

Theorem C08_promotion_symmetric : forall a b,
  (a < 4)%N -> (b < 4)%N -> type_promotion a b = type_promotion b a.
Proof. exact promo_comm. Qed.
Print Assumptions C08_promotion_symmetric.

Theorem C08_promotion_integer_subtypes : forall t, In t integer_subtypes ->
  forall b, type_promotion t b = type_promotion 0%N b /\ type_promotion b t = type_promotion b 0%N.
Proof. exact promo_subtypes. Qed.
Print Assumptions C08_promotion_integer_subtypes.

(* the datatype Sum/Average accumulate is the lattice maximum of the members, in any order *)
Theorem C08_sum_avg_datatype : forall t r, forallb (fun t => N.ltb t 4) (t :: r) = true ->
  dt_fold (t :: r) = Some (Some (lattice_max (t :: r))).
Proof. exact dt_fold_lattice. Qed.
Print Assumptions C08_sum_avg_datatype.

(* tie for the promotion suite (float/double members; values only up to a tolerance) *)
Theorem C08_promotion_spec_model : forall c, pwf c = true -> pspec c (pmodel c) = true.
Proof. exact pspec_model. Qed.
Print Assumptions C08_promotion_spec_model.

Theorem C08_promotion_spec_reading : forall c d v,
  pspec c (PVal d v) = true -> p_vals c <> [] ->
  d = (if p_avg c then N.max 1 (lattice_max (map fst (p_vals c))) else lattice_max (map fst (p_vals c))).
Proof. exact pspec_reading. Qed.
Print Assumptions C08_promotion_spec_reading.

(* remark: what the code answered before commit bd5db65a (xsd:double for AVG over xsd:float) is
   rejected by the checker; the repaired code answers xsd:float *)
Theorem C08_hist_avg_float_double_rejected :
  pspec {| p_avg := true; p_vals := [(2%N, (3, 2)%Z)] |} (PVal 3 (3, 2)%Z) = false
  /\ pmodel {| p_avg := true; p_vals := [(2%N, (3, 2)%Z)] |} = PVal 2 (3, 2)%Z.
Proof. exact avg_float_double_rejected. Qed.
Print Assumptions C08_hist_avg_float_double_rejected.

(* A sub-select with ORDER BY / LIMIT / OFFSET inside a group is evaluated on its own: the group's
   solutions are (as a multiset) the join of the neighbouring pattern with exactly ONE slice of the
   sub-select's ordered solutions - not a slice per outer solution.  (Both solution sequences are
   inputs; the join itself is the nested loop over compatible pairs.) *)
Theorem C08_subselect_spec_model : forall c, sspec c (smodel c) = true.
Proof. exact sspec_model. Qed.
Print Assumptions C08_subselect_spec_model.

Theorem C08_subselect_reading : forall c f s j,
  sspec c (SRows f s j) = true ->
  post_ok (s_sub c) (c_input (s_sub c)) f = true
  /\ s = eval_slice (c_slice (s_sub c)) f
  /\ Permutation j (join_rows (s_outer c) s).
Proof. exact sspec_reading. Qed.
Print Assumptions C08_subselect_reading.

Theorem C08_join_rows : forall a b r,
  In r (join_rows a b) <-> exists x y, In x a /\ In y b /\ compatible x y = true /\ r = merge x y.
Proof. exact join_rows_In. Qed.
Print Assumptions C08_join_rows.

(* The model's aggregation stage satisfies that checker. *)
Theorem C08_agg_stage_model : forall c, wf c = true -> agg_ok c (agg_stage c) = true.
Proof. exact agg_ok_model. Qed.
Print Assumptions C08_agg_stage_model.

(* ------------------------------------------------------------------ *)
(* The witnesses of the repaired findings now pass (each is also a corpus case replayed on
   rdflib), and the answers of the historical code are rejected by the checker. *)
Definition ia : term := TI [97%N].
Definition ib : term := TI [98%N].
Definition mk (inp : list sol) (gv : list var) (a : aggspec) : case :=
  {| c_input := inp; c_group := Some gv; c_aggs := [(10%N, a)]; c_having := None;
     c_order := []; c_proj := Some (gv ++ [10%N]); c_distinct := false; c_slice := None |}.
Definition ag k d v := {| a_kind := k; a_distinct := d; a_arg := Some (EVar v) |}.
Definition w_mixed : list sol := [[(0, ia); (2, TInt 1)]; [(0, ia); (2, TStr [120])]]%N.

(* SUM / AVG over {1, "x"}: unbound for that group (was: exception / 1) *)
Example C08_witness_sum_avg_nonnumeric :
  model_obs (mk w_mixed [0%N] (ag ASum false 2%N)) = ORows [[(0%N, ia)]] [[(0%N, ia)]] [[(0%N, ia)]]
  /\ model_obs (mk w_mixed [0%N] (ag AAvg false 2%N)) = ORows [[(0%N, ia)]] [[(0%N, ia)]] [[(0%N, ia)]]
  /\ agg_adm (ag AAvg false 2%N) w_mixed (Some (TDec 1 0)) = false.
Proof. vm_compute. repeat split. Qed.

(* MIN over {<b>}: the IRI itself (was: the plain literal "b") *)
Example C08_witness_min_iri :
  model_obs (mk [[(0, ia); (2, ib)]]%N [0%N] (ag AMin false 2%N))
    = ORows [[(0, ia); (10, ib)]]%N [[(0, ia); (10, ib)]]%N [[(0, ia); (10, ib)]]%N
  /\ agg_adm (ag AMin false 2%N) [[(0, ia); (2, ib)]]%N (option_map as_literal (Some ib)) = false.
Proof. vm_compute. repeat split. Qed.

(* SUM(DISTINCT ?v3) with ?v3 unbound: 0 (was: NotBoundError) *)
Example C08_witness_distinct_unbound :
  model_obs (mk [[(0, ia); (2, TInt 1)]]%N [0%N] (ag ASum true 3%N))
    = ORows [[(0, ia); (10, TInt 0)]]%N [[(0, ia); (10, TInt 0)]]%N [[(0, ia); (10, TInt 0)]]%N.
Proof. vm_compute. reflexivity. Qed.

(* non-vacuity: GROUP BY ?v0 with COUNT, SUM over integers and a decimal, AVG,
   GROUP_CONCAT(DISTINCT), HAVING, ORDER BY DESC on an alias then ASC on the
   key, DISTINCT, LIMIT 2 OFFSET 1: accepted, rows come out *)
Example C08_nonvacuous :
  let inp := [[(0, ia); (2, TInt 1)]; [(0, ib); (2, TInt 2)]; [(0, ia); (2, TDec 15 1)];
              [(0, TB [99]); (2, TInt 2)]; [(0, ib); (2, TInt 2)]; [(0, ia); (2, TInt 1); (3, TStr [120])]]%N in
  let c := {| c_input := inp; c_group := Some [0%N];
              c_aggs := [(10, ag ACount false 2); (11, ag ASum false 2); (12, ag AAvg false 2);
                         (13, ag (AConcat [44%N]) true 2)]%N;
              c_having := Some (HAgg {| a_kind := ACount; a_distinct := false; a_arg := None |} OpGe 1%Z);
              c_order := [(true, 10%N); (false, 0%N)]; c_proj := Some [0; 10; 11; 12; 13]%N;
              c_distinct := true; c_slice := Some (1, Some 2) |} in
  wf c = true /\ spec_ok c (model_obs c) = true
  /\ model_obs c =
     ORows [[(0, ia); (10, TInt 3); (11, TDec 35 1); (12, TDec 1166666666666666666666666667 27); (13, TStr [49; 44; 49; 46; 53])];
            [(0, ib); (10, TInt 2); (11, TInt 4); (12, TDec 2 0); (13, TStr [50])];
            [(0, TB [99]); (10, TInt 1); (11, TInt 2); (12, TDec 2 0); (13, TStr [50])]]%N
           [[(0, ia); (10, TInt 3); (11, TDec 35 1); (12, TDec 1166666666666666666666666667 27); (13, TStr [49; 44; 49; 46; 53])];
            [(0, ib); (10, TInt 2); (11, TInt 4); (12, TDec 2 0); (13, TStr [50])];
            [(0, TB [99]); (10, TInt 1); (11, TInt 2); (12, TDec 2 0); (13, TStr [50])]]%N
           [[(0, ib); (10, TInt 2); (11, TInt 4); (12, TDec 2 0); (13, TStr [50])];
            [(0, TB [99]); (10, TInt 1); (11, TInt 2); (12, TDec 2 0); (13, TStr [50])]]%N.
Proof. vm_compute. repeat split. Qed.
