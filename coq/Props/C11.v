(* C11 - Property paths denote the relation SPARQL defines, for every binding of
   the ends.  Property theorems only; proofs are in Paths/{Basics,Eval,Spec,Main}.v.

   [eval g n p s o] is the model of Graph.triples((s, p, o)) for a path p
   (rdflib/paths.py), [path_rel g p] the relation of SPARQL 1.1 section 18.4,
   [ends_ok g s o x y] "restricted to the given start and/or end term" (both ends
   unbound: the pairs range over the nodes of the graph).

   Findings F4a, F4b (zero-length pair twice) and F4d (backward evaluation of a
   sequence of three or more steps) are repaired in the code and in the model.
   Two findings still limit the full statement (each has a [_refuted] witness):
     F4c  negated property sets with an inverse member do not follow 18.4
          (cannot be repaired: the module doctest of paths.py pins the behaviour)
     F4e  (SPARQL route) translatePath does not translate ^iri inside !(..), and !() raises *)
From Coq Require Import Permutation.
From RV Require Import Paths.Model Paths.Basics Paths.Eval Paths.Spec Paths.Main Paths.Order Paths.TransModel Paths.TransProofs.
From RV Require Import Paths.BgpModel Paths.BgpProofs.

(* Soundness and completeness for each of the four bound/unbound combinations of
   the ends, every graph, every bound term (in the graph or not, truthy or not)
   and every path without an inverse member in a negated set (F4c).  The fuel
   [fuel g] is never exhausted. *)
Theorem C11_sound_complete_partial : forall g p s o,
  wfp p = true -> has_ninv p = false ->
  exists l, eval g (fuel g) p s o = Ok l
            /\ forall x y, In (x, y) l <-> path_rel g p x y /\ ends_ok g s o x y.
Proof. exact sound_complete. Qed.
Print Assumptions C11_sound_complete_partial.

(* the same, spelled out per combination *)
Theorem C11_four_bindings_partial : forall g p a b,
  wfp p = true -> has_ninv p = false ->
  (exists l, eval g (fuel g) p (Some a) (Some b) = Ok l
             /\ forall x y, In (x, y) l <-> path_rel g p x y /\ x = a /\ y = b)
  /\ (exists l, eval g (fuel g) p (Some a) None = Ok l
             /\ forall x y, In (x, y) l <-> path_rel g p x y /\ x = a)
  /\ (exists l, eval g (fuel g) p None (Some b) = Ok l
             /\ forall x y, In (x, y) l <-> path_rel g p x y /\ y = b)
  /\ (exists l, eval g (fuel g) p None None = Ok l
             /\ forall x y, In (x, y) l <-> path_rel g p x y /\ In x (nodes g) /\ In y (nodes g)).
Proof.
  intros g p a b Hw Hi.
  split; [exact (sound_complete g p (Some a) (Some b) Hw Hi)|].
  split; [exact (sound_complete g p (Some a) None Hw Hi)|].
  split; [exact (sound_complete g p None (Some b) Hw Hi)|].
  exact (sound_complete g p None None Hw Hi).
Qed.
Print Assumptions C11_four_bindings_partial.

(* What the code computes for EVERY well-formed path, negated sets with inverse
   members included (their reading [neg_rel_impl] is pinned by the module doctest
   of paths.py, finding F4c): sound and complete for the relation [impl_rel]. *)
Theorem C11_pinned_semantics : forall g p s o,
  wfp p = true ->
  exists l, eval g (fuel g) p s o = Ok l
            /\ forall x y, In (x, y) l <-> impl_rel g p x y /\ ends_ok g s o x y.
Proof. exact impl_sound_complete. Qed.
Print Assumptions C11_pinned_semantics.

(* ... which is the SPARQL relation as soon as no negated set has an inverse member *)
Theorem C11_impl_rel_is_path_rel : forall g p,
  has_ninv p = false -> forall x y, impl_rel g p x y <-> path_rel g p x y.
Proof. exact impl_rel_eq. Qed.
Print Assumptions C11_impl_rel_is_path_rel.

(* Termination on every graph (cycles, self-loops), for every well-formed path -
   stated separately from the semantics, so also inside F4c: the depth-first
   searches never run out of the fuel |subject/object occurrences| + 1, and
   nothing raises.
   This is a statement about the ALGORITHM: the model has no counterpart of the
   Python interpreter's stack.  The code as it stood until round 4 implemented the
   searches as recursive generators, one frame chain per path step, and raised
   RecursionError on closures deeper than the recursion limit (~1000 steps; a chain
   of 3000 triples); "nothing raises" was then true of the model and false of the
   code for such graphs (finding F4f, repaired by an explicit-stack search with the
   same visiting order - see notes/C11.md).  The interpreter's resources (stack,
   memory) remain outside the model. *)
Theorem C11_terminates : forall g p s o,
  wfp p = true ->
  eval g (fuel g) p s o <> OutOfFuel /\ eval g (fuel g) p s o <> Raised.
Proof.
  intros g p s o Hw. destruct (impl_sound_complete g p s o Hw) as (l & Hl & _).
  rewrite Hl. split; discriminate.
Qed.
Print Assumptions C11_terminates.

(* more fuel changes nothing: any n >= fuel g gives a correct answer too *)
Theorem C11_fuel_monotone_partial : forall g n p s o,
  fuel g <= n -> wfp p = true -> has_ninv p = false ->
  exists l, eval g n p s o = Ok l
            /\ forall x y, In (x, y) l <-> path_rel g p x y /\ ends_ok g s o x y.
Proof. intros g n p s o Hn Hw Hi. exact (eval_spec g n p Hn Hw Hi s o). Qed.
Print Assumptions C11_fuel_monotone_partial.

(* Order independence.  The store answers a triple pattern with SOME enumeration of
   the matching triples; the evaluators are parametrised by it ([evalE En]).  For any
   two enumerations that are permutations of the matches, every well-formed path
   and every binding of the ends, both evaluations succeed and their yields are
   permutations of each other - so comparing observations as multisets loses nothing
   and needs no model of the Memory store's index order. *)
Theorem C11_order_independent : forall g E1 E2 n p s o,
  enum_perm_ok g E1 -> enum_perm_ok g E2 -> fuel g <= n -> wfp p = true ->
  exists l1 l2, evalE E1 g n p s o = Ok l1 /\ evalE E2 g n p s o = Ok l2 /\ Permutation l1 l2.
Proof. intros g E1 E2 n p s o H1 H2 Hn Hw. exact (order_invariant g E1 E2 H1 H2 n Hn p Hw s o). Qed.
Print Assumptions C11_order_independent.

(* the same against the model's own enumeration, in terms of the comparison the
   correspondence check uses *)
Theorem C11_order_independent_observation : forall g En p s o,
  enum_perm_ok g En -> wfp p = true ->
  obs_eqb (evalE En g (fuel g) p s o) (eval g (fuel g) p s o) = true.
Proof.
  intros g En p s o HE Hw. destruct (order_invariant_eval g En p s o HE Hw) as (l1 & l2 & H1 & H2 & Hp).
  rewrite H1, H2. simpl. apply bag_eqb_perm; auto.
Qed.
Print Assumptions C11_order_independent_observation.

(* The answer of a closure (p*, p+, p?, possibly under ^) has no duplicates:
   full strength - any graph, any inner path (even one inside F4c), any ends, any fuel. *)
Theorem C11_closure_nodup : forall g n p s o l,
  closure_top p = true -> eval g n p s o = Ok l -> NoDup l.
Proof. exact dup_free. Qed.
Print Assumptions C11_closure_nodup.

(* A zero-length match on a given term holds even if the term does not occur in
   the graph (no hypothesis on the graph, the inner path or the term). *)
Theorem C11_zero_length : forall g n a m x l,
  mod_zero m = true ->
  (eval g n (Mul a m) (Some x) None = Ok l \/ eval g n (Mul a m) None (Some x) = Ok l
   \/ eval g n (Mul a m) (Some x) (Some x) = Ok l) ->
  In (x, x) l.
Proof. exact zero_length. Qed.
Print Assumptions C11_zero_length.

(* The relation itself: zero-length matches relate every term to itself, and a
   related pair is such a match or consists of nodes of the graph. *)
Theorem C11_relation_nodes : forall g p x y,
  path_rel g p x y -> x = y \/ (In x (nodes g) /\ In y (nodes g)).
Proof. exact path_rel_RN. Qed.
Print Assumptions C11_relation_nodes.

(* What the correspondence check evaluates: reading of the checker ... *)
Theorem C11_spec_ok_reading : forall c l,
  spec_ok c (Ok l) = true <->
  (forall x y, In (x, y) l <-> path_rel (c_g c) (c_path c) x y /\ ends_ok (c_g c) (c_s c) (c_o c) x y)
  /\ (closure_top (c_path c) = true -> NoDup l).
Proof. exact spec_ok_reading. Qed.
Print Assumptions C11_spec_ok_reading.

Theorem C11_spec_ok_rejects_failures : forall c,
  spec_ok c OutOfFuel = false /\ spec_ok c Raised = false.
Proof. exact spec_ok_not_ok. Qed.
Print Assumptions C11_spec_ok_rejects_failures.

(* ... the computed relation is the specification relation (Warshall closure) ... *)
Theorem C11_expected_is_relation : forall g p s o x y,
  In (x, y) (expected g p s o) <-> path_rel g p x y /\ ends_ok g s o x y.
Proof. exact expected_spec. Qed.
Print Assumptions C11_expected_is_relation.

(* ... and the model satisfies it on every case outside the findings' triggers. *)
Theorem C11_spec_ok_model_partial : forall c, wf c -> kf c = 0%N -> spec_ok c (model_obs c) = true.
Proof. exact spec_ok_model. Qed.
Print Assumptions C11_spec_ok_model_partial.

(* The full statement "forall c, wf c -> spec_ok c (model_obs c) = true" is false:
   one witness per open finding, each replayed on rdflib (corpus/C11). *)
Theorem C11_F4c_refuted : exists c, wf c /\ kf c = 2%N /\ spec_ok c (model_obs c) = false
  /\ model_obs c = Ok [(1, 2)]%N /\ expected (c_g c) (c_path c) (c_s c) (c_o c) = [(2, 1)]%N.
Proof.
  exists {| c_g := [(1, 3, 2)]%N; c_path := Neg [NInv 4%N];
            c_s := None; c_o := None; c_sparql := false |}.
  repeat split; vm_compute; reflexivity.
Qed.
Print Assumptions C11_F4c_refuted.

Theorem C11_F4e_refuted : exists c, wf c /\ kf c = 4%N /\ model_obs c = Raised.
Proof.
  exists {| c_g := [(1, 3, 2)]%N; c_path := Neg [NInv 4%N];
            c_s := None; c_o := None; c_sparql := true |}.
  repeat split; vm_compute; reflexivity.
Qed.
Print Assumptions C11_F4e_refuted.

(* The code as it was before the "fix:" commits for F4d and F4b did not have the
   property: the historical definitions on the former witnesses. *)
Theorem C11_hist_F4d_refuted :
  let g : graph := [] in
  let l := [ev_mul g 1 (ev_iri (std_enum g) 3%N) ZeroOrMore; ev_mul g 1 (ev_iri (std_enum g) 4%N) ZeroOrMore;
            ev_mul g 1 (ev_iri (std_enum g) 3%N) ZeroOrMore] in
  hist_seq_bw l None (Some 1%N) = Ok [] /\ seq_bw l None (Some 1%N) = Ok [(1, 1)]%N.
Proof. exact hist_seq_bw_refuted. Qed.
Print Assumptions C11_hist_F4d_refuted.

Theorem C11_hist_F4b_refuted :
  let g : graph := [(1, 3, 2); (2, 3, 1)]%N in
  hist_ev_mul g (fuel g) (ev_iri (std_enum g) 3%N) ZeroOrMore (Some 1%N) None = Ok [(1, 1); (1, 2); (1, 1)]%N
  /\ ev_mul g (fuel g) (ev_iri (std_enum g) 3%N) ZeroOrMore (Some 1%N) None = Ok [(1, 1); (1, 2)]%N.
Proof. exact hist_ev_mul_refuted. Qed.
Print Assumptions C11_hist_F4b_refuted.

(* Histories on one Graph object (evaluations interleaved with additions and
   removals): outside the triggers every evaluation of the model is accepted by
   the checker against the graph content at that moment ... *)
Theorem C11_history_model_partial : forall c,
  h_wf (h_steps c) = true -> hkf c = 0%N -> hspec_ok c (hmodel_obs c) = true.
Proof. intros c. apply h_spec_model. Qed.
Print Assumptions C11_history_model_partial.

(* ... and an accepted history answers each evaluation from the graph as it is
   after the mutations that precede it (no stale answers).  Positional: there is
   exactly one observation per evaluation step, and the observation judged for a
   step is the one AT the step's position among the evaluations. *)
Theorem C11_history_reading : forall steps g os,
  h_spec g steps os = true ->
  length os = n_evals steps /\
  forall pre p s o sp post, steps = pre ++ HEval p s o sp :: post ->
  let g' := fold_left (fun g st => match st with HAdd t => g_add t g | HDel t => g_del t g | _ => g end) pre g in
  exists ob, nth_error os (n_evals pre) = Some ob /\ spec_ok (hc g' p s o sp) ob = true.
Proof. exact h_spec_reading_pos. Qed.
Print Assumptions C11_history_reading.

(* The SPARQL route.  [ptree] is the tree parser.py builds for the Path grammar,
   [translate] is algebra.translatePath with the splicing done by the SequencePath /
   AlternativePath constructors, [tree_rel] the section 18.4 relation read directly
   on the syntax tree.  For every grammatical tree outside F4e (no empty negated
   set, no inverse member) the translation succeeds and the path it builds is
   well-formed, has no untranslated member and denotes the tree's relation ... *)
Theorem C11_translate_sound_partial : forall g t,
  twf t = true -> t_f4e t = false ->
  exists p, translate t = Ok p /\ wfp p = true /\ has_ninv p = false
            /\ forall x y, path_rel g p x y <-> tree_rel g t x y.
Proof. exact translate_sound. Qed.
Print Assumptions C11_translate_sound_partial.

(* ... so that translating and then evaluating answers a SPARQL path pattern with
   exactly the pairs of the syntax tree's relation, for each binding of the ends. *)
Theorem C11_sparql_route_partial : forall g t s o,
  twf t = true -> t_f4e t = false ->
  exists p l, translate t = Ok p /\ eval g (fuel g) p s o = Ok l
              /\ forall x y, In (x, y) l <-> tree_rel g t x y /\ ends_ok g s o x y.
Proof. exact sparql_route. Qed.
Print Assumptions C11_sparql_route_partial.

(* the translate suite: reading of its checker, its comparison, and the tie *)
Theorem C11_translate_checker_reading : forall c p,
  tspec_ok c (Ok p) = true <->
  wfp p = true /\ has_ninv p = false
  /\ forall x y, In x (nodes (t_g c)) -> In y (nodes (t_g c)) ->
       (path_rel (t_g c) p x y <-> tree_rel (t_g c) (t_tree c) x y).
Proof. exact tspec_ok_reading. Qed.
Print Assumptions C11_translate_checker_reading.

Theorem C11_translate_obs_eqb_sound : forall a b, tobs_eqb a b = true -> a = b.
Proof. exact tobs_eqb_eq. Qed.
Print Assumptions C11_translate_obs_eqb_sound.

Theorem C11_translate_model_partial : forall c,
  twf (t_tree c) = true -> tkf c = 0%N -> tspec_ok c (tmodel_obs c) = true.
Proof. exact tspec_ok_model. Qed.
Print Assumptions C11_translate_model_partial.

Theorem C11_translate_F4e_refuted :
  translate (TAlt [TSeq [TElt (TNeg [NInv 4%N]) None]]) = Ok (Neg [NBad])
  /\ translate (TAlt [TSeq [TElt (TNeg []) None]]) = Raised.
Proof. exact translate_f4e_refuted. Qed.
Print Assumptions C11_translate_F4e_refuted.

(* evaluate.evalBGP on  ?x path ?x  (both ends the same variable): the answers are the
   nodes x of the graph with (x, x) in the path's relation *)
Theorem C11_same_variable_partial : forall c, wf_same c -> kf c = 0%N -> spec_ok_same c (model_obs_same c) = true.
Proof. exact spec_ok_same_model. Qed.
Print Assumptions C11_same_variable_partial.

Theorem C11_same_variable_reading : forall c l,
  spec_ok_same c (Ok l) = true <->
  forall x y, In (x, y) l <-> x = y /\ path_rel (c_g c) (c_path c) x x /\ In x (nodes (c_g c)).
Proof. exact spec_ok_same_reading. Qed.
Print Assumptions C11_same_variable_reading.

(* evaluate.evalBGP on a basic graph pattern whose triple patterns have IRI or path
   predicates ([bgp_eval]: patterns in the order given, the bindings made so far - starting
   from the initial bindings - substituted into the ends of the next pattern, AlreadyBound
   skips the solution).  Exact reading for the given order: the solutions are the bindings
   built pattern by pattern from pairs of the pattern's relation restricted by the current
   bindings ([sat]); no path may have an inverse member in a negated set (F4c). *)
Theorem C11_bgp_in_order_partial : forall g ps, Forall okpat ps -> forall b,
  exists l, bgp_eval g (fuel g) b ps = Ok l /\ forall mu, In mu l <-> sat g b ps mu.
Proof. exact bgp_eval_sat. Qed.
Print Assumptions C11_bgp_in_order_partial.

(* every solution extends the initial bindings and satisfies every pattern (join soundness; no hypothesis on the terms) *)
Theorem C11_bgp_join_sound : forall g ps b mu,
  sat g b ps mu -> agree b mu /\ Forall (pat_ok g mu) ps.
Proof. exact sat_sound. Qed.
Print Assumptions C11_bgp_join_sound.

(* The join, for every order of the patterns: when the initial bindings and the constant
   ends are nodes of the graph, evaluating the patterns in ANY order ps' succeeds, every
   solution satisfies every pattern with its section 18.4 relation, and every binding
   over graph nodes that satisfies all patterns is found.  [_partial]: F4c, the node
   hypothesis (see C11_bgp_order_refuted), and solutions are matched up to [agree]. *)
Theorem C11_bgp_with_paths_partial : forall g ps ps' b,
  Permutation ps ps' -> Forall okpat ps -> vals_nodes g b -> Forall (consts_nodes g) ps ->
  exists l, bgp_eval g (fuel g) b ps' = Ok l
    /\ (forall mu, In mu l -> agree b mu /\ Forall (pat_ok g mu) ps)
    /\ (forall mu, agree b mu -> Forall (pat_ok g mu) ps -> vals_nodes g mu ->
          exists mu', In mu' l /\ agree mu' mu).
Proof. exact bgp_with_paths. Qed.
Print Assumptions C11_bgp_with_paths_partial.

(* without the node hypothesis the order matters: a constant outside the graph reaches a
   closure with two variable ends through a zero-length match only if its pattern comes
   first (rdflib's reorderTriples does put it first: replayed, answer x = y = c) *)
Theorem C11_bgp_order_refuted :
  let g : graph := [(1, 3, 2)]%N in
  let p1 : tpat := (EC 12%N, Mul (Iri 4%N) ZeroOrMore, EV 1%N) in
  let p2 : tpat := (EV 1%N, Mul (Iri 3%N) ZeroOrMore, EV 2%N) in
  bgp_eval g (fuel g) [] [p1; p2] = Ok [[(2, 12); (1, 12)]%N]
  /\ bgp_eval g (fuel g) [] [p2; p1] = Ok [].
Proof. exact sat_order_refuted. Qed.
Print Assumptions C11_bgp_order_refuted.

(* non-vacuity: a nested closure over a graph with a 2-cycle, a self-loop and a
   falsy literal end point is inside the scope of the theorems; from a start on
   the cycle it has three answers, and from a start that is not in the graph the
   zero-length pair alone; the former F4b and F4d witnesses now have the right answers *)
Example C11_nonvacuous :
  let g := [(1, 3, 2); (2, 3, 1); (2, 4, 2); (2, 4, 6)]%N in
  let p := Seq [Mul (Alt [Iri 3; Inv (Iri 4)]%N) ZeroOrMore; Mul (Iri 4%N) ZeroOrOne] in
  wfp p = true /\ has_ninv p = false
  /\ seteqb pr_eqb (match eval g (fuel g) p (Some 1%N) None with Ok l => l | _ => [] end)
                   [(1, 1); (1, 2); (1, 6)]%N = true
  /\ eval g (fuel g) p (Some 13%N) None = Ok [(13, 13)]%N
  /\ eval [(1, 3, 2); (2, 3, 1)]%N 5 (Mul (Iri 3%N) ZeroOrMore) (Some 1%N) None = Ok [(1, 1); (1, 2)]%N
  /\ eval [] 1 (Seq [Mul (Iri 3%N) ZeroOrMore; Mul (Iri 4%N) ZeroOrMore; Mul (Iri 3%N) ZeroOrMore])
          None (Some 1%N) = Ok [(1, 1)]%N.
Proof. vm_compute. repeat split; reflexivity. Qed.
