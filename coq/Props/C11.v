(* C11 - Property paths denote the relation SPARQL defines, for every binding of
   the ends.  Property theorems only; proofs are in Paths/{Basics,Eval,Spec,Main}.v.

   [eval g n p s o] is the model of Graph.triples((s, p, o)) for a path p
   (rdflib/paths.py), [path_rel g p] the relation of SPARQL 1.1 section 18.4,
   [ends_ok g s o x y] "restricted to the given start and/or end term" (both ends
   unbound: the pairs range over the nodes of the graph).

   Three findings limit the full statement (each has a [_refuted] witness):
     F4b  p* / p? with a bound end on a cycle yields the zero-length pair twice
     F4c  negated property sets with an inverse member do not follow 18.4
     F4d  a sequence of >= 3 steps that can all match with zero length, evaluated
          backwards from a bound end that is not a node of the graph, misses (y,y)
     F4e  (SPARQL route) translatePath does not translate ^iri inside !(..), and !() raises *)
From RV Require Import Paths.Model Paths.Basics Paths.Eval Paths.Spec Paths.Main.

(* Soundness and completeness for each of the four bound/unbound combinations of
   the ends, every path without an inverse member in a negated set (F4c), and -
   unless the path is free of the F4d pattern - bound ends that occur in the graph.
   The fuel [fuel g] is never exhausted. *)
Theorem C11_sound_complete_partial : forall g p s o,
  wfp p = true -> has_ninv p = false ->
  (has_seq3 p = false \/ (end_nd g s = true /\ end_nd g o = true)) ->
  exists l, eval g (fuel g) p s o = Ok l
            /\ forall x y, In (x, y) l <-> path_rel g p x y /\ ends_ok g s o x y.
Proof. exact sound_complete. Qed.
Print Assumptions C11_sound_complete_partial.

(* the same, spelled out per combination *)
Theorem C11_four_bindings_partial : forall g p a b,
  wfp p = true -> has_ninv p = false -> has_seq3 p = false ->
  (exists l, eval g (fuel g) p (Some a) (Some b) = Ok l
             /\ forall x y, In (x, y) l <-> path_rel g p x y /\ x = a /\ y = b)
  /\ (exists l, eval g (fuel g) p (Some a) None = Ok l
             /\ forall x y, In (x, y) l <-> path_rel g p x y /\ x = a)
  /\ (exists l, eval g (fuel g) p None (Some b) = Ok l
             /\ forall x y, In (x, y) l <-> path_rel g p x y /\ y = b)
  /\ (exists l, eval g (fuel g) p None None = Ok l
             /\ forall x y, In (x, y) l <-> path_rel g p x y /\ In x (nodes g) /\ In y (nodes g)).
Proof.
  intros g p a b Hw Hi Hs.
  split; [exact (sound_complete g p (Some a) (Some b) Hw Hi (or_introl Hs))|].
  split; [exact (sound_complete g p (Some a) None Hw Hi (or_introl Hs))|].
  split; [exact (sound_complete g p None (Some b) Hw Hi (or_introl Hs))|].
  exact (sound_complete g p None None Hw Hi (or_introl Hs)).
Qed.
Print Assumptions C11_four_bindings_partial.

(* Termination on every graph (cycles, self-loops): the depth-first searches
   never run out of the fuel |subject/object occurrences| + 1. *)
Theorem C11_terminates_partial : forall g p s o,
  wfp p = true -> has_ninv p = false ->
  (has_seq3 p = false \/ (end_nd g s = true /\ end_nd g o = true)) ->
  eval g (fuel g) p s o <> OutOfFuel /\ eval g (fuel g) p s o <> Raised.
Proof.
  intros g p s o Hw Hi Hc. destruct (sound_complete g p s o Hw Hi Hc) as (l & Hl & _).
  rewrite Hl. split; discriminate.
Qed.
Print Assumptions C11_terminates_partial.

(* more fuel changes nothing: any n >= fuel g gives a correct answer too *)
Theorem C11_fuel_monotone_partial : forall g n p s o,
  fuel g <= n -> wfp p = true -> has_ninv p = false ->
  (has_seq3 p = false \/ (end_nd g s = true /\ end_nd g o = true)) ->
  exists l, eval g n p s o = Ok l
            /\ forall x y, In (x, y) l <-> path_rel g p x y /\ ends_ok g s o x y.
Proof. intros g n p s o Hn Hw Hi Hc. exact (eval_spec g n Hn p Hw Hi s o Hc). Qed.
Print Assumptions C11_fuel_monotone_partial.

(* The answer of a closure (p*, p+, p?, possibly under ^) has no duplicates,
   unless the zero-length pair of a bound end is found again by the search (F4b). *)
Theorem C11_closure_nodup_partial : forall g p s o l,
  closure_top p = true -> wfp p = true -> has_ninv p = false ->
  (has_seq3 p = false \/ (end_nd g s = true /\ end_nd g o = true)) ->
  dup_trigger g p s o = false ->
  eval g (fuel g) p s o = Ok l -> NoDup l.
Proof. exact dup_free. Qed.
Print Assumptions C11_closure_nodup_partial.

(* A zero-length match on a given term holds even if the term does not occur in
   the graph (no hypothesis on the graph, the inner path or the term). *)
Theorem C11_zero_length : forall g n a m x l,
  mod_zero m = true ->
  (eval g n (Mul a m) (Some x) None = Ok l \/ eval g n (Mul a m) None (Some x) = Ok l
   \/ eval g n (Mul a m) (Some x) (Some x) = Ok l) ->
  In (x, x) l.
Proof. exact zero_length. Qed.
Print Assumptions C11_zero_length.

(* The relation itself: zero-length matches relate every term to itself, and a
   related pair is such a match or consists of nodes of the graph. *)
Theorem C11_relation_nodes : forall g p x y,
  path_rel g p x y -> x = y \/ (In x (nodes g) /\ In y (nodes g)).
Proof. exact path_rel_RN. Qed.
Print Assumptions C11_relation_nodes.

(* What the correspondence check evaluates: reading of the checker ... *)
Theorem C11_spec_ok_reading : forall c l,
  spec_ok c (Ok l) = true <->
  (forall x y, In (x, y) l <-> path_rel (c_g c) (c_path c) x y /\ ends_ok (c_g c) (c_s c) (c_o c) x y)
  /\ (closure_top (c_path c) = true -> NoDup l).
Proof. exact spec_ok_reading. Qed.
Print Assumptions C11_spec_ok_reading.

Theorem C11_spec_ok_rejects_failures : forall c,
  spec_ok c OutOfFuel = false /\ spec_ok c Raised = false.
Proof. exact spec_ok_not_ok. Qed.
Print Assumptions C11_spec_ok_rejects_failures.

(* ... the computed relation is the specification relation (Warshall closure) ... *)
Theorem C11_expected_is_relation : forall g p s o x y,
  In (x, y) (expected g p s o) <-> path_rel g p x y /\ ends_ok g s o x y.
Proof. exact expected_spec. Qed.
Print Assumptions C11_expected_is_relation.

(* ... and the model satisfies it on every case outside the findings' triggers. *)
Theorem C11_spec_ok_model_partial : forall c, wf c -> kf c = 0%N -> spec_ok c (model_obs c) = true.
Proof. exact spec_ok_model. Qed.
Print Assumptions C11_spec_ok_model_partial.

(* The full statement "forall c, wf c -> spec_ok c (model_obs c) = true" is false:
   one witness per finding, each replayed on rdflib (corpus/C11). *)
Theorem C11_F4b_refuted : exists c, wf c /\ kf c = 1%N /\ spec_ok c (model_obs c) = false
  /\ model_obs c = Ok [(1, 1); (1, 2); (1, 1)]%N.
Proof.
  exists {| c_g := [(1, 3, 2); (2, 3, 1)]%N; c_path := Mul (Iri 3%N) ZeroOrMore;
            c_s := Some 1%N; c_o := None; c_sparql := false |}.
  repeat split; vm_compute; reflexivity.
Qed.
Print Assumptions C11_F4b_refuted.

Theorem C11_F4c_refuted : exists c, wf c /\ kf c = 2%N /\ spec_ok c (model_obs c) = false
  /\ model_obs c = Ok [(1, 2)]%N /\ expected (c_g c) (c_path c) (c_s c) (c_o c) = [(2, 1)]%N.
Proof.
  exists {| c_g := [(1, 3, 2)]%N; c_path := Neg [NInv 4%N];
            c_s := None; c_o := None; c_sparql := false |}.
  repeat split; vm_compute; reflexivity.
Qed.
Print Assumptions C11_F4c_refuted.

Theorem C11_F4d_refuted : exists c, wf c /\ kf c = 3%N /\ spec_ok c (model_obs c) = false
  /\ model_obs c = Ok [] /\ expected (c_g c) (c_path c) (c_s c) (c_o c) = [(1, 1)]%N.
Proof.
  exists {| c_g := []; c_path := Seq [Mul (Iri 3%N) ZeroOrMore; Mul (Iri 4%N) ZeroOrMore; Mul (Iri 3%N) ZeroOrMore];
            c_s := None; c_o := Some 1%N; c_sparql := false |}.
  repeat split; vm_compute; reflexivity.
Qed.
Print Assumptions C11_F4d_refuted.

Theorem C11_F4e_refuted : exists c, wf c /\ kf c = 4%N /\ model_obs c = Raised.
Proof.
  exists {| c_g := [(1, 3, 2)]%N; c_path := Neg [NInv 4%N];
            c_s := None; c_o := None; c_sparql := true |}.
  repeat split; vm_compute; reflexivity.
Qed.
Print Assumptions C11_F4e_refuted.

(* Histories on one Graph object (evaluations interleaved with additions and
   removals): outside the triggers every evaluation of the model is accepted by
   the checker against the graph content at that moment ... *)
Theorem C11_history_model_partial : forall c,
  h_wf (h_steps c) = true -> hkf c = 0%N -> hspec_ok c (hmodel_obs c) = true.
Proof. intros c. apply h_spec_model. Qed.
Print Assumptions C11_history_model_partial.

(* ... and an accepted history answers each evaluation from the graph as it is
   after the mutations that precede it (no stale answers). *)
Theorem C11_history_reading : forall steps g os,
  h_spec g steps os = true ->
  forall pre p s o sp post, steps = pre ++ HEval p s o sp :: post ->
  let g' := fold_left (fun g st => match st with HAdd t => g_add t g | HDel t => g_del t g | _ => g end) pre g in
  exists ob, spec_ok (hc g' p s o sp) ob = true /\ In ob os.
Proof. exact h_spec_reading. Qed.
Print Assumptions C11_history_reading.

(* non-vacuity: a nested closure over a graph with a 2-cycle, a self-loop and a
   falsy literal end point is inside the scope of the theorems, and its answer
   from a start that is not in the graph is the zero-length pair alone *)
Example C11_nonvacuous :
  let g := [(1, 3, 2); (2, 3, 1); (2, 4, 2); (2, 4, 6)]%N in
  let p := Seq [Mul (Alt [Iri 3; Inv (Iri 4)]%N) ZeroOrMore; Mul (Iri 4%N) ZeroOrOne] in
  wfp p = true /\ has_ninv p = false /\ has_seq3 p = false
  /\ obs_eqb (eval g (fuel g) p (Some 1%N) None) (Ok [(1, 1); (1, 2); (1, 6)]%N) = false
  /\ seteqb pr_eqb (match eval g (fuel g) p (Some 1%N) None with Ok l => l | _ => [] end)
                   [(1, 1); (1, 2); (1, 6)]%N = true
  /\ eval g (fuel g) p (Some 13%N) None = Ok [(13, 13)]%N.
Proof. vm_compute. repeat split; reflexivity. Qed.
