(* C11 - property paths (placeholder while the proofs are being written) *)
From RV Require Import Paths.Model.

Theorem C11_zero_length_pre : forall x, mul_pre true (Some x) None = [(x, x)].
Proof. reflexivity. Qed.
Print Assumptions C11_zero_length_pre.
