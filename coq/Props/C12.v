(* C12 - Parsing only adds, and blank nodes of separate documents never merge.
   Property theorems only; definitions are in Parse/Model.v, proofs in Parse/Proofs.v.

   Vocabulary (Parse/Model.v): a document is a list of statements over constants and
   blank-node LABELS; [parse_call fr e0 st d] is what one parse call does to the quad set [st]
   of the store and to the label dict [e0] it works on ([] for Graph.parse, the long-lived dict
   of a re-used parser object or of the caller's bnode_context= otherwise), [fr] being the
   supply of new blank-node ids of that call (BNode() = uuid4); [run fresh 0 [] init ds] lists
   (raised?, store content) after each call;
   [rdf_merge known prev tgt stmts now]: [now] is [prev] plus the statements under ONE injective
   map from the document's labels to nodes: the known node for a label the caller fixed
   (shared dict, preserve_bnode_ids), otherwise a blank node that occurs nowhere in [prev];
   [supply_ok fresh]: the supply never repeats and stays clear of ids in use. *)
From RV Require Import Parse.Model Parse.Proofs Parse.General Parse.Machines Parse.MachineProofs Parse.MachineRefine Parse.SupplyIndep Parse.SupplyIndepU.

(* The tie between model and checker: on every well-formed case on which no known-finding
   trigger fires, the specification checker accepts what the model computes.  [wf] is the shape
   of the suite's cases: every label carries a tag triple (only so that the harness and the
   checker can tell which node a label became without comparing ids) and a document has at most
   LB = 16 labels (the executable supply).  Neither restriction is in C12_merge /
   C12_labels_scoped / C12_same_doc_iso below. *)
Theorem C12_spec_ok_model : forall c, wf c -> kf c = 0%N -> spec_ok c (model_obs c) = true.
Proof. exact spec_ok_model. Qed.
Print Assumptions C12_spec_ok_model.

(* What the boolean checker means, for ANY observation sequence (in particular the
   implementation's): every call only added, and each new content is the RDF merge of the
   previous content and the document. *)
Theorem C12_checker_reading : forall c obs,
  spec_ok c obs = true -> merges [] (c_init c) 0 (c_docs c) obs.
Proof. intros c obs. apply spec_run_sound. Qed.
Print Assumptions C12_checker_reading.

Theorem C12_checker_step_reading : forall known prev now j d,
  merge_ok known prev now j d = true ->
  incl prev now /\ rdf_merge known prev (d_target d) (d_stmts d) now.
Proof. exact merge_ok_sound. Qed.
Print Assumptions C12_checker_step_reading.

(* ... and the checker is complete on tagged documents: an RDF merge of a store that holds no
   tag triple of call j with a well-formed document of call j is accepted. *)
Theorem C12_checker_step_complete : forall known prev now j d g,
  (forall q, In q now <-> In q prev \/ In q (map (sub_stmt g (d_target d)) (d_stmts d))) ->
  doc_ok j d = true ->
  (forall q, In q prev -> q_p q = TAGP -> forall l, (l < LB)%N -> q_o q <> tag j l) ->
  (forall l l', In l (labels_of (d_stmts d)) -> In l' (labels_of (d_stmts d)) -> g l = g l' -> l = l') ->
  (forall l, In l (labels_of (d_stmts d)) ->
     match env_get known l with
     | Some n => g l = n
     | None => is_bnode (g l) = true /\ occurs_in (g l) prev = false
     end) ->
  merge_ok known prev now j d = true.
Proof. exact merge_ok_intro. Qed.
Print Assumptions C12_checker_step_complete.

(* Parsing only adds - IN THE MODEL, and there by construction: [parse_call] is a fold of [q_add]
   over the statements, the syntax enters only through the label discipline.  This theorem says
   that the model has no other effect on the store; that the real parsers only ever call add is
   not proved here, it is what the correspondence suites observe on every run (finding F12 - two
   parsers emptying the default graph - was found that way and the historical model
   [parse_call_prefix] below records it). *)
Theorem C12_only_adds : forall fr e0 st d, incl st (snd (parse_call fr e0 st d)).
Proof. exact parse_call_incl. Qed.
Print Assumptions C12_only_adds.

(* ... hence over a whole sequence of calls, without any side condition *)
Theorem C12_only_adds_run : forall fresh ds j es st o,
  In o (run fresh j es st ds) -> incl st (snd o).
Proof. exact run_incl. Qed.
Print Assumptions C12_only_adds_run.

(* One call is one substitution: whatever the discipline, a label denotes ONE node in all
   statements and all named graphs of the document. *)
Theorem C12_one_node_per_label : forall fr e0 st d q,
  In q (snd (parse_call fr e0 st d)) <->
  In q st \/ In q (map (sub_stmt (node_fn fr (call_disc d) e0) (d_target d)) (d_stmts d)).
Proof. exact parse_call_In. Qed.
Print Assumptions C12_one_node_per_label.

(* The result of a sequence of parse calls is, call by call, the RDF merge of the old content and
   the document.  No bound on the number of labels, no tag triples: [doc_wf] asks only that
   constants are constants and that a label KEPT by the parser is numbered below 100 (the range this
   development reserves for BNode(label)); the supply is any injective function into even ids
   >= 1000 (the ids no constant and no kept label uses) - hypotheses, as uuid4 is. *)
Theorem C12_merge : forall fresh : N -> N -> N,
  (forall j l j' l', fresh j l = fresh j' l' -> j = j' /\ l = l') ->
  (forall j l, (1000 <= fresh j l)%N /\ N.even (fresh j l) = true) ->
  forall init ds,
  init_wf init = true -> forallb doc_wf ds = true ->
  kf_run fresh 0 [] init ds = 0%N ->
  merges_run fresh 0 [] init ds.
Proof.
  intros fresh Hi Hr init ds Hq Hd Hk. apply gen_run_merges; auto.
  - now apply GI_init.
  - apply GEs_nil.
Qed.
Print Assumptions C12_merge.

(* Labels are scoped to the call (calls that share no dict with their caller): the node a call
   makes for a label was made by no earlier call ([used]) and occurs nowhere in the previous
   content; within the call the map from labels to nodes is one injective function. *)
Theorem C12_labels_scoped : forall fresh : N -> N -> N,
  (forall j l j' l', fresh j l = fresh j' l' -> j = j' /\ l = l') ->
  (forall j l, (1000 <= fresh j l)%N /\ N.even (fresh j l) = true) ->
  forall init ds,
  init_wf init = true -> forallb doc_wf ds = true -> forallb private ds = true ->
  kf_run fresh 0 [] init ds = 0%N ->
  scoped_run fresh 0 [] init ds.
Proof.
  intros fresh Hi Hr init ds Hq Hd Hp Hk. apply gen_run_scoped; auto.
  now apply GI_init.
Qed.
Print Assumptions C12_labels_scoped.

(* the hypotheses on the supply are satisfiable without any bound (a pairing function) *)
Theorem C12_unbounded_supply_exists :
  (forall j l j' l', pair_fresh j l = pair_fresh j' l' -> j = j' /\ l = l') /\
  (forall j l, (1000 <= pair_fresh j l)%N /\ N.even (pair_fresh j l) = true).
Proof. exact pair_fresh_ok. Qed.
Print Assumptions C12_unbounded_supply_exists.

(* Parsing the same document into two EMPTY stores - "two fresh graphs", as the property says -
   with two different supplies gives isomorphic stores: the bijection is exhibited ([renaming] of
   Parse/Proofs.v).  Any number of labels. *)
Theorem C12_same_doc_iso : forall (fr1 fr2 : N -> N) d,
  (forall l l', fr1 l = fr1 l' -> l = l') ->
  (forall l l', fr2 l = fr2 l' -> l = l') ->
  (forall l, (1000 <= fr1 l)%N /\ N.even (fr1 l) = true) ->
  (forall l, (1000 <= fr2 l)%N /\ N.even (fr2 l) = true) ->
  doc_wf d = true ->
  exists h, iso_by h (snd (parse_call fr1 [] [] d)) (snd (parse_call fr2 [] [] d)).
Proof. exact gen_same_doc_iso. Qed.
Print Assumptions C12_same_doc_iso.

(* The same three statements for the documents of the correspondence suite, phrased over what the
   CHECKER learns from observations (tag triples; at most LB = 16 labels per document because the
   executable supply [std_fresh j l = 1000 + 2 (16 j + l)] is injective only there): this is the
   chain  model run -> accepted by the checker -> Prop-level reading  that ties the suite. *)
Theorem C12_merge_suite_documents : forall fresh init ds,
  supply_ok fresh -> forallb quad_small init = true -> docs_ok 0 ds = true ->
  kf_run fresh 0 [] init ds = 0%N ->
  merges [] init 0 ds (run fresh 0 [] init ds).
Proof. exact run_merges. Qed.
Print Assumptions C12_merge_suite_documents.

Theorem C12_labels_scoped_suite_documents : forall fresh init ds,
  supply_ok fresh -> forallb quad_small init = true -> docs_ok 0 ds = true ->
  forallb private ds = true ->
  kf_run fresh 0 [] init ds = 0%N ->
  scoped [] init ds (run fresh 0 [] init ds).
Proof. exact run_scoped. Qed.
Print Assumptions C12_labels_scoped_suite_documents.

(* Finding F9: with the identity discipline (JSON-LD, HexTuples; the repository's own tests
   pin label preservation for both) the statement fails - two documents that use the same
   label share the node. *)
Theorem C12_labels_scoped_refuted :
  exists c, wf c /\ kf c = 1%N /\ spec_ok c (model_obs c) = false /\
    exists n, q_mem ((n, TAGP, tag 0 0), 0%N) (final (model_obs c)) = true
           /\ q_mem ((n, TAGP, tag 1 0), 1%N) (final (model_obs c)) = true.
Proof. exists w_f9. exact f9_witness. Qed.
Print Assumptions C12_labels_scoped_refuted.

(* The TriX half of F9 is FIXED (commit 3d9dc36a): TriX is a [Fresh] parser now, covered by
   C12_merge / C12_labels_scoped; the old TriX witness (label = id of an existing node) and a
   label shared by two TriX calls are in scope and accepted. *)
Theorem C12_trix_witness_now_passes :
  wf w_f9_trix /\ kf w_f9_trix = 0%N /\ spec_ok w_f9_trix (model_obs w_f9_trix) = true.
Proof. exact f9_trix_fixed. Qed.
Print Assumptions C12_trix_witness_now_passes.

Theorem C12_trix_is_fresh : disc_of TRIX = Fresh.
Proof. reflexivity. Qed.
Print Assumptions C12_trix_is_fresh.

(* Finding F12 (FIXED by commit 57c67bab): the code as it was before the repair
   ([parse_call_prefix]: N-Quads / HexTuples emptied <urn:x-rdflib:default>) lost a quad that
   the repaired code keeps; the old witness is now in scope of the theorem and accepted. *)
Theorem C12_prefix_only_adds_refuted :
  exists fr st d q, In q st /\ ~ In q (snd (parse_call_prefix fr [] st d)) /\ In q (snd (parse_call fr [] st d)).
Proof. exact f12_prefix_witness. Qed.
Print Assumptions C12_prefix_only_adds_refuted.

Theorem C12_f12_witness_now_passes :
  wf w_f12 /\ kf w_f12 = 0%N /\ spec_ok w_f12 (model_obs w_f12) = true.
Proof. exact f12_fixed. Qed.
Print Assumptions C12_f12_witness_now_passes.

(* the supply of the executable model satisfies the suite-level hypotheses - for labels below
   LB = 16 only ([supply_ok] carries that bound; it belongs to this instance, not to C12_merge) *)
Theorem C12_std_supply_ok : supply_ok std_fresh.
Proof. exact std_supply_ok. Qed.
Print Assumptions C12_std_supply_ok.

(* ================= round 3: dicts that outlive a call, failing calls, the same document twice ====== *)

(* The label dict a call leaves behind (the parser object's _bnode_ids, or the caller's
   bnode_context): what it had, plus label |-> new node for the labels of the document. *)
Theorem C12_dict_after_call : forall fr e0 st d l,
  env_get (fst (parse_call fr e0 st d)) l =
  match call_disc d with
  | Identity => env_get e0 l
  | Fresh => match env_get e0 l with
             | Some n => Some n
             | None => if memb N.eqb l (labels_of (d_stmts d)) then Some (fr l) else None
             end
  end.
Proof. exact parse_call_env. Qed.
Print Assumptions C12_dict_after_call.

(* Failure atomicity, as far as it holds: a call that raises after k statements ([cut k d]; the
   parsers stream into the graph) keeps everything that was there, and what it added is part of
   what the complete document would have added, under the same label map - there is no
   rollback, and nothing else. *)
Theorem C12_failure_atomicity : forall fr e0 st d k,
  incl st (snd (parse_call fr e0 st (cut k d))) /\
  incl (snd (parse_call fr e0 st (cut k d))) (snd (parse_call fr e0 st d)).
Proof. exact failure_atomicity. Qed.
Print Assumptions C12_failure_atomicity.

Theorem C12_failed_call_content : forall fr e0 st d k q,
  In q (snd (parse_call fr e0 st (cut k d))) <->
  In q st \/ In q (map (sub_stmt (node_fn fr (call_disc d) e0) (d_target d)) (firstn k (d_stmts d))).
Proof. exact cut_In. Qed.
Print Assumptions C12_failed_call_content.

Theorem C12_failed_call_dict : forall fr e0 st d k l n,
  env_get (fst (parse_call fr e0 st (cut k d))) l = Some n ->
  env_get e0 l = Some n \/
  (env_get e0 l = None /\ n = fr l /\ In l (labels_of (firstn k (d_stmts d)))).
Proof. exact cut_env. Qed.
Print Assumptions C12_failed_call_dict.

(* The same document twice - into one graph, or into two graphs of one dataset ([retarget]) -
   gives two copies whose blank nodes are disjoint. *)
Theorem C12_same_doc_twice : forall fresh j1 j2 st d t2,
  supply_ok fresh -> j1 <> j2 -> call_disc d = Fresh ->
  let st1 := snd (parse_call (fresh j1) [] st d) in
  let st2 := snd (parse_call (fresh j2) [] st1 (retarget t2 d)) in
  (forall q, In q st2 <->
     In q st \/ In q (map (sub_stmt (fresh j1) (d_target d)) (d_stmts d))
             \/ In q (map (sub_stmt (fresh j2) t2) (d_stmts d))) /\
  (forall l l', (l < LB)%N -> (l' < LB)%N -> fresh j1 l <> fresh j2 l').
Proof. exact same_doc_twice. Qed.
Print Assumptions C12_same_doc_twice.

(* ================= round 3: the parsers' tables as state machines with an explicit supply ========= *)
(* Parse/Machines.v: uuid4 draws are counted process-wide; AUuid (N-Triples, N-Quads, RDF/XML, TriX)
   draws one per table miss, ASink (Turtle, TriG) one per parse call plus a per-call counter, AKeep
   (HexTuples, JSON-LD, preserve_bnode_ids) none.  [nid uuid counter] is the id; distinct pairs give
   distinct ids (hypothesis).  [OldE B e0]: the table the call starts with is injective and holds
   ids drawn before the B-th uuid4. *)

(* One call of any machine: equal labels give one node in all statements and graphs; the table
   keeps what it had; different labels have different nodes; a label the table did not have gets an
   id never drawn before the call. *)
Theorem C12_machine_call : forall nid : N -> N -> N,
  (forall s c s' c', nid s c = nid s' c' -> s = s' /\ c = c') ->
  forall a B e0 tgt st stmts m' st',
  OldE nid B e0 ->
  m_stmts nid a tgt (m_open a e0 B) st stmts = (m', st') ->
  (forall q, In q st' <-> In q st \/ In q (map (sub_stmt (m_node a m') tgt) stmts)) /\
  (forall l n, env_get e0 l = Some n -> env_get (m_env m') l = Some n) /\
  env_inj (m_env m') /\
  (forall l n, env_get (m_env m') l = Some n -> env_get e0 l = None ->
     ~ drawn_before nid B n /\ drawn_before nid (m_next m') n) /\
  (B <= m_next m')%N.
Proof. exact machine_call. Qed.
Print Assumptions C12_machine_call.

(* Across calls - any mix of syntaxes, parser objects re-used or not, dicts shared or not: the
   node a call makes for a label its table did not have occurs nowhere in the store as it was and
   in no long-lived dict; the invariant [GInv] (every made node in the store or in a dict was
   drawn before now) is kept, so this holds for every call of every sequence. *)
Theorem C12_machine_step : forall nid : N -> N -> N,
  (forall s c s' c', nid s c = nid s' c' -> s = s' /\ c = c') ->
  (forall s c, (1000 <= nid s c)%N /\ N.even (nid s c) = true) ->
  forall g d j,
  GInv nid g -> doc_ok j d = true ->
  let a := alloc_of d in
  let e0 := start_env (g_envs g) d in
  let g' := m_call nid g d in
  exists m',
    (forall q, In q (g_store g') <->
       In q (g_store g) \/ In q (map (sub_stmt (m_node a m') (d_target d)) (d_stmts d))) /\
    (forall l n, env_get (m_env m') l = Some n -> env_get e0 l = None ->
       (forall q, In q (g_store g) -> occurs n q = false) /\
       (forall k l', env_get (envs_get (g_envs g) k) l' <> Some n)) /\
    env_inj (m_env m') /\ GInv nid g'.
Proof. exact machine_step. Qed.
Print Assumptions C12_machine_step.

Theorem C12_machine_run : forall nid : N -> N -> N,
  (forall s c s' c', nid s c = nid s' c' -> s = s' /\ c = c') ->
  (forall s c, (1000 <= nid s c)%N /\ N.even (nid s c) = true) ->
  forall ds j init next,
  forallb quad_small init = true -> docs_ok j ds = true ->
  Forall (GInv nid) (m_run nid {| g_store := init; g_next := next; g_envs := [] |} ds).
Proof.
  intros nid Hi Hr ds j init next Hq Hd. apply (machine_run nid Hi Hr ds j); auto.
  now apply GInv_init.
Qed.
Print Assumptions C12_machine_run.

(* the hypotheses on the id function are satisfiable (the instance the "machines" suite runs) *)
Theorem C12_std_nid_ok :
  (forall s c s' c', std_nid s c = std_nid s' c' -> s = s' /\ c = c') /\
  (forall s c, (1000 <= std_nid s c)%N /\ N.even (std_nid s c) = true).
Proof. exact std_nid_ok. Qed.
Print Assumptions C12_std_nid_ok.

(* ================= round 5: the two model layers agree - by theorem ================================= *)
(* The state machines (uuid4 draw counter, N3 sink counter, label-keeping parsers) refine the abstract
   model: take as abstract supply of a call the function [m_supply (m_final g d)] read off the
   machine's table when the call ends - label |-> [nid k 0] (k = number of the uuid4 draw, AUuid) or
   [nid sid c] (sid = the sink's draw, c = the per-call counter, ASink); AKeep calls use no supply.
   Then the abstract call IS the machine's call: same store list, same long-lived dicts - for all
   three machine kinds and every kind of call (fresh dict, the caller's bnode_context dict, a
   long-lived parser object, preserve_bnode_ids, a document cut off by an error: [d] is arbitrary). *)
Theorem C12_machines_refine_abstract_call : forall nid g d,
  call_step (m_supply (m_final nid g d)) (g_envs g) (g_store g) d
  = (g_envs (m_call nid g d), g_store (m_call nid g d)).
Proof. exact refine_call. Qed.
Print Assumptions C12_machines_refine_abstract_call.

(* lifted over every sequence of calls, as an invariant ... *)
Theorem C12_machines_refine_abstract : forall nid ds g, refines nid g ds.
Proof. exact refine_run. Qed.
Print Assumptions C12_machines_refine_abstract.

(* ... and as one equation: the abstract [run] of Parse/Model.v with the supply
   [call number -> label -> node] that the machine's draws define gives exactly the machine's
   (raised?, store content) sequence. *)
Theorem C12_machines_refine_abstract_run : forall nid ds g,
  run (fresh_of (m_supplies nid g ds)) 0 (g_envs g) (g_store g) ds = m_obs nid g ds.
Proof. exact refine_run_obs. Qed.
Print Assumptions C12_machines_refine_abstract_run.

(* ================= round 5b: the run does not depend on the supply ================================= *)
(* Two supplies that never repeat and stay clear of constants and kept labels give, over the same
   sequence of calls - shared bnode_context dicts, long-lived parser objects, preserve_bnode_ids,
   failing calls, kept labels, any syntax; no condition on known-finding triggers - runs that are
   related call by call by ONE correspondence of nodes, fixed for the whole sequence:
   [node_rel fresh1 fresh2] relates a constant or kept label to itself and the node supply 1 made
   for (call j, label l) to the node supply 2 made for (call j, label l).  The stores are related
   quad by quad in the same order, the raised flags are equal; the long-lived dicts are related
   entry by entry all along (invariant of the proof, [call_step_rel]). *)
Theorem C12_run_supply_independent : forall fresh1 fresh2 : N -> N -> N,
  (forall j l j' l', fresh1 j l = fresh1 j' l' -> j = j' /\ l = l') ->
  (forall j l j' l', fresh2 j l = fresh2 j' l' -> j = j' /\ l = l') ->
  (forall j l, (1000 <= fresh1 j l)%N /\ N.even (fresh1 j l) = true) ->
  (forall j l, (1000 <= fresh2 j l)%N /\ N.even (fresh2 j l) = true) ->
  forall init ds, init_wf init = true -> forallb doc_wf ds = true ->
  obs_rel (node_rel fresh1 fresh2) (run fresh1 0 [] init ds) (run fresh2 0 [] init ds).
Proof.
  intros f1 f2 I1 I2 R1 R2 init ds Hi Hd. apply run_rel; auto.
  - constructor.
  - now apply init_rel.
Qed.
Print Assumptions C12_run_supply_independent.

(* the correspondence is a bijection between the nodes of the two runs (functional and injective),
   and the identity on constants and kept labels *)
Theorem C12_node_correspondence_bijective : forall fresh1 fresh2 : N -> N -> N,
  (forall j l j' l', fresh1 j l = fresh1 j' l' -> j = j' /\ l = l') ->
  (forall j l j' l', fresh2 j l = fresh2 j' l' -> j = j' /\ l = l') ->
  (forall j l, (1000 <= fresh1 j l)%N /\ N.even (fresh1 j l) = true) ->
  (forall j l, (1000 <= fresh2 j l)%N /\ N.even (fresh2 j l) = true) ->
  (forall n a b, node_rel fresh1 fresh2 n a -> node_rel fresh1 fresh2 n b -> a = b) /\
  (forall a b n, node_rel fresh1 fresh2 a n -> node_rel fresh1 fresh2 b n -> a = b) /\
  (forall n, stable_b n = true -> node_rel fresh1 fresh2 n n) /\
  (forall j l, node_rel fresh1 fresh2 (fresh1 j l) (fresh2 j l)).
Proof.
  intros f1 f2 I1 I2 R1 R2. repeat split.
  - apply rel_fun; auto.
  - apply rel_inj; auto.
  - intros n H. left; auto.
  - intros j l. right; eauto.
Qed.
Print Assumptions C12_node_correspondence_bijective.

(* The same, relative to a set U of (call, label) pairs that contains every label of every document
   ([covers]) and on which alone the supplies need to be injective and clear of constants. *)
Theorem C12_run_supply_independent_on : forall (U : N -> N -> Prop) (fresh1 fresh2 : N -> N -> N),
  (forall j l j' l', U j l -> U j' l' -> fresh1 j l = fresh1 j' l' -> j = j' /\ l = l') ->
  (forall j l j' l', U j l -> U j' l' -> fresh2 j l = fresh2 j' l' -> j = j' /\ l = l') ->
  (forall j l, U j l -> (1000 <= fresh1 j l)%N /\ N.even (fresh1 j l) = true) ->
  (forall j l, U j l -> (1000 <= fresh2 j l)%N /\ N.even (fresh2 j l) = true) ->
  forall init ds, init_wf init = true -> forallb doc_wf ds = true -> covers U 0 ds ->
  obs_rel (node_rel_on U fresh1 fresh2) (run fresh1 0 [] init ds) (run fresh2 0 [] init ds).
Proof.
  intros U f1 f2 I1 I2 R1 R2 init ds Hi Hd Hc. apply (OnU.run_rel U f1 f2); auto.
  - constructor.
  - now apply OnU.init_rel.
Qed.
Print Assumptions C12_run_supply_independent_on.

(* Instance: the run the correspondence suite evaluates (supply [std_fresh], injective for labels
   below LB = 16 only) is related in this way to the run under ANY supply that never repeats -
   so what C12_merge / C12_labels_scoped say of the latter is, node for node, what the suite
   compares with rdflib, for documents whose labels are below LB. *)
Theorem C12_suite_run_supply_independent : forall fresh2 : N -> N -> N,
  (forall j l j' l', fresh2 j l = fresh2 j' l' -> j = j' /\ l = l') ->
  (forall j l, (1000 <= fresh2 j l)%N /\ N.even (fresh2 j l) = true) ->
  forall init ds, init_wf init = true -> forallb doc_wf ds = true ->
  covers (fun _ l => (l < LB)%N) 0 ds ->
  obs_rel (node_rel_on (fun _ l => (l < LB)%N) std_fresh fresh2)
          (run std_fresh 0 [] init ds) (run fresh2 0 [] init ds).
Proof.
  intros f2 I2 R2 init ds Hi Hd Hc.
  apply C12_run_supply_independent_on; auto.
  - intros j l j' l' H H'. now apply std_fresh_inj.
  - intros j l _. apply std_fresh_range.
Qed.
Print Assumptions C12_suite_run_supply_independent.

Example C12_nonvacuous :
  wf w_ok /\ kf w_ok = 0%N /\ length (model_obs w_ok) = 3%nat /\ spec_ok w_ok (model_obs w_ok) = true.
Proof. exact w_ok_nonvacuous. Qed.
