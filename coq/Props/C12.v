(* C12 - Parsing only adds, and blank nodes of separate documents never merge.
   Property theorems only; definitions are in Parse/Model.v, proofs in Parse/Proofs.v.

   Vocabulary (Parse/Model.v): a document is a list of statements over constants and
   blank-node LABELS; [parse_call fr st d] is what one Graph.parse / Dataset.parse call does
   to the quad set [st] of the store, [fr] being the supply of new blank-node ids of that
   call (BNode() = uuid4); [run fresh 0 init ds] lists the store contents after each call;
   [rdf_merge prev tgt stmts now]: [now] is [prev] plus the statements under ONE injective
   map from the document's labels to blank nodes that occur nowhere in [prev];
   [supply_ok fresh]: the supply never repeats and stays clear of ids in use. *)
From RV Require Import Parse.Model Parse.Proofs.

(* The tie between model and checker: on every well-formed case on which no known-finding
   trigger fires, the specification checker accepts what the model computes. *)
Theorem C12_spec_ok_model : forall c, wf c -> kf c = 0%N -> spec_ok c (model_obs c) = true.
Proof. exact spec_ok_model. Qed.
Print Assumptions C12_spec_ok_model.

(* What the boolean checker means, for ANY observation sequence (in particular the
   implementation's): every call only added, and each new content is the RDF merge of the
   previous content and the document. *)
Theorem C12_checker_reading : forall c obs,
  spec_ok c obs = true -> merges (c_init c) (c_docs c) obs.
Proof. intros c obs. apply spec_run_sound. Qed.
Print Assumptions C12_checker_reading.

Theorem C12_checker_step_reading : forall prev now j d,
  merge_ok prev now j d = true ->
  incl prev now /\ rdf_merge prev (d_target d) (d_stmts d) now.
Proof. exact merge_ok_sound. Qed.
Print Assumptions C12_checker_step_reading.

(* ... and the checker is complete on tagged documents: an RDF merge of a store that holds no
   tag triple of call j with a well-formed document of call j is accepted. *)
Theorem C12_checker_step_complete : forall prev now j d g,
  (forall q, In q now <-> In q prev \/ In q (map (sub_stmt g (d_target d)) (d_stmts d))) ->
  doc_ok j d = true ->
  (forall q, In q prev -> q_p q = TAGP -> forall l, (l < LB)%N -> q_o q <> tag j l) ->
  (forall l l', In l (labels_of (d_stmts d)) -> In l' (labels_of (d_stmts d)) -> g l = g l' -> l = l') ->
  (forall l, In l (labels_of (d_stmts d)) -> is_bnode (g l) = true /\ occurs_in (g l) prev = false) ->
  merge_ok prev now j d = true.
Proof. exact merge_ok_intro. Qed.
Print Assumptions C12_checker_step_complete.

(* Parsing only adds: no quad of any graph is lost or changed by a parse call - for every
   syntax, every label discipline and every supply. *)
Theorem C12_only_adds : forall fr st d, incl st (parse_call fr st d).
Proof. exact parse_call_incl. Qed.
Print Assumptions C12_only_adds.

(* ... hence over a whole sequence of calls, without any side condition *)
Theorem C12_only_adds_run : forall fresh ds j st now,
  In now (run fresh j st ds) -> incl st now.
Proof. exact run_incl. Qed.
Print Assumptions C12_only_adds_run.

(* One call is one substitution: whatever the discipline, a label denotes ONE node in all
   statements and all named graphs of the document. *)
Theorem C12_one_node_per_label : forall fr st d q,
  In q (parse_call fr st d) <->
  In q st \/ In q (map (sub_stmt (node_fn fr (disc_of (d_fmt d))) (d_target d)) (d_stmts d)).
Proof. exact parse_call_In. Qed.
Print Assumptions C12_one_node_per_label.

(* The result of a sequence of parse calls is, call by call, the RDF merge of the old
   content and the document (any supply that never repeats). *)
Theorem C12_merge : forall fresh init ds,
  supply_ok fresh -> forallb quad_small init = true -> docs_ok 0 ds = true ->
  kf_run fresh 0 init ds = 0%N ->
  merges init ds (run fresh 0 init ds).
Proof. exact run_merges. Qed.
Print Assumptions C12_merge.

(* Labels are scoped to the call: the node a call makes for a label was made by no earlier
   call ([used]) and occurs nowhere in the previous content; within the call the map from
   labels to nodes is one injective function. *)
Theorem C12_labels_scoped : forall fresh init ds,
  supply_ok fresh -> forallb quad_small init = true -> docs_ok 0 ds = true ->
  kf_run fresh 0 init ds = 0%N ->
  scoped [] init ds (run fresh 0 init ds).
Proof. exact run_scoped. Qed.
Print Assumptions C12_labels_scoped.

(* Parsing the same document into two empty stores (two different supplies) gives
   isomorphic stores: the bijection is exhibited ([renaming] of Parse/Proofs.v). *)
Theorem C12_same_doc_iso : forall (fr1 fr2 : N -> N) j d,
  (forall l l', (l < LB)%N -> (l' < LB)%N -> fr1 l = fr1 l' -> l = l') ->
  (forall l l', (l < LB)%N -> (l' < LB)%N -> fr2 l = fr2 l' -> l = l') ->
  (forall l, (1000 <= fr1 l)%N /\ N.even (fr1 l) = true) ->
  (forall l, (1000 <= fr2 l)%N /\ N.even (fr2 l) = true) ->
  doc_ok j d = true ->
  exists h, iso_by h (parse_call fr1 [] d) (parse_call fr2 [] d).
Proof. exact same_doc_iso. Qed.
Print Assumptions C12_same_doc_iso.

(* Finding F9: with the identity discipline (JSON-LD, HexTuples; the repository's own tests
   pin label preservation for both) the statement fails - two documents that use the same
   label share the node. *)
Theorem C12_labels_scoped_refuted :
  exists c, wf c /\ kf c = 1%N /\ spec_ok c (model_obs c) = false /\
    exists n, q_mem ((n, TAGP, tag 0 0), 0%N) (last (model_obs c) []) = true
           /\ q_mem ((n, TAGP, tag 1 0), 1%N) (last (model_obs c) []) = true.
Proof. exists w_f9. exact f9_witness. Qed.
Print Assumptions C12_labels_scoped_refuted.

(* The TriX half of F9 is FIXED (commit 3d9dc36a): TriX is a [Fresh] parser now, covered by
   C12_merge / C12_labels_scoped; the old TriX witness (label = id of an existing node) and a
   label shared by two TriX calls are in scope and accepted. *)
Theorem C12_trix_witness_now_passes :
  wf w_f9_trix /\ kf w_f9_trix = 0%N /\ spec_ok w_f9_trix (model_obs w_f9_trix) = true.
Proof. exact f9_trix_fixed. Qed.
Print Assumptions C12_trix_witness_now_passes.

Theorem C12_trix_is_fresh : disc_of TRIX = Fresh.
Proof. reflexivity. Qed.
Print Assumptions C12_trix_is_fresh.

(* Finding F12 (FIXED by commit 57c67bab): the code as it was before the repair
   ([parse_call_prefix]: N-Quads / HexTuples emptied <urn:x-rdflib:default>) lost a quad that
   the repaired code keeps; the old witness is now in scope of the theorem and accepted. *)
Theorem C12_prefix_only_adds_refuted :
  exists fr st d q, In q st /\ ~ In q (parse_call_prefix fr st d) /\ In q (parse_call fr st d).
Proof. exact f12_prefix_witness. Qed.
Print Assumptions C12_prefix_only_adds_refuted.

Theorem C12_f12_witness_now_passes :
  wf w_f12 /\ kf w_f12 = 0%N /\ spec_ok w_f12 (model_obs w_f12) = true.
Proof. exact f12_fixed. Qed.
Print Assumptions C12_f12_witness_now_passes.

(* the supply of the executable model satisfies the hypotheses *)
Theorem C12_std_supply_ok : supply_ok std_fresh.
Proof. exact std_supply_ok. Qed.
Print Assumptions C12_std_supply_ok.

Example C12_nonvacuous :
  wf w_ok /\ kf w_ok = 0%N /\ length (model_obs w_ok) = 3%nat /\ spec_ok w_ok (model_obs w_ok) = true.
Proof. exact w_ok_nonvacuous. Qed.
