(* C10 - SPARQL Update changes the dataset exactly as the Update semantics
   prescribe.  Property theorems only; proofs are in Update/{Proofs,Ops,Seq}.v.
   The model is the code after the "fix:" commits for F5 and F10a,b,c,d,e,g,h.

   Reading guide.  [eval_op e k o s] is the model of the k-th operation of a
   request run through front end [e_fe e] (Graph / ConjunctiveGraph / Dataset)
   with the default-graph-union switch [e_union e] - every theorem below holds
   for all three front ends and both settings of the switch ([e] is universally
   quantified; the switch only decides which solution lists WHERE produces, and
   those are inputs): writes outside GRAPH always go to the real default graph
   [dflt e].  [s] = quad set + known graph names; [a] is any list that is the
   same *set* of quads as the store content.  [scope e o] says that the front
   end has named graphs or the operation needs none (a plain Graph is a store
   with one graph).  [op_kf] is the known-finding trigger - constantly 0: every finding of this
   property is repaired in /repo (C10_no_trigger_left) -, [kinv] the store invariant "every graph
   holding a quad is known". *)
From Coq Require Import Permutation.
From RV Require Import Update.Model Update.Proofs Update.Ops Update.Where Update.Seq Update.Perm Update.Inv Update.Request.
Local Open Scope N_scope.

(* The checker the correspondence run evaluates on rdflib's answers accepts the
   model on every well-formed case outside the known-finding regions. *)
(* _partial: [in_model_where_any c] is a FRAGMENT, not well-formedness: every operation whose
   solutions the model computes (ModifyW, DeleteWhereW) - at ANY position of the request - has
   its WHERE in BGP / Join / Union / GRAPH (accepted by C04's [frag]) and templates without
   blank-node label; no CREATE without SILENT; constants and given bound values are not C04's
   two boolean ids; the initial store is duplicate-free and free of them.  What is still
   missing for the full statement: templates WITH blank-node labels under a computed WHERE at
   request level (needs completeness of [iso_eqb] for non-identity renamings; the single-step
   theorem C10_modify_where covers them), WHERE forms outside the fragment, non-silent CREATE. *)
Theorem C10_spec_ok_model_partial : forall c,
  wf c -> in_model_where_any c -> spec_ok c (model_obs c) = true.
Proof. exact spec_ok_model_any. Qed.
Print Assumptions C10_spec_ok_model_partial.

(* the same as a statement about the stores: the model's own store is threaded through the
   request, the specification works on its own listing of the same set of quads *)
Theorem C10_request_any_position_partial : forall e ops k s a,
  has_dataset e = true \/ forallb (fun o => negb (needs_dataset o)) ops = true ->
  Forall op_ok ops -> kinv s -> store_ok (quads s) -> qseteq (quads s) a ->
  exists s', eval_from e k ops s = Ok s' /\ qseteq (quads s') (spec_from e k ops a) /\ kinv s'.
Proof. exact request_any. Qed.
Print Assumptions C10_request_any_position_partial.

(* what made it possible.  (1) The prescribed solutions of a WHERE pattern of the fragment do
   not depend, as a multiset, on how the store lists its quads. *)
Theorem C10_where_listing_independent : forall e w ud un p a a',
  walg p = true -> NoDup a -> NoDup a' -> qseteq a a' ->
  Permutation (s_omega e w ud un p a) (s_omega e w ud un p a').
Proof. exact s_omega_perm. Qed.
Print Assumptions C10_where_listing_independent.

(* (2) every operation keeps the store duplicate-free ... *)
Theorem C10_store_stays_duplicate_free : forall e k o s s',
  scope e o -> NoDup (quads s) -> eval_op e k o s = Ok s' -> NoDup (quads s').
Proof. exact NoDup_step. Qed.
Print Assumptions C10_store_stays_duplicate_free.

(* ... and free of C04's two boolean ids (computed solutions bind variables to terms of the
   store or to graph names) *)
Theorem C10_store_stays_in_C04_vocabulary : forall e k o a, op_nb o ->
  match o with
  | ModifyW _ _ _ _ _ p => walg p = true /\ (forall names, Sparql.Agreement.frag names [] p = true)
  | _ => True
  end ->
  terms_nb a -> terms_nb (spec_op e k o a).
Proof. exact spec_nb. Qed.
Print Assumptions C10_store_stays_in_C04_vocabulary.

(* the earlier form (computed WHERE in first position only), kept *)
Theorem C10_spec_ok_model_first_position_partial : forall c,
  wf c -> in_model_where c -> kf c = 0 -> spec_ok c (model_obs c) = true.
Proof. exact spec_ok_model. Qed.
Print Assumptions C10_spec_ok_model_first_position_partial.

(* full strength for requests all of whose solution lists are given (no ModifyW,
   DeleteWhereW, non-silent CREATE): only genuine well-formedness is assumed *)
Theorem C10_spec_ok_model : forall c,
  wf c -> forallb no_where (c_ops c) = true -> spec_ok c (model_obs c) = true.
Proof. exact spec_ok_model_given. Qed.
Print Assumptions C10_spec_ok_model.

Theorem C10_no_trigger_left : forall e k o, op_kf e k o = 0.
Proof. exact no_trigger. Qed.
Print Assumptions C10_no_trigger_left.



(* ... and what acceptance means: no failure, every quad's graph is known, and
   the final quads are the section-3 result up to a renaming of terms >= 1000
   (the fresh blank nodes). *)
Theorem C10_spec_ok_reading : forall c q kn raised,
  in_scope (c_env c) (c_ops c) = true -> spec_ok c (q, kn, raised) = true ->
  raised = false
  /\ (forall x, In x q -> snd x = 0 \/ In (snd x) kn)
  /\ exists m, qseteq (ren_quads m q) (spec_from (c_env c) 0 (c_ops c) (c_quads c)).
Proof. exact spec_ok_reading. Qed.
Print Assumptions C10_spec_ok_reading.

Theorem C10_iso_eqb_sound : forall a b, iso_eqb a b = true -> exists m, qseteq (ren_quads m a) b.
Proof. exact iso_eqb_sound. Qed.
Print Assumptions C10_iso_eqb_sound.

Theorem C10_iso_eqb_complete_on_equal_sets : forall a b, qseteq a b -> iso_eqb a b = true.
Proof. exact iso_eqb_seteq. Qed.
Print Assumptions C10_iso_eqb_complete_on_equal_sets.

(* One operation = its section-3 transformer. *)
Theorem C10_step : forall e k o s a, no_where o = true ->
  scope e o -> op_kf e k o = 0 -> kinv s -> qseteq (quads s) a ->
  exists s', eval_op e k o s = Ok s' /\ qseteq (quads s') (spec_op e k o a) /\ kinv s'.
Proof. exact step_correct. Qed.
Print Assumptions C10_step.

Theorem C10_insert_data : forall e k s a, kinv s -> qseteq (quads s) a -> forall ts qs,
  scope e (InsertData ts qs) -> op_kf e k (InsertData ts qs) = 0 ->
  exists s', eval_op e k (InsertData ts qs) s = Ok s' /\ kinv s' /\
    forall q, In q (quads s') <-> In q a \/ In q (data_quads (dflt e) ts qs).
Proof. exact insert_data_reading. Qed.
Print Assumptions C10_insert_data.

Theorem C10_delete_data : forall e k s a, kinv s -> qseteq (quads s) a -> forall ts qs,
  scope e (DeleteData ts qs) -> op_kf e k (DeleteData ts qs) = 0 ->
  exists s', eval_op e k (DeleteData ts qs) s = Ok s' /\ kinv s' /\
    forall q, In q (quads s') <-> In q a /\ ~ In q (data_quads (dflt e) ts qs).
Proof. exact delete_data_reading. Qed.
Print Assumptions C10_delete_data.

Theorem C10_data_quads : forall d ts qs q,
  In q (data_quads d ts qs) <->
  (snd q = d /\ In (fst q) ts) \/ exists b, In b qs /\ snd q = fst b /\ In (fst q) (snd b).
Proof. exact data_quads_In. Qed.
Print Assumptions C10_data_quads.

Theorem C10_delete_where : forall e k s a, kinv s -> qseteq (quads s) a -> forall tm om,
  scope e (DeleteWhere tm om) -> op_kf e k (DeleteWhere tm om) = 0 ->
  exists s', eval_op e k (DeleteWhere tm om) s = Ok s' /\ kinv s' /\
    forall q, In q (quads s') <-> In q a /\ ~ In q (s_all e false k (dflt e) (Some tm) om).
Proof. exact delete_where_reading. Qed.
Print Assumptions C10_delete_where.

(* DELETE/INSERT..WHERE at full strength on the repaired code:
   D' = (D \ U_mu del(mu)) U U_mu ins(mu); WITH names the graph of the template
   triples outside GRAPH, USING does not; unbound variables, unbound graph
   names and (insertions) illegal triples are skipped by [s_all]. *)
Theorem C10_modify : forall e k s a, kinv s -> qseteq (quads s) a -> forall w ud un d i om,
  scope e (Modify w ud un d i om) -> op_kf e k (Modify w ud un d i om) = 0 ->
  let dg := match w with Some c => c | None => dflt e end in
  exists s', eval_op e k (Modify w ud un d i om) s = Ok s' /\ kinv s' /\
    forall q, In q (quads s') <->
      (In q a /\ ~ In q (s_all e false k dg d om)) \/ In q (s_all e true k dg i om).
Proof. exact modify_reading. Qed.
Print Assumptions C10_modify.

(* ---- WHERE evaluated inside the model (operation ModifyW) ----
   [m_omega] = the solutions evalModify computes: C04's model of evalPart
   (top-down, hash joins) over the dataset evalModify builds (USING: scratch
   merge graph; WITH only without USING / USING NAMED; every named graph stays
   visible).  [s_omega] = the bottom-up algebra (SPARQL 1.1 section 18) over the
   query dataset SPARQL 1.1 Update 3.1.3 prescribes.  Outside the regions of
   every trigger region (none is left) they are the same multiset,
   for every store without duplicates (and without C04's two boolean ids). *)
Theorem C10_where_solutions : forall e w ud un p a,
  (forall names, Sparql.Agreement.frag names [] p = true) ->
  NoDup a -> terms_nb a ->
  Permutation (m_omega e w ud un p a) (s_omega e w ud un p a).
Proof. exact where_solutions. Qed.
Print Assumptions C10_where_solutions.

(* End to end: DELETE/INSERT ... WHERE { pattern } = the Dataset-UpdateOperation
   of 3.1.3 - all solutions computed on the state BEFORE the operation,
   deletions then insertions - for an enumeration [om] of the prescribed
   solution multiset (the enumeration only decides which fresh node a template
   label gets in which solution). *)
Theorem C10_modify_where : forall e k s w ud un d i p,
  where_ok p -> store_ok (quads s) -> kinv s ->
  scope e (ModifyW w ud un d i p) -> op_kf e k (ModifyW w ud un d i p) = 0 ->
  let dg := match w with Some c => c | None => dflt e end in
  exists s' om, eval_op e k (ModifyW w ud un d i p) s = Ok s' /\ kinv s'
    /\ Permutation om (s_omega e w ud un p (quads s))
    /\ forall q, In q (quads s') <->
         (In q (quads s) /\ ~ In q (s_all e false k dg d om)) \/ In q (s_all e true k dg i om).
Proof. exact modify_where. Qed.
Print Assumptions C10_modify_where.

(* templates without blank-node labels: exactly the transformer, no enumeration left *)
Theorem C10_modify_where_exact : forall e k s w ud un d i p,
  where_ok p -> store_ok (quads s) -> kinv s ->
  scope e (ModifyW w ud un d i p) -> op_kf e k (ModifyW w ud un d i p) = 0 ->
  tmpl_nolabel d = true -> tmpl_nolabel i = true ->
  exists s', eval_op e k (ModifyW w ud un d i p) s = Ok s'
    /\ qseteq (quads s') (spec_op e k (ModifyW w ud un d i p) (quads s)) /\ kinv s'.
Proof. exact step_where. Qed.
Print Assumptions C10_modify_where_exact.

(* DELETE WHERE (after the repair of F10f), solutions computed by the model:
   evalBGP for the triples outside GRAPH, evalPart of a Graph node per block,
   _join - a permutation of the solutions of the quad pattern, read as a group
   graph pattern, over the store's own dataset; no trigger is left *)
Theorem C10_delete_where_solutions : forall e tm a, NoDup a -> terms_nb a ->
  Permutation (dw_omega e tm a) (s_omega e None [] [] (dw_alg tm) a).
Proof. exact dw_solutions. Qed.
Print Assumptions C10_delete_where_solutions.

Theorem C10_delete_where_in_model : forall e k s tm, store_ok (quads s) -> kinv s ->
  scope e (DeleteWhereW tm) -> tmpl_nolabel (Some tm) = true ->
  exists s', eval_op e k (DeleteWhereW tm) s = Ok s'
    /\ qseteq (quads s') (spec_op e k (DeleteWhereW tm) (quads s)) /\ kinv s'.
Proof. exact step_delete_where. Qed.
Print Assumptions C10_delete_where_in_model.

(* a whole request (the computed WHERE in first position): model = specification *)
Theorem C10_request_partial : forall c, wf c -> in_model_where c -> kf c = 0 ->
  has_dataset (c_env c) = true \/ forallb (fun o => negb (needs_dataset o)) (c_ops c) = true ->
  exists s', eval_from (c_env c) 0 (c_ops c) (init_state c) = Ok s'
    /\ qseteq (quads s') (spec_from (c_env c) 0 (c_ops c) (c_quads c)) /\ kinv s'.
Proof. exact request_correct. Qed.
Print Assumptions C10_request_partial.

(* The loop as it was before the fix of F5 (per solution: delete, then insert)
   does not have the property: swapping ?s p ?o -> ?o p ?s on the 2-cycle
   {(1 p 2), (2 p 1)} must leave the graph unchanged; the old loop loses a triple. *)
Theorem C10_modify_prefix_refuted :
  qseteqb (quads (evalModify_prefix swap_env 0 0 (Some swap_del) (Some swap_ins) swap_omega swap_init))
          (spec_op swap_env 0 (Modify None false false (Some swap_del) (Some swap_ins) swap_omega)
                   (quads swap_init)) = false
  /\ qseteqb (spec_op swap_env 0 (Modify None false false (Some swap_del) (Some swap_ins) swap_omega)
                      (quads swap_init)) (quads swap_init) = true.
Proof. exact modify_prefix_refuted. Qed.
Print Assumptions C10_modify_prefix_refuted.

Theorem C10_clear : forall e k s a, kinv s -> qseteq (quads s) a -> forall sl g,
  scope e (Clear sl g) -> op_kf e k (Clear sl g) = 0 ->
  exists s', eval_op e k (Clear sl g) s = Ok s' /\ kinv s' /\
    forall q, In q (quads s') <->
      In q a /\ ~ match g with
                  | GDefault => snd q = dflt e
                  | GNamed => snd q <> dflt e
                  | GAll => True
                  | GIri c => snd q = c
                  end.
Proof. exact clear_reading. Qed.
Print Assumptions C10_clear.

Theorem C10_drop : forall e k s a, kinv s -> qseteq (quads s) a -> forall sl g,
  scope e (Drop sl g) -> op_kf e k (Drop sl g) = 0 ->
  exists s', eval_op e k (Drop sl g) s = Ok s' /\ kinv s' /\
    forall q, In q (quads s') <->
      In q a /\ ~ match g with
                  | GDefault => snd q = dflt e
                  | GNamed => snd q <> dflt e
                  | GAll => True
                  | GIri c => snd q = c
                  end.
Proof. exact drop_reading. Qed.
Print Assumptions C10_drop.

(* source = target is a no-op; a missing source is the empty graph *)
Theorem C10_add : forall e k s a, kinv s -> qseteq (quads s) a -> forall sl x y,
  scope e (Add sl x y) -> op_kf e k (Add sl x y) = 0 ->
  exists s', eval_op e k (Add sl x y) s = Ok s' /\ kinv s' /\
    forall q, In q (quads s') <->
      In q a \/ (gd_cid e x <> gd_cid e y /\ snd q = gd_cid e y /\ In (fst q, gd_cid e x) a).
Proof. exact add_reading. Qed.
Print Assumptions C10_add.

Theorem C10_copy : forall e k s a, kinv s -> qseteq (quads s) a -> forall sl x y,
  scope e (Copy sl x y) -> op_kf e k (Copy sl x y) = 0 ->
  exists s', eval_op e k (Copy sl x y) s = Ok s' /\ kinv s' /\
    forall q, In q (quads s') <->
      if N.eqb (gd_cid e x) (gd_cid e y) then In q a
      else (In q a /\ snd q <> gd_cid e y) \/ (snd q = gd_cid e y /\ In (fst q, gd_cid e x) a).
Proof. exact copy_reading. Qed.
Print Assumptions C10_copy.

Theorem C10_move : forall e k s a, kinv s -> qseteq (quads s) a -> forall sl x y,
  scope e (Move sl x y) -> op_kf e k (Move sl x y) = 0 ->
  exists s', eval_op e k (Move sl x y) s = Ok s' /\ kinv s' /\
    forall q, In q (quads s') <->
      if N.eqb (gd_cid e x) (gd_cid e y) then In q a
      else snd q <> gd_cid e x /\
           ((In q a /\ snd q <> gd_cid e y) \/ (snd q = gd_cid e y /\ In (fst q, gd_cid e x) a)).
Proof. exact move_reading. Qed.
Print Assumptions C10_move.

(* Graphs the operation does not name stay equal (data and management
   operations: [op_graphs] lists the graphs named). *)
Theorem C10_untouched : forall e k o a c,
  match o with Modify _ _ _ _ _ _ | ModifyW _ _ _ _ _ _ | DeleteWhere _ _ | DeleteWhereW _ => False | _ => True end ->
  ~ op_graphs e o c -> forall t, In (t, c) (spec_op e k o a) <-> In (t, c) a.
Proof. exact spec_untouched_data. Qed.
Print Assumptions C10_untouched.

(* ... and for DELETE/INSERT..WHERE: a graph no instantiated template quad names. *)
Theorem C10_untouched_modify : forall e k w ud un d i om a c,
  let dg := match w with Some x => x | None => dflt e end in
  ~ In c (map snd (s_all e false k dg d om)) -> ~ In c (map snd (s_all e true k dg i om)) ->
  forall t, In (t, c) (spec_op e k (Modify w ud un d i om) a) <-> In (t, c) a.
Proof. exact spec_untouched_modify. Qed.
Print Assumptions C10_untouched_modify.

(* Fresh blank nodes.  [fresh k i x] is the node for label x in solution i of
   operation k (one node per label and solution, shared by all blocks of the
   template: [s_quads] and the model both instantiate with [fresh k i]).
   SIZE BOUND: the supply [fresh k i x = 1000 + k*2^24 + i*2^16 + x] is injective only for
   at most 256 solutions per operation and labels below 65536 (bounds in the statement;
   [op_bounded] carries them for the preservation theorem; beyond them names of
   operation k collide with those of operation k+1).  Specification and model use the
   same naming function, so model = spec says nothing about freshness: freshness is
   THIS theorem, and the checker compares with rdflib up to renaming.
   Supply hypothesis [older (window k) a]: every term of the store is below the
   window of operation k.  Then the node is distinct from every term of D, and
   different (solution, label) pairs get different nodes. *)
Theorem C10_fresh_bnodes_upto_256_solutions_65536_labels : forall k a, older (window k) a -> forall i x, i < 256 -> x < 65536 ->
  (forall q, In q a -> ~ In (fresh k i x) (triple_terms (fst q)))
  /\ forall i' x', i' < 256 -> x' < 65536 -> fresh k i x = fresh k i' x' -> i = i' /\ x = x'.
Proof. exact fresh_bnodes. Qed.
Print Assumptions C10_fresh_bnodes_upto_256_solutions_65536_labels.

(* ... and the stores the hypothesis allows include every store a request
   reaches: if the constants and bound values of operation k are terms in use
   before it (at most 256 solutions, labels below 65536), the hypothesis holds
   again for operation k+1. *)
Theorem C10_fresh_supply_preserved_upto_256_solutions : forall e k o a,
  op_bounded (window k) o -> older (window k) a -> older (window (k + 1)) (spec_op e k o a).
Proof. exact older_step. Qed.
Print Assumptions C10_fresh_supply_preserved_upto_256_solutions.

(* the switch is irrelevant to every evaluator: writes outside GRAPH go to the
   real default graph whatever it says *)
Theorem C10_switch_irrelevant : forall e u k o s, no_where o = true ->
  eval_op {| e_fe := e_fe e; e_union := u; e_lits := e_lits e; e_bnodes := e_bnodes e |} k o s
  = eval_op e k o s.
Proof. exact eval_op_union. Qed.
Print Assumptions C10_switch_irrelevant.

(* DELETE DATA as it was before the fix of F10a (switch on): the triple also
   left the named graph *)
Theorem C10_deldata_prefix_union_refuted :
  let s := {| quads := [((1, 3, 2), 0); ((1, 3, 2), 1)]; known := [0; 1] |} in
  qseteqb (quads (deldata_prefix_union [(1, 3, 2)] s))
          (spec_op swap_env 0 (DeleteData [(1, 3, 2)] []) (quads s)) = false.
Proof. exact deldata_prefix_union_refuted. Qed.
Print Assumptions C10_deldata_prefix_union_refuted.

(* Operations of one request run in order: the request is the composition of
   the transformers; nothing is skipped, nothing fails. *)
Theorem C10_sequence : forall e ops k s a,
  has_dataset e = true \/ forallb (fun o => negb (needs_dataset o)) ops = true ->
  forallb no_where ops = true -> kf_from e k ops = 0 -> kinv s -> qseteq (quads s) a ->
  exists s', eval_from e k ops s = Ok s' /\ qseteq (quads s') (spec_from e k ops a) /\ kinv s'.
Proof. exact sequence_correct. Qed.
Print Assumptions C10_sequence.

(* non-vacuity: through a Dataset with the switch ON (the default): a computed
   WHERE (GRAPH ?g { ?s ?p ?o }, as translateUpdate builds it) feeding the swap
   template, a DELETE DATA outside GRAPH that must leave graph 1 alone, COPY and
   CLEAR DEFAULT; well-formed, in scope, no trigger, accepted *)
Example C10_nonvacuous :
  let pat := Sparql.Algebra.Join false (Sparql.Algebra.BGP [])
               (Sparql.Algebra.Graph (Sparql.Algebra.Vr 5) (Sparql.Algebra.Join false (Sparql.Algebra.BGP []) (Sparql.Algebra.BGP [(Sparql.Algebra.Vr 1, Sparql.Algebra.Vr 2, Sparql.Algebra.Vr 3)]))) in
  let c := {| c_env := {| e_fe := FDS; e_union := true; e_lits := []; e_bnodes := [] |};
              c_quads := [((1, 3, 2), 0); ((2, 3, 1), 0); ((1, 3, 2), 1)]; c_known := [0; 1];
              c_ops := [ModifyW None [] [] (Some swap_del) (Some swap_ins) pat;
                        DeleteData [(1, 3, 2)] [];
                        Copy false DDefault (DIri 5); Clear false GDefault] |} in
  wf c /\ in_model_where c /\ kf c = 0 /\ in_scope (c_env c) (c_ops c) = true
  /\ spec_ok c (model_obs c) = true
  /\ snd (fst (model_obs c)) = [1; 5].
Proof.
  simpl. split; [intros q [<-|[<-|[<-|[]]]]; simpl; auto|]. split.
  - unfold in_model_where. simpl.
    split; [split; [split; [reflexivity|intros; reflexivity]|split; reflexivity]|].
    split; [|reflexivity]. intros _. split.
    + repeat constructor; simpl; intuition congruence.
    + intros q [<-|[<-|[<-|[]]]] t [<-|[<-|[<-|[]]]]; reflexivity.
  - split; [vm_compute; reflexivity|split; [vm_compute; reflexivity|split; vm_compute; reflexivity]].
Qed.

(* non-vacuity of the any-position fragment: the computed WHERE is the THIRD operation *)
Example C10_nonvacuous_any_position :
  let pat := Sparql.Algebra.Join false (Sparql.Algebra.BGP [])
               (Sparql.Algebra.Graph (Sparql.Algebra.Vr 5)
                  (Sparql.Algebra.Join false (Sparql.Algebra.BGP [])
                     (Sparql.Algebra.BGP [(Sparql.Algebra.Vr 1, Sparql.Algebra.Vr 2, Sparql.Algebra.Vr 3)]))) in
  let c := {| c_env := {| e_fe := FCG; e_union := true; e_lits := []; e_bnodes := [] |};
              c_quads := [((1, 3, 2), 0); ((2, 3, 1), 1)]; c_known := [0; 1];
              c_ops := [InsertData [(1, 3, 12)] [(5, [(12, 3, 1)])];
                        Copy false (DIri 1) (DIri 2);
                        ModifyW None [] [] (Some swap_del) (Some swap_ins) pat;
                        DeleteWhereW {| t_triples := [(PVar 1, PConst 3, PConst 12)]; t_quads := [] |}] |} in
  wf c /\ in_model_where_any c /\ spec_ok c (model_obs c) = true.
Proof.
  simpl. split; [intros q [<-|[<-|[]]]; simpl; auto|]. split; [|vm_compute; reflexivity].
  split.
  - repeat constructor; simpl; try (intros; reflexivity); try tauto;
      try (intros ? [<-|[]] ? [<-|[<-|[<-|[]]]]; reflexivity);
      try (intros ? [<-|[]] ? [<-|[]] ? [<-|[<-|[<-|[]]]]; reflexivity);
      try (intros ? [<-|[]] ? [<-|[]]; simpl; tauto).
  - split; [repeat constructor; simpl; intuition congruence|].
    intros q [<-|[<-|[]]] t [<-|[<-|[<-|[]]]]; reflexivity.
Qed.
