(* C10 - SPARQL Update.  Property theorems only; proofs are in Update/Proofs.v. *)
From RV Require Import Update.Model.
Theorem C10_stub : True. Proof. exact I. Qed.
Print Assumptions C10_stub.
