(* C04 - SPARQL graph patterns: rdflib's top-down evaluation (model: Sparql/EvalTD.v)
   against the bottom-up semantics of SPARQL 1.1 section 18 (Sparql/EvalBU.v).

   FULL STATEMENT (not a theorem - refuted below):
     forall c, spec_ok c (model_obs c) = true
   i.e. for every dataset and every algebra term the top-down evaluator returns
   the bottom-up multiset.  The faithful model violates it in ten syntactically
   delimited regions (Sparql/Findings.v, kf c <> 0); what is proved so far is the
   agreement on basic graph patterns for every pattern order and every incoming
   context, the compositional steps for UNION and VALUES, and the whole statement
   on the join-free fragment.  The agreement on the complement of the trigger
   region (forall c, kf c = 0 -> ...) is supported by the correspondence runs
   only. *)
From RV Require Import Sparql.Proofs.

(* the top-down BGP evaluation under ANY context, for ANY order of the triple
   patterns (the static reorderTriples, the run-time sort of evalPart), is a
   permutation of the extensions of the context that map all patterns into the
   graph: no solution lost, none duplicated *)
Theorem C04_bgp : forall g c ts ts',
  sol_wf c = true -> Permutation ts ts' ->
  Permutation (eval_td {| ds_default := g; ds_named := [] |} g c (BGP ts')) (bgp_ext g c ts).
Proof. exact td_bgp_any_order. Qed.
Print Assumptions C04_bgp.

(* evalBGP (ctx.push, AlreadyBound, the store's triples(pattern)) is exactly the
   extension function of the specification, list for list *)
Theorem C04_bgp_model : forall g c ts, eval_bgp g c ts = bgp_ext g c ts.
Proof. exact eval_bgp_ext. Qed.
Print Assumptions C04_bgp_model.

(* push-down reading preserved by evalUnion *)
Theorem C04_union : forall ds g c p1 p2,
  Permutation (eval_td ds g c p1) (join_ctx c (eval_bu ds g p1)) ->
  Permutation (eval_td ds g c p2) (join_ctx c (eval_bu ds g p2)) ->
  Permutation (eval_td ds g c (Union p1 p2)) (join_ctx c (eval_bu ds g (Union p1 p2))).
Proof. exact td_union. Qed.
Print Assumptions C04_union.

Theorem C04_values : forall ds g c rows,
  eval_td ds g c (Values rows) = join_ctx c (eval_bu ds g (Values rows)).
Proof. exact td_values. Qed.
Print Assumptions C04_values.

(* model and checker agree on the join-free fragment {BGP, UNION, GRAPH ?g,
   projection}, for SELECT, ASK and CONSTRUCT, every dataset *)
Theorem C04_main_partial : forall c, in_frag0 c = true -> spec_ok c (model_obs c) = true.
Proof. exact main_frag0. Qed.
Print Assumptions C04_main_partial.

Theorem C04_fragment_untriggered_partial : forall p, frag0 p = true -> forall names inex, scan names inex [] p = 0%N.
Proof. exact scan_frag0. Qed.
Print Assumptions C04_fragment_untriggered_partial.

(* Prop-level readings of the checker *)
Theorem C04_spec_select : forall c rows,
  c_form c = FSelect -> (spec_ok c (RSel rows) = true <-> Permutation (spec_rows c) rows).
Proof. exact spec_ok_select. Qed.
Print Assumptions C04_spec_select.

Theorem C04_spec_ask : forall c b,
  c_form c = FAsk -> (spec_ok c (RAsk b) = true <-> (b = true <-> spec_rows c <> [])).
Proof. exact spec_ok_ask. Qed.
Print Assumptions C04_spec_ask.

Theorem C04_spec_construct : forall c tpl g,
  c_form c = FConstruct tpl ->
  (spec_ok c (RCons g) = true <-> (forall t, In t (fill_template tpl (spec_rows c)) <-> In t g)).
Proof. exact spec_ok_construct. Qed.
Print Assumptions C04_spec_construct.

(* the full statement fails: six of the findings with closed witnesses (each is
   replayed on rdflib by the corpus) *)
Theorem C04_refuted : refuted w1 /\ refuted w2 /\ refuted w3 /\ refuted w4 /\ refuted w6 /\ refuted w7.
Proof. exact findings_refuted. Qed.
Print Assumptions C04_refuted.

Local Open Scope N_scope.
Definition nv_case := W (Project (Union (BGP [(Vr 1, Tm 4, Vr 2)]) (BGP [(Vr 2, Tm 4, Vr 1)])) [1; 2]) [(1, 4, 2)].
Example C04_nonvacuous :
  in_frag0 nv_case = true /\ model_obs nv_case = RSel [[(1, 1); (2, 2)]; [(1, 2); (2, 1)]].
Proof. split; vm_compute; reflexivity. Qed.
