(* C04 - SPARQL graph patterns: rdflib's top-down evaluation (model: Sparql/EvalTD.v,
   following /repo after the repairs a7157fc3, a24372ba, fd13260a, 3512ad97) against the
   bottom-up semantics of SPARQL 1.1 section 18 (Sparql/EvalBU.v).

   FULL STATEMENT (not a theorem - refuted below):
     forall c, spec_ok c (model_obs c) = true
   i.e. for every dataset and every algebra term the top-down evaluator returns
   the bottom-up multiset.  The faithful model violates it in seven syntactically
   delimited regions (Sparql/Findings.v, kf c <> 0: findings 1, 2, 4-7 and 9; 3, 8, 10, 11
   have been repaired).  Proved: the push-down theorem
     eval_td ctx P =perm= [mu + ctx | mu in eval_bu P, mu compatible with ctx]
   for every context on the fragment {BGP, Join (lazy and hash), LeftJoin, Union,
   Minus, Extend, Graph, Values, Filter, sub-SELECT as the right operand of a lazy
   join, sub-SELECT / DISTINCT where no binding can be pushed in} under syntactic
   side conditions that are the negations of the trigger predicates of findings
   1, 2, 4, 5, 6, 7 and (locally) 9; expressions: everything incl. (NOT) EXISTS
   over a pattern of the fragment, errors allowed, the four comparisons between
   variables and constants as long as no compared variable can hold a boolean
   made by BIND (C04_pushdown_partial, C04_expressions_partial; typing invariant bu_typed),
   all of it for DATA THAT HOLD LITERALS OF ONE KIND ONLY: the hypotheses [ds_nb ds],
   [gok g] and [case_wf c] say "no xsd:boolean literal in any graph, graph name" (next
   to sets of triples and distinct graph names, which are representation
   invariants).  That hypothesis is not a technicality: it is the complement of the
   data half of the region of finding F-C04-9 (a comparison meeting literals of
   two kinds: rdflib answers false / true / an order where 17.3 raises a type
   error; witness w9, trigger [has_cmp && second_kind]).  With a boolean literal
   in the data and a comparison in the query the statement kf c = 0 -> spec_ok
   is not claimed, the trigger 9 fires; with a boolean in the data and no risky
   comparison the agreement is supported by the runs only.  Then
   the tie theorem on that fragment for SELECT / SELECT DISTINCT / ASK /
   CONSTRUCT (C04_spec_ok_model_partial).  Not covered by a proof: sub-SELECT in
   other positions under pushed bindings (OPTIONAL { SELECT }, hash joins inside
   OPTIONAL / EXISTS), DISTINCT under pushed bindings, comparisons of compound
   operands, data with literals of two kinds; there the agreement outside the
   trigger regions is supported by the correspondence runs only (suite
   fragment_share measures the share of generated cases inside the proved
   fragment).
   EXISTS in the specification does not read rdflib's no_isolated_scope
   annotation: a filter at the top of an EXISTS pattern always sees the current
   solution (18.6 substitution, one level); the fragment demands that rdflib set
   the flag there, a top filter without it is trigger 7. *)
From RV Require Import Sparql.Tie.

(* the top-down BGP evaluation under ANY context, for ANY order of the triple
   patterns (the static reorderTriples, the run-time sort of evalPart), is a
   permutation of the extensions of the context that map all patterns into the
   graph: no solution lost, none duplicated *)
Theorem C04_bgp : forall g c ts ts',
  sol_wf c = true -> Permutation ts ts' ->
  Permutation (eval_td {| ds_default := g; ds_named := [] |} g c (BGP ts')) (bgp_ext g c ts).
Proof. exact td_bgp_any_order. Qed.
Print Assumptions C04_bgp.

(* evalBGP (ctx.push, AlreadyBound, the store's triples(pattern)) is exactly the
   extension function of the specification, list for list *)
Theorem C04_bgp_model : forall g c ts, eval_bgp g c ts = bgp_ext g c ts.
Proof. exact eval_bgp_ext. Qed.
Print Assumptions C04_bgp_model.

(* push-down reading preserved by evalUnion *)
Theorem C04_union : forall ds g c p1 p2,
  Permutation (eval_td ds g c p1) (join_ctx c (eval_bu ds g p1)) ->
  Permutation (eval_td ds g c p2) (join_ctx c (eval_bu ds g p2)) ->
  Permutation (eval_td ds g c (Union p1 p2)) (join_ctx c (eval_bu ds g (Union p1 p2))).
Proof. exact td_union. Qed.
Print Assumptions C04_union.

Theorem C04_values : forall ds g c rows,
  eval_td ds g c (Values rows) = join_ctx c (eval_bu ds g (Values rows)).
Proof. exact td_values. Qed.
Print Assumptions C04_values.

(* C04_bgp, second half: the extensions of a context are the context-compatible
   bottom-up solutions merged with it (list for list) *)
Theorem C04_bgp_pushdown : forall g c ts,
  sol_wf c = true -> bgp_ext g c ts = join_ctx c (bgp_ext g [] ts).
Proof. exact bgp_pushdown. Qed.
Print Assumptions C04_bgp_pushdown.

(* C04_join: evalLazyJoin (push the left solution into the right operand, merge)
   and the hash join of evalJoin are the algebra's Join under the compatibility
   restriction; the set() of the hash join is harmless on duplicate-free lists *)
Theorem C04_join_lazy : forall c L1 L2,
  sol_wf c = true -> all_wf L1 -> all_wf L2 ->
  flat_map (fun a => map (fun b => merge b a) (join_ctx (thaw c a) L2)) (join_ctx c L1)
  = join_ctx c (join_lists L1 L2).
Proof. exact lazy_join_lists. Qed.
Print Assumptions C04_join_lazy.

Theorem C04_join_hash : forall c L1 L2,
  sol_wf c = true -> all_wf L1 -> all_wf L2 ->
  join_lists (join_ctx c L1) (join_ctx c L2) = join_ctx c (join_lists L1 L2).
Proof. exact hash_join_lists. Qed.
Print Assumptions C04_join_hash.

(* (C04_join_hash_set and C04_df_sound_partial - set() is the identity on duplicate-free
   lists, and the duplicate-freeness analysis [df] behind the trigger of F-C04-3 - served
   the hash join that put its right operand into a set; since the repair 3512ad97 the
   model joins the list itself, the side condition [hash_ok] and trigger 3 are gone;
   the lemmas stay in Sparql/Agreement.v as history: dedup_NoDup, df_sound.) *)

(* C04_pushdown_partial: on the fragment [frag] -
     BGP; Union; Values; Graph (IRI or variable);
     Join: lazy, or hash (no side condition since the repair 3512ad97 of F-C04-3);
       the right operand of a lazy join may be a sub-SELECT whose projection keeps
       the context variables its pattern mentions (= neg. of F-C04-4);
     Project / Distinct elsewhere: only where [pushed] is empty;
     LeftJoin when [leftjoin_ok]: the filter names no context variable that its
       sides may bind (= neg. of F-C04-5), p1._vars covers what the left side may
       bind and names no context variable the left side does not certainly bind
       (= neg. of F-C04-6);
     Minus when [minus_ok] (= negation of the trigger of F-C04-2);
     Extend when [extend_ok]: the target is new (= neg. of F-C04-1);
     Filter / the expressions of Extend and LeftJoin: [efrag] (= != < > between
       variables and non-boolean constants, no compared variable a BIND-made
       boolean of the pattern at hand: the local negation of F-C04-9; (NOT) EXISTS
       over a pattern of the fragment; errors allowed) and [vis_ok] (= neg. of F-C04-7) -
   for EVERY incoming context whose variables are among [pushed]:
   top-down = bottom-up restricted to the context.
   _partial: only on [frag], and only over data without boolean literals
   ([ds_nb], [gok]: the complement of the data half of F-C04-9's region) *)
Theorem C04_pushdown_partial : forall ds, graphs_nodup ds -> ds_nb ds ->
  forall p pushed, frag (map fst (ds_named ds)) pushed p = true ->
  forall g c, gok g -> sol_wf c = true -> dom_in c pushed ->
  Permutation (eval_td ds g c p) (join_ctx c (eval_bu ds g p)).
Proof. exact pushdown. Qed.
Print Assumptions C04_pushdown_partial.

(* the two expression evaluators agree (proved together with C04_pushdown_partial by
   mutual induction): for every expression of [efrag], incl. EXISTS / NOT EXISTS
   whose pattern rdflib evaluates under the visible solution, whenever the two
   solutions agree on the variables the expression mentions *)
Theorem C04_expressions_partial : forall ds, graphs_nodup ds -> ds_nb ds ->
  forall e pushed, efrag (map fst (ds_named ds)) pushed e = true ->
  forall g m1 full m2, gok g -> sol_wf m1 = true -> sol_wf m2 = true -> dom_in m1 pushed ->
  (forall v, In v (evars e) -> lookup v m1 = lookup v m2) ->
  (forall v t, In v (cmp_vars_e e) -> lookup v m2 = Some t -> nb t = true) ->
  expr_td ds g m1 full e = expr_bu ds g m2 e.
Proof. exact expr_agree. Qed.
Print Assumptions C04_expressions_partial.

(* the tie theorem on that fragment (SELECT, SELECT DISTINCT, ASK, CONSTRUCT):
   the checker accepts the model's observation.  [case_wf]: graphs are sets, graph
   names distinct, and NO BOOLEAN LITERAL IN THE DATA (outside the data half of
   F-C04-9's region) *)
Theorem C04_spec_ok_model_partial : forall c,
  case_wf c = true -> in_frag c = true -> spec_ok c (model_obs c) = true.
Proof. exact spec_ok_model_frag. Qed.
Print Assumptions C04_spec_ok_model_partial.

(* Prop-level readings of the checker *)
Theorem C04_spec_select : forall c rows,
  c_form c = FSelect -> (spec_ok c (RSel rows) = true <-> Permutation (spec_rows c) rows).
Proof. exact spec_ok_select. Qed.
Print Assumptions C04_spec_select.

Theorem C04_spec_ask : forall c b,
  c_form c = FAsk -> (spec_ok c (RAsk b) = true <-> (b = true <-> spec_rows c <> [])).
Proof. exact spec_ok_ask. Qed.
Print Assumptions C04_spec_ask.

Theorem C04_spec_construct : forall c tpl g,
  c_form c = FConstruct tpl ->
  (spec_ok c (RCons g) = true <-> (forall t, In t (fill_template tpl (spec_rows c)) <-> In t g)).
Proof. exact spec_ok_construct. Qed.
Print Assumptions C04_spec_construct.

(* the full statement fails: all seven open findings with closed witnesses (each is
   replayed on rdflib by the corpus) *)
Theorem C04_refuted :
  refuted w1 /\ refuted w2 /\ refuted w4 /\ refuted w5 /\ refuted w6 /\ refuted w7 /\ refuted w9.
Proof. exact findings_refuted. Qed.
Print Assumptions C04_refuted.

Local Open Scope N_scope.
Definition nv_case :=
  W (Project (Join false (Join true (BGP [(Vr 1, Tm 4, Vr 2)]) (Union (BGP [(Vr 2, Tm 4, Vr 3)]) (BGP [(Vr 3, Tm 4, Vr 2)])))
                   (Filter false (Some [2; 4]) (ENot (ECmp OpEq (EVar 4) (ECon 1))) (BGP [(Vr 2, Tm 4, Vr 4)])))
             [1; 2; 3; 4])
    [(1, 4, 2); (2, 4, 3); (3, 4, 2)].
Definition nv_case2 :=
  W (Project (Join true (BGP [(Vr 1, Tm 4, Vr 2)])
                (Project (Filter false (Some [2; 3]) (EExists true (BGP [(Vr 3, Tm 4, Vr 2)]))
                                 (BGP [(Vr 2, Tm 4, Vr 3)])) [2; 3]))
             [1; 2; 3])
    [(1, 4, 2); (2, 4, 3); (3, 4, 2)].
Example C04_nonvacuous2 :
  case_wf nv_case2 = true /\ in_frag nv_case2 = true
  /\ model_obs nv_case2 = RSel [[(1, 1); (2, 2); (3, 3)]; [(1, 2); (2, 3); (3, 2)]; [(1, 3); (2, 2); (3, 3)]].
Proof. repeat split; vm_compute; reflexivity. Qed.

Example C04_nonvacuous :
  case_wf nv_case = true /\ in_frag nv_case = true
  /\ model_obs nv_case = RSel
    [[(1, 1); (2, 2); (3, 3); (4, 3)]; [(1, 1); (2, 2); (3, 1); (4, 3)];
     [(1, 1); (2, 2); (3, 3); (4, 3)]; [(1, 2); (2, 3); (3, 2); (4, 2)];
     [(1, 2); (2, 3); (3, 2); (4, 2)]; [(1, 3); (2, 2); (3, 3); (4, 3)];
     [(1, 3); (2, 2); (3, 1); (4, 3)]; [(1, 3); (2, 2); (3, 3); (4, 3)]].
Proof. repeat split; vm_compute; reflexivity. Qed.
