(* C09 - Literal <-> Python value mapping is faithful, normalisation is idempotent.
   Property theorems only; proofs are in Literal/Proofs.v.  PARTIAL: proved for the 13 integer
   datatypes, boolean and the string family of the model; decimal is modelled and tied to the code by
   the correspondence run but its laws are not proved; float/double, date/time/duration, binary and
   XML literals are conformance-only (harness/c09.py).  The full statement is refuted for the code as
   it is (findings F14, F14b..F14g); see the _refuted theorems and notes/C09.md. *)
From Coq Require Import List NArith ZArith Bool.
Import ListNotations.
From RV Require Import Literal.Model Literal.Proofs.

(* parse (print v) = Some v, and the printed form is in the XSD integer lexical space with value v *)
Theorem C09_int_roundtrip : forall z, py_int (print_z z) = Some z /\ xsd_int_lex (print_z z) = Some z.
Proof. intro z. split; [apply py_int_print|apply xsd_int_print]. Qed.
Print Assumptions C09_int_roundtrip.

(* every form of the XSD integer lexical space is read by python's int() with the XSD value *)
Theorem C09_int_valid_forms_read : forall l z, xsd_int_lex l = Some z -> py_int l = Some z.
Proof. exact py_int_xsd. Qed.
Print Assumptions C09_int_valid_forms_read.

(* for each of the 13 integer datatypes (rows of the reflected XSDToPython / _check_well_formed_types):
   every valid form is accepted, not flagged, gets the XSD value; the stored form and the normal form
   are valid with the same value; normalize() and construction-time normalisation are idempotent *)
Theorem C09_integer_types_faithful : forall d, is_int_dt d = true -> int_faithful d.
Proof. exact int_faithful_all. Qed.
Print Assumptions C09_integer_types_faithful.

Theorem C09_integer_faithful : int_faithful DInteger.
Proof. apply int_faithful_all. reflexivity. Qed.
Print Assumptions C09_integer_faithful.

Theorem C09_nonPositiveInteger_faithful : int_faithful DNonPositiveInteger.
Proof. apply int_faithful_all. reflexivity. Qed.
Print Assumptions C09_nonPositiveInteger_faithful.

Theorem C09_long_faithful : int_faithful DLong.
Proof. apply int_faithful_all. reflexivity. Qed.
Print Assumptions C09_long_faithful.

Theorem C09_nonNegativeInteger_faithful : int_faithful DNonNegativeInteger.
Proof. apply int_faithful_all. reflexivity. Qed.
Print Assumptions C09_nonNegativeInteger_faithful.

Theorem C09_negativeInteger_faithful : int_faithful DNegativeInteger.
Proof. apply int_faithful_all. reflexivity. Qed.
Print Assumptions C09_negativeInteger_faithful.

Theorem C09_int_faithful : int_faithful DInt.
Proof. apply int_faithful_all. reflexivity. Qed.
Print Assumptions C09_int_faithful.

Theorem C09_unsignedLong_faithful : int_faithful DUnsignedLong.
Proof. apply int_faithful_all. reflexivity. Qed.
Print Assumptions C09_unsignedLong_faithful.

Theorem C09_positiveInteger_faithful : int_faithful DPositiveInteger.
Proof. apply int_faithful_all. reflexivity. Qed.
Print Assumptions C09_positiveInteger_faithful.

Theorem C09_short_faithful : int_faithful DShort.
Proof. apply int_faithful_all. reflexivity. Qed.
Print Assumptions C09_short_faithful.

Theorem C09_unsignedInt_faithful : int_faithful DUnsignedInt.
Proof. apply int_faithful_all. reflexivity. Qed.
Print Assumptions C09_unsignedInt_faithful.

Theorem C09_byte_faithful : int_faithful DByte.
Proof. apply int_faithful_all. reflexivity. Qed.
Print Assumptions C09_byte_faithful.

Theorem C09_unsignedShort_faithful : int_faithful DUnsignedShort.
Proof. apply int_faithful_all. reflexivity. Qed.
Print Assumptions C09_unsignedShort_faithful.

Theorem C09_unsignedByte_faithful : int_faithful DUnsignedByte.
Proof. apply int_faithful_all. reflexivity. Qed.
Print Assumptions C09_unsignedByte_faithful.

(* the code's range checks agree with the XSD value spaces except for xsd:long and xsd:unsignedLong,
   which it leaves unbounded above (part of F14c) *)
Theorem C09_int_checkers_vs_xsd_ranges :
  filter (fun d => is_int_dt d && negb (int_row_exact d)) all_dt = [DLong; DUnsignedLong].
Proof. exact int_rows_exact. Qed.
Print Assumptions C09_int_checkers_vs_xsd_ranges.

Theorem C09_boolean_faithful :
  (forall b, parse_m DBoolean (fst (cast_python (VBool b))) = Some (VBool b)
             /\ xsd_value DBoolean (fst (cast_python (VBool b))) = Some (XBool b))
  /\ (forall l b norm, xsd_value DBoolean l = Some (XBool b) ->
        construct DBoolean l norm =
          {| l_lex := if norm then (if b then s_true else s_false) else l; l_ill := Some false; l_val := Some (VBool b) |}).
Proof. exact bool_faithful. Qed.
Print Assumptions C09_boolean_faithful.

(* plain, xsd:string, normalizedString, token: the value is the string offered, never flagged;
   a valid normalizedString keeps its form (for token see C09_token_strip_refuted) *)
Theorem C09_string_family_faithful_partial :
  (forall d l norm, family_of d = FamStr ->
     construct d l norm = {| l_lex := post d l; l_ill := (match d with DPlain => None | _ => Some false end);
                             l_val := Some (VStr l) |})
  /\ (forall l, xsd_value DNormalizedString l = Some (XStr l) -> post DNormalizedString l = l).
Proof. split; [exact str_construct|exact normalized_string_valid_kept]. Qed.
Print Assumptions C09_string_family_faithful_partial.

(* generic: from parse . print = id, normalisation is idempotent and keeps the value *)
Theorem C09_normalize_idempotent : forall (V : Type) (parse : str -> option V) (print : V -> str),
  (forall v, parse (print v) = Some v) ->
  forall l, g_normalize V parse print (g_normalize V parse print l) = g_normalize V parse print l
            /\ (g_value V parse l <> None -> g_value V parse (g_normalize V parse print l) = g_value V parse l).
Proof. exact g_normalize_idempotent. Qed.
Print Assumptions C09_normalize_idempotent.

(* Literal.normalize() twice = once, for every modelled datatype (decimal included), every form, both flags *)
Theorem C09_normalize_method_idempotent : forall d l norm,
  normalize_m d (normalize_m d (construct d l norm)) = normalize_m d (construct d l norm).
Proof. exact normalize_m_idempotent. Qed.
Print Assumptions C09_normalize_method_idempotent.

(* re-reading a normalised literal of an integer datatype changes nothing - for EVERY form, valid or not *)
Theorem C09_int_construct_idempotent : forall d l, is_int_dt d = true ->
  l_lex (construct d (l_lex (construct d l true)) true) = l_lex (construct d l true)
  /\ l_val (construct d (l_lex (construct d l true)) true) = l_val (construct d l true).
Proof. exact int_construct_idempotent. Qed.
Print Assumptions C09_int_construct_idempotent.

(* eq agrees with equality in the value space, across the integer datatypes, and is implied by term equality *)
Theorem C09_eq_vs_value_partial : forall d1 d2 l1 l2 z1 z2 n1 n2,
  is_int_dt d1 = true -> is_int_dt d2 = true ->
  xsd_value d1 l1 = Some (XNum z1 O) -> xsd_value d2 l2 = Some (XNum z2 O) ->
  eq_m d1 (construct d1 l1 n1) d2 (construct d2 l2 n2) = eqres_of (z1 =? z2)%Z
  /\ (d1 = d2 -> term_eq d1 (construct d1 l1 n1) d2 (construct d2 l2 n2) = true ->
      eq_m d1 (construct d1 l1 n1) d2 (construct d2 l2 n2) = ETrue).
Proof.
  intros d1 d2 l1 l2 z1 z2 n1 n2 H1 H2 V1 V2. split.
  - apply int_eq_vs_value; assumption.
  - intros E T. subst d2. eapply int_same_implies_eq; eassumption.
Qed.
Print Assumptions C09_eq_vs_value_partial.

(* what the correspondence check evaluates on the implementation's answers is satisfied by the model:
   proved for the integer datatypes and the conformance-only cases (wf_core); the boolean, string-family,
   decimal, python-value and pair cases are tied by the run (bit 8 of the check) *)
Theorem C09_spec_ok_model_partial : forall c, wf_core c = true -> kf c = 0%N -> spec_ok c (model_obs c) = true.
Proof. exact spec_ok_model_core. Qed.
Print Assumptions C09_spec_ok_model_partial.

(* readings of the checker *)
Theorem C09_spec_valid_form_reading : forall d l norm x n1 n2 re e same xv,
  spec_ok (CLex d l norm) (OLex x n1 n2 re e same) = true -> xsd_value d l = Some xv ->
  ill_ok d (l_ill x) false = true /\ denotes (l_val x) xv = true /\ lex_denotes d (l_lex x) xv = true
  /\ denotes (l_val n1) xv = true /\ lex_denotes d (l_lex n1) xv = true
  /\ l_lex n2 = l_lex n1 /\ (norm = true -> l_lex re = l_lex x) /\ e = ETrue.
Proof. exact spec_ok_lex_valid_reading. Qed.
Print Assumptions C09_spec_valid_form_reading.

Theorem C09_spec_invalid_form_reading : forall d l norm x n1 n2 re e same,
  spec_ok (CLex d l norm) (OLex x n1 n2 re e same) = true -> xsd_value d l = None ->
  ill_ok d (l_ill x) true = true /\ l_lex n2 = l_lex n1 /\ (same = true -> e = ETrue).
Proof. exact spec_ok_lex_invalid_reading. Qed.
Print Assumptions C09_spec_invalid_form_reading.

Theorem C09_spec_eq_reading : forall d1 l1 n1 d2 l2 n2 same e x1 x2,
  spec_ok (CEq d1 l1 n1 d2 l2 n2) (OEq same e) = true ->
  (same = true -> e = ETrue)
  /\ (xsd_value d1 l1 = Some x1 -> xsd_value d2 l2 = Some x2 -> comparable d1 d2 = true ->
      e = eqres_of (xval_eqb x1 x2)).
Proof. exact spec_ok_eq_reading. Qed.
Print Assumptions C09_spec_eq_reading.

(* ---- the full statement fails for the code as it is ---- *)

(* F14c: "1_0" is outside the lexical space of xsd:integer, yet accepted unflagged with value 10 *)
Theorem C09_overaccept_refuted : exists d l,
  xsd_value d l = None /\ l_ill (construct d l true) = Some false /\ l_val (construct d l true) = Some (VInt 10).
Proof. exact overaccept_refuted. Qed.
Print Assumptions C09_overaccept_refuted.

(* F14c: 9223372036854775808 is accepted as an xsd:long *)
Theorem C09_long_range_refuted : exists l,
  xsd_value DLong l = None /\ xsd_value DInteger l <> None /\ l_ill (construct DLong l true) = Some false.
Proof. exact long_range_refuted. Qed.
Print Assumptions C09_long_range_refuted.

(* F14d: a valid token (NBSP x) is stored as another token (x) *)
Theorem C09_token_strip_refuted : exists l,
  xsd_value DToken l = Some (XStr l)
  /\ xsd_value DToken (l_lex (construct DToken l false)) <> Some (XStr l).
Proof. exact token_strip_refuted. Qed.
Print Assumptions C09_token_strip_refuted.

(* F14d: equal terms whose eq is False *)
Theorem C09_same_not_eq_refuted : exists d l1 l2,
  term_eq d (construct d l1 true) d (construct d l2 true) = true
  /\ eq_m d (construct d l1 true) d (construct d l2 true) = EFalse.
Proof. exact same_not_eq_refuted. Qed.
Print Assumptions C09_same_not_eq_refuted.

(* F14b: Decimal('NaN') becomes "NaN"^^xsd:decimal, which is not in the lexical space *)
Theorem C09_decimal_nan_refuted :
  dt_of_name (snd (cast_python (VDec (DNaN false)))) = RDt DDecimal
  /\ xsd_value DDecimal (fst (cast_python (VDec (DNaN false)))) = None.
Proof. exact decimal_nan_refuted. Qed.
Print Assumptions C09_decimal_nan_refuted.

(* non-vacuity: a valid non-canonical byte is in scope (no trigger), and the checker rejects a wrong answer *)
Example C09_nonvacuous :
  let l := [43; 48; 49; 50; 55]%N in     (* "+0127" *)
  let c := CLex DByte l true in
  wf_core c = true /\ kf c = 0%N /\ xsd_value DByte l = Some (XNum 127 O)
  /\ l_lex (construct DByte l true) = [49; 50; 55]%N
  /\ spec_ok c (model_obs c) = true
  /\ spec_ok c (model_obs (CLex DByte [49; 50; 56]%N true)) = false.
Proof. vm_compute. repeat split. Qed.
