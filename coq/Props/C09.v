(* C09 - Literal <-> Python value mapping is faithful, normalisation is idempotent.
   Property theorems only; proofs are in Literal/{Proofs,Token,Decimal,Tie,BinaryProofs,TemporalProofs}.v.
   MODELLED AND PROVED: the 13 integer datatypes, boolean, decimal, plain / xsd:string / normalizedString / token,
   python int / bool / Decimal / str values, pairs (eq)              - tie C09_spec_ok_model;
   xsd:hexBinary, xsd:base64Binary                                   - tie C09_binary_spec_ok_model;
   xsd:date, xsd:time, xsd:dateTime on forms of the XSD shape, under the guard that python's datetime can carry
   the value                                                         - tie C09_temporal_spec_ok_model.
   DIFFERENTIAL TESTING ONLY (harness/c09.py suite `conformance`: rdflib against an oracle written in Python, no
   model, no theorem; C09_conformance_glue is bookkeeping): xsd:float / xsd:double outside the exact fragment of
   FloatModel.v (tie C09_double_spec_ok_model_partial covers INF, -INF, NaN, signed zero, integers below 2^53),
   the three duration types, xsd:language, xsd:anyURI, rdf:XMLLiteral, python float / timedelta / Duration / bytes
   values, gYear / gYearMonth lexicalisation, date/time forms of other ISO 8601 shapes.
   Open findings: F14b (C09_decimal_nan_refuted), F14f (bytes, conformance), F14g (C09_temporal_outside_guard_refuted
   and the duration part in conformance). *)
From Coq Require Import List NArith ZArith Bool.
Import ListNotations.
From RV Require Import Literal.Model Literal.Token Literal.Proofs Literal.Decimal Literal.Tie.
From RV Require Import Literal.BinaryModel Literal.BinaryProofs Literal.TemporalModel Literal.TemporalProofs.
From RV Require Import Literal.FloatModel Literal.FloatProofs.

(* ---------------- integer datatypes ---------------- *)

(* parse (print v) = Some v, and the printed form is in the XSD integer lexical space with value v *)
Theorem C09_int_roundtrip : forall z, py_int (print_z z) = Some z /\ xsd_int_lex (print_z z) = Some z.
Proof. intro z. split; [apply py_int_print|apply xsd_int_print]. Qed.
Print Assumptions C09_int_roundtrip.

(* every form of the XSD integer lexical space is read by python's int() with the XSD value *)
Theorem C09_int_valid_forms_read : forall l z, xsd_int_lex l = Some z -> py_int l = Some z.
Proof. exact py_int_xsd. Qed.
Print Assumptions C09_int_valid_forms_read.

(* for each of the 13 integer datatypes (rows of the reflected XSDToPython / _check_well_formed_types):
   every valid form is accepted, not flagged, gets the XSD value; the stored form and the normal form
   are valid with the same value; normalize() and construction-time normalisation are idempotent *)
Theorem C09_integer_types_faithful : forall d, is_int_dt d = true -> int_faithful d.
Proof. exact int_faithful_all. Qed.
Print Assumptions C09_integer_types_faithful.

Theorem C09_integer_faithful : int_faithful DInteger.
Proof. apply int_faithful_all. reflexivity. Qed.
Print Assumptions C09_integer_faithful.

Theorem C09_nonPositiveInteger_faithful : int_faithful DNonPositiveInteger.
Proof. apply int_faithful_all. reflexivity. Qed.
Print Assumptions C09_nonPositiveInteger_faithful.

Theorem C09_long_faithful : int_faithful DLong.
Proof. apply int_faithful_all. reflexivity. Qed.
Print Assumptions C09_long_faithful.

Theorem C09_nonNegativeInteger_faithful : int_faithful DNonNegativeInteger.
Proof. apply int_faithful_all. reflexivity. Qed.
Print Assumptions C09_nonNegativeInteger_faithful.

Theorem C09_negativeInteger_faithful : int_faithful DNegativeInteger.
Proof. apply int_faithful_all. reflexivity. Qed.
Print Assumptions C09_negativeInteger_faithful.

Theorem C09_int_faithful : int_faithful DInt.
Proof. apply int_faithful_all. reflexivity. Qed.
Print Assumptions C09_int_faithful.

Theorem C09_unsignedLong_faithful : int_faithful DUnsignedLong.
Proof. apply int_faithful_all. reflexivity. Qed.
Print Assumptions C09_unsignedLong_faithful.

Theorem C09_positiveInteger_faithful : int_faithful DPositiveInteger.
Proof. apply int_faithful_all. reflexivity. Qed.
Print Assumptions C09_positiveInteger_faithful.

Theorem C09_short_faithful : int_faithful DShort.
Proof. apply int_faithful_all. reflexivity. Qed.
Print Assumptions C09_short_faithful.

Theorem C09_unsignedInt_faithful : int_faithful DUnsignedInt.
Proof. apply int_faithful_all. reflexivity. Qed.
Print Assumptions C09_unsignedInt_faithful.

Theorem C09_byte_faithful : int_faithful DByte.
Proof. apply int_faithful_all. reflexivity. Qed.
Print Assumptions C09_byte_faithful.

Theorem C09_unsignedShort_faithful : int_faithful DUnsignedShort.
Proof. apply int_faithful_all. reflexivity. Qed.
Print Assumptions C09_unsignedShort_faithful.

Theorem C09_unsignedByte_faithful : int_faithful DUnsignedByte.
Proof. apply int_faithful_all. reflexivity. Qed.
Print Assumptions C09_unsignedByte_faithful.

(* the code's range checks are exactly the XSD value spaces except for xsd:long and xsd:unsignedLong,
   which it leaves unbounded; where they are exact, an out-of-range XSD integer is flagged *)
Theorem C09_int_checkers_vs_xsd_ranges :
  filter (fun d => is_int_dt d && negb (int_row_exact d)) all_dt = [DLong; DUnsignedLong]
  /\ (forall d l z norm, is_int_dt d = true -> int_row_exact d = true ->
        xsd_int_lex l = Some z -> in_range (xsd_range d) z = false -> l_ill (construct d l norm) = Some true).
Proof. split; [exact int_rows_exact|exact int_exact_flags]. Qed.
Print Assumptions C09_int_checkers_vs_xsd_ranges.

Theorem C09_int_construct_idempotent : forall d l, is_int_dt d = true ->
  l_lex (construct d (l_lex (construct d l true)) true) = l_lex (construct d l true)
  /\ l_val (construct d (l_lex (construct d l true)) true) = l_val (construct d l true).
Proof. exact int_construct_idempotent. Qed.
Print Assumptions C09_int_construct_idempotent.

(* ---------------- boolean ---------------- *)

Theorem C09_boolean_faithful :
  (forall b, parse_m DBoolean (fst (cast_python (VBool b))) = Some (VBool b)
             /\ xsd_value DBoolean (fst (cast_python (VBool b))) = Some (XBool b))
  /\ (forall l b norm, xsd_value DBoolean l = Some (XBool b) ->
        construct DBoolean l norm =
          {| l_lex := if norm then (if b then s_true else s_false) else l; l_ill := Some false; l_val := Some (VBool b) |}).
Proof. exact bool_faithful. Qed.
Print Assumptions C09_boolean_faithful.

(* ---------------- decimal ---------------- *)

(* Decimal(f"{d:f}") for every Decimal of the model (any exponent, -0, Infinity, NaN): python reads back its own
   output; what it reads prints the same again, and - for finite d - is numerically equal to d and identical to
   d when the exponent is <= 0 *)
Theorem C09_decimal_roundtrip :
  (forall d, py_decimal (fformat d) = Some (dec_reparse d) /\ fformat (dec_reparse d) = fformat d
             /\ dec_reparse (dec_reparse d) = dec_reparse d)
  /\ (forall neg c e, dec_eqb (DFin neg c e) (dec_reparse (DFin neg c e)) = true
                      /\ ((e <= 0)%Z -> dec_reparse (DFin neg c e) = DFin neg c e)).
Proof.
  split.
  - intro d. split; [apply py_decimal_print|split; [apply fformat_reparse|apply dec_reparse_idem]].
  - intros neg c e. split; [apply dec_eqb_reparse|apply dec_reparse_canonical].
Qed.
Print Assumptions C09_decimal_roundtrip.

(* every form of the XSD decimal lexical space is read by Decimal() with the XSD value m / 10^s *)
Theorem C09_decimal_valid_forms_read : forall l m s, xsd_dec_lex l = Some (m, s) ->
  exists neg c, py_decimal l = Some (DFin neg c (- Z.of_nat s)) /\ zsign neg c = m.
Proof. exact py_decimal_xsd. Qed.
Print Assumptions C09_decimal_valid_forms_read.

(* f"{d:f}" of a finite Decimal is in the XSD decimal lexical space and denotes coef * 10^exp *)
Theorem C09_decimal_print_valid : forall neg c e,
  xsd_value DDecimal (fformat (DFin neg c e)) =
    Some (if (0 <=? e)%Z then XNum (zsign neg c * 10 ^ e) O else XNum (zsign neg c) (Z.to_nat (- e)))
  /\ (forall xv, denote (VDec (DFin neg c e)) = Some xv -> lex_denotes DDecimal (fformat (DFin neg c e)) xv = true).
Proof. intros neg c e. split; [apply xsd_print_fin|intros xv H; apply dec_print_denotes; exact H]. Qed.
Print Assumptions C09_decimal_print_valid.

(* the pipeline: a valid xsd:decimal form is accepted, not flagged, gets the XSD value; the normalised form is
   valid with the same value; normalize() gives that form; re-reading it changes nothing; and construction-time
   normalisation is idempotent for every form whatsoever *)
Theorem C09_decimal_faithful :
  (forall l xv norm, xsd_value DDecimal l = Some xv ->
     exists neg c s, xv = XNum (zsign neg c) s /\
       let d := DFin neg c (- Z.of_nat s) in
       construct DDecimal l norm = {| l_lex := if norm then fformat d else l; l_ill := Some false; l_val := Some (VDec d) |}
       /\ denotes (Some (VDec d)) xv = true
       /\ xsd_value DDecimal (fformat d) = Some xv
       /\ normalize_m DDecimal (construct DDecimal l norm) = {| l_lex := fformat d; l_ill := None; l_val := Some (VDec d) |}
       /\ construct DDecimal (fformat d) true = {| l_lex := fformat d; l_ill := Some false; l_val := Some (VDec d) |})
  /\ (forall l, l_lex (construct DDecimal (l_lex (construct DDecimal l true)) true) = l_lex (construct DDecimal l true)).
Proof. split; [exact dec_pipeline|exact dec_construct_idempotent]. Qed.
Print Assumptions C09_decimal_faithful.

(* ---------------- plain, xsd:string, normalizedString, token ---------------- *)

Theorem C09_string_family_faithful : forall d, family_of d = FamStr -> str_faithful d.
Proof. exact str_faithful_all. Qed.
Print Assumptions C09_string_family_faithful.

(* token in particular: a valid token is kept, and whatever is offered the stored form is a valid token *)
Theorem C09_token_faithful :
  (forall l, xsd_token_ok l = true -> post DToken l = l)
  /\ (forall s, xsd_token_ok (post DToken s) = true)
  /\ (forall d s, post d (post d s) = post d s).
Proof. split; [exact post_token_valid|split; [exact post_token_ok|exact post_idem]]. Qed.
Print Assumptions C09_token_faithful.

(* ---------------- normalisation ---------------- *)

(* generic: from parse . print = id, normalisation is idempotent and keeps the value *)
Theorem C09_normalize_idempotent : forall (V : Type) (parse : str -> option V) (print : V -> str),
  (forall v, parse (print v) = Some v) ->
  forall l, g_normalize V parse print (g_normalize V parse print l) = g_normalize V parse print l
            /\ (g_value V parse l <> None -> g_value V parse (g_normalize V parse print l) = g_value V parse l).
Proof. exact g_normalize_idempotent. Qed.
Print Assumptions C09_normalize_idempotent.

(* Literal.normalize() twice = once, for every modelled datatype, every form, both flags *)
Theorem C09_normalize_method_idempotent : forall d l norm,
  normalize_m d (normalize_m d (construct d l norm)) = normalize_m d (construct d l norm).
Proof. exact normalize_m_idempotent. Qed.
Print Assumptions C09_normalize_method_idempotent.

(* ---------------- eq ---------------- *)

(* for literals of any two modelled datatypes built from valid forms whose value spaces XSD relates (numeric
   types among each other, a type with itself, plain with xsd:string): eq = equality of the XSD values;
   and whenever two literals are the same term, eq is True (decimals: built from valid forms) *)
Theorem C09_eq_vs_value :
  (forall d1 l1 n1 d2 l2 n2 x1 x2,
     xsd_value d1 l1 = Some x1 -> xsd_value d2 l2 = Some x2 -> comparable d1 d2 = true ->
     eq_m d1 (construct d1 l1 n1) d2 (construct d2 l2 n2) = eqres_of (xval_eqb x1 x2))
  /\ (forall d1 l1 n1 d2 l2 n2,
       term_eq d1 (construct d1 l1 n1) d2 (construct d2 l2 n2) = true ->
       eq_scope d1 l1 = true -> eq_scope d2 l2 = true ->
       eq_m d1 (construct d1 l1 n1) d2 (construct d2 l2 n2) = ETrue).
Proof.
  split; [exact ceq_value|].
  intros d1 l1 n1 d2 l2 n2 T S1 S2. unfold term_eq in T. apply andb_true_iff in T. destruct T as [Td Tl].
  apply dt_eqb_eq in Td. subst d2. apply ceq_same; assumption.
Qed.
Print Assumptions C09_eq_vs_value.

(* ---------------- the tie ---------------- *)

(* what the correspondence check evaluates on the implementation's answers is satisfied by the model on every
   MODELLED case: lexical forms of every datatype of Model.v, python values (wf excludes the placeholder VOther
   and the conformance-only cases), pairs; kf = 0 excludes Decimal NaN/Infinity values (F14b) *)
Theorem C09_spec_ok_model : forall c, wf c = true -> kf c = 0%N -> spec_ok c (model_obs c) = true.
Proof. exact spec_ok_model. Qed.
Print Assumptions C09_spec_ok_model.

(* bookkeeping for the conformance-only suite (differential testing against the oracle in harness/c09.py):
   outside the finding regions the expected flag word is 0.  No content about rdflib or XSD. *)
Theorem C09_conformance_glue : forall fam region, kf (CConf fam region) = 0%N ->
  spec_ok (CConf fam region) (model_obs (CConf fam region)) = true.
Proof. exact conf_glue. Qed.
Print Assumptions C09_conformance_glue.

(* readings of the checker *)
Theorem C09_spec_valid_form_reading : forall d l norm x n1 n2 re e same xv,
  spec_ok (CLex d l norm) (OLex x n1 n2 re e same) = true -> xsd_value d l = Some xv ->
  ill_ok d (l_ill x) false = true /\ denotes (l_val x) xv = true /\ lex_denotes d (l_lex x) xv = true
  /\ (norm = false -> l_lex x = l)
  /\ denotes (l_val n1) xv = true /\ lex_denotes d (l_lex n1) xv = true
  /\ denotes (l_val re) xv = true /\ lex_denotes d (l_lex re) xv = true
  /\ l_lex n2 = l_lex n1 /\ (norm = true -> l_lex re = l_lex x) /\ e = ETrue.
Proof. exact spec_ok_lex_valid_reading. Qed.
Print Assumptions C09_spec_valid_form_reading.

Theorem C09_spec_any_form_reading : forall d l norm x n1 n2 re e same,
  spec_ok (CLex d l norm) (OLex x n1 n2 re e same) = true ->
  l_lex n2 = l_lex n1 /\ (norm = true -> l_lex re = l_lex x)
  /\ (same = true -> eq_scope d l = true -> e = ETrue).
Proof. exact spec_ok_lex_any_reading. Qed.
Print Assumptions C09_spec_any_form_reading.

Theorem C09_spec_python_value_reading : forall v dr x back e xv,
  spec_ok (CPy v) (OPy dr x back e) = true -> denote v = Some xv ->
  let d := match dr with RDt d => d | _ => DPlain end in
  dtres_eqb dr (documented_dt v) = true /\ lex_denotes d (l_lex x) xv = true
  /\ denotes (l_val back) xv = true /\ ill_ok d (l_ill back) false = true /\ l_lex back = l_lex x /\ e = ETrue.
Proof. exact spec_ok_py_reading. Qed.
Print Assumptions C09_spec_python_value_reading.

Theorem C09_spec_eq_reading : forall d1 l1 n1 d2 l2 n2 same e x1 x2,
  spec_ok (CEq d1 l1 n1 d2 l2 n2) (OEq same e) = true ->
  (same = true -> eq_scope d1 l1 = true -> eq_scope d2 l2 = true -> e = ETrue)
  /\ (xsd_value d1 l1 = Some x1 -> xsd_value d2 l2 = Some x2 -> comparable d1 d2 = true ->
      e = eqres_of (xval_eqb x1 x2)).
Proof. exact spec_ok_eq_reading. Qed.
Print Assumptions C09_spec_eq_reading.

(* ---------------- the code as it is ---------------- *)

(* F14b: Decimal('NaN') becomes "NaN"^^xsd:decimal, which is not in the lexical space *)
Theorem C09_decimal_nan_refuted :
  dt_of_name (snd (cast_python (VDec (DNaN false)))) = RDt DDecimal
  /\ xsd_value DDecimal (fst (cast_python (VDec (DNaN false)))) = None.
Proof. exact decimal_nan_refuted. Qed.
Print Assumptions C09_decimal_nan_refuted.

(* not demanded by the property (it constrains valid forms only), recorded as documentation: forms outside the
   lexical space that the code accepts without the ill-typed flag *)
Theorem C09_invalid_forms_accepted_examples :
  (xsd_value DInteger [49; 95; 48]%N = None /\ l_ill (construct DInteger [49; 95; 48]%N true) = Some false)
  /\ (let l := [57; 50; 50; 51; 51; 55; 50; 48; 51; 54; 56; 53; 52; 55; 55; 53; 56; 48; 56]%N in
      xsd_value DLong l = None /\ l_ill (construct DLong l true) = Some false)
  /\ (xsd_value DDecimal [49; 101; 53]%N = None
      /\ l_lex (construct DDecimal [49; 101; 53]%N true) = [49; 48; 48; 48; 48; 48]%N).
Proof. exact invalid_forms_accepted_examples. Qed.
Print Assumptions C09_invalid_forms_accepted_examples.

(* ---------------- xsd:hexBinary, xsd:base64Binary (coq/Literal/BinaryModel.v) ---------------- *)

(* the codecs rdflib uses, against the XSD lexical spaces: every valid form is read with the XSD value *)
Theorem C09_binary_valid_forms_read :
  (forall l bs, xsd_hex l = Some bs -> unhex l = Some bs)
  /\ (forall l bs, xsd_b64 l = Some bs -> b64decode l = Some bs).
Proof. split; [exact unhex_xsd|exact b64decode_xsd]. Qed.
Print Assumptions C09_binary_valid_forms_read.

(* value -> form -> value is the identity for every byte string, and the form is in the lexical space *)
Theorem C09_binary_roundtrip :
  (forall bs, is_bytes bs = true -> unhex (hexlify bs) = Some bs /\ xsd_hex (hexlify bs) = Some bs)
  /\ (forall bs, is_bytes bs = true -> b64decode (b64encode bs) = Some bs /\ xsd_b64 (b64encode bs) = Some bs)
  /\ (forall l bs, unhex l = Some bs -> is_bytes bs = true)
  /\ (forall l bs, b64decode l = Some bs -> is_bytes bs = true).
Proof. split; [exact unhex_hexlify|split; [exact b64_encode_roundtrip|split; [exact unhex_bytes|exact b64decode_bytes]]]. Qed.
Print Assumptions C09_binary_roundtrip.

(* the pipeline with the reflected rows (converter, by-value checker, specific lexicaliser rule) and normalize()
   as repaired by d1e79be9: valid forms accepted unflagged with the XSD value, the normal form valid with the same
   value, normalize() and construction-time normalisation idempotent for every form *)
Theorem C09_hexBinary_faithful : bin_faithful BHex.
Proof. apply bin_faithful_all. Qed.
Print Assumptions C09_hexBinary_faithful.

Theorem C09_base64Binary_faithful : bin_faithful BB64.
Proof. apply bin_faithful_all. Qed.
Print Assumptions C09_base64Binary_faithful.

(* the tie for the binary suite: every case (lexical forms, valid or not, and pairs) *)
Theorem C09_binary_spec_ok_model : forall c, bspec_ok c (bmodel_obs c) = true.
Proof. exact bspec_ok_model. Qed.
Print Assumptions C09_binary_spec_ok_model.

(* ---------------- xsd:date, xsd:time, xsd:dateTime (coq/Literal/TemporalModel.v) ---------------- *)

(* fromisoformat reads back what isoformat() writes, for every date / time / datetime python can build
   (years 1..9999, microseconds, any whole-minute offset below 24 h) *)
Theorem C09_temporal_roundtrip : forall v, tval_pwf v = true -> py_parse (tdt_of v) (py_print v) = Some v.
Proof. exact py_roundtrip. Qed.
Print Assumptions C09_temporal_roundtrip.

(* for every well-formed value whose offset XSD can express (at most 14:00): the isoformat is in the XSD lexical
   space, inside the guard, denotes exactly that value; the literal built from it is not flagged, has that value,
   and normalize() / re-reading change nothing *)
Theorem C09_temporal_faithful : temporal_faithful.
Proof. exact temporal_faithful_all. Qed.
Print Assumptions C09_temporal_faithful.

(* normalize() twice = once for every form of the shape *)
Theorem C09_temporal_normalize_idempotent : forall d l norm,
  tnormalize d (tnormalize d (tconstruct d l norm)) = tnormalize d (tconstruct d l norm).
Proof. exact tnormalize_idem. Qed.
Print Assumptions C09_temporal_normalize_idempotent.

(* every form of the XSD lexical space inside the guard (python's datetime can carry the value: year 1..9999,
   hour < 24, at most six significant fraction digits, no zone on a date) is read with exactly the XSD value -
   canonical or not: Z, -00:00, short or zero-padded fractions ... *)
Theorem C09_temporal_valid_forms_read : forall d l xv, xsd_tvalue d l = Some xv -> in_guard xv = true ->
  exists v, py_parse d l = Some v /\ tdenotes v xv = true /\ tval_wf v = true /\ tdt_of v = d.
Proof. exact valid_guard_parse. Qed.
Print Assumptions C09_temporal_valid_forms_read.

(* construction-time normalisation is idempotent for every form of the shape, valid or not *)
Theorem C09_temporal_construct_idempotent : forall d l,
  t_lex (tconstruct d (t_lex (tconstruct d l true)) true) = t_lex (tconstruct d l true).
Proof. exact tconstruct_idem. Qed.
Print Assumptions C09_temporal_construct_idempotent.

(* the tie for the temporal suite: every lexical form of the shape (valid in the guard: faithful; anything else:
   the universal clauses) and every well-formed python value; tkf <> 0 exactly on valid forms outside the guard (F14g) *)
Theorem C09_temporal_spec_ok_model : forall c, twf c = true -> tkf c = 0%N -> tspec_ok c (tmodel_obs c) = true.
Proof. exact tspec_ok_model. Qed.
Print Assumptions C09_temporal_spec_ok_model.

(* F14g in the model: 24:00:00 flagged, the zone of a date lost, a 7th fraction digit dropped *)
Theorem C09_temporal_outside_guard_refuted :
  (let l := [50;48;50;48;45;48;49;45;48;49;84;50;52;58;48;48;58;48;48]%N in
   xsd_tvalue TDateTime l <> None /\ t_ill (tconstruct TDateTime l true) = Some true)
  /\ (let l := [50;48;50;48;45;48;49;45;48;49;90]%N in
      xsd_tvalue TDate l = Some (XDate 2020 1 1 (Some 0%Z))
      /\ t_lex (tconstruct TDate l true) = [50;48;50;48;45;48;49;45;48;49]%N
      /\ tval_is (t_val (tconstruct TDate l true)) (XDate 2020 1 1 (Some 0%Z)) = false)
  /\ (let l := [49;50;58;48;48;58;48;48;46;49;50;51;52;53;54;55]%N in
      xsd_tvalue TTime l <> None /\ t_val (tconstruct TTime l true) = Some (VTime 12 0 0 123456 None)).
Proof. exact temporal_outside_guard_refuted. Qed.
Print Assumptions C09_temporal_outside_guard_refuted.

(* ---------------- xsd:double / xsd:float, the exact fragment (coq/Literal/FloatModel.v) ---------------- *)

(* INF, -INF, NaN, signed zero and integer-valued doubles below 2^53: float() reads back what _float_lexical writes,
   the written form is in the XSD lexical space and denotes the value; every valid form of the fragment
   (optional sign, digits, optionally a point and zeros, optionally a non-negative exponent; value below 2^53;
   or INF, +INF, -INF, NaN) is read with exactly the XSD
   value, the sign of zero included; construction, normalize() and re-reading *)
Theorem C09_double_faithful_partial : double_faithful.
Proof. exact double_faithful_all. Qed.
Print Assumptions C09_double_faithful_partial.

(* python's == on these values is XSD equality of doubles (NaN <> NaN, +0 = -0) *)
Theorem C09_double_eq_vs_value_partial : forall a b x y,
  fdenotes a x = true -> fdenotes b y = true -> fval_eq a b = xf_eqb x y.
Proof. exact fval_eq_xsd. Qed.
Print Assumptions C09_double_eq_vs_value_partial.

(* the tie for the double suite, on the fragment (fwf: the lexical forms are in the fragment, python values are
   special or integer-valued below 2^53).  Missing: every other double - fractions, negative exponents, values that
   need rounding, repr()'s shortest-digits printing - stays differential testing (suite conformance) *)
Theorem C09_double_spec_ok_model_partial : forall c, fwf c = true -> fspec_ok c (fmodel_obs c) = true.
Proof. exact fspec_ok_model_partial. Qed.
Print Assumptions C09_double_spec_ok_model_partial.

(* non-vacuity: valid non-canonical forms are in scope, the checker rejects wrong answers *)
Example C09_nonvacuous :
  let l := [43; 48; 49; 50; 55]%N in     (* "+0127" *)
  let c := CLex DByte l true in
  let t := [160; 120]%N in               (* NBSP x: a valid token *)
  let dl := [45; 46; 53; 48]%N in        (* "-.50" *)
  wf c = true /\ kf c = 0%N /\ xsd_value DByte l = Some (XNum 127 O)
  /\ l_lex (construct DByte l true) = [49; 50; 55]%N
  /\ spec_ok c (model_obs c) = true
  /\ spec_ok c (model_obs (CLex DByte [49; 50; 56]%N true)) = false
  /\ xsd_value DToken t = Some (XStr t) /\ l_lex (construct DToken t true) = t
  /\ xsd_value DDecimal dl = Some (XNum (-50) 2)
  /\ l_lex (construct DDecimal dl true) = [45; 48; 46; 53; 48]%N
  /\ spec_ok (CLex DDecimal dl true) (model_obs (CLex DDecimal [45; 46; 53; 49]%N true)) = false.
Proof. vm_compute. repeat split. Qed.
