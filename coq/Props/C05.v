(* C05 - Parsers read every legal spelling of a graph; N-Triples/N-Quads output is valid.
   Property theorems only; proofs are in Grammar/Proofs.v (writer vs. strict W3C reader)
   and Grammar/ReaderProofs.v (rdflib's line reader).

   [strict_parse]/[strict_doc] is the W3C N-Triples/N-Quads EBNF transcribed in
   Grammar/Model.v Part A; [nt_row]/[nq_row]/[model_doc] is rdflib's writer
   (Part B); [wf_triple] is what rdflib itself accepts when serialising, with
   absolute IRIs; [row_kf] names the one region left where rdflib's own checks are
   narrower than the grammar (finding C05c: blank node identifiers that are not
   BLANK_NODE_LABELs); C05a, C05b, C05d have been repaired in the code and their
   trigger hypotheses are gone. *)
From RV Require Import Grammar.Model Grammar.Proofs Grammar.Reader Grammar.ReaderProofs Grammar.ReaderDoc.
From RV Require Import Grammar.Resolve Grammar.ResolveProofs Grammar.TurtleStr Grammar.TurtleStrProofs.
From RV Require Import Grammar.TurtleIri Grammar.TurtleIriProofs Grammar.TurtlePname Grammar.TurtlePnameProofs.
Local Open Scope N_scope.

(* "Conversely rdflib's N-Triples output is accepted by a strict implementation of
   the W3C grammar and means the same graph there": one triple, one line. *)
Theorem C05_nt_output_valid : forall t g,
  wf_triple t = true -> row_kf false (t, g) = 0 ->
  exists l, nt_row t = Some l /\ strict_parse false l = Some (t, None).
Proof.
  intros t g Hwf Hkf.
  destruct (row_valid false (t, g)) as [l [Hl Hp]]; [unfold wf_row; cbn; rewrite Hwf; reflexivity|exact Hkf|].
  exists l. split; [exact Hl|exact Hp].
Qed.
Print Assumptions C05_nt_output_valid.

(* N-Quads, graph named by an IRI or a blank node, or the default graph *)
Theorem C05_nq_output_valid : forall t g,
  wf_triple t = true -> wf_node g = true -> row_kf true (t, g) = 0 ->
  exists l, nq_row t g = Some l /\
            strict_parse true l = Some (t, if is_default_id g then None else Some g).
Proof.
  intros t g Hwf Hg Hkf.
  destruct (row_valid true (t, g)) as [l [Hl Hp]]; [unfold wf_row; cbn; rewrite Hwf, Hg; reflexivity|exact Hkf|].
  exists l. split; [exact Hl|]. rewrite Hp. unfold expected. cbn. destruct (is_default_id g); reflexivity.
Qed.
Print Assumptions C05_nq_output_valid.

(* whole documents as NTSerializer.serialize / NQuadsSerializer.serialize write them,
   any number of rows in any order *)
Theorem C05_document_valid : forall nq rows,
  (forall r, In r rows -> wf_row nq r = true /\ row_kf nq r = 0) ->
  exists d, model_doc nq (map (model_row nq) rows) = Some d /\
            strict_doc nq d = Some (map (expected nq) rows).
Proof. exact doc_valid. Qed.
Print Assumptions C05_document_valid.

(* the statement without the trigger hypothesis is false for the code as it is: *)
Theorem C05_nt_output_valid_refuted :
  ~ (forall t, wf_triple t = true ->
       exists l, nt_row t = Some l /\ strict_parse false l = Some (t, None)).
Proof.
  intro H. destruct w_bn_refutes as [[Hwf [l [Hl Hn]]] _].
  destruct (H _ Hwf) as [l' [Hl' Hp]]. rewrite Hl in Hl'. inversion Hl'; subst. contradiction.
Qed.
Print Assumptions C05_nt_output_valid_refuted.

(* the witness of the remaining finding, inside its trigger region *)
Theorem C05c_bnode_label_refuted : refutes w_bn /\ row_kf false (w_bn, Iri []) = 3.
Proof. exact w_bn_refutes. Qed.
Print Assumptions C05c_bnode_label_refuted.

(* with no blank node at all there is no hypothesis beyond well-formedness *)
Theorem C05_nt_output_valid_ground : forall s p o,
  wf_triple (Iri s, p, o) = true -> (forall b, o <> Bn b) ->
  exists l, nt_row (Iri s, p, o) = Some l /\ strict_parse false l = Some ((Iri s, p, o), None).
Proof.
  intros s p o Hwf Hb. apply (C05_nt_output_valid _ (Iri [])); [exact Hwf|].
  destruct (wf_triple_parts _ _ _ Hwf) as [_ [[x [Ep _]] _]]. subst p.
  unfold row_kf. cbn [fst snd].
  destruct o as [y|y|y k']; cbn [term_kf]; try reflexivity. exfalso. eapply Hb. reflexivity.
Qed.
Print Assumptions C05_nt_output_valid_ground.

(* the former witnesses of C05a (control character in an IRI), C05b (datatype IRI never checked) and C05d
   (language tag with a final line feed) are refused by the repaired writer / constructor *)
Theorem C05_repaired_witnesses_refused :
  nt_row w_ctrl = None /\ nt_row w_dt = None /\ nt_row w_dt2 = None /\ nt_row w_lang = None.
Proof. exact repaired_witnesses_refused. Qed.
Print Assumptions C05_repaired_witnesses_refused.

(* what the correspondence check evaluates on the implementation's answers is
   satisfied by the model on every case outside the triggers (well-formedness is
   a guard inside the checker: rows that are not well-formed are not constrained) *)
Theorem C05_spec_ok_model : forall c, kf c = 0 -> spec_ok c (model_obs c) = true.
Proof. exact spec_ok_model. Qed.
Print Assumptions C05_spec_ok_model.

(* Prop-level readings of the checker *)
Theorem C05_row_ok_reading : forall nq r o,
  row_ok nq r o = true <->
  (row_bad_iri nq r = true -> o = None) /\
  (wf_row nq r = true -> exists l, o = Some l /\ strict_parse nq l = Some (expected nq r)).
Proof. exact row_ok_reading. Qed.
Print Assumptions C05_row_ok_reading.
Theorem C05_rows_ok_reading : forall nq rs os,
  rows_ok nq rs os = true <->
  (length rs = length os /\
   forall i r o, nth_error rs i = Some r -> nth_error os i = Some o -> row_ok nq r o = true).
Proof. exact rows_ok_reading. Qed.
Print Assumptions C05_rows_ok_reading.
Theorem C05_doc_ok_reading : forall nq rs d,
  doc_ok nq rs d = true <->
  ((forall r, In r rs -> wf_row nq r = true) ->
   exists t qs, d = Some t /\ strict_doc nq t = Some qs /\
                forall q, In q qs <-> In q (map (expected nq) rs))
  /\ (forall t r, d = Some t -> In r rs -> wf_row nq r = true -> row_in_doc nq r t = true).
Proof. exact doc_ok_reading. Qed.
Print Assumptions C05_doc_ok_reading.
Theorem C05_quad_eqb_reading : forall a b, quad_eqb a b = true <-> a = b.
Proof. exact quad_eqb_eq. Qed.
Print Assumptions C05_quad_eqb_reading.

(* _quote_encode's four chained str.replace calls are one left-to-right escaping pass *)
Theorem C05_quote_encode_one_pass : forall s, quote_encode s = 34 :: flat_map esc s ++ [34].
Proof. exact quote_encode_one_pass. Qed.
Print Assumptions C05_quote_encode_one_pass.

(* _is_valid_uri (table reflected from the source on every run) is exactly enough for the
   IRIREF production; no control-character hypothesis any more (ffbc1d81) *)
Theorem C05_valid_uri_is_iriref : forall s,
  valid_uri s = true -> forallb iri_plain s = true.
Proof. exact valid_uri_iri_ok. Qed.
Print Assumptions C05_valid_uri_is_iriref.
(* and the converse: _is_valid_uri refuses no IRI that the IRIREF production allows - [wf_triple] is defined by the
   grammar (iri_plain), not by rdflib's own acceptance test, so an over-strict table breaks the writer theorems *)
Theorem C05_iriref_is_valid_uri : forall s, forallb iri_plain s = true -> valid_uri s = true.
Proof. exact iri_ok_valid_uri. Qed.
Print Assumptions C05_iriref_is_valid_uri.

(* ---------------------------------------------------------------- the line reader (first half of the property)
   The reader model of Grammar/Reader.v (W3CNTriplesParser / NQuadsParser.parseline with the module's regular
   expressions, unquote = decodeUnicodeEscape) is tied to the source by the correspondence suite "ntread" and by the
   pinned regular expressions.  Completeness: every line the W3C grammar accepts as one statement - whatever white
   space, comment, ECHAR / \u / \U spelling its author chose - is read by rdflib's reader (as repaired by 4cbe7459
   and 4d2427e4) to the same statement, outside the regions of the two open reader findings:
     C05f a blank node label with a non-ASCII character,
     C05h an IRIREF none of whose colons is written as such   ([line_kf nq l = 0]).
   Blank nodes keep their document labels in the model (the harness maps rdflib's fresh nodes back through
   bnode_context), so "up to blank node relabelling" is equality here.  A line is what readline() returns: no CR, no LF.
   The same for whole documents is C05_nt_reads_legal_document below. *)
Theorem C05_nt_reads_legal : forall nq l q,
  no_eol l = true -> strict_parse nq l = Some q -> line_kf nq l = 0 ->
  rd_parseline nq l = Some (Some q).
Proof. exact reads_legal_line. Qed.
Print Assumptions C05_nt_reads_legal.

(* whole documents: readline() cuts the text at every CR and LF (CR LF gives one extra empty piece) and drops an
   unterminated last piece that is empty or white space; parseline() reads each piece.  Every document the grammar
   accepts - statements, blank lines, comment lines, LF / CR / CRLF / runs of them, with or without a final end of
   line - is read to the same list of statements, in the same order, when no line is in the region of C05f / C05h.
   (The 2048-character buffering of readline is not modelled.) *)
Theorem C05_nt_reads_legal_document : forall nq d qs,
  strict_doc nq d = Some qs -> doc_kf nq d = 0 -> rd_doc nq d = Some qs.
Proof. exact reads_legal_doc. Qed.
Print Assumptions C05_nt_reads_legal_document.

(* in the vocabulary of the correspondence suite "ntread": outside the triggers the reader model returns what the
   strict reader says the document means *)
Theorem C05_reader_model_meets_spec : forall c qs,
  strict_doc (r_nq c) (r_doc c) = Some qs -> rd_kf c = 0 -> rd_model_obs c = Some qs.
Proof. intros c qs H K. unfold rd_model_obs. apply reads_legal_doc; [exact H|exact K]. Qed.
Print Assumptions C05_reader_model_meets_spec.

(* the same, stated on the grammar's statement production: anything may follow the final dot that the grammar
   allows there (white space and a comment) *)
Theorem C05_nt_reads_legal_statement : forall nq l q rest,
  p_statement nq l = Some (q, rest) -> skip_comment rest = [] -> line_kf nq l = 0 ->
  rd_parseline nq l = Some (Some q).
Proof. exact reads_legal_statement. Qed.
Print Assumptions C05_nt_reads_legal_statement.

(* term level: every spelling of an IRIREF / a string literal body that the grammar accepts denotes, for the
   reader's regular expression + unquote, what it denotes in the grammar *)
Theorem C05_iriref_spellings : forall l v r, p_iriref l = Some (v, r) -> iri_raw_kf (raw_of l r) = 0 ->
  exists raw, rd_uriref_raw l = Some (raw, r) /\ unquote raw = Some v.
Proof. exact p_iriref_rd. Qed.
Print Assumptions C05_iriref_spellings.
Theorem C05_string_spellings : forall n l lex r1, str_body n l = Some (lex, r1) ->
  exists raw, l = raw ++ 34 :: r1 /\
    (forall m, (length l < m)%nat -> lit_scan m l = Some (raw, r1)) /\
    (forall m, (length raw <= m)%nat -> rd_unquote m raw = Some lex).
Proof. exact str_body_raw. Qed.
Print Assumptions C05_string_spellings.

(* non-vacuity: an N-Quads line without any white space, with ECHAR, \u and \U escapes in the literal and in the
   IRIs, a language tag, a blank node graph label and a comment is in scope and read *)
Example C05_reads_legal_nonvacuous :
  let l := [95;58;115;46;120; 60;97;58;92;117;48;48;55;48;62; 34;92;110;92;117;48;48;101;57;92;85;48;48;48;49;70;54;48;48;34;64;101;110;45;85;83;
            95;58;103; 46; 35;32;99] in
  no_eol l = true /\ line_kf true l = 0 /\
  strict_parse true l = Some ((Bn [115;46;120], Iri [97;58;112], Lit [10;233;128512] (LLang [101;110;45;85;83])), Some (Bn [103])) /\
  rd_parseline true l = Some (strict_parse true l).
Proof. vm_compute. repeat split; reflexivity. Qed.

Theorem C05_reader_regexes_pinned :
  nt_uriref_src = [60; 40; 91; 94; 58; 93; 43; 58; 91; 94; 92; 120; 48; 48; 45; 92; 120; 50; 48; 34; 60; 62; 93; 42; 41; 62]
  /\ nt_r_wspace_src = [91; 32; 92; 116; 93; 42]
  /\ nt_r_wspaces_src = [91; 32; 92; 116; 93; 43]
  /\ nt_validate = false.
Proof.
  split; [exact nt_uriref_src_pinned|split; [exact nt_r_wspace_src_pinned|split; [exact nt_r_wspaces_src_pinned|exact nt_validate_off]]].
Qed.
Print Assumptions C05_reader_regexes_pinned.
Theorem C05_reader_echar_table_pinned : forall e, rd_echar e = echar e.
Proof. exact rd_echar_eq. Qed.
Print Assumptions C05_reader_echar_table_pinned.

(* the reader is NOT complete on the legal language: witness for finding C05f *)
Theorem C05_nt_reads_legal_refuted : exists d qs,
  strict_doc false d = Some qs /\ rd_doc false d = None.
Proof.
  exists [95;58;233;32;60;97;58;112;62;32;60;97;58;111;62;32;46]. eexists.
  split; [vm_compute; reflexivity|vm_compute; reflexivity].
Qed.
Print Assumptions C05_nt_reads_legal_refuted.

(* ---------------------------------------------------------------- relative IRI references (Turtle / TriG / N3 readers)
   [m_join] is notation3.join with _uri_split, _remove_dot_segments, splitFragP as in the source (Grammar/Resolve.v
   Part M, tied by suite "join"); [rfc_resolve] is RFC 3986 section 5.2 written independently (Part S: components
   by cutting at the first '#', '?', ':'; 5.2.2 transform; 5.2.3 merge; 5.2.4 remove_dot_segments on two string
   buffers; 5.3 recomposition); [rdf_resolve] leaves a reference that has a scheme as it is (RDF resolves relative
   references only).  [base_ok] is the well-formedness of the base IRI: it has a scheme (RFC 3986 5.2.1) and at most one '#'
   (RFC 3986 3.5: a fragment cannot contain '#'; a base with two is not a legal IRI).  [hierarchical]: a '/' follows the
   scheme's colon - join refuses other bases with ValueError (documented behaviour) unless the reference is a
   same-document reference. *)
Theorem C05_join_is_rfc3986 : forall base ref,
  base_ok base = true -> (hierarchical base || same_document ref) = true ->
  exists t, rdf_resolve base ref = Some t /\ m_join base ref = JOk t.
Proof. exact join_is_rfc3986. Qed.
Print Assumptions C05_join_is_rfc3986.

(* the regular expression of RFC 3986 appendix B (as the scanner rdflib's pattern amounts to) finds the components
   that cutting at the first '#', the first '?' before it, the first ':' (no '/' before it) and "//" finds *)
Theorem C05_uri_split_is_appendix_b : forall u, m_split u = s_split u.
Proof. exact split_eq. Qed.
Print Assumptions C05_uri_split_is_appendix_b.

(* _remove_dot_segments ends within len(path) rounds and its list of segments, joined, is the output buffer of
   RFC 3986 5.2.4 *)
Theorem C05_remove_dot_segments_is_5_2_4 : forall p, exists r, m_rds p = Some r /\ s_rds p = Some r.
Proof. exact rds_eq. Qed.
Print Assumptions C05_remove_dot_segments_is_5_2_4.

Theorem C05_join_spec_ok_model : forall c, j_spec_ok c (j_model c) = true.
Proof. exact j_spec_ok_model. Qed.
Print Assumptions C05_join_spec_ok_model.

(* why base_ok (well-formedness of the base, not a finding trigger) asks for at most one '#': a base with two '#' is
   not a legal IRI (RFC 3986 3.5); on it join cuts a same-document reference's base at the LAST '#' *)
Theorem C05_join_illegal_base_refuted : exists base ref t,
  is_none (c_scheme (s_split base)) = false /\ hierarchical base = true /\
  rdf_resolve base ref = Some t /\ m_join base ref <> JOk t.
Proof. exact join_two_hashes_refuted. Qed.
Print Assumptions C05_join_illegal_base_refuted.

(* RFC 3986 section 5.4: all 23 normal and 18 abnormal examples, base http://a/b/c/d;p?q, for the specification and
   for the model of rdflib's code *)
Definition rfc54_base : str := [104;116;116;112;58;47;47;97;47;98;47;99;47;100;59;112;63;113].
Definition rfc54_examples : list (str * str) :=
    [([103; 58; 104], [103; 58; 104]);
     ([103], [104; 116; 116; 112; 58; 47; 47; 97; 47; 98; 47; 99; 47; 103]);
     ([46; 47; 103], [104; 116; 116; 112; 58; 47; 47; 97; 47; 98; 47; 99; 47; 103]);
     ([103; 47], [104; 116; 116; 112; 58; 47; 47; 97; 47; 98; 47; 99; 47; 103; 47]);
     ([47; 103], [104; 116; 116; 112; 58; 47; 47; 97; 47; 103]);
     ([47; 47; 103], [104; 116; 116; 112; 58; 47; 47; 103]);
     ([63; 121], [104; 116; 116; 112; 58; 47; 47; 97; 47; 98; 47; 99; 47; 100; 59; 112; 63; 121]);
     ([103; 63; 121], [104; 116; 116; 112; 58; 47; 47; 97; 47; 98; 47; 99; 47; 103; 63; 121]);
     ([35; 115], [104; 116; 116; 112; 58; 47; 47; 97; 47; 98; 47; 99; 47; 100; 59; 112; 63; 113; 35; 115]);
     ([103; 35; 115], [104; 116; 116; 112; 58; 47; 47; 97; 47; 98; 47; 99; 47; 103; 35; 115]);
     ([103; 63; 121; 35; 115], [104; 116; 116; 112; 58; 47; 47; 97; 47; 98; 47; 99; 47; 103; 63; 121; 35; 115]);
     ([59; 120], [104; 116; 116; 112; 58; 47; 47; 97; 47; 98; 47; 99; 47; 59; 120]);
     ([103; 59; 120], [104; 116; 116; 112; 58; 47; 47; 97; 47; 98; 47; 99; 47; 103; 59; 120]);
     ([103; 59; 120; 63; 121; 35; 115], [104; 116; 116; 112; 58; 47; 47; 97; 47; 98; 47; 99; 47; 103; 59; 120; 63; 121; 35; 115]);
     ([], [104; 116; 116; 112; 58; 47; 47; 97; 47; 98; 47; 99; 47; 100; 59; 112; 63; 113]);
     ([46], [104; 116; 116; 112; 58; 47; 47; 97; 47; 98; 47; 99; 47]);
     ([46; 47], [104; 116; 116; 112; 58; 47; 47; 97; 47; 98; 47; 99; 47]);
     ([46; 46], [104; 116; 116; 112; 58; 47; 47; 97; 47; 98; 47]);
     ([46; 46; 47], [104; 116; 116; 112; 58; 47; 47; 97; 47; 98; 47]);
     ([46; 46; 47; 103], [104; 116; 116; 112; 58; 47; 47; 97; 47; 98; 47; 103]);
     ([46; 46; 47; 46; 46], [104; 116; 116; 112; 58; 47; 47; 97; 47]);
     ([46; 46; 47; 46; 46; 47], [104; 116; 116; 112; 58; 47; 47; 97; 47]);
     ([46; 46; 47; 46; 46; 47; 103], [104; 116; 116; 112; 58; 47; 47; 97; 47; 103]);
     ([46; 46; 47; 46; 46; 47; 46; 46; 47; 103], [104; 116; 116; 112; 58; 47; 47; 97; 47; 103]);
     ([46; 46; 47; 46; 46; 47; 46; 46; 47; 46; 46; 47; 103], [104; 116; 116; 112; 58; 47; 47; 97; 47; 103]);
     ([47; 46; 47; 103], [104; 116; 116; 112; 58; 47; 47; 97; 47; 103]);
     ([47; 46; 46; 47; 103], [104; 116; 116; 112; 58; 47; 47; 97; 47; 103]);
     ([103; 46], [104; 116; 116; 112; 58; 47; 47; 97; 47; 98; 47; 99; 47; 103; 46]);
     ([46; 103], [104; 116; 116; 112; 58; 47; 47; 97; 47; 98; 47; 99; 47; 46; 103]);
     ([103; 46; 46], [104; 116; 116; 112; 58; 47; 47; 97; 47; 98; 47; 99; 47; 103; 46; 46]);
     ([46; 46; 103], [104; 116; 116; 112; 58; 47; 47; 97; 47; 98; 47; 99; 47; 46; 46; 103]);
     ([46; 47; 46; 46; 47; 103], [104; 116; 116; 112; 58; 47; 47; 97; 47; 98; 47; 103]);
     ([46; 47; 103; 47; 46], [104; 116; 116; 112; 58; 47; 47; 97; 47; 98; 47; 99; 47; 103; 47]);
     ([103; 47; 46; 47; 104], [104; 116; 116; 112; 58; 47; 47; 97; 47; 98; 47; 99; 47; 103; 47; 104]);
     ([103; 47; 46; 46; 47; 104], [104; 116; 116; 112; 58; 47; 47; 97; 47; 98; 47; 99; 47; 104]);
     ([103; 59; 120; 61; 49; 47; 46; 47; 121], [104; 116; 116; 112; 58; 47; 47; 97; 47; 98; 47; 99; 47; 103; 59; 120; 61; 49; 47; 121]);
     ([103; 59; 120; 61; 49; 47; 46; 46; 47; 121], [104; 116; 116; 112; 58; 47; 47; 97; 47; 98; 47; 99; 47; 121]);
     ([103; 63; 121; 47; 46; 47; 120], [104; 116; 116; 112; 58; 47; 47; 97; 47; 98; 47; 99; 47; 103; 63; 121; 47; 46; 47; 120]);
     ([103; 63; 121; 47; 46; 46; 47; 120], [104; 116; 116; 112; 58; 47; 47; 97; 47; 98; 47; 99; 47; 103; 63; 121; 47; 46; 46; 47; 120]);
     ([103; 35; 115; 47; 46; 47; 120], [104; 116; 116; 112; 58; 47; 47; 97; 47; 98; 47; 99; 47; 103; 35; 115; 47; 46; 47; 120]);
     ([103; 35; 115; 47; 46; 46; 47; 120], [104; 116; 116; 112; 58; 47; 47; 97; 47; 98; 47; 99; 47; 103; 35; 115; 47; 46; 46; 47; 120])].
Example C05_rfc3986_5_4_examples :
  length rfc54_examples = 41%nat /\
  forallb (fun e => match rdf_resolve rfc54_base (fst e) with Some t => str_eqb t (snd e) | None => false end) rfc54_examples = true /\
  forallb (fun e => match m_join rfc54_base (fst e) with JOk t => str_eqb t (snd e) | _ => false end) rfc54_examples = true.
Proof. vm_compute. repeat split; reflexivity. Qed.

(* ---------------------------------------------------------------- Turtle term level: string literals
   [strconst] is SinkParser.strconst of notation3.py with uEscape / UEscape (Grammar/TurtleStr.v Part M, tied by suite
   "tstring", called directly and through Graph.parse); [t_string] is the Turtle 1.1 grammar: productions [22] [23]
   (short, double and single quote) and [24] [25] (long), ECHAR, UCHAR, with their denotation.  Every legal spelling
   of a string - whichever of the four quotings, any character raw, as ECHAR, as \u or \U escape, raw line ends and
   one or two raw quotes inside the long forms - is read to the string it denotes.  For the long forms what follows
   the closing delimiter must not begin with the quote character again (the grammar's longest-match reading of four
   or more quotes; strconst takes up to two of them into the string). *)
Theorem C05_turtle_string_forms : forall q long l v rest, quote_char q ->
  t_string q long l = Some (v, rest) -> (long = true -> starts_with q rest = false) ->
  strconst q long l = Some (v, rest).
Proof. exact strconst_reads_legal. Qed.
Print Assumptions C05_turtle_string_forms.

Theorem C05_turtle_string_spec_ok_model : forall c, quote_char (s_q c) -> s_spec_ok c (s_model c) = true.
Proof. exact s_spec_ok_model. Qed.
Print Assumptions C05_turtle_string_spec_ok_model.

(* non-vacuity: a, a raw quote, b, LF, two raw quotes, x, the ECHAR for TAB, a u-escape and a U-escape in a long double-quoted string *)
Example C05_turtle_string_nonvacuous :
  let l := [97;34;98;10;34;34;120;92;116;92;117;48;48;101;57;92;85;48;48;48;49;70;54;48;48;34;34;34;32;46] in
  t_string 34 true l = Some ([97;34;98;10;34;34;120;9;233;128512], [32;46]) /\ strconst 34 true l = t_string 34 true l.
Proof. vm_compute. split; reflexivity. Qed.

(* ---------------------------------------------------------------- Turtle term level: IRIREF
   [n3_iriref] is the '<' branch of SinkParser.uri_ref2: cut at the first '>', substitute every \U escape, THEN every
   \u escape (two passes), join with the base, the trailing-'#' patch (Grammar/TurtleIri.v, tied by suite "tterm").
   [iri_body] is the Turtle production [18] IRIREF with UCHAR and its denotation.  _partial: of the Turtle terminals
   this covers IRIREF (and, above, the four string forms); prefixed names (PNAME_NS / PNAME_LN with PN_LOCAL escapes:
   SinkParser.qname), INTEGER / DECIMAL / DOUBLE, the LANGTAG after a string and BLANK_NODE_LABEL at Turtle level are
   NOT modelled (differential testing by suite "spell").
   Hypotheses: the denotation contains no backslash (an IRI with a backslash is not a legal IRI; exactly there the two
   passes would differ from the grammar's single reading: a \U escape denoting a backslash in front of uXXXX), and the
   base is well-formed and hierarchical as in C05_join_is_rfc3986. *)
Theorem C05_turtle_term_forms_partial : forall b l v r, b <> [] ->
  iri_body (S (length l)) l = Some (v, r) -> memN BSL v = false ->
  base_ok b = true -> (hierarchical b || same_document v) = true ->
  exists t, rdf_resolve b v = Some t /\ n3_iriref (Some b) l = Some (t, r).
Proof. exact iriref_read. Qed.
Print Assumptions C05_turtle_term_forms_partial.

(* the lemma behind it: on every legal IRIREF that denotes no backslash, the two substitution passes compute the
   grammar's denotation *)
Theorem C05_iriref_two_pass_unescape : forall n l v r, iri_body n l = Some (v, r) -> memN BSL v = false ->
  exists raw, l = raw ++ 62 :: r /\ span (fun c => negb (c =? 62)) l = (raw, 62 :: r) /\ two_pass raw = Some v.
Proof. exact two_pass_is_denotation. Qed.
Print Assumptions C05_iriref_two_pass_unescape.

Theorem C05_turtle_iriref_spec_ok_model : forall c, i_spec_ok c (i_model c) = true.
Proof. exact i_spec_ok_model. Qed.
Print Assumptions C05_turtle_iriref_spec_ok_model.

(* where the two passes differ from the grammar (illegal IRI: it contains a backslash) *)
Example C05_iriref_two_pass_differs_on_backslash :
  let l := [104;58;92;85;48;48;48;48;48;48;53;67;117;48;48;52;49;62] in      (* h: \U0000005C u0041 > *)
  iri_body 20 l = Some ([104;58;92;117;48;48;52;49], []) /\ two_pass [104;58;92;85;48;48;48;48;48;48;53;67;117;48;48;52;49] = Some [104;58;65].
Proof. vm_compute. split; reflexivity. Qed.

(* ---------------------------------------------------------------- Turtle term level: prefixed names
   [n3_qname] is SinkParser.qname (prefix run, ':', the local-name loop with backslash escapes and the '%' check, the single
   trailing-dot rule), [n3_pname] adds the prefix lookup of uri_ref2 (Grammar/TurtlePname.v, tied by suite "tpname");
   [t_pname] is the Turtle grammar: PNAME_NS / PNAME_LN with PN_PREFIX, PN_LOCAL, PLX (%HH kept as written), PN_LOCAL_ESC
   (backslash removed), leading digits and ':' in the local part.
   _partial: proved for a prefixed name whose local part does not END in a dot and that is followed by something that
   cannot continue a name (white space, punctuation, end of input).  NOT covered by the theorem (suite "tpname" only):
   a local part directly followed by the statement's '.' (ex:a.) and a local part ending in a dot at all - among these
   lay finding C05r, repaired by 981b2a74 (see C05_turtle_pname_escaped_dot_partial below).
   Numbers (INTEGER / DECIMAL / DOUBLE), the LANGTAG after a string and BLANK_NODE_LABEL at Turtle level are not modelled. *)
Theorem C05_turtle_pname_forms_partial : forall l run r0 its rest,
  span (fun c => t_pn_chars c || (c =? 46)) l = (run, r0) ->
  match run with [] => True | c :: _ => pn_chars_base c = true /\ (last run 0 =? 46) = false end ->
  starts_with 58 r0 = true -> starts_with 46 (tl r0) = false ->
  t_items true (tl r0) = (its, rest) -> rest_ok rest ->
  snd (last its (0, false)) = false -> (fst (last its (0, false)) =? 46) = false ->
  t_pname l = Some ((run, map fst its), rest) /\ n3_qname l = Some ((run, map fst its), rest).
Proof. exact pname_read. Qed.
Print Assumptions C05_turtle_pname_forms_partial.

(* the two scanners of the local part (grammar: PN_CHARS, ':', '.', PLX, PN_LOCAL_ESC; qname: anything outside
   _notQNameChars, '%' + two hex digits, backslash + escapeChars) take the same characters *)
Theorem C05_turtle_local_scan : forall n l f its rest, (length l <= n)%nat ->
  t_items f l = (its, rest) -> (f = true -> starts_with 46 l = false) -> rest_ok rest ->
  qloc l = Some (map fst its, rest).
Proof. exact local_scan. Qed.
Print Assumptions C05_turtle_local_scan.

(* since 981b2a74 also a local part that ENDS in the escape backslash-dot (ex:a\. , local part a-dot) is read as the grammar
   denotes: qname sees that the dot was escaped and keeps it *)
Theorem C05_turtle_pname_escaped_dot_partial : forall l run r0 its rest,
  span (fun c => t_pn_chars c || (c =? 46)) l = (run, r0) ->
  match run with [] => True | c :: _ => pn_chars_base c = true /\ (last run 0 =? 46) = false end ->
  starts_with 58 r0 = true -> starts_with 46 (tl r0) = false ->
  t_items true (tl r0) = (its, rest) -> rest_ok rest ->
  its <> [] -> last its (0, false) = (46, false) ->
  t_pname l = Some ((run, map fst its), rest) /\ n3_qname l = Some ((run, map fst its), rest).
Proof. exact pname_read_escaped_dot. Qed.
Print Assumptions C05_turtle_pname_escaped_dot_partial.

(* historical witness of finding C05r (repaired by 981b2a74): the legal  ex:a\. .  used to lose its escaped dot to qname's
   trailing-dot rule (n3_qname gave (ex, a) and ". ." back); the repaired rule reads it as the grammar does *)
Example C05r_escaped_trailing_dot_fixed :
  let l := [101;120;58;97;92;46;32;46] in                         (* ex:a\. . *)
  t_pname l = Some (([101;120], [97;46]), [32;46]) /\ n3_qname l = t_pname l.
Proof. vm_compute. split; reflexivity. Qed.

(* non-vacuity: a two-row N-Quads document with every kind of term, escapes in the
   literal, a blank-node-named graph and the default graph is in scope and read back *)
Example C05_nonvacuous :
  let t1 : triple := (Iri (E_ ++ [97]), Iri (E_ ++ [112]), Lit [34; 92; 10; 13; 9; 233] (LLang [101; 110; 45; 85; 83])) in
  let t2 : triple := (Bn [98; 46; 49], Iri (E_ ++ [112]), Lit [] (LDt (E_ ++ [100]))) in
  let rows := [(t1, Bn [103]); (t2, Iri default_graph_id)] in
  let c := {| c_nq := true; c_rows := rows |} in
  forallb (wf_row true) rows = true /\ kf c = 0 /\
  match snd (model_obs c) with
  | Some d => strict_doc true d = Some [(t1, Some (Bn [103])); (t2, None)]
  | None => False
  end.
Proof. vm_compute. repeat split; reflexivity. Qed.
