(* C15 - query answers do not depend on how the query is written, prepared or stored.

   FULL STATEMENT (not proved): forall c, kf15 c = 0 -> spec_ok15 c (model_obs15 c) = true,
   i.e. in the model every rewriting of a query (pattern order, operand order,
   renaming) has the same multiset of solutions outside the regions of the C04
   findings.  Proved: the invariance under permutation of triple patterns (for
   the specification and for rdflib's evaluator under every context, covering the
   static reorderTriples and the run-time sort), commutativity of UNION, and the
   trivial half (one algebra evaluated repeatedly gives one answer - a pure model
   cannot exhibit state leaking between evaluations; that half of the property
   is covered by conformance runs only), commutativity of Join in the
   specification, and in the model wherever both operand orders lie in the proved
   C04 fragment (in general it fails on the model: findings F-C04-3, F-C04-4 are
   asymmetric).  NOT proved: invariance under renaming, initBindings = VALUES. *)
From RV Require Import Sparql.VariantProofs.

Theorem C15_bgp_perm : forall ds g ts ts',
  Permutation ts ts' -> Permutation (eval_bu ds g (BGP ts)) (eval_bu ds g (BGP ts')).
Proof. exact bu_bgp_perm. Qed.
Print Assumptions C15_bgp_perm.

Theorem C15_bgp_perm_model : forall ds g c ts ts',
  sol_wf c = true -> Permutation ts ts' ->
  Permutation (eval_td ds g c (BGP ts)) (eval_td ds g c (BGP ts')).
Proof. exact td_bgp_perm. Qed.
Print Assumptions C15_bgp_perm_model.

Theorem C15_union_comm : forall ds g p1 p2,
  Permutation (eval_bu ds g (Union p1 p2)) (eval_bu ds g (Union p2 p1)).
Proof. exact bu_union_comm. Qed.
Print Assumptions C15_union_comm.

Theorem C15_union_comm_model : forall ds g c p1 p2,
  Permutation (eval_td ds g c (Union p1 p2)) (eval_td ds g c (Union p2 p1)).
Proof. exact td_union_comm. Qed.
Print Assumptions C15_union_comm_model.

Theorem C15_join_comm : forall ds g l l' a b, shape a = true -> shape b = true ->
  Permutation (eval_bu ds g (Join l a b)) (eval_bu ds g (Join l' b a)).
Proof. exact bu_join_comm. Qed.
Print Assumptions C15_join_comm.

Theorem C15_join_comm_model_partial : forall ds, graphs_nodup ds -> ds_nb ds -> forall pushed l l' a b g c,
  frag (map fst (ds_named ds)) pushed (Join l a b) = true ->
  frag (map fst (ds_named ds)) pushed (Join l' b a) = true ->
  gok g -> sol_wf c = true -> dom_in c pushed ->
  Permutation (eval_td ds g c (Join l a b)) (eval_td ds g c (Join l' b a)).
Proof. exact td_join_comm. Qed.
Print Assumptions C15_join_comm_model_partial.

Theorem C15_spec_reading : forall c o,
  spec_ok15 c o = true <-> (length o = length c /\ forall l, In l o -> group_ok l = true).
Proof. exact spec_ok15_iff. Qed.
Print Assumptions C15_spec_reading.

Theorem C15_group_reading : forall l,
  group_ok l = true <-> (forall x r, l = x :: r -> forall y, In y r -> obs_eqb x y = true).
Proof. exact group_ok_iff. Qed.
Print Assumptions C15_group_reading.

Theorem C15_main_partial : forall c, no_own_algebra c = true -> spec_ok15 c (model_obs15 c) = true.
Proof. exact model_same_algebra. Qed.
Print Assumptions C15_main_partial.

Example C15_nonvacuous :
  exists ts ts', ts <> ts' /\ Permutation ts ts'
    /\ eval_bu {| ds_default := []; ds_named := [] |} [(1, 4, 2); (2, 4, 3)]%N (BGP ts) <> [].
Proof.
  exists [(Vr 1, Tm 4, Vr 2); (Vr 2, Tm 4, Vr 3)]%N, [(Vr 2, Tm 4, Vr 3); (Vr 1, Tm 4, Vr 2)]%N.
  split; [discriminate|]. split; [apply perm_swap|]. vm_compute. discriminate.
Qed.
