(* C15 - query answers do not depend on how the query is written, prepared or stored.

   FULL STATEMENT (not proved): forall c, kf15 c = 0 -> spec_ok15 c (model_obs15 c) = true,
   i.e. in the model every rewriting of a query (pattern order, operand order,
   renaming) has the same multiset of solutions outside the regions of the C04
   findings.  Proved on the region [tied15] (C15_main_partial: rewritings by BGP
   permutation, UNION swap, join swap at any depth, base and variant inside the
   proved C04 fragment, data without boolean literals).  Also proved: the invariance under permutation of triple patterns (for
   the specification and for rdflib's evaluator under every context, covering the
   static reorderTriples and the run-time sort), commutativity of UNION, and the
   trivial half (one algebra evaluated repeatedly gives one answer - a pure model
   cannot exhibit state leaking between evaluations; that half of the property
   is covered by conformance runs only), commutativity of Join in the
   specification, and in the model wherever both operand orders lie in the proved
   C04 fragment (in general it fails on the model: findings F-C04-1, F-C04-4 are
   asymmetric); likewise associativity of Join, the placement of a FILTER before or
   after a join, and "pre-binding = a VALUES row"; the prepared Query object as a
   state machine whose evaluations do not change it (tied by snapshots of the real
   object's tree); store independence: the model parametrised by the store's enumeration
   function gives the same answer for every enumeration that hands out each matching triple
   once (all operators except OFFSET), and Memory / SimpleMemory (C01) satisfy that.
   Renaming of variables: proved for BGPs (specification and model) and, in the specification,
   for joins, unions, VALUES, sub-SELECT, DISTINCT, GRAPH over an IRI (C15_rename_partial).
   NOT proved: renaming through expressions / OPTIONAL / MINUS, the
   "never forgotten" half of initBindings (not in the model). *)
From RV Require Import Sparql.VariantProofs Sparql.PreparedProofs Sparql.StoreIndep Sparql.Rename.

Theorem C15_bgp_perm : forall ds g ts ts',
  Permutation ts ts' -> Permutation (eval_bu ds g (BGP ts)) (eval_bu ds g (BGP ts')).
Proof. exact bu_bgp_perm. Qed.
Print Assumptions C15_bgp_perm.

Theorem C15_bgp_perm_model : forall ds g c ts ts',
  sol_wf c = true -> Permutation ts ts' ->
  Permutation (eval_td ds g c (BGP ts)) (eval_td ds g c (BGP ts')).
Proof. exact td_bgp_perm. Qed.
Print Assumptions C15_bgp_perm_model.

Theorem C15_union_comm : forall ds g p1 p2,
  Permutation (eval_bu ds g (Union p1 p2)) (eval_bu ds g (Union p2 p1)).
Proof. exact bu_union_comm. Qed.
Print Assumptions C15_union_comm.

Theorem C15_union_comm_model : forall ds g c p1 p2,
  Permutation (eval_td ds g c (Union p1 p2)) (eval_td ds g c (Union p2 p1)).
Proof. exact td_union_comm. Qed.
Print Assumptions C15_union_comm_model.

Theorem C15_join_comm_partial : forall ds g l l' a b, shape a = true -> shape b = true ->
  Permutation (eval_bu ds g (Join l a b)) (eval_bu ds g (Join l' b a)).
Proof. exact bu_join_comm. Qed.
Print Assumptions C15_join_comm_partial.

Theorem C15_join_comm_model_partial : forall ds, graphs_nodup ds -> ds_nb ds -> forall pushed l l' a b g c,
  frag (map fst (ds_named ds)) pushed (Join l a b) = true ->
  frag (map fst (ds_named ds)) pushed (Join l' b a) = true ->
  gok g -> sol_wf c = true -> dom_in c pushed ->
  Permutation (eval_td ds g c (Join l a b)) (eval_td ds g c (Join l' b a)).
Proof. exact td_join_comm. Qed.
Print Assumptions C15_join_comm_model_partial.

(* associativity of Join: list for list in the specification, up to permutation in
   the top-down model wherever both bracketings lie in the proved fragment *)
Theorem C15_join_assoc_partial : forall ds g l1 l2 l3 l4 a b d, shape a = true -> shape b = true -> shape d = true ->
  eval_bu ds g (Join l1 (Join l2 a b) d) = eval_bu ds g (Join l3 a (Join l4 b d)).
Proof. exact bu_join_assoc. Qed.
Print Assumptions C15_join_assoc_partial.

Theorem C15_join_assoc_model_partial : forall ds, graphs_nodup ds -> ds_nb ds ->
  forall pushed l1 l2 l3 l4 a b d g c,
  frag (map fst (ds_named ds)) pushed (Join l1 (Join l2 a b) d) = true ->
  frag (map fst (ds_named ds)) pushed (Join l3 a (Join l4 b d)) = true ->
  gok g -> sol_wf c = true -> dom_in c pushed ->
  Permutation (eval_td ds g c (Join l1 (Join l2 a b) d)) (eval_td ds g c (Join l3 a (Join l4 b d))).
Proof. exact td_join_assoc. Qed.
Print Assumptions C15_join_assoc_model_partial.

(* FILTER placement within a group: a filter over variables the left operand
   certainly binds may be applied to that operand or to the whole join *)
Theorem C15_filter_placement_partial : forall ds, graphs_nodup ds -> ds_nb ds ->
  forall g n1 fv1 n2 fv2 l l' e a b,
  shape a = true -> shape b = true -> gok g ->
  efrag (map fst (ds_named ds)) (maybe a ++ maybe b) e = true ->
  nonempty (inter (cmp_vars_e e) (bool_vars a ++ bool_vars b)) = false ->
  subsetv (evars e) (cert a) = true ->
  eval_bu ds g (Filter n1 fv1 e (Join l a b)) = eval_bu ds g (Join l' (Filter n2 fv2 e a) b).
Proof. exact bu_filter_join. Qed.
Print Assumptions C15_filter_placement_partial.

Theorem C15_filter_placement_model_partial : forall ds, graphs_nodup ds -> ds_nb ds ->
  forall pushed g c n1 fv1 n2 fv2 l l' e a b,
  frag (map fst (ds_named ds)) pushed (Filter n1 fv1 e (Join l a b)) = true ->
  frag (map fst (ds_named ds)) pushed (Join l' (Filter n2 fv2 e a) b) = true ->
  efrag (map fst (ds_named ds)) (maybe a ++ maybe b) e = true ->
  nonempty (inter (cmp_vars_e e) (bool_vars a ++ bool_vars b)) = false ->
  subsetv (evars e) (cert a) = true ->
  gok g -> sol_wf c = true -> dom_in c pushed ->
  Permutation (eval_td ds g c (Filter n1 fv1 e (Join l a b))) (eval_td ds g c (Join l' (Filter n2 fv2 e a) b)).
Proof. exact td_filter_join. Qed.
Print Assumptions C15_filter_placement_model_partial.

(* pre-binding = VALUES: the top-down model started under a context c answers as
   the algebra of the pattern joined with the one-row table VALUES c.  This is the
   "start context" half of initBindings (partial: that initBindings are also never
   forgotten by forget() is not part of the model; that half is covered by the
   initBindings-versus-VALUES runs and the trigger init_vis only) *)
Theorem C15_prebinding_values_partial : forall ds, graphs_nodup ds -> ds_nb ds ->
  forall pushed l p g c,
  frag (map fst (ds_named ds)) pushed p = true -> gok g -> sol_wf c = true -> dom_in c pushed ->
  Permutation (eval_td ds g c p) (eval_bu ds g (Join l p (Values [c]))).
Proof. exact td_prebound_values. Qed.
Print Assumptions C15_prebinding_values_partial.

(* reading of the checker: group by group, the observation holds as many answers
   as the case demands - 1 + |g_vars| + g_same, or 2 for the initBindings groups -
   and all answers present in a group equal its first *)
Theorem C15_spec_reading : forall c o,
  spec_ok15 c o = true <->
  Forall2 (fun g l => N.of_nat (length l) = group_size g /\ group_ok l = true) c o.
Proof. exact spec_ok15_iff. Qed.
Print Assumptions C15_spec_reading.

Theorem C15_group_reading : forall l,
  group_ok l = true <-> (forall x r, present l = x :: r -> forall y, In y r -> obs_eqb x y = true).
Proof. exact group_ok_iff. Qed.
Print Assumptions C15_group_reading.

(* the rewritings of the variants suite, as a relation on algebra trees: triple
   patterns of any BGP permuted, operands of any UNION swapped, operands of a
   join swapped (VALUES rows canonical), annotations free; they leave the
   multiset of solutions of the SPECIFICATION unchanged.  No hypothesis on the data. *)
Theorem C15_rewriting_spec : forall p p', aeqb p p' = true ->
  forall ds g, Permutation (eval_bu ds g p) (eval_bu ds g p').
Proof. exact aeqb_sound. Qed.
Print Assumptions C15_rewriting_spec.

(* THE TIE, on its region [tied15]: every variant with an algebra of its own
   keeps names, data and form, is a rewriting [aeqb] of the base, and base and
   variant lie in the proved C04 fragment over well-formed data without boolean
   literals (case_wf; the complement of the data half of F-C04-9's region).  Then
   the checker accepts the model's observation.  _partial: [tied15] is smaller
   than [kf15 c = 0] - renamed variants, variants outside [frag], initBindings
   groups (one modelled observation) are not in it. *)
Theorem C15_main_partial : forall c, tied15 c = true -> spec_ok15 c (model_obs15 c) = true.
Proof. exact variants_tie. Qed.
Print Assumptions C15_main_partial.

(* groups that observe one algebra repeatedly are in the region *)
Theorem C15_same_algebra_glue : forall c, no_own_algebra c = true -> tied15 c = true.
Proof. exact no_own_tied. Qed.
Print Assumptions C15_same_algebra_glue.

(* F-C15-1, closed witness ({ ?x :p ?y . { BIND(11 AS ?y) } } and the same group with its
   two elements swapped, a rewriting in the sense of [aeqb]): the algebra answers both
   spellings with no row; the model (= rdflib) answers the first with one row, the
   second with none; the trigger fires *)
Theorem C15_refuted :
  spec_ok15 w15 (model_obs15 w15) = false /\ kf15 w15 = 1%N
  /\ aeqb (c_alg w15_base) (c_alg w15_var) = true
  /\ spec_rows w15_base = [] /\ spec_rows w15_var = []
  /\ model_obs w15_base = RSel [[(1, 1); (2, 2)]]%N /\ model_obs w15_var = RSel [].
Proof. exact w15_refuted. Qed.
Print Assumptions C15_refuted.

(* the prepared Query object as a state machine (Sparql/Prepared.v): whatever
   the sequence of evaluations, the state stays the tree prepareQuery built and
   every answer is the answer of a fresh evaluation of that tree *)
Theorem C15_prepared_pure_glue : forall f s steps,
  map snd (prep_run f s steps) = repeat s (length steps)
  /\ map fst (prep_run f s steps) = map (fun ds => answer f (eval_td ds (ds_default ds) [] s)) steps.
Proof. exact prep_run_pure. Qed.
Print Assumptions C15_prepared_pure_glue.

(* reading of the checker of the prepared_state suite: every snapshot of the
   real object's tree IS the tree right after prepareQuery (structural equality
   incl. lazy flags, _vars sets and the order of the triple patterns) *)
Theorem C15_prepared_spec_reading : forall c o,
  spec_ok_prep c o = true <-> (length o = N.to_nat (snd c) /\ forall a, In a o -> a = fst c).
Proof. exact spec_ok_prep_iff. Qed.
Print Assumptions C15_prepared_spec_reading.

Theorem C15_prepared_spec_model_glue : forall c, spec_ok_prep c (model_obs_prep c) = true.
Proof. exact spec_ok_prep_model. Qed.
Print Assumptions C15_prepared_spec_model_glue.

(* ---- store independence (Sparql/StoreIndep.v) ----
   The top-down model reads the data only through Graph.triples(pattern) in evalBGP.
   [eval_td_en En] is the model with that lookup replaced by an arbitrary enumeration
   function [En : graph -> pattern -> list triple]; [enum_ok En c]: on every graph of the
   case, for every pattern, En hands out the matching triples, each once, in SOME order.
   Then the answer is the model's, whatever the order - for every operator of the model
   (BGP with its run-time sort, lazy and hash join, OPTIONAL with its second test, FILTER,
   UNION, MINUS, BIND, VALUES, sub-SELECT, GRAPH, DISTINCT, all expressions incl. EXISTS)
   except Slice (OFFSET), where the order of the enumeration is observable: [no_slice].
   _partial for that exclusion only. *)
Theorem C15_store_model_partial : forall En c, enum_ok En c -> no_slice (c_alg c) = true ->
  obs_eqb (model_obs_en En c) (model_obs c) = true.
Proof. exact store_model. Qed.
Print Assumptions C15_store_model_partial.

Theorem C15_store_independent_partial : forall En1 En2 c,
  enum_ok En1 c -> enum_ok En2 c -> no_slice (c_alg c) = true ->
  obs_eqb (model_obs_en En1 c) (model_obs_en En2 c) = true.
Proof. exact store_independent. Qed.
Print Assumptions C15_store_independent_partial.

(* the evaluator-level statement behind both: solution lists are permutations of each other,
   under every context, on every graph of the family P *)
Theorem C15_enum_independent_partial : forall En ds (P : graph -> Prop),
  (forall g, P g -> forall s p o, Permutation (En g s p o) (g_triples g s p o)) ->
  (forall ng, In ng (ds_named ds) -> P (snd ng)) ->
  forall p, no_slice p = true -> forall g c, P g ->
  Permutation (eval_td_en En ds g c p) (eval_td ds g c p).
Proof. intros En ds P H1 H2 p. exact (proj1 (en_indep En ds P H1 H2) p). Qed.
Print Assumptions C15_enum_independent_partial.

(* the hypothesis [enum_ok] holds for the stores of C01: a Memory context and a SimpleMemory
   store that satisfy their invariants and hold exactly the set g (C01_mem_triples_exact,
   C01_simple_triples_exact; C01_history: every state reached by a history does).  The
   auditable wrapper: C15_enum_auditable below. *)
Theorem C15_enum_memory : forall (m : Store.Model.mem) k (g : graph),
  Store.MemProofs.MemInv m -> NoDup g -> (forall t, Store.Model.mem_holds m k t = true <-> In t g) ->
  forall s p o, Permutation (Store.Model.mem_triples m k (s, p, o)) (g_triples g s p o).
Proof. exact enum_memory. Qed.
Print Assumptions C15_enum_memory.

Theorem C15_enum_simple : forall (m : Store.Model.smem) (g : graph),
  Store.SimpleProofs.sm_inv m -> NoDup g -> (forall t, Store.SimpleProofs.sm_holds m t = true <-> In t g) ->
  forall s p o, Permutation (Store.Model.sm_triples m (s, p, o)) (g_triples g s p o).
Proof. exact enum_simple. Qed.
Print Assumptions C15_enum_simple.

(* ReadOnlyGraphAggregate enumerates its members one after the other: the bag union, i.e. the
   enumeration of the graph [concat gs] - which is a SET (the same data as one graph) exactly
   when the members are duplicate-free and pairwise disjoint (NoDup (concat gs)); with
   overlapping members it is other data (a triple held twice), not another store *)
Theorem C15_enum_aggregate : forall (gs : list graph) s p o,
  flat_map (fun g => g_triples g s p o) gs = g_triples (concat gs) s p o.
Proof. exact enum_aggregate. Qed.
Print Assumptions C15_enum_aggregate.

(* the auditable wrapper over the Memory model (Auditable/OverStore.v, C18): after EVERY
   operation of ANY history through the wrapper(s) - adds, removes, commits, rollbacks - the
   wrapped store enumerates, for every context and every pattern, exactly the triples the
   list-level model of the wrapper prescribes for that context ([ctx_graph S' k]), each once:
   the [En] hypothesis of C15_store_independent_partial for the set the history prescribes.
   (Composition of C18's simulation - which carries the store invariant - with C15_enum_memory.) *)
Theorem C15_enum_auditable : forall ops m S,
  Store.MemProofs.MemInv m -> (forall c t, Store.Model.mem_holds m c t = Base.Quads.q_mem (t, c) S) -> NoDup S ->
  Forall2 (fun m' S' => forall k s p o,
             Permutation (Store.Model.mem_triples m' k (s, p, o)) (g_triples (ctx_graph S' k) s p o))
          (Auditable.OverStore.x_run Store.Model.mem Store.Model.mem_add Store.Model.mem_remove Store.Model.mem_triples
             (Auditable.OverStore.x_init m) ops)
          (Auditable.Model.a_run (Auditable.Model.a_init S) (map Auditable.OverStore.to_aop ops)).
Proof. exact enum_auditable. Qed.
Print Assumptions C15_enum_auditable.

(* a Dataset held as the contexts of ONE Memory store ([k0]: the default graph's context,
   [names]: graph names with their contexts): ONE enumeration function for the whole dataset,
   built from the store's per-context triples(), satisfies [enum_ok] - so GRAPH patterns (IRI
   or variable) are covered too *)
Theorem C15_enum_dataset : forall m k0 names c, Store.MemProofs.MemInv m ->
  c_ds c = store_dataset m k0 names -> enum_ok (En_store m k0 names) c.
Proof. exact enum_dataset. Qed.
Print Assumptions C15_enum_dataset.

Theorem C15_store_dataset_partial : forall m k0 names c, Store.MemProofs.MemInv m ->
  c_ds c = store_dataset m k0 names -> no_slice (c_alg c) = true ->
  obs_eqb (model_obs_en (En_store m k0 names) c) (model_obs c) = true.
Proof. exact store_dataset_model. Qed.
Print Assumptions C15_store_dataset_partial.

(* ---- renaming of variables (Sparql/Rename.v) ----
   [r] a permutation of the variable names with inverse [r'] (an injective renaming of the
   finitely many variables of a query extends to one); [ren_s r] the renamed solution in
   canonical form.  A renamed BGP has exactly the renamed solutions - list for list in the
   specification, up to the order of the solutions in rdflib's evaluator under every context. *)
Theorem C15_rename_bgp : forall r r', (forall v, r' (r v) = v) -> (forall w, r (r' w) = w) ->
  forall ds g ts, eval_bu ds g (BGP (map (ren_tp r) ts)) = map (ren_s r) (eval_bu ds g (BGP ts)).
Proof. exact ren_bu_bgp. Qed.
Print Assumptions C15_rename_bgp.

Theorem C15_rename_bgp_model : forall r r', (forall v, r' (r v) = v) -> (forall w, r (r' w) = w) ->
  forall ds g c ts, sol_wf c = true ->
  Permutation (eval_td ds g (ren_s r c) (BGP (map (ren_tp r) ts))) (map (ren_s r) (eval_td ds g c (BGP ts))).
Proof. exact ren_td_bgp. Qed.
Print Assumptions C15_rename_bgp_model.

(* the specification commutes with the renaming on [rfrag]: BGP, Join, Union, VALUES,
   sub-SELECT (Project), DISTINCT, GRAPH over an IRI.  _partial: patterns with expressions
   (FILTER, BIND, OPTIONAL), MINUS, GRAPH over a variable are not covered, and the statement
   is about the specification; for the model it follows on the proved C04 fragment through
   C04_pushdown_partial only for the operators listed. *)
Theorem C15_rename_partial : forall r r', (forall v, r' (r v) = v) -> (forall w, r (r' w) = w) ->
  forall ds p, rfrag p = true -> shape p = true ->
  forall g, eval_bu ds g (ren_alg r p) = map (ren_s r) (eval_bu ds g p).
Proof. exact ren_bu. Qed.
Print Assumptions C15_rename_partial.

Example C15_nonvacuous :
  exists ts ts', ts <> ts' /\ Permutation ts ts'
    /\ eval_bu {| ds_default := []; ds_named := [] |} [(1, 4, 2); (2, 4, 3)]%N (BGP ts) <> [].
Proof.
  exists [(Vr 1, Tm 4, Vr 2); (Vr 2, Tm 4, Vr 3)]%N, [(Vr 2, Tm 4, Vr 3); (Vr 1, Tm 4, Vr 2)]%N.
  split; [discriminate|]. split; [apply perm_swap|]. vm_compute. discriminate.
Qed.
