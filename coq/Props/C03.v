(* C03 - serialise then parse gives back the same graph.  Property theorems for the part that is modelled:
   the text level of N-Triples (K1, complete: writer rows, reader lines, documents) and of Turtle-family string
   literals (K2, complete: both forms, every string).  Everything
   about graph structure (blank-node inlining, lists, RDF/XML, JSON-LD, HexTuples, prefixes, numeric
   shorthand) is conformance testing in harness/c03.py and has no theorem here.
   Proofs are in Codec/Proofs.v. *)
From RV Require Import Codec.Model Codec.Proofs Codec.TurtleProofs Codec.Hext Codec.TurtleList Codec.TurtleStmt Codec.TurtleStmtProofs.

(* K1. The four chained str.replace calls of nt._quote_encode are one pass over the characters. *)
Theorem C03_nt_quote_one_pass : forall s, nt_encode_body s = flat_map nt_esc1 s.
Proof. exact nt_encode_body_flat. Qed.
Print Assumptions C03_nt_quote_one_pass.

(* K1. Literal text: decodeUnicodeEscape undoes _quote_encode on every string of code points ... *)
Theorem C03_nt_literal_roundtrip_raw : forall s, unesc (nt_encode_body s) = s.
Proof. exact nt_literal_roundtrip_raw. Qed.
Print Assumptions C03_nt_literal_roundtrip_raw.

(* ... and unquote (which fails on a number that is no code point) returns the string for every Python str. *)
Theorem C03_nt_literal_roundtrip : forall s, valid_str s = true -> unquote (nt_encode_body s) = Some s.
Proof. exact nt_literal_roundtrip. Qed.
Print Assumptions C03_nt_literal_roundtrip.

(* K1. The reader's literal pattern delimits exactly the body the writer produced, whatever follows. *)
Theorem C03_nt_literal_scan : forall s rest,
  scan_body (nt_encode_body s ++ 34 :: rest) = Some (nt_encode_body s, rest).
Proof. intros. rewrite nt_encode_body_flat. apply scan_body_encode. Qed.
Print Assumptions C03_nt_literal_scan.

(* K1, one triple, FULL STATEMENT.  wf_triple is what rdflib accepts when writing (URIRef.n3's _is_valid_uri, the
   language-tag pattern, labels of the shape the reader's r_nodeid takes) plus "the IRI has a scheme"; pystr_triple says the
   strings are Python strings.  Both readers: unbounded buffer and the code's 2048-character buffer (any chunk size).
   Until fix commit 4d2427e4 this needed the extra hypothesis triple_readable (finding F15b, now repaired): *)
(* The theorem returns the SAME blank-node labels that were written.  rdflib's reader hands out fresh BNodes per
   document (W3CNTriplesParser._bnode_ids, modelled in C12); "up to renaming" is re-introduced by the harness, which maps
   the fresh nodes back through that table before comparing - it is not part of this statement. *)
Theorem C03_nt_roundtrip : forall n, (1 <= n)%nat -> forall t,
  wf_triple t = true -> pystr_triple t = true ->
  exists s, nt_row t = Some s /\ parse_doc s = Some [t] /\ parse_doc_buf n s = Some [t].
Proof. exact nt_roundtrip_full. Qed.
Print Assumptions C03_nt_roundtrip.

(* K1, documents of ANY length: the rows of any list of such triples are read back as that list, in order, by the
   reader as written (readline refills a buffer bufsiz = 2048 characters at a time; a row never contains CR or LF, so
   the only artefact of buffering - a CRLF cut in two - cannot arise) *)
Theorem C03_nt_roundtrip_doc : forall n, (1 <= n)%nat -> forall ts, forallb full_triple ts = true ->
  exists s, nt_doc ts = Some s /\ parse_doc s = Some ts /\ parse_doc_buf n s = Some ts.
Proof. exact nt_roundtrip_doc_full. Qed.
Print Assumptions C03_nt_roundtrip_doc.

(* the hypothesis is gone because the reader's IRI class is now inside the writer's: *)
Theorem C03_nt_writer_iris_readable : forall t, wf_triple t = true -> triple_readable t = true.
Proof. exact wf_triple_readable. Qed.
Print Assumptions C03_nt_writer_iris_readable.

(* historical (before 4d2427e4): a class containing all of str.isspace refuses U+00A0, which the writer accepts *)
Theorem C03_nt_historical_class_refuted :
  exists c, is_space c = true /\ mem c invalid_uri = false /\ mem c uriref_refused = false.
Proof. exact historical_class_refuted. Qed.
Print Assumptions C03_nt_historical_class_refuted.

(* the fuel in the definition of the buffered reader never runs out: parse_doc_buf is a total model *)
Theorem C03_nt_buffered_reader_total : forall n s, (1 <= n)%nat -> read_all n (S (S (length s))) [] s <> None.
Proof. exact parse_doc_buf_fuel. Qed.
Print Assumptions C03_nt_buffered_reader_total.

(* K1: what the correspondence check evaluates on the implementation's answers holds of the model. *)
Theorem C03_nt_spec_model : forall c, nt_wf c = true -> nt_spec c (nt_model c) = true.
Proof. exact nt_spec_model_full. Qed.
Print Assumptions C03_nt_spec_model.

Theorem C03_nt_spec_reading : forall t text back,
  nt_spec (NtTriple t) (ObsTriple text back) = true <->
  (wf_triple t = true -> (exists s, text = Some s) /\ back = Some [t]).
Proof. exact nt_spec_reading. Qed.
Print Assumptions C03_nt_spec_reading.

(* K2. Literal._quote_encode, one-quote form (no line feed in the string): the chained replaces are one pass,
   and SinkParser.strconst returns the string, for every string. *)
Theorem C03_turtle_short_one_pass : forall s, ttl_short_body s = flat_map ttl_esc_short s.
Proof. exact ttl_short_body_flat. Qed.
Print Assumptions C03_turtle_short_one_pass.

Theorem C03_turtle_string_roundtrip_short : forall s, mem 10 s = false -> ttl_read (ttl_quote_encode s) = Some s.
Proof. exact ttl_short_roundtrip. Qed.
Print Assumptions C03_turtle_string_roundtrip_short.

(* K2, three-quote form (a line feed in the string), the code as repaired by fix commit 13d00653.  The pipeline
   "replace backslash; escape a final quote; replace triple quotes; replace CR" is one structural pass over the
   string (three characters of look-ahead) ... *)
Theorem C03_turtle_long_one_pass : forall s,
  let e1 := patch_last (replace1 92 [92; 92] s) in
  replace1 13 [92; 114] (if contains3 e1 then rep3 e1 else e1) = Fq ee s.
Proof. exact ttl_long_body_is_Fq. Qed.
Print Assumptions C03_turtle_long_one_pass.

(* ... which SinkParser.strconst inverts, whatever non-quote text follows the closing delimiter. *)
Theorem C03_turtle_strconst_inverts : forall s z, no_quote_head z = true ->
  strconst true (Fq ee s ++ QQQ ++ z) = Some (s, z).
Proof. exact strconst_Fq. Qed.
Print Assumptions C03_turtle_strconst_inverts.

(* K2, FULL STATEMENT: every string of code points, both forms, quotes anywhere. *)
Theorem C03_turtle_string_roundtrip : forall s, ttl_read (ttl_quote_encode s) = Some s.
Proof. exact ttl_roundtrip. Qed.
Print Assumptions C03_turtle_string_roundtrip.

(* the same inside a document: followed by anything that does not start with a quote, the reader stops exactly after
   the closing delimiter *)
Theorem C03_turtle_string_roundtrip_in_context : forall s z, mem 10 s = true -> no_quote_head z = true ->
  strip_prefix [34; 34; 34] (ttl_quote_encode s ++ z) <> None /\
  forall body, strip_prefix [34; 34; 34] (ttl_quote_encode s ++ z) = Some body -> strconst true body = Some (s, z).
Proof. exact ttl_long_roundtrip_in_context. Qed.
Print Assumptions C03_turtle_string_roundtrip_in_context.

Theorem C03_ttl_spec_model : forall c, ttl_spec c (ttl_model c) = true.
Proof. exact ttl_spec_model. Qed.
Print Assumptions C03_ttl_spec_model.

Theorem C03_ttl_spec_reading : forall s text back,
  ttl_spec (TtlString s) (ObsString text back) = true <-> back = Some s.
Proof. exact ttl_spec_reading. Qed.
Print Assumptions C03_ttl_spec_reading.

(* K3. One HexTuples row (the six strings between json.dumps and json.loads; the JSON text is CPython's and is
   trusted).  FULL STATEMENT (does not hold): forall t, wf_triple t = true -> hext_parse (hext_row t) = Some (hext_norm t, None),
   hext_norm being the one allowed identification (a simple literal comes back as xsd:string).  The proof forces
   hext_ok: no blank-node label contains the two characters "_:" and no IRI begins with '_' (finding F15q). *)
Theorem C03_hext_row_roundtrip_partial : forall t, wf_triple t = true -> hext_ok t = true ->
  hext_parse (hext_row t) = Some (hext_norm t, None).
Proof. exact hext_row_roundtrip. Qed.
Print Assumptions C03_hext_row_roundtrip_partial.

Theorem C03_hext_row_roundtrip_refuted :
  exists t1 t2 : triple, wf_triple t1 = true /\ wf_triple t2 = true /\ t1 <> t2 /\ hx_kf (HxRow t1) = 1 /\
    hext_parse (hext_row t1) = hext_parse (hext_row t2).
Proof. eexists. eexists. exact hext_label_merge_witness. Qed.
Print Assumptions C03_hext_row_roundtrip_refuted.

Theorem C03_hx_spec_model_partial : forall c, hx_kf c = 0 -> hx_spec c (hx_model c) = true.
Proof. exact hx_spec_model. Qed.
Print Assumptions C03_hx_spec_model_partial.

(* K4, first part: the list decisions of the Turtle-family serialisers (isValidList, doList as repaired by ec2790c6,
   fdf8d16b, c1984258) over a graph given as its triples in store order.  isValidList ends on every graph ... *)
Theorem C03_turtle_isValidList_terminates : forall g ser head, is_valid_list g ser head <> None.
Proof. exact is_valid_list_terminates. Qed.
Print Assumptions C03_turtle_isValidList_terminates.

(* ... and what it accepts is a proper collection: distinct cells from the head to rdf:nil, each carrying exactly one
   rdf:first and one rdf:rest triple and nothing else, the inner cells referenced once and not yet written - so
   ( m1 ... mn ) denotes exactly the triples of those cells and no label of theirs is needed anywhere else. *)
Theorem C03_turtle_isValidList_sound : forall g ser head, is_valid_list g ser head = Some true ->
  exists cells, chain_to_nil g head cells /\ NoDup cells /\
    forall c, In c cells -> c <> head -> refs g c = 1%N /\ memN c ser = false.
Proof. exact is_valid_list_sound. Qed.
Print Assumptions C03_turtle_isValidList_sound.

Theorem C03_turtle_cell_shape : forall g l, cell_ok g l = true ->
  exists f r, (po_of g l = [(FIRST, f); (REST, r)] \/ po_of g l = [(REST, r); (FIRST, f)]) /\
              value g l FIRST = Some f /\ value g l REST = Some r.
Proof. exact cell_ok_shape. Qed.
Print Assumptions C03_turtle_cell_shape.

(* doList (the loop "while l_ != rdf:nil" of fix commit 0dee69e9) writes exactly the members of that collection, cell
   by cell, and stops - FULL STATEMENT, no hypothesis on the graph. *)
Theorem C03_turtle_doList : forall g cells l fuel, chain_to_nil g l cells -> (length cells <= fuel)%nat ->
  exists items, do_list g fuel l = Some (combine cells items) /\ length items = length cells /\
    Forall2 (fun c i => value g c FIRST = Some i) cells items.
Proof. exact do_list_ok. Qed.
Print Assumptions C03_turtle_doList.

(* historical (finding F15r, before 0dee69e9): the loop "while l_:" walked past rdf:nil; a graph that isValidList accepts
   and on which that loop never ends, whatever the fuel; the committed loop ends on it *)
Theorem C03_turtle_doList_historical_refuted :
  is_valid_list w_f15r [] 20%N = Some true /\ (forall fuel, do_list_old w_f15r [] fuel 20%N = None) /\
  tl_kf_old {| tg := w_f15r; tser := []; tfalsy := []; thead := 20%N |} = 1%N /\
  exists r, do_list w_f15r 5 20%N = Some r.
Proof. exact f15r_refuted. Qed.
Print Assumptions C03_turtle_doList_historical_refuted.

(* with the old loop the statement needed "rdf:nil has neither rdf:first nor rdf:rest" *)
Theorem C03_turtle_doList_historical_partial : forall g falsy cells l fuel, chain_to_nil g l cells ->
  value g NIL REST = None -> value g NIL FIRST = None -> memN NIL falsy = false ->
  (forall c, In c cells -> memN c falsy = false) -> (length cells < fuel)%nat ->
  exists items, do_list_old g falsy fuel l = Some (combine cells items) /\ length items = length cells /\
    Forall2 (fun c i => value g c FIRST = Some i) cells items.
Proof. exact do_list_old_ok. Qed.
Print Assumptions C03_turtle_doList_historical_partial.

(* both loops end on every graph: what the ttl_islist suite checks of the implementation holds of the model *)
Theorem C03_tl_spec_model : forall c, tl_spec c (tl_model c) = true.
Proof. exact tl_spec_model. Qed.
Print Assumptions C03_tl_spec_model.

(* K4, statement layer.  The Turtle text TurtleSerializer writes for a graph (header of @prefix lines, one statement per
   subject with ; and , lists, a for rdf:type, () for rdf:nil, prefixed names or <iri>, literals quoted by
   Literal._quote_encode with @lang / ^^datatype, bare xsd:integer and xsd:boolean, blank nodes) and a reader for exactly
   that sub-language.
   Blank nodes (rounds 5 and 5b).  A blank node the serialiser cannot nest (referenced more than once, or a subject that
   is referenced) is written as a LABEL, _:id as BNode.n3() gives it.  A blank node referenced exactly once, as an
   object, is written NESTED, [ p o ; p o , o ] with the serialiser's white space and indentation (and [ ] when it has no
   statements); ONE nesting level is modelled: the objects inside a bracket are IRIs, literals or labelled blank nodes.
   Which nodes are nested (the table n : label -> own predicate list) is part of the observed plan, like the ordering.
   The ( ) collection form is not modelled.
   The reader draws the label of each bracketed node from a SUPPLY that is a parameter of read_doc (a Turtle reader
   invents such labels); the theorem is stated for the supply plan_sup n pl that hands out the labels the plan records,
   in the order of the opening brackets, i.e. the round trip holds up to the renaming of the bracketed nodes that any
   other supply induces.  Written labels come back as the SAME labels; rdflib's Turtle reader renames all of them per
   document (C12), the harness undoes that by order of appearance.
   The grouping/ordering (plan), the nest table and the prefixed-name decisions (q, with the prefix table ns) are inputs:
   the theorem holds for EVERY plan, EVERY nest table, EVERY prefix table and EVERY prefixed-name decision that is
   consistent with the table (prefix declared, namespace ++ local = IRI, prefix and local free of blanks, commas and -
   for the prefix - colons, prefix not starting with an underscore).  The lexer finds exactly the writer's tokens ... *)
(* NOTE on the reader: read_doc / lexs / run are a BESPOKE reader for the sub-language this writer emits; they are not a
   model of rdflib/plugins/parsers/notation3.py.  notation3.py is tied to them per generated case only (suite ttl_stmt
   compares rdflib's parse of the text with read_doc's triples); the plan, the nest table and every prefixed-name
   decision are inputs observed from the serialiser under test. *)
Theorem C03_turtle_stmt_lexing : forall ns q n pl, ns_ok ns = true -> q_ok ns q = true -> plan_ok n pl = true ->
  lexs 0 (write_doc ns q n pl) = toks_doc ns q n pl.
Proof. exact lex_doc. Qed.
Print Assumptions C03_turtle_stmt_lexing.

(* ... and reading the text gives back the triples of the plan, in order - for a nested node: the triple that refers to
   it, then its own triples - nothing lost, added or retyped. *)
Theorem C03_turtle_stmt_roundtrip : forall ns q n pl, ns_ok ns = true -> q_ok ns q = true -> plan_ok n pl = true ->
  read_doc (plan_sup n pl) (write_doc ns q n pl) = Some (plan_triples n pl).
Proof. exact read_write_doc. Qed.
Print Assumptions C03_turtle_stmt_roundtrip.

(* what the ttl_stmt suite checks of rdflib's text and of rdflib's parse of it holds of the model whenever the plan
   the serialiser computed covers the graph (that part - orderSubjects, buildPredicateHash, sortProperties, the choice
   of the nested nodes - is checked on every case, not proved: _partial) *)
Theorem C03_ts_spec_model_partial : forall c, ts_wf c = true ->
  tset_eqb (plan_triples (ts_nest c) (ts_plan c)) (ts_g c) = true -> ts_spec c (ts_model c) = true.
Proof. exact ts_spec_model. Qed.
Print Assumptions C03_ts_spec_model_partial.

(* GLUE, not an obligation: the graph-level round-trip suite is DIFFERENTIAL TESTING WITH A PYTHON ORACLE (isomorphism
   search, trigger predicates and the residual comparison inside a trigger are all Python, harness/c03.py).  This lemma
   only types that suite into the check pipeline (case = a trigger number, observation = 1 / 3 / 0); it says nothing
   about rdflib, about any model of a serialiser or parser, or about the property. *)
Theorem C03_rt_spec_glue : forall c, rt_kf c = 0 -> rt_spec c (rt_model c) = true.
Proof. exact rt_spec_model. Qed.
Print Assumptions C03_rt_spec_glue.

(* the single-character tables probed from the source agree with the modelled writers *)
Theorem C03_tables_agree :
  forallb (fun p => str_eqb (nt_encode_body [fst p]) (snd p)) nt_quote_table = true /\
  forallb (fun p => str_eqb (ttl_short_body [fst p]) (snd p)) n3_short_quote_table = true.
Proof. split; [exact nt_quote_table_agrees|exact n3_short_quote_table_agrees]. Qed.
Print Assumptions C03_tables_agree.

(* non-vacuity: a triple with a blank node subject, a literal containing quote, backslash, CR, LF, U+1F600
   and a language tag satisfies every hypothesis and comes back *)
Example C03_nonvacuous :
  let t : triple := (Bnode [98; 49; 46; 120], [104; 58; 112],
                     OLit [34; 92; 13; 10; 128512; 117] (Some [101; 110; 45; 85; 83]) None) in
  full_triple t = true /\ nt_kf (NtTriple t) = 0 /\
  nt_model (NtTriple t) = ObsTriple (nt_row t) (Some [t]) /\ nt_row t <> None
  /\ ttl_read (ttl_quote_encode [34; 92; 13; 128512]) = Some [34; 92; 13; 128512]
  /\ ttl_read (ttl_quote_encode [92; 13; 10; 128512]) = Some [92; 13; 10; 128512].
Proof. vm_compute. repeat split; discriminate. Qed.
