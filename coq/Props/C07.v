(* C07 - RDF terms obey identity laws: equality, hashing, ordering, pickling, n3 text.
   Property theorems only; proofs are in Term/Proofs.v.  The model (Term/Model.v) is tied to
   rdflib/term.py and rdflib/util.py by harness/c07.py. *)
From RV Require Import Term.Model Term.Proofs Term.Text Term.Sort Term.Order.
Local Open Scope N_scope.

(* == is an equivalence relation, and never holds between terms of different kinds *)
Theorem C07_eq_equiv :
  (forall a, term_eqb a a = true)
  /\ (forall a b, term_eqb a b = term_eqb b a)
  /\ (forall a b c, term_eqb a b = true -> term_eqb b c = true -> term_eqb a c = true)
  /\ (forall a b, kind_of a <> kind_of b -> term_eqb a b = false).
Proof. exact (conj term_eqb_refl (conj term_eqb_sym (conj term_eqb_trans term_eqb_kinds))). Qed.
Print Assumptions C07_eq_equiv.

(* == decides sameness of kind, string, and for literals datatype and lower-cased non-empty language tag *)
Theorem C07_eq_decides : forall a b, term_eqb a b = true <->
  kind_of a = kind_of b /\ term_str a = term_str b /\
  match a, b with
  | Lit _ dt lang, Lit _ dt' lang' => dt = dt' /\ lang_key lang = lang_key lang'
  | _, _ => True
  end.
Proof. exact term_eqb_true. Qed.
Print Assumptions C07_eq_decides.

(* equal terms have equal hashes, whatever function Python's str hash is *)
Theorem C07_eq_hash : forall (h : str -> Z) a b, term_eqb a b = true -> term_hash h a = term_hash h b.
Proof. exact term_hash_eq. Qed.
Print Assumptions C07_eq_hash.

(* language tags compare case-insensitively and hash alike *)
Theorem C07_lang_case : forall (h : str -> Z) lex dt l l', lower l = lower l' ->
  term_eqb (Lit lex dt (Some l)) (Lit lex dt (Some l')) = true
  /\ term_hash h (Lit lex dt (Some l)) = term_hash h (Lit lex dt (Some l')).
Proof. intros h lex dt l l' H. split; [|apply term_hash_eq]; apply lang_case; exact H. Qed.
Print Assumptions C07_lang_case.

(* between kinds: blank node < variable < IRI < literal, strict and total - over the _ORDERING table
   reflected from the source into Gen/Tables_term.v *)
Theorem C07_kind_order : forall a b, kind_of a <> kind_of b ->
  term_lt a b = Some (N.ltb (rank (kind_of a)) (rank (kind_of b)))
  /\ term_lt b a = Some (negb (N.ltb (rank (kind_of a)) (rank (kind_of b))))
  /\ rank KB < rank KV /\ rank KV < rank KI /\ rank KI < rank KL.
Proof.
  intros a b H. split; [apply kind_order; exact H|]. split.
  - rewrite kind_order by congruence. rewrite (rank_strict_total (kind_of b) (kind_of a)) by congruence. reflexivity.
  - vm_compute. auto.
Qed.
Print Assumptions C07_kind_order.

(* IRIs, blank nodes and variables order as their strings; that order is a strict total order,
   so sorting never meets an undefined comparison and has one result *)
Theorem C07_str_order_total :
  (forall a b, kind_of a = kind_of b -> kind_of a <> KL -> term_lt a b = Some (str_ltb (term_str a) (term_str b)))
  /\ (forall s, str_ltb s s = false)
  /\ (forall s t u, str_ltb s t = true -> str_ltb t u = true -> str_ltb s u = true)
  /\ (forall s t, str_ltb s t = true \/ s = t \/ str_ltb t s = true).
Proof. exact (conj same_kind_order (conj str_ltb_irrefl (conj str_ltb_trans str_ltb_total))). Qed.
Print Assumptions C07_str_order_total.

(* PARTIAL (restricted to the modelled fragment): on two terms whose literals are plain / xsd:string / language-tagged
   strings or [+-]?[0-9]+ xsd:integers the MODEL of < gives an answer (None means "not modelled").  This is a statement
   about the coverage of the model, NOT that rdflib's < never raises: that clause of the property ("sort without
   error") is established by running - every observed <, > must not be an exception, on every pair of every case. *)
Theorem C07_lt_modelled_on_fragment_partial : forall a b, modelled a = true -> modelled b = true -> term_lt a b <> None.
Proof. exact lt_defined. Qed.
Print Assumptions C07_lt_modelled_on_fragment_partial.

(* < on the modelled terms - non-literals, plain / xsd:string / language-tagged literals, true/false/1/0 xsd:booleans,
   [+-]?[0-9]+ xsd:integers and [+-]?digits[.digits] xsd:decimals (numbers of both datatypes together, by exact value) -
   is the strict order key_lt of a sort key (kind and string; boolean; number; lower-cased tag and lexical form)
   read through the key function skey_of: a STRICT WEAK ORDER, whose ties are exactly the terms with the same key.
   (PARTIAL: the fragment `modelled`; missing: every other literal - dates, times, durations, decimals, doubles, booleans,
   NaN/INF, ill-typed, custom datatypes - whose order is checked by laws and runs only.) *)
Theorem C07_lt_is_key_order_partial : forall a b, modelled a = true -> modelled b = true ->
  term_lt a b = Some (key_lt (skey_of a) (skey_of b)).
Proof. exact term_lt_key. Qed.
Print Assumptions C07_lt_is_key_order_partial.

(* the key order itself is a strict weak order (this speaks of < only through C07_lt_is_key_order_partial) *)
Theorem C07_key_order_strict_weak :
  (forall a, tlt a a = false)
  /\ (forall a b c, tlt a b = true -> tlt b c = true -> tlt a c = true)
  /\ (forall a b c, tlt a b = false -> tlt b c = false -> tlt a c = false)
  /\ (forall a b, tlt a b = false -> tlt b a = false -> key_eqv (skey_of a) (skey_of b)).
Proof. exact tlt_strict_weak_order. Qed.
Print Assumptions C07_key_order_strict_weak.

(* sorting with < only (list.sort and sorted() call nothing but __lt__).  For ANY irreflexive comparison, two lists
   without inversion in which ties stand in the same order are equal: a correct stable comparison sort has exactly
   one possible result.  That it is correct and stable is ALL that is assumed of CPython's sort. *)
Theorem C07_stable_sort_unique : forall (A : Type) (lt : A -> A -> bool), (forall a, lt a a = false) ->
  forall l1 l2, sorted A lt l1 -> sorted A lt l2 ->
    (forall x, filter (tie A lt x) l1 = filter (tie A lt x) l2) -> l1 = l2.
Proof. exact stable_sort_unique. Qed.
Print Assumptions C07_stable_sort_unique.

(* ... and on a strict weak order that result exists: the insertion sort of Term/Model.v returns a permutation,
   without inversion, in which elements that tie keep their input order *)
Theorem C07_isort_correct : forall (A : Type) (lt : A -> A -> bool),
  (forall a, lt a a = false) ->
  (forall a b c, lt a b = true -> lt b c = true -> lt a c = true) ->
  (forall a b c, lt a b = false -> lt b c = false -> lt a c = false) ->
  forall l, Permutation.Permutation (isort lt l) l /\ sorted A lt (isort lt l) /\ stable A lt l (isort lt l).
Proof.
  intros A lt H1 H2 H3 l. split; [apply isort_perm|]. split; [apply isort_sorted|apply isort_stable]; auto.
Qed.
Print Assumptions C07_isort_correct.

Theorem C07_stable_sort_is_isort : forall (A : Type) (lt : A -> A -> bool),
  (forall a, lt a a = false) ->
  (forall a b c, lt a b = true -> lt b c = true -> lt a c = true) ->
  (forall a b c, lt a b = false -> lt b c = false -> lt a c = false) ->
  forall l l', sorted A lt l' -> stable A lt l l' -> l' = isort lt l.
Proof. exact stable_sort_is_isort. Qed.
Print Assumptions C07_stable_sort_is_isort.

(* what the checker demands of the observed sorted() whenever the observed < is a strict weak order on the case *)
Theorem C07_spec_ok_sorted_reads : forall c o, spec_ok c o = true ->
  let n := length (c_terms c) in let f := mlt_of (o_lt o) in
  swo_matrix n (o_lt o) = true ->
  exists p, o_sorted o = Some (Some p)
    /\ length p = n /\ (forall i, (i < n)%nat -> In i p)
    /\ sorted nat f p
    /\ (forall x, (x < n)%nat -> filter (tie nat f x) p = filter (tie nat f x) (seq 0 n)).
Proof. exact sorted_ok_reads. Qed.
Print Assumptions C07_spec_ok_sorted_reads.

(* WELL-FORMED (wf_term), used below as a hypothesis, is what the property's quantifier ranges over: strings are
   sequences of code points; a literal has a language tag the constructor accepts OR a datatype IRI, not both, and a
   datatype IRI is non-empty and one URIRef.n3() would write (none of _invalid_uri_chars).  Literal('a',
   datatype=URIRef('')) and datatype IRIs containing a caret, a double quote, > etc. are outside: n3() cannot express them. *)
(* pickle / copy / deepcopy: every well-formed term comes back as itself (__reduce__ passes normalize=False since the
   repair of F7a, and hands Variable a '?' to strip since the repair of F7n) *)
Theorem C07_pickle : forall o t, wf_term t = true -> same_strict t (unpickle o t) = true.
Proof. exact pickle_same. Qed.
Print Assumptions C07_pickle.

(* the tie for the suite "laws": the checker evaluated on the implementation's answers accepts the model's *)
Theorem C07_spec_ok_model : forall c, hwf c = true -> spec_ok c (model_obs c) = true.
Proof. exact Order.spec_ok_model. Qed.
Print Assumptions C07_spec_ok_model.

(* what that checker means *)
Theorem C07_spec_ok_reads : forall c o, spec_ok c o = true ->
  let ts := c_terms c in
  forall i j, (i < length ts)%nat -> (j < length ts)%nat ->
    let a := nth i ts (IRI []) in let b := nth j ts (IRI []) in
    nthd (o_eq o) i j false = key_same a b
    /\ (nthd (o_eq o) i j false = true ->
        match nth i (o_hash o) None, nth j (o_hash o) None with Some x, Some y => x = y | _, _ => True end)
    /\ lt_entry_ok a b (nthd (o_lt o) i j None) = true.
Proof. exact spec_ok_reads. Qed.
Print Assumptions C07_spec_ok_reads.

(* != is checked on every pair of the observed matrices: it is the negation of == *)
Theorem C07_spec_ok_ne_reads : forall c o, spec_ok c o = true ->
  forall i j, (i < length (c_terms c))%nat -> (j < length (c_terms c))%nat ->
    nthd (o_ne o) i j false = negb (nthd (o_eq o) i j false).
Proof. exact spec_ok_ne_reads. Qed.
Print Assumptions C07_spec_ok_ne_reads.

(* > , <= , >= are observed as matrices too (Identifier.__gt__/__le__/__ge__, Literal.__gt__/__le__/__ge__ are
   modelled): whenever a term that is not a literal is involved, a > b is b < a, a <= b is a < b or a == b,
   a >= b is b < a or a == b; > on two literals never raises (nothing is demanded of <= and >= on two literals:
   Literal.eq raises TypeError by design when it cannot decide) *)
Theorem C07_spec_ok_ops_reads : forall c o, spec_ok c o = true ->
  let ts := c_terms c in
  forall i j, (i < length ts)%nat -> (j < length ts)%nat ->
    let a := nth i ts (IRI []) in let b := nth j ts (IRI []) in
    op_entry_ok (lt_required b a) (nthd (o_gt o) i j None) = true
    /\ op_entry_lax (option_map (fun v => v || key_same a b) (lt_required a b)) (nthd (o_le o) i j None) = true
    /\ op_entry_lax (option_map (fun v => v || key_same a b) (lt_required b a)) (nthd (o_ge o) i j None) = true.
Proof. exact spec_ok_ops_reads. Qed.
Print Assumptions C07_spec_ok_ops_reads.

(* inside one datatype family (same datatype IRI; plain and language-tagged literals together; no private empty tag) the observed <
   must be irreflexive, asymmetric and transitive - what sorted() needs to be reproducible *)
Theorem C07_spec_ok_family_reads : forall c o, spec_ok c o = true ->
  let ts := c_terms c in
  let t := fun i => nth i ts (IRI []) in
  let lt := fun i j => nthd (o_lt o) i j None = Some CLt in
  forall i j k, (i < length ts)%nat -> (j < length ts)%nat -> (k < length ts)%nat ->
    same_family (t i) (t j) = true ->
    ~ (lt i j /\ lt j i)
    /\ (same_family (t j) (t k) = true -> lt i j -> lt j k -> lt i k).
Proof. exact spec_ok_family_reads. Qed.
Print Assumptions C07_spec_ok_family_reads.

(* the tie for the suite "pickler": a sequence of well-formed terms through one NodePickler, each coming back as itself *)
Theorem C07_pickler_spec_ok_model : forall ts, forallb wf_term ts = true -> pspec_ok ts (pmodel_obs ts) = true.
Proof. exact pspec_ok_model. Qed.
Print Assumptions C07_pickler_spec_ok_model.

(* n3 text read back by from_n3, for every well-formed term and every string (all escapes, both quoting forms, all of
   Unicode): an IRI, blank node or variable comes back as itself, a literal as the literal the DEFAULT (normalising)
   constructor builds from the lexical form shown in the text, its language and its datatype.
   PARTIAL: respell_ok - a literal whose INF/NaN spelling n3() changes must have a lexical form without LF CR quote
   backslash (the proof does not follow the respelling through the escapes; the check does). *)
Theorem C07_n3_from_n3_partial : forall o t s, wf_term t = true -> respell_ok t -> n3 t = Some s ->
  from_n3 o s =
  match t with
  | Lit lex dt lang => mk_literal o true (n3_lex lex dt) lang dt
  | _ => WTerm t
  end.
Proof. exact from_n3_n3_wf. Qed.
Print Assumptions C07_n3_from_n3_partial.

(* ... hence from_n3(t.n3()) is THE SAME TERM whenever the constructor leaves the n3-visible lexical form alone *)
Theorem C07_n3_from_n3_same_partial : forall o lex dt lang s,
  wf_term (Lit lex dt lang) = true -> respell_ok (Lit lex dt lang) -> ctor_lex o (n3_lex lex dt) dt = Some lex ->
  n3 (Lit lex dt lang) = Some s -> same_strict (Lit lex dt lang) (from_n3 o s) = true.
Proof. exact from_n3_n3_fixed. Qed.
Print Assumptions C07_n3_from_n3_same_partial.

(* ... and it is NOT the same term otherwise (open finding F7a, from_n3 half): a literal built with normalize=False *)
Theorem C07_n3_from_n3_refuted : exists c s, twf c = true /\ tkf c = 1 /\ n3 (t_term c) = Some s
  /\ from_n3 (t_orc c) s = WTerm (Lit [49] (Some xsd_integer) None) /\ same_strict (t_term c) (from_n3 (t_orc c) s) = false.
Proof. exact from_n3_nonnormal_refuted. Qed.
Print Assumptions C07_n3_from_n3_refuted.

(* the two halves of that proof: what _quote_encode writes between the quotes is the rendering of a list of tokens
   (escaped backslash, escaped quote, escaped CR, raw character) whose values are the lexical form; and the passes
   of from_n3 (both regular-expression substitutions, raw-unicode-escape, unicode-escape) map the rendering of any
   token list to its values *)
Theorem C07_quote_encode_tokens : forall s, cp_ok s = true ->
  exists ts, Forall tok_ok ts /\ map value ts = s /\
    ((mem 10 s = false /\ quote_encode s = q1 ++ renders ts ++ q1
      /\ match renders ts with 34 :: _ => False | _ => True end)
     \/ (mem 10 s = true /\ quote_encode s = q3 ++ renders ts ++ q3)).
Proof. exact quote_encode_tokens. Qed.
Print Assumptions C07_quote_encode_tokens.

Theorem C07_decode_tokens : forall ts, Forall tok_ok ts ->
  codec (fix_bs_x false (unesc_quote 0 (renders ts))) = Some (map value ts).
Proof. exact decode_tokens. Qed.
Print Assumptions C07_decode_tokens.

(* the tie for the suite "text" (n3, from_n3, pickle of one term): outside the trigger of F7a the model returns THE
   SAME TERM.  PARTIAL: twf = wf_term + respell_ok (see above) + the constructor oracle covers the literal. *)
Theorem C07_text_spec_ok_model_partial : forall c, twf c = true -> tkf c = 0 -> tspec_ok c (tmodel_obs c) = true.
Proof. exact tspec_ok_model. Qed.
Print Assumptions C07_text_spec_ok_model_partial.

(* the checker accepts only TERMS (never the model's "do not know") and demands the same term *)
Theorem C07_text_spec_ok_reads : forall c o, tspec_ok c o = true ->
  (exists t', t_pickle o = WTerm t' /\ term_same (t_term c) t' = true)
  /\ (forall s, t_n3 o = Some s -> exists t', t_from o = WTerm t' /\ term_same (t_term c) t' = true)
  /\ (t_n3 o = None -> exists s, t_term c = IRI s /\ valid_uri s = false)
  /\ ~ In (Some false) (t_flags o).
Proof. exact tspec_ok_reads. Qed.
Print Assumptions C07_text_spec_ok_reads.

(* ... and in the laws suite only observations in which every term has a hash *)
Theorem C07_spec_ok_hash_reads : forall c o, spec_ok c o = true ->
  forall i, (i < length (c_terms c))%nat -> exists h, nth i (o_hash o) None = Some h.
Proof. exact spec_ok_hash_reads. Qed.
Print Assumptions C07_spec_ok_hash_reads.

(* the five conformance flags of the laws suite - sorted() of the mixed list under shuffling; sorted() of the literals of
   each datatype over permutations; set/dict collapse exactly the equal terms; > <= >= agree with < and == on non-literal
   pairs; a tie of two literals of one datatype under < is Literal.eq - are computed by the harness (trusted Python);
   what the checker contributes is only that none of them may be false *)
Theorem C07_spec_ok_flags_reads : forall c o, spec_ok c o = true -> ~ In (Some false) (o_flags o).
Proof. exact spec_ok_flags_reads. Qed.
Print Assumptions C07_spec_ok_flags_reads.

(* the code as it was before the "fix:" commits did not have these properties (findings F7a, F7b, F7e) *)
Theorem C07_prefix_pickle_refuted :
  mk_literal [] true [48; 49] None (Some xsd_integer) = WTerm (Lit [49] (Some xsd_integer) None).
Proof. exact prefix_pickle_refuted. Qed.
Print Assumptions C07_prefix_pickle_refuted.

Theorem C07_prefix_variable_refuted :
  mk_var [63; 120] = WTerm (Var [120]) /\ unpickle [] (Var [63; 120]) = WTerm (Var [63; 120]).
Proof. exact prefix_variable_refuted. Qed.
Print Assumptions C07_prefix_variable_refuted.

Theorem C07_prefix_bs_x_refuted :
  quote_encode [92; 120; 52; 49] = [34; 92; 92; 120; 52; 49; 34]
  /\ decode_prefix [92; 92; 120; 52; 49] = Some [92; 65]
  /\ decode_prefix [92; 92; 120] = None.
Proof. exact prefix_bs_x_refuted. Qed.
Print Assumptions C07_prefix_bs_x_refuted.

Theorem C07_prefix_bs_quote_refuted :
  quote_encode3_prefix [10; 92; 34] = [10; 92; 92; 34]
  /\ decode_prefix [10; 92; 92; 34] = Some [10; 34].
Proof. exact prefix_bs_quote_refuted. Qed.
Print Assumptions C07_prefix_bs_quote_refuted.

(* the integer-valued numeric datatypes inside the fragment, over the table reflected from _NUMERIC_LITERAL_TYPES and the
   well-formedness checkers: nine of the thirteen (the four xsd:unsigned* IRIs sort after xsd:string) *)
Example C07_fragment_int_types :
  length frag_int_types = 9%nat /\ length int_value_types = 13%nat
  /\ int_type_get xsd_integer frag_int_types = Some (None, None).
Proof. vm_compute. repeat split; reflexivity. Qed.

(* non-vacuity: a case with all four kinds, a tag differing in case and an integer literal passes the
   checker, and a text case with LF, backslash-quote, CR, an astral character and backslash-x round-trips *)
Example C07_nonvacuous :
  let c := {| c_terms := [BNd [97]; Var [97]; IRI [97]; Lit [97] None (Some [101; 110]); Lit [97] None (Some [102; 114]);
                          Lit [49] (Some xsd_integer) None];
              c_hash := [([97], 11%Z); ([101; 110], 12%Z); ([102; 114], 13%Z); ([49], 14%Z); (xsd_integer, 15%Z)] |} in
  hwf c = true /\ spec_ok c (model_obs c) = true
  /\ nthd (o_lt (model_obs c)) 3 4 None = Some CLt
  /\ term_eqb (Lit [97] None (Some [101; 110])) (Lit [97] None (Some [69; 78])) = true
  /\ nthd (o_lt (model_obs c)) 0 1 None = Some CLt
  /\ (let t := {| t_term := Lit [10; 92; 34; 13; 128512; 92; 120] (Some [117; 114; 110; 58; 100]) None; t_orc := [] |} in
      twf t = true /\ tkf t = 0 /\ tspec_ok t (tmodel_obs t) = true /\ t_from (tmodel_obs t) = WTerm (t_term t)).
Proof. vm_compute. repeat split; reflexivity. Qed.
