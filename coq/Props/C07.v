(* C07 - RDF terms obey identity laws: equality, hashing, ordering, pickling, n3 text.
   Property theorems only; proofs are in Term/Proofs.v.  The model (Term/Model.v) is tied to
   rdflib/term.py and rdflib/util.py by harness/c07.py. *)
From RV Require Import Term.Model Term.Proofs.
Local Open Scope N_scope.

(* == is an equivalence relation, and never holds between terms of different kinds *)
Theorem C07_eq_equiv :
  (forall a, term_eqb a a = true)
  /\ (forall a b, term_eqb a b = term_eqb b a)
  /\ (forall a b c, term_eqb a b = true -> term_eqb b c = true -> term_eqb a c = true)
  /\ (forall a b, kind_of a <> kind_of b -> term_eqb a b = false).
Proof. exact (conj term_eqb_refl (conj term_eqb_sym (conj term_eqb_trans term_eqb_kinds))). Qed.
Print Assumptions C07_eq_equiv.

(* == decides sameness of kind, string, and for literals datatype and lower-cased non-empty language tag *)
Theorem C07_eq_decides : forall a b, term_eqb a b = true <->
  kind_of a = kind_of b /\ term_str a = term_str b /\
  match a, b with
  | Lit _ dt lang, Lit _ dt' lang' => dt = dt' /\ lang_key lang = lang_key lang'
  | _, _ => True
  end.
Proof. exact term_eqb_true. Qed.
Print Assumptions C07_eq_decides.

(* equal terms have equal hashes, whatever function Python's str hash is *)
Theorem C07_eq_hash : forall (h : str -> Z) a b, term_eqb a b = true -> term_hash h a = term_hash h b.
Proof. exact term_hash_eq. Qed.
Print Assumptions C07_eq_hash.

(* language tags compare case-insensitively and hash alike *)
Theorem C07_lang_case : forall (h : str -> Z) lex dt l l', lower l = lower l' ->
  term_eqb (Lit lex dt (Some l)) (Lit lex dt (Some l')) = true
  /\ term_hash h (Lit lex dt (Some l)) = term_hash h (Lit lex dt (Some l')).
Proof. intros h lex dt l l' H. split; [|apply term_hash_eq]; apply lang_case; exact H. Qed.
Print Assumptions C07_lang_case.

(* between kinds: blank node < variable < IRI < literal, strict and total - over the _ORDERING table
   reflected from the source into Gen/Tables_term.v *)
Theorem C07_kind_order : forall a b, kind_of a <> kind_of b ->
  term_lt a b = Some (N.ltb (rank (kind_of a)) (rank (kind_of b)))
  /\ term_lt b a = Some (negb (N.ltb (rank (kind_of a)) (rank (kind_of b))))
  /\ rank KB < rank KV /\ rank KV < rank KI /\ rank KI < rank KL.
Proof.
  intros a b H. split; [apply kind_order; exact H|]. split.
  - rewrite kind_order by congruence. rewrite (rank_strict_total (kind_of b) (kind_of a)) by congruence. reflexivity.
  - vm_compute. auto.
Qed.
Print Assumptions C07_kind_order.

(* IRIs, blank nodes and variables order as their strings; that order is a strict total order,
   so sorting never meets an undefined comparison and has one result *)
Theorem C07_str_order_total :
  (forall a b, kind_of a = kind_of b -> kind_of a <> KL -> term_lt a b = Some (str_ltb (term_str a) (term_str b)))
  /\ (forall s, str_ltb s s = false)
  /\ (forall s t u, str_ltb s t = true -> str_ltb t u = true -> str_ltb s u = true)
  /\ (forall s t, str_ltb s t = true \/ s = t \/ str_ltb t s = true).
Proof. exact (conj same_kind_order (conj str_ltb_irrefl (conj str_ltb_trans str_ltb_total))). Qed.
Print Assumptions C07_str_order_total.

(* < is defined (never NotImplemented, never an exception in the model) on any two terms whose literals
   are plain / xsd:string / language-tagged strings or [+-]?[0-9]+ xsd:integers *)
Theorem C07_sort_no_error : forall a b, modelled a = true -> modelled b = true -> term_lt a b <> None.
Proof. exact lt_defined. Qed.
Print Assumptions C07_sort_no_error.

(* pickle / copy / deepcopy: every well-formed term comes back as itself (the code as repaired for finding F7a:
   __reduce__ passes normalize=False) *)
Theorem C07_pickle : forall o t, wf_term t = true -> same_as t (unpickle o t) = true.
Proof. exact pickle_same. Qed.
Print Assumptions C07_pickle.

(* the text forms still rebuild through the normalising constructor (finding F7a, read-back part): a literal built
   with normalize=False survives pickling but not from_n3(n3()) *)
Theorem C07_n3_from_n3_nonnormal_refuted : exists t, wf_term t = true /\ tkf {| t_term := t; t_orc := [] |} = 1 /\
  same_as t (match n3 t with Some s => from_n3 [] s | None => WRaise end) = false
  /\ same_as t (unpickle [] t) = true.
Proof. exact from_n3_nonnormal_refuted. Qed.
Print Assumptions C07_n3_from_n3_nonnormal_refuted.

(* the tie for the suite "laws": the checker evaluated on the implementation's answers accepts the model's *)
Theorem C07_spec_ok_model : forall c, kf c = 0 -> spec_ok c (model_obs c) = true.
Proof. exact spec_ok_model. Qed.
Print Assumptions C07_spec_ok_model.

(* what that checker means *)
Theorem C07_spec_ok_reads : forall c o, spec_ok c o = true ->
  let ts := c_terms c in
  forall i j, (i < length ts)%nat -> (j < length ts)%nat ->
    let a := nth i ts (IRI []) in let b := nth j ts (IRI []) in
    nthd (o_eq o) i j false = key_same a b
    /\ (nthd (o_eq o) i j false = true ->
        match nth i (o_hash o) None, nth j (o_hash o) None with Some x, Some y => x = y | _, _ => True end)
    /\ lt_entry_ok a b (nthd (o_lt o) i j None) = true.
Proof. exact spec_ok_reads. Qed.
Print Assumptions C07_spec_ok_reads.

(* inside one datatype family (same datatype IRI; plain and language-tagged literals together; no private empty tag) the observed <
   must be irreflexive, asymmetric and transitive - what sorted() needs to be reproducible *)
Theorem C07_spec_ok_family_reads : forall c o, spec_ok c o = true ->
  let ts := c_terms c in
  let t := fun i => nth i ts (IRI []) in
  let lt := fun i j => nthd (o_lt o) i j None = Some CLt in
  forall i j k, (i < length ts)%nat -> (j < length ts)%nat -> (k < length ts)%nat ->
    same_family (t i) (t j) = true ->
    ~ (lt i j /\ lt j i)
    /\ (same_family (t j) (t k) = true -> lt i j -> lt j k -> lt i k).
Proof. exact spec_ok_family_reads. Qed.
Print Assumptions C07_spec_ok_family_reads.

(* on the modelled literals (strings with tags not differing only in case, [+-]?[0-9]+ integers) < inside a
   family IS a strict order: the lexicographic order on (tag, lexical form), resp. the order of the integers *)
Theorem C07_family_order_model : forall a b, same_dt a b = true -> case_variant a b = false ->
  is_lt (cmp_of (term_lt a b)) = mlt a b.
Proof. exact fam_is_lt. Qed.
Print Assumptions C07_family_order_model.

Theorem C07_family_order_strict :
  (forall a, mlt a a = false) /\ (forall a b, mlt a b && mlt b a = false)
  /\ (forall a b c, mlt a b = true -> mlt b c = true -> mlt a c = true).
Proof. exact (conj mlt_irrefl (conj mlt_asym mlt_trans)). Qed.
Print Assumptions C07_family_order_strict.

(* the tie for the suite "text" (n3, from_n3, pickle of one term).  PARTIAL: the from_n3 round trip is proved
   for IRIs (Latin-1), blank nodes, variables, and literals whose lexical form needs no escape (no LF CR quote backslash,
   Latin-1) and is not an INF/NaN respelling; the remaining literals are covered by running only.
   Pickling is proved for every well-formed term. *)
Theorem C07_text_spec_ok_model_partial : forall c,
  wf_term (t_term c) = true -> tkf c = 0 -> text_proved (t_term c) = true ->
  tspec_ok c (tmodel_obs c) = true.
Proof. exact tspec_ok_model_partial. Qed.
Print Assumptions C07_text_spec_ok_model_partial.

Theorem C07_text_spec_ok_reads : forall c o, tspec_ok c o = true ->
  same_as (t_term c) (t_pickle o) = true
  /\ (forall s, t_n3 o = Some s -> same_as (t_term c) (t_from o) = true)
  /\ (t_n3 o = None -> exists s, t_term c = IRI s /\ valid_uri s = false)
  /\ ~ In (Some false) (t_flags o).
Proof. exact tspec_ok_reads. Qed.
Print Assumptions C07_text_spec_ok_reads.

(* the former findings F7b (backslash x), F7d (variables) and F7e (backslash quote in a multi-line literal) are
   repaired in the code and in the model: *)
Theorem C07_n3_from_n3_repaired_examples :
  from_n3_n3 [] (Lit [92; 120; 52; 49] None None) = WTerm (Lit [92; 120; 52; 49] None None)
  /\ from_n3_n3 [] (Lit [92; 92; 120] None None) = WTerm (Lit [92; 92; 120] None None)
  /\ from_n3_n3 [] (Var [120]) = WTerm (Var [120]).
Proof. exact from_n3_fixed_examples. Qed.
Print Assumptions C07_n3_from_n3_repaired_examples.

Theorem C07_n3_from_n3_bs_quote_repaired_examples :
  from_n3_n3 [] (Lit [10; 92; 34] None None) = WTerm (Lit [10; 92; 34] None None)
  /\ from_n3_n3 [] (Lit [92; 34; 10] None None) = WTerm (Lit [92; 34; 10] None None)
  /\ from_n3_n3 [] (Lit [10; 34; 34; 34; 34] None None) = WTerm (Lit [10; 34; 34; 34; 34] None None).
Proof. exact from_n3_bs_quote_fixed. Qed.
Print Assumptions C07_n3_from_n3_bs_quote_repaired_examples.

(* non-vacuity: a case with all four kinds, a tag differing in case and an integer literal passes the
   checker, and a non-trivial text case is inside the proved fragment *)
Example C07_nonvacuous :
  let c := {| c_terms := [BNd [97]; Var [97]; IRI [97]; Lit [97] None (Some [101; 110]); Lit [97] None (Some [102; 114]);
                          Lit [49] (Some xsd_integer) None];
              c_hash := []; c_ill := [false; false; false; false; false; false] |} in
  kf c = 0 /\ spec_ok c (model_obs c) = true
  /\ nthd (o_lt (model_obs c)) 3 4 None = Some CLt
  /\ term_eqb (Lit [97] None (Some [101; 110])) (Lit [97] None (Some [69; 78])) = true
  /\ nthd (o_lt (model_obs c)) 0 1 None = Some CLt
  /\ (let t := {| t_term := Lit [97; 39; 233] (Some [117; 114; 110; 58; 100]) None; t_orc := [] |} in
      wf_term (t_term t) = true /\ tkf t = 0 /\ text_proved (t_term t) = true /\ tspec_ok t (tmodel_obs t) = true).
Proof. vm_compute. repeat split; reflexivity. Qed.
