(* C06, text level: N-Quads documents and RDF Patch documents of datasets.
   Built on C03's text-level model of N-Triples (coq/Codec: terms as strings of
   code points, the writer's term spelling, the reader's regular expressions,
   readline); only what is specific to QUADS is added here:
     serializers/nquads.py   _nq_row, NQuadsSerializer.serialize (rows + final LF)
     parsers/nquads.py       NQuadsParser.parseline (graph label, r_tail, routing)
     serializers/patch.py    write_header, _patch_row, the TX / TC rows
     parsers/patch.py        parsepatch, operation, eat_op (str.lstrip), labeled_bnode,
                             add_or_remove_triple_or_quad
   A text-level quad is (triple, None = default graph | Some name).  The reader
   returns the LABELS of blank nodes; what the parsers then do with a label
   (one dictionary per document, or BNode(label)) is the routing level
   (Routing/Model.v [res]).  Definitions first, then proofs. *)
From Coq Require Import List NArith Bool Lia.
From RV Require Import Codec.Model Codec.Proofs.
Import ListNotations.
Open Scope N_scope.

Definition tquad := (triple * option node)%type.

Definition tquad_eqb (a b : tquad) : bool :=
  triple_eqb (fst a) (fst b) && opt_eqb node_eqb (snd a) (snd b).

(* ================================================================== N-Quads *)
(* _nq_row: graph_name = context.n3() if context and context != DATASET_DEFAULT_GRAPH_ID else ""
   (None is the default graph; an identifier with the empty string is falsy) *)
Definition gtext (g : option node) : str :=
  match g with
  | Some (Iri []) => []
  | Some (Bnode []) => []
  | Some n => n3_node n
  | None => []
  end.

(* "%s %s %s %s .\n" without the LF *)
Definition nq_line (q : tquad) : str :=
  let '((s, p, o), g) := q in
  n3_node s ++ 32 :: 60 :: p ++ 62 :: 32 :: obj_text o ++ 32 :: gtext g ++ [32; 46].

Definition g_ok (g : option node) : bool :=
  match g with Some (Iri (c :: r)) => valid_uri (c :: r) | _ => true end.

(* None = URIRef.n3() raised *)
Definition nq_row (q : tquad) : option str :=
  let '((s, p, o), g) := q in
  if node_ok s && valid_uri p && obj_ok o && g_ok g then Some (nq_line q ++ [10]) else None.

Fixpoint nq_rows (qs : list tquad) : option str :=
  match qs with
  | [] => Some []
  | q :: r => match nq_row q, nq_rows r with Some a, Some b => Some (a ++ b) | _, _ => None end
  end.

(* NQuadsSerializer.serialize: the rows, then one more LF *)
Definition nq_doc (qs : list tquad) : option str :=
  match nq_rows qs with Some s => Some (s ++ [10]) | None => None end.

(* ---- reader *)
(* PatchParser.labeled_bnode: "<_:label>"; None = an exception, Some None = not applicable *)
Definition rd_labeled (s : str) : option (option (str * str)) :=
  match s with
  | a :: b :: _ =>
    if (a =? 60) && (b =? 95) then
      match scan_uriref s with
      | Some (u, r) => match scan_nodeid u with Some (l, _) => Some (Some (l, r)) | None => None end
      | None => None
      end
    else Some None
  | _ => Some None
  end.

Definition rd_subject_l (labeled : bool) (s : str) : option (node * str) :=
  if labeled then
    match rd_labeled s with
    | None => None
    | Some (Some (l, r)) => Some (Bnode l, r)
    | Some None => rd_subject s
    end
  else rd_subject s.

Definition rd_object_l (labeled : bool) (s : str) : option (obj * str) :=
  if labeled then
    match rd_labeled s with
    | None => None
    | Some (Some (l, r)) => Some (ONode (Bnode l), r)
    | Some None => rd_object s
    end
  else rd_object s.

(* context = [labeled_bnode() or] uriref() or nodeid(); absent -> None *)
Definition rd_context (labeled : bool) (s : str) : option (option node * str) :=
  let plain :=
    match s with
    | c :: _ =>
      if c =? 60 then match rd_uriref s with Some (u, r) => Some (Some (Iri u), r) | None => None end
      else if c =? 95 then match scan_nodeid s with Some (l, r) => Some (Some (Bnode l), r) | None => None end
      else Some (None, s)
    | [] => Some (None, s)
    end in
  if labeled then
    match rd_labeled s with
    | None => None
    | Some (Some (l, r)) => Some (Some (Bnode l), r)
    | Some None => plain
    end
  else plain.

(* subject .. tail of one statement line; [s] starts at the subject *)
Definition rd_quad (labeled : bool) (s : str) : option tquad :=
  match rd_subject_l labeled s with
  | None => None
  | Some (sb, l1) =>
    let l2 := eat_wspace l1 in
    match l2 with
    | c2 :: _ =>
      if c2 =? 60 then
        match rd_uriref l2 with
        | None => None
        | Some (p, l3) =>
          match rd_object_l labeled (eat_wspace l3) with
          | None => None
          | Some (o, l5) =>
            match rd_context labeled (eat_wspace l5) with
            | None => None
            | Some (g, l7) => if tail_ok l7 then Some ((sb, p, o), g) else None
            end
          end
        end
      else None
    | [] => None
    end
  end.

(* NQuadsParser.parseline *)
Definition nq_parseline (line : str) : res tquad :=
  match drop_while is_sp line with
  | [] => Skip
  | c :: r0 =>
    if c =? 35 then Skip
    else match rd_quad false (c :: r0) with Some q => Got q | None => Err end
  end.

Fixpoint nq_parse_lines (ls : list str) : option (list tquad) :=
  match ls with
  | [] => Some []
  | l :: r =>
    match nq_parseline l with
    | Err => None
    | Skip => nq_parse_lines r
    | Got q => match nq_parse_lines r with Some qs => Some (q :: qs) | None => None end
    end
  end.

(* the document reader with the buffered readline of W3CNTriplesParser *)
Definition nq_parse_doc (n : nat) (s : str) : option (list tquad) :=
  match read_all n (S (S (length s))) [] s with
  | Some ls => nq_parse_lines ls
  | None => None
  end.

(* ================================================================== RDF Patch *)
Definition prow := (bool * tquad)%type.      (* true = A, false = D *)

(* _patch_row: the default graph's rows are N-Triples rows, the others N-Quads rows *)
Definition patch_body (q : tquad) : str :=
  match snd q with
  | None => row_line (fst q)
  | Some _ => nq_line q
  end.
Definition patch_line (r : prow) : str := (if fst r then 65 else 68) :: 32 :: patch_body (snd r).

Definition patch_row (r : prow) : option str :=
  let '((s, p, o), g) := snd r in
  if node_ok s && valid_uri p && obj_ok o && g_ok g then Some (patch_line r ++ [10]) else None.

Fixpoint patch_rows_text (rs : list prow) : option str :=
  match rs with
  | [] => Some []
  | r :: t => match patch_row r, patch_rows_text t with Some a, Some b => Some (a ++ b) | _, _ => None end
  end.

Definition s_TX : str := [84; 88; 32; 46].            (* "TX ." *)
Definition s_TC : str := [84; 67; 32; 46].            (* "TC ." *)
Definition h_line (key h : str) : str := [72; 32] ++ key ++ [32; 60] ++ h ++ [62; 32; 46].   (* "H key <h> ." *)
Definition s_id : str := [105; 100].
Definition s_prev : str := [112; 114; 101; 118].

(* write_header ("if header_id:" - truthiness), the rows, "TC ." *)
Definition patch_header (hid hprev : option str) : str :=
  (match truthy hid with Some h => h_line s_id h ++ [10] | None => [] end)
  ++ (match truthy hprev with Some h => h_line s_prev h ++ [10] | None => [] end)
  ++ s_TX ++ [10].

Definition patch_doc (hid hprev : option str) (rs : list prow) : option str :=
  match patch_rows_text rs with
  | Some body => Some (patch_header hid hprev ++ body ++ s_TC ++ [10])
  | None => None
  end.

(* ---- reader *)
Inductive pop := OpA | OpD | OpPA | OpPD | OpTX | OpTC | OpTA | OpH.

(* operation(): the first Operation (enum order A D PA PD TX TC TA H) whose code the
   line starts with; eat_op = str.lstrip(code): every leading character that
   occurs in the code is dropped *)
Definition lstrip_chars (cs : str) (s : str) : str := drop_while (fun c => mem c cs) s.
Definition op_table : list (pop * str) :=
  [(OpA, [65]); (OpD, [68]); (OpPA, [80; 65]); (OpPD, [80; 68]);
   (OpTX, [84; 88]); (OpTC, [84; 67]); (OpTA, [84; 65]); (OpH, [72])].
Fixpoint find_op (t : list (pop * str)) (s : str) : option (pop * str) :=
  match t with
  | [] => None
  | (o, code) :: r => match strip_prefix code s with
                      | Some _ => Some (o, lstrip_chars code s)
                      | None => find_op r s
                      end
  end.

(* parsepatch.  Prefix rows (PA / PD) change namespace bindings only and are not
   modelled: they are skipped here (the real add_prefix can raise on a malformed row) *)
Definition patch_parseline (line : str) : res prow :=
  match drop_while is_sp line with
  | [] => Skip
  | c :: r0 =>
    if c =? 35 then Skip else
    match find_op op_table (c :: r0) with
    | None => Err                                     (* ValueError *)
    | Some (o, rest) =>
      match o with
      | OpA | OpD =>
        match drop_while is_sp rest with
        | [] => Skip
        | d :: r1 =>
          if d =? 35 then Skip
          else match rd_quad true (d :: r1) with
               | Some q => Got (match o with OpA => true | _ => false end, q)
               | None => Err
               end
        end
      | _ => Skip
      end
    end
  end.

Fixpoint patch_parse_lines (ls : list str) : option (list prow) :=
  match ls with
  | [] => Some []
  | l :: r =>
    match patch_parseline l with
    | Err => None
    | Skip => patch_parse_lines r
    | Got q => match patch_parse_lines r with Some qs => Some (q :: qs) | None => None end
    end
  end.

Definition patch_parse_doc (n : nat) (s : str) : option (list prow) :=
  match read_all n (S (S (length s))) [] s with
  | Some ls => patch_parse_lines ls
  | None => None
  end.

(* ---- datasets as sets of text-level quads; diff and apply *)
Definition tq_mem (q : tquad) (l : list tquad) : bool := existsb (tquad_eqb q) l.
Definition tq_sub (a b : list tquad) : list tquad := filter (fun q => negb (tq_mem q b)) a.

(* serialize(format="patch", target=b) on a: A rows of b - a, then D rows of a - b *)
Definition diff_rows (a b : list tquad) : list prow :=
  map (fun q => (true, q)) (tq_sub b a) ++ map (fun q => (false, q)) (tq_sub a b).

Definition apply_prow (ds : list tquad) (r : prow) : list tquad :=
  if fst r then (if tq_mem (snd r) ds then ds else ds ++ [snd r])
  else filter (fun q => negb (tquad_eqb (snd r) q)) ds.
Definition apply_prows (rs : list prow) (ds : list tquad) : list tquad := fold_left apply_prow rs ds.

(* ================================================================== well-formedness *)
Definition pystr_g (g : option node) : bool := match g with Some n => pystr_node n | None => true end.
Definition good_g (g : option node) : bool :=
  match g with Some n => wf_node n && node_readable n && pystr_node n | None => true end.
Definition good_tquad (q : tquad) : bool := good_triple (fst q) && good_g (snd q).

(* RDF Patch reads "<_" as the start of a labelled blank node: an IRI must not begin
   with '_' (no legal IRI does: a scheme begins with a letter) *)
Definition iri_no_us (n : node) : bool :=
  match n with Iri (c :: _) => negb (c =? 95) | _ => true end.
Definition patch_ok (q : tquad) : bool :=
  let '((s, p, o), g) := q in
  iri_no_us s && match o with ONode n => iri_no_us n | _ => true end
  && match g with Some n => iri_no_us n | None => true end.

(* ================================================================== suites *)
Inductive tx_case :=
| NqWrite (qs : list tquad)                 (* write a dataset, read the text back *)
| NqRead (s : str)                          (* the reader on an arbitrary document *)
| PtWrite (hid hprev : option str) (a b : list tquad)   (* diff a b, written, read, applied to a *)
| PtRead (a : list tquad) (s : str).       (* an arbitrary patch document applied to a *)

Inductive tx_obs :=
| ObsNq (text : option (list str)) (back : option (list tquad))      (* text as its list of lines *)
| ObsNqRead (r : option (list tquad))
| ObsPt (text : option (list str)) (applied : option (list tquad))
| ObsPtRead (r : option (list tquad)).

(* the lines of a text (LF-terminated) *)
Definition lines_of (s : str) : list str := split_lines [] s.

Definition tx_model (c : tx_case) : tx_obs :=
  match c with
  | NqWrite qs =>
      match nq_doc qs with
      | Some s => ObsNq (Some (lines_of s)) (nq_parse_doc bufsiz s)
      | None => ObsNq None None
      end
  | NqRead s => ObsNqRead (nq_parse_doc bufsiz s)
  | PtWrite hid hprev a b =>
      match patch_doc hid hprev (diff_rows a b) with
      | Some s => ObsPt (Some (lines_of s))
                        (match patch_parse_doc bufsiz s with
                         | Some rs => Some (apply_prows rs a)
                         | None => None
                         end)
      | None => ObsPt None None
      end
  | PtRead a s => ObsPtRead (match patch_parse_doc bufsiz s with
                              | Some rs => Some (apply_prows rs a)
                              | None => None
                              end)
  end.

(* set equality of lists *)
Definition sub_l {A} (f : A -> A -> bool) (a b : list A) : bool := forallb (fun x => existsb (f x) b) a.
Definition seteq_l {A} (f : A -> A -> bool) (a b : list A) : bool := sub_l f a b && sub_l f b a.
Definition prow_eqb (a b : prow) : bool := Bool.eqb (fst a) (fst b) && tquad_eqb (snd a) (snd b).

(* rdflib writes the rows in store order: texts are compared as multisets of
   lines (same length, same set), read-back datasets as sets *)
Definition lines_eqb (a b : list str) : bool := Nat.eqb (length a) (length b) && seteq_l str_eqb a b.
Definition tx_obs_eqb (x y : tx_obs) : bool :=
  match x, y with
  | ObsNq t r, ObsNq t' r' => opt_eqb lines_eqb t t' && opt_eqb (seteq_l tquad_eqb) r r'
  | ObsNqRead r, ObsNqRead r' => opt_eqb (seteq_l tquad_eqb) r r'
  | ObsPt t r, ObsPt t' r' => opt_eqb lines_eqb t t' && opt_eqb (seteq_l tquad_eqb) r r'
  | ObsPtRead r, ObsPtRead r' => opt_eqb (seteq_l tquad_eqb) r r'
  | _, _ => false
  end.

(* a header id is written verbatim: it must not contain a line break *)
Definition h_no_nl (h : option str) : bool := match h with Some s => no_nl s | None => true end.

Definition tx_wf (c : tx_case) : bool :=
  match c with
  | NqWrite qs => forallb good_tquad qs
  | PtWrite hid hprev a b => forallb good_tquad a && forallb good_tquad b
                       && forallb patch_ok a && forallb patch_ok b
                       && h_no_nl hid && h_no_nl hprev
  | _ => true
  end.

(* the property at text level: what was written is read back as exactly the
   quads of the dataset (labels included); the diff patch, written, read and
   applied to the first dataset, gives the second *)
Definition tx_spec (c : tx_case) (o : tx_obs) : bool :=
  match c, o with
  | NqWrite qs, ObsNq text back =>
      if forallb good_tquad qs
      then match text with Some _ => opt_eqb (seteq_l tquad_eqb) back (Some qs) | None => false end
      else true
  | PtWrite _ _ a b, ObsPt text applied =>
      if tx_wf c
      then match text with Some _ => opt_eqb (seteq_l tquad_eqb) applied (Some b) | None => false end
      else true
  | NqRead _, ObsNqRead _ => true
  | PtRead _ _, ObsPtRead _ => true
  | _, _ => false
  end.
