(* C06 - dataset-level ROUTING of the quad syntaxes.

   What is modelled: for every quad-capable serialiser the list of
   (graph label, triples) blocks it emits, as a function of the graphs the
   store lists (store.contexts()), the default-graph id and the serialiser's
   label rule; for every parser the rule  label -> get_context(name) | default
   graph  together with its blank-node label policy (per-document get-or-create
   dictionary, or labels kept verbatim, or a fresh name for an anonymous graph).
   The text layers (Turtle/XML/JSON syntax of terms) are NOT modelled.

   Identifiers.  Terms and graph names are numbers (Base.Quads).  In this
   development an identifier is a BLANK NODE iff it is odd; the same odd number
   denotes the same blank node whether it stands in a term position or is a
   graph name.  Even numbers are IRIs / literals; graph id 0 is the default
   graph (rdflib: urn:x-rdflib:default).  No proofs in this file. *)
From RV Require Export Base.Quads.

Definition isb (x : N) : bool := N.odd x.

(* ------------------------------------------------------------------ *)
(* Blank-node renaming and dataset isomorphism                         *)

Definition rn (r : N -> N) (x : N) : N := if isb x then r x else x.
Definition rn_triple (r : N -> N) (t : triple) : triple :=
  (rn r (fst (fst t)), rn r (snd (fst t)), rn r (snd t)).
Definition rn_quad (r : N -> N) (q : quad) : quad := (rn_triple r (fst q), rn r (snd q)).

Definition ids_of_quad (q : quad) : list N :=
  [fst (fst (fst q)); snd (fst (fst q)); snd (fst q); snd q].
Definition ids_of (D : qset) : list N := flat_map ids_of_quad D.
Definition bnodes (D : qset) : list N := dedup N.eqb (filter isb (ids_of D)).

(* B is A with its blank nodes renamed injectively (blank nodes to blank nodes) *)
Definition iso (A B : qset) : Prop :=
  exists r : N -> N,
    (forall x, isb x = true -> isb (r x) = true) /\
    (forall x y, In x (bnodes A) -> In y (bnodes A) -> r x = r y -> x = y) /\
    qseteq (map (rn_quad r) A) B.

(* association lists: renamings found by search, parser dictionaries *)
Fixpoint afind (a : list (N * N)) (x : N) : option N :=
  match a with
  | [] => None
  | (k, v) :: r => if N.eqb x k then Some v else afind r x
  end.
Definition alookup (a : list (N * N)) (x : N) : N :=
  match afind a x with Some y => y | None => x end.

(* every INJECTIVE function from xs into ys, as association lists (a value
   chosen for one key is withdrawn from the candidates of the remaining keys) *)
Fixpoint assigns (xs ys : list N) : list (list (N * N)) :=
  match xs with
  | [] => [[]]
  | x :: r => flat_map (fun y => map (fun a => (x, y) :: a) (assigns r (srem N.eqb y ys))) ys
  end.

Fixpoint anyb {X : Type} (f : X -> bool) (l : list X) : bool :=
  match l with [] => false | x :: r => if f x then true else anyb f r end.

Definition try_assign (A B : qset) (a : list (N * N)) : bool :=
  if nodupb N.eqb (map snd a) then qseteqb (map (rn_quad (alookup a)) A) B else false.

(* decision procedure for [iso] (sound and complete, Proofs.v).  Isomorphic
   datasets have the same number of blank nodes: the search (at most n! injective
   assignments) is entered only then, whatever an implementation returned. *)
Definition isob (A B : qset) : bool :=
  if qseteqb A B then true
  else if Nat.eqb (length (bnodes A)) (length (bnodes B))
       then anyb (try_assign A B) (assigns (bnodes A) (bnodes B))
       else false.

(* ------------------------------------------------------------------ *)
(* Datasets                                                            *)

(* d_ctxs: the graphs the store lists (ConjunctiveGraph.contexts(), in order;
   may contain empty graphs, may or may not contain the default graph 0) *)
Record dset := { d_ctxs : list cid; d_quads : qset }.

(* Dataset.contexts(): the store's list, plus the default graph when the store
   did not list it *)
Definition ds_contexts (D : dset) : list cid :=
  if memb N.eqb 0%N (d_ctxs D) then d_ctxs D else d_ctxs D ++ [0%N].

(* iterating a context graph *)
Definition g_triples (D : dset) (c : cid) : list triple :=
  q_triples (None, None, None) c (d_quads D).

Definition list_max (l : list N) : N := fold_right N.max 0%N l.

Definition isnil {X : Type} (l : list X) : bool := match l with [] => true | _ => false end.

(* a store lists every graph that holds a triple *)
Definition wfd (D : dset) : Prop :=
  NoDup (d_quads D) /\ NoDup (d_ctxs D) /\ forall q, In q (d_quads D) -> In (snd q) (ds_contexts D).
Definition wfdb (D : dset) : bool :=
  nodupb quad_eqb (d_quads D) && nodupb N.eqb (d_ctxs D)
  && forallb (fun q => memb N.eqb (snd q) (ds_contexts D)) (d_quads D).

(* ------------------------------------------------------------------ *)
(* Documents: what a serialiser says about graph membership            *)

Inductive glabel :=
| GDefault            (* no graph label: nquads/hext "", trig bare {...}, patch triple row *)
| GName (c : cid)     (* <iri> or _:label *)
| GAnon.              (* TriX <graph> element without a name element *)

Definition block := (glabel * list triple)%type.
Definition doc := list block.

(* _nq_row / hext._context_str / trig serialize / patch._patch_row: the default
   graph id is suppressed, every other name is written as IRI or _:label *)
Definition lab_std (c : cid) : glabel := if N.eqb c 0 then GDefault else GName c.

(* trix._writeGraph: a <uri> element only when the identifier is a URIRef (the
   default graph's own id included); a blank-node name is not written at all *)
Definition lab_trix (c : cid) : glabel := if isb c then GAnon else GName c.

Definition blocks_of (lab : cid -> glabel) (D : dset) (cs : list cid) : doc :=
  map (fun c => (lab c, g_triples D c)) cs.

(* nquads.py: for context in store.contexts(): for triple in context *)
Definition ser_nquads (D : dset) : doc := blocks_of lab_std D (ds_contexts D).

(* hext.py / trig.py __init__: list(store.contexts()) + [default_context] when
   the default graph is truthy, i.e. non-empty: it is listed twice then *)
Definition ctxs_plus_default (D : dset) : list cid :=
  ds_contexts D ++ (if isnil (g_triples D 0%N) then [] else [0%N]).

Definition ser_hext (D : dset) : doc := blocks_of lab_std D (ctxs_plus_default D).

(* trig.py preprocess: empty contexts are skipped; self._contexts is a dict
   keyed by graph (hash/eq by identifier), so a graph listed twice has one
   entry - but preprocess itself runs once per LISTED context, so the reference
   counts below see the default graph twice. *)
Definition trig_listed (D : dset) : list cid :=
  filter (fun c => negb (isnil (g_triples D c))) (ctxs_plus_default D).

(* TurtleSerializer._references after TrigSerializer.preprocess, as a multiset
   (four segments, each summed over the listed contexts): one entry per triple
   for its object, one per triple for a blank-node predicate, one per context
   for each of its subjects, and - since the repair of finding F19, [lbl = true] -
   one per context for its own label when that is a blank node.
   [lbl = false] is the historical code. *)
Definition trig_refs_gen (lbl : bool) (D : dset) : list N :=
  let L := trig_listed D in
  flat_map (fun c => map (fun t => snd t) (g_triples D c)) L
  ++ flat_map (fun c => filter isb (map (fun t => snd (fst t)) (g_triples D c))) L
  ++ flat_map (fun c => dedup N.eqb (map (fun t => fst (fst t)) (g_triples D c))) L
  ++ (if lbl then filter isb L else []).

Definition count_occ_N (x : N) (l : list N) : nat := length (filter (N.eqb x) l).

(* turtle.py p_squared: a blank-node object with at most one reference is
   written inline as [ ... ] *)
Definition inlined_gen (lbl : bool) (D : dset) (o : N) : bool :=
  isb o && Nat.leb (count_occ_N o (trig_refs_gen lbl D)) 1.

(* the parser reads [ ] as a brand-new node: in the document this is a label
   used nowhere else *)
Definition anon_label (D : dset) (o : N) : N :=
  2 * (N.succ (list_max (ids_of (d_quads D))) + o) + 1.

Definition inl_triple_gen (lbl : bool) (D : dset) (t : triple) : triple :=
  (fst t, if inlined_gen lbl D (snd t) then anon_label D (snd t) else snd t).

Definition ser_trig_gen (lbl : bool) (D : dset) : doc :=
  map (fun c => (lab_std c, map (inl_triple_gen lbl D) (g_triples D c))) (dedup N.eqb (trig_listed D)).

Definition trig_refs := trig_refs_gen true.
Definition inlined := inlined_gen true.
Definition inl_triple := inl_triple_gen true.
Definition ser_trig := ser_trig_gen true.

(* trix.py: for subgraph in store.contexts(): _writeGraph(subgraph) *)
Definition ser_trix (D : dset) : doc := blocks_of lab_trix D (ds_contexts D).

(* jsonld.py Converter.convert: graphs = [default]; a listed graph equal to one
   already in [graphs] is skipped; IRI-named graphs are appended; every
   blank-node-named graph is MERGED into (a scratch copy of) the default graph *)
Definition ser_jsonld (D : dset) : doc :=
  let cs := ds_contexts D in
  let named := filter (fun c => negb (isb c) && negb (N.eqb c 0)) cs in
  let merged := g_triples D 0%N ++ flat_map (g_triples D) (filter isb cs) in
  (GDefault, merged) :: blocks_of lab_std D named.

(* ------------------------------------------------------------------ *)
(* Parsers                                                             *)

(* BNode() never collides: fresh names are odd and lie above every identifier
   of the document ([base]) *)
Definition fresh_id (base k : N) : N := 2 * (base + k) + 1.

Definition penv := (list (N * N) * N)%type.   (* label dictionary, number of names minted *)

(* one identifier of the document -> node.
   relabel = true : nquads (W3CNTriplesParser.nodeid, _bnode_ids), trig
                    (SinkParser.anonymousNode, _anonymousNodes) and trix
                    (TriXHandler.get_bnode, self.bnode): get-or-create in
                    ONE dictionary per document, shared by term positions and
                    graph names;
   relabel = false: hext, json-ld, patch: BNode(label), label kept.
   TriX (TriXHandler.get_bnode) is relabel = true since commit 3d9dc36a. *)
Definition res (relabel : bool) (base : N) (e : penv) (x : N) : penv * N :=
  if relabel && isb x then
    match afind (fst e) x with
    | Some y => (e, y)
    | None => let y := fresh_id base (snd e) in (((x, y) :: fst e, N.succ (snd e)), y)
    end
  else (e, x).

Record pst := { p_env : penv; p_out : qset }.

(* a statement goes to the graph [g] chosen by its block *)
Definition step_triple (relabel : bool) (base : N) (g : cid) (st : pst) (t : triple) : pst :=
  let r1 := res relabel base (p_env st) (fst (fst t)) in
  let r2 := res relabel base (fst r1) (snd (fst t)) in
  let r3 := res relabel base (fst r2) (snd t) in
  {| p_env := fst r3; p_out := q_add ((snd r1, snd r2, snd r3), g) (p_out st) |}.

(* label -> get_context(name) | the sink's default graph | (TriX, at the first
   triple of an anonymous <graph>) Graph(store) with a fresh blank-node name *)
Definition step_block (relabel : bool) (base : N) (st : pst) (b : block) : pst :=
  match fst b with
  | GDefault => fold_left (step_triple relabel base 0%N) (snd b) st
  | GName c =>
      let r := res relabel base (p_env st) c in
      fold_left (step_triple relabel base (snd r)) (snd b) {| p_env := fst r; p_out := p_out st |}
  | GAnon =>
      if isnil (snd b) then st
      else
        let e := p_env st in
        fold_left (step_triple relabel base (fresh_id base (snd e))) (snd b)
                  {| p_env := (fst e, N.succ (snd e)); p_out := p_out st |}
  end.

Definition doc_ids (d : doc) : list N :=
  flat_map (fun b => match fst b with GName c => [c] | _ => [] end
                     ++ flat_map (fun t => [fst (fst t); snd (fst t); snd t]) (snd b)) d.

(* parse into an EMPTY dataset *)
Definition parse_with (relabel : bool) (base : N) (d : doc) : qset :=
  p_out (fold_left (step_block relabel base) d {| p_env := ([], 0%N); p_out := [] |}).

Definition parse_doc (relabel : bool) (d : doc) : qset :=
  parse_with relabel (N.succ (list_max (doc_ids d))) d.

(* ------------------------------------------------------------------ *)
(* RDF Patch                                                           *)

(* Graph.__sub__ on datasets ("target - self.store"): the quads of A that are
   not in B (ConjunctiveGraph.__contains__ on a quad, exact since the F1 fix),
   added to a fresh Dataset: its store lists the default graph and every graph
   that received a quad *)
Definition ds_sub (A B : dset) : dset :=
  let qs := filter (fun q => negb (q_mem q (d_quads B))) (d_quads A) in
  {| d_ctxs := dedup N.eqb (0%N :: map snd qs); d_quads := qs |}.

Definition prow := (bool * glabel * triple)%type.    (* true = A row, false = D row *)

Definition patch_rows (op : bool) (X : dset) : list prow :=
  flat_map (fun c => map (fun t => (op, lab_std c, t)) (g_triples X c)) (ds_contexts X).

(* serialize(format="patch", target=T) on S: A rows of T - S, then D rows of S - T
   ("elif target is not None", since the repair of finding F18) *)
Definition ser_patch_diff (S T : dset) : list prow :=
  patch_rows true (ds_sub T S) ++ patch_rows false (ds_sub S T).

(* the historical code tested the target by TRUTHINESS ("elif not target:
   operation = 'add'"): a Dataset without any triple is falsy, the add-patch
   of S was written instead of the diff *)
Definition ser_patch_diff_prefix (S T : dset) : list prow :=
  if isnil (d_quads T) then patch_rows true S else ser_patch_diff S T.

Definition route (l : glabel) : cid := match l with GName c => c | _ => 0%N end.

(* RDFPatchParser.add_or_remove_triple_or_quad: labels kept verbatim *)
Definition apply_row (out : qset) (r : prow) : qset :=
  let g := route (snd (fst r)) in
  if fst (fst r) then q_add (snd r, g) out
  else q_remove (pat_of (snd r)) (Some g) out.

Definition apply_patch (rows : list prow) (Q : qset) : qset := fold_left apply_row rows Q.

(* ------------------------------------------------------------------ *)
(* Entry points used by the correspondence check                       *)

Inductive fmt := Nquads | Hext | Trig | Trix | Jsonld | PatchAdd | PatchDiff.

(* c_tgt is used by PatchDiff only *)
Record case := { c_fmt : fmt; c_src : dset; c_tgt : dset }.

(* (blank-node labels are significant?, quads of the resulting dataset) *)
Definition obs := (bool * qset)%type.

Definition exact_fmt (f : fmt) : bool := match f with PatchDiff => true | _ => false end.

Definition roundtrip (f : fmt) (D : dset) : qset :=
  match f with
  | Nquads => parse_doc true (ser_nquads D)
  | Hext => parse_doc false (ser_hext D)
  | Trig => parse_doc true (ser_trig D)
  | Trix => parse_doc true (ser_trix D)
  | Jsonld => parse_doc false (ser_jsonld D)
  | PatchAdd => apply_patch (patch_rows true D) []
  | PatchDiff => []
  end.

Definition model_obs (c : case) : obs :=
  (exact_fmt (c_fmt c),
   match c_fmt c with
   | PatchDiff => apply_patch (ser_patch_diff (c_src c) (c_tgt c)) (d_quads (c_src c))
   | f => roundtrip f (c_src c)
   end).

Definition obs_eqb (a b : obs) : bool :=
  Bool.eqb (fst a) (fst b) && (if fst a then qseteqb (snd a) (snd b) else isob (snd a) (snd b)).

(* The property: the dataset read back has the quads of the original up to
   blank-node renaming; a diff patch applied to the first dataset yields the
   second. *)
Definition spec_ok (c : case) (o : obs) : bool :=
  match c_fmt c with
  | PatchDiff => qseteqb (snd o) (d_quads (c_tgt c))
  | _ => isob (d_quads (c_src c)) (snd o)
  end.

Definition wf (c : case) : Prop :=
  wfd (c_src c) /\ match c_fmt c with PatchDiff => wfd (c_tgt c) | _ => True end.
Definition wfb (c : case) : bool :=
  wfdb (c_src c) && match c_fmt c with PatchDiff => wfdb (c_tgt c) | _ => true end.

Definition term_ids (D : qset) : list N :=
  flat_map (fun q => [fst (fst (fst q)); snd (fst (fst q)); snd (fst q)]) D.

(* known findings
   1 (F8b): JSON-LD output merges every blank-node-named graph into the default
            graph - manifests as soon as such a graph holds a triple;
   2 (F17): TriX output does not write a blank-node graph name - manifests when
            the name of a non-empty graph is also a node of some triple.
   (F18 patch/empty target and F19 TriG/inline graph name are repaired.) *)
Definition kf (c : case) : N :=
  let Q := d_quads (c_src c) in
  match c_fmt c with
  | Jsonld => if existsb (fun q => isb (snd q)) Q then 1%N else 0%N
  | Trix => if existsb (fun q => isb (snd q) && memb N.eqb (snd q) (term_ids Q)) Q then 2%N else 0%N
  | _ => 0%N
  end.
