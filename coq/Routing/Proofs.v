(* Lemmas for C06 (dataset routing).  Part 1: renamings, the isomorphism
   decision procedure, and the parsers that keep labels. *)
From Coq Require Import PeanoNat.
From RV Require Import Routing.Model.

(* ------------------------------------------------------------------ *)
(* basics *)

Lemma rn_id x : rn (fun y => y) x = x.
Proof. unfold rn. destruct (isb x); reflexivity. Qed.

Lemma rn_quad_id q : rn_quad (fun y => y) q = q.
Proof.
  destruct q as [[[s p] o] c]. unfold rn_quad, rn_triple. simpl. now rewrite !rn_id.
Qed.

Lemma map_rn_quad_id A : map (rn_quad (fun y => y)) A = A.
Proof. induction A as [|q A IH]; simpl; [reflexivity|]. now rewrite rn_quad_id, IH. Qed.

Lemma rn_even r x : isb x = false -> rn r x = x.
Proof. unfold rn. now intros ->. Qed.

Lemma rn_odd r x : isb x = true -> rn r x = r x.
Proof. unfold rn. now intros ->. Qed.

Lemma ids_of_In x D : In x (ids_of D) <-> exists q, In q D /\ In x (ids_of_quad q).
Proof. unfold ids_of. apply in_flat_map. Qed.

Lemma bnodes_In x D : In x (bnodes D) <-> isb x = true /\ In x (ids_of D).
Proof.
  unfold bnodes. rewrite (dedup_In N.eqb N.eqb_spec), filter_In. tauto.
Qed.

Lemma bnodes_NoDup D : NoDup (bnodes D).
Proof. apply (dedup_NoDup N.eqb N.eqb_spec). Qed.

Lemma rn_quad_ids r q x : In x (ids_of_quad q) -> In (rn r x) (ids_of_quad (rn_quad r q)).
Proof.
  destruct q as [[[s p] o] c]. unfold ids_of_quad, rn_quad, rn_triple. simpl.
  intros [<-|[<-|[<-|[<-|[]]]]]; auto.
Qed.

Lemma rn_quad_ext r1 r2 q :
  (forall x, In x (ids_of_quad q) -> rn r1 x = rn r2 x) -> rn_quad r1 q = rn_quad r2 q.
Proof.
  destruct q as [[[s p] o] c]. unfold ids_of_quad, rn_quad, rn_triple. simpl. intros H.
  rewrite (H s), (H p), (H o), (H c); simpl; auto.
Qed.

Lemma seteq_map (X Y : Type) (f : X -> Y) (l1 l2 : list X) :
  seteq l1 l2 -> seteq (map f l1) (map f l2).
Proof.
  intros H y. rewrite !in_map_iff. split; intros [x [E Hx]]; exists x; split; auto; now apply H.
Qed.

(* ------------------------------------------------------------------ *)
(* association lists *)

Lemma afind_Some_In a x v : afind a x = Some v -> In (x, v) a.
Proof.
  induction a as [|[k w] a IH]; simpl; [discriminate|].
  destruct (N.eqb_spec x k) as [->|]; [intros [= ->]; auto|auto].
Qed.

Lemma afind_None_notin a x : afind a x = None -> ~ In x (map fst a).
Proof.
  induction a as [|[k w] a IH]; simpl; [tauto|].
  destruct (N.eqb_spec x k) as [->|Hn]; [discriminate|].
  intros H [E|Hin]; [congruence|]. now apply IH.
Qed.

Lemma afind_in_keys a x : In x (map fst a) -> exists v, afind a x = Some v.
Proof.
  induction a as [|[k w] a IH]; simpl; [tauto|].
  destruct (N.eqb_spec x k) as [->|Hn]; [eauto|]. intros [E|Hin]; [congruence|auto].
Qed.

Lemma afind_notin_keys a x : ~ In x (map fst a) -> afind a x = None.
Proof.
  intros H. destruct (afind a x) eqn:E; [|reflexivity].
  apply afind_Some_In in E. exfalso. apply H. apply in_map_iff. exists (x, n). auto.
Qed.

Lemma snd_inj_of_NoDup (a : list (N * N)) x y v :
  NoDup (map snd a) -> In (x, v) a -> In (y, v) a -> x = y.
Proof.
  induction a as [|[k w] a IH]; simpl; [tauto|]. intros Hn. inversion Hn as [|? ? Hni Hn']; subst.
  intros [E1|H1] [E2|H2].
  - congruence.
  - inversion E1; subst. exfalso. apply Hni. apply in_map_iff. exists (y, v). auto.
  - inversion E2; subst. exfalso. apply Hni. apply in_map_iff. exists (x, v). auto.
  - auto.
Qed.

Lemma alookup_inj a x y :
  NoDup (map snd a) -> In x (map fst a) -> In y (map fst a) ->
  alookup a x = alookup a y -> x = y.
Proof.
  intros Hn Hx Hy. unfold alookup.
  destruct (afind_in_keys _ _ Hx) as [vx Ex]. destruct (afind_in_keys _ _ Hy) as [vy Ey].
  rewrite Ex, Ey. intros ->. apply afind_Some_In in Ex. apply afind_Some_In in Ey.
  eapply snd_inj_of_NoDup; eauto.
Qed.

(* ------------------------------------------------------------------ *)
(* isob is sound and complete for iso *)

Lemma anyb_true (X : Type) (f : X -> bool) l : anyb f l = true <-> exists a, In a l /\ f a = true.
Proof.
  induction l as [|x l IH]; simpl.
  - split; [discriminate|intros [a [[] _]]].
  - destruct (f x) eqn:E.
    + split; auto. intros _. exists x. auto.
    + rewrite IH. split; intros [a [Ha Hf]]; exists a; [auto|].
      destruct Ha as [->|Ha]; [congruence|auto].
Qed.

Lemma assigns_shape xs : forall ys a,
  In a (assigns xs ys) -> map fst a = xs /\ forall v, In v (map snd a) -> In v ys.
Proof.
  induction xs as [|x xs IH]; simpl; intros ys a.
  - intros [<-|[]]. simpl. tauto.
  - rewrite in_flat_map. intros [y [Hy Hin]]. apply in_map_iff in Hin. destruct Hin as [a' [<- Ha']].
    destruct (IH _ _ Ha') as [E Hv]. simpl. split; [now rewrite E|].
    intros v [<-|Hvin]; [auto|]. apply Hv in Hvin. apply (srem_In N.eqb N.eqb_spec) in Hvin. tauto.
Qed.

Lemma assigns_complete (f : N -> N) xs : forall ys,
  NoDup xs -> (forall x y, In x xs -> In y xs -> f x = f y -> x = y) ->
  (forall x, In x xs -> In (f x) ys) -> In (map (fun x => (x, f x)) xs) (assigns xs ys).
Proof.
  induction xs as [|x xs IH]; simpl; intros ys Hn Hinj H; [auto|].
  inversion Hn as [|? ? Hni Hn']; subst.
  apply in_flat_map. exists (f x). split; [auto|].
  apply in_map_iff. exists (map (fun x0 => (x0, f x0)) xs). split; [reflexivity|].
  apply IH; auto. intros x' Hx'. apply (srem_In N.eqb N.eqb_spec). split; [auto|].
  intros E. assert (x' = x) by (apply Hinj; auto). congruence.
Qed.

Lemma alookup_graph (f : N -> N) xs x :
  In x xs -> alookup (map (fun y => (y, f y)) xs) x = f x.
Proof.
  unfold alookup. induction xs as [|y xs IH]; simpl; [tauto|].
  destruct (N.eqb_spec x y) as [->|Hn]; [reflexivity|]. intros [E|H]; [congruence|auto].
Qed.

Lemma NoDup_map_inj (f : N -> N) xs :
  NoDup xs -> (forall x y, In x xs -> In y xs -> f x = f y -> x = y) -> NoDup (map f xs).
Proof.
  induction xs as [|x xs IH]; simpl; intros Hn Hinj; [constructor|].
  inversion Hn as [|? ? Hni Hn']; subst. constructor.
  - rewrite in_map_iff. intros [y [E Hy]]. apply Hni. rewrite (Hinj x y); auto.
  - apply IH; auto.
Qed.

Lemma iso_refl_seteq A B : qseteq A B -> iso A B.
Proof.
  intros H. exists (fun y => y). split; [auto|]. split; [auto|]. now rewrite map_rn_quad_id.
Qed.

Lemma isob_sound A B : isob A B = true -> iso A B.
Proof.
  unfold isob. destruct (qseteqb A B) eqn:E.
  - intros _. apply iso_refl_seteq. now apply qseteqb_spec.
  - destruct (Nat.eqb (length (bnodes A)) (length (bnodes B))); [|discriminate].
    rewrite anyb_true. intros [a [Ha Ht]]. unfold try_assign in Ht.
    destruct (nodupb N.eqb (map snd a)) eqn:En; [|discriminate].
    apply (nodupb_spec N.eqb N.eqb_spec) in En. apply qseteqb_spec in Ht.
    destruct (assigns_shape _ _ _ Ha) as [Ek Hv].
    exists (alookup a). split; [|split; auto].
    + intros x Hx. unfold alookup. destruct (afind a x) eqn:Ef; [|exact Hx].
      apply afind_Some_In in Ef. assert (In n (bnodes B)) as Hb.
      { apply Hv. apply in_map_iff. exists (x, n). auto. }
      now apply bnodes_In in Hb.
    + intros x y Hx Hy. apply alookup_inj; auto; now rewrite Ek.
Qed.

Lemma iso_image_bnode r A B x :
  (forall x, isb x = true -> isb (r x) = true) ->
  qseteq (map (rn_quad r) A) B -> In x (bnodes A) -> In (r x) (bnodes B).
Proof.
  intros Hodd Hs Hx. apply bnodes_In in Hx. destruct Hx as [Hb Hi].
  apply ids_of_In in Hi. destruct Hi as [q [Hq Hxq]].
  apply bnodes_In. split; [auto|]. apply ids_of_In. exists (rn_quad r q). split.
  - apply Hs. now apply in_map.
  - rewrite <- (rn_odd r x Hb). now apply rn_quad_ids.
Qed.

Lemma rn_quad_ids_inv r q x :
  In x (ids_of_quad (rn_quad r q)) -> exists y, In y (ids_of_quad q) /\ x = rn r y.
Proof.
  destruct q as [[[s p] o] c]. unfold ids_of_quad, rn_quad, rn_triple. simpl.
  intros [<-|[<-|[<-|[<-|[]]]]].
  - exists s. split; [now left|reflexivity].
  - exists p. split; [right; now left|reflexivity].
  - exists o. split; [right; right; now left|reflexivity].
  - exists c. split; [right; right; right; now left|reflexivity].
Qed.

(* isomorphic datasets have the same number of blank nodes *)
Lemma iso_bnode_count A B : iso A B -> length (bnodes A) = length (bnodes B).
Proof.
  intros [r [Hodd [Hinj Hs]]]. apply Nat.le_antisymm.
  - rewrite <- (map_length r). apply NoDup_incl_length.
    + apply NoDup_map_inj; [apply bnodes_NoDup|auto].
    + intros y Hy. apply in_map_iff in Hy. destruct Hy as [x [<- Hx]]. eapply iso_image_bnode; eauto.
  - rewrite <- (map_length r (bnodes A)). apply NoDup_incl_length; [apply bnodes_NoDup|].
    intros x Hx. apply bnodes_In in Hx. destruct Hx as [Hb Hi]. apply ids_of_In in Hi.
    destruct Hi as [q' [Hq' Hxq]]. apply Hs in Hq'. apply in_map_iff in Hq'. destruct Hq' as [q [<- Hq]].
    apply rn_quad_ids_inv in Hxq. destruct Hxq as [y [Hy ->]]. unfold rn in *.
    destruct (isb y) eqn:Ey.
    + apply in_map. apply bnodes_In. split; [auto|]. apply ids_of_In. eauto.
    + congruence.
Qed.

Lemma isob_complete A B : iso A B -> isob A B = true.
Proof.
  intros Hiso. pose proof (iso_bnode_count A B Hiso) as Hlen. destruct Hiso as [r [Hodd [Hinj Hs]]].
  unfold isob. destruct (qseteqb A B); [reflexivity|]. rewrite Hlen, Nat.eqb_refl.
  apply anyb_true. exists (map (fun x => (x, r x)) (bnodes A)). split.
  - apply assigns_complete; [apply bnodes_NoDup|auto|]. intros x Hx. eapply iso_image_bnode; eauto.
  - unfold try_assign.
    assert (map snd (map (fun x => (x, r x)) (bnodes A)) = map r (bnodes A)) as ->.
    { rewrite map_map. reflexivity. }
    assert (nodupb N.eqb (map r (bnodes A)) = true) as ->.
    { apply (nodupb_spec N.eqb N.eqb_spec). apply NoDup_map_inj; [apply bnodes_NoDup|auto]. }
    apply qseteqb_spec.
    assert (map (rn_quad (alookup (map (fun x => (x, r x)) (bnodes A)))) A = map (rn_quad r) A) as ->; [|exact Hs].
    apply map_ext_in. intros q Hq. apply rn_quad_ext. intros x Hx.
    unfold rn. destruct (isb x) eqn:Hb; [|reflexivity].
    apply alookup_graph. apply bnodes_In. split; [auto|]. apply ids_of_In. eauto.
Qed.

Lemma isob_spec A B : isob A B = true <-> iso A B.
Proof. split; [apply isob_sound|apply isob_complete]. Qed.

(* ------------------------------------------------------------------ *)
(* graphs of a dataset *)

Lemma matches_any t : matches (None, None, None) t = true.
Proof. destruct t as [[s p] o]. reflexivity. Qed.

Lemma g_triples_In D t c : In t (g_triples D c) <-> In (t, c) (d_quads D).
Proof.
  unfold g_triples, q_triples. rewrite in_map_iff. split.
  - intros [q [<- Hq]]. apply filter_In in Hq. destruct Hq as [Hq Hs]. unfold qsel in Hs.
    rewrite matches_any in Hs. simpl in Hs. apply N.eqb_eq in Hs. subst. now destruct q.
  - intros H. exists (t, c). split; [reflexivity|]. apply filter_In. split; [auto|].
    unfold qsel. rewrite matches_any. simpl. apply N.eqb_refl.
Qed.

Lemma isnil_false (X : Type) (l : list X) : isnil l = false <-> exists x, In x l.
Proof.
  destruct l; simpl; split; try discriminate; auto.
  - intros [x []].
  - intros _. exists x. auto.
Qed.

Lemma route_lab_std c : route (lab_std c) = c.
Proof. unfold lab_std. destruct (N.eqb_spec c 0) as [->|]; reflexivity. Qed.

Lemma ds_contexts_In D c : In c (ds_contexts D) <-> In c (d_ctxs D) \/ c = 0%N.
Proof.
  unfold ds_contexts. destruct (memb N.eqb 0%N (d_ctxs D)) eqn:E.
  - apply (memb_In N.eqb N.eqb_spec) in E. split; [auto|]. intros [H| ->]; auto.
  - rewrite in_app_iff. simpl. split; [intros [H|[H|[]]]; auto|intros [H|H]; auto].
Qed.

(* ------------------------------------------------------------------ *)
(* parsers that keep labels (relabel = false) *)

Lemma step_triple_plain base g st t :
  step_triple false base g st t = {| p_env := p_env st; p_out := q_add (t, g) (p_out st) |}.
Proof. destruct t as [[s p] o]. reflexivity. Qed.

Lemma fold_plain base g ts : forall st,
  p_env (fold_left (step_triple false base g) ts st) = p_env st /\
  forall q, In q (p_out (fold_left (step_triple false base g) ts st))
            <-> In q (p_out st) \/ (snd q = g /\ In (fst q) ts).
Proof.
  induction ts as [|t ts IH]; intros st; simpl.
  - split; [reflexivity|]. intros q. tauto.
  - rewrite step_triple_plain. destruct (IH {| p_env := p_env st; p_out := q_add (t, g) (p_out st) |}) as [E H].
    split; [exact E|]. intros q. rewrite H. simpl. rewrite q_add_In. split.
    + intros [[->|Hq]|[Hg Ht]]; simpl; auto.
    + intros [Hq|[Hg [->|Ht]]]; auto. left. left. destruct q; simpl in *; now subst.
Qed.

Definition named_only (d : doc) : Prop := forall b, In b d -> fst b <> GAnon.

Lemma fold_blocks_plain base d : forall st, named_only d ->
  forall q, In q (p_out (fold_left (step_block false base) d st))
            <-> In q (p_out st) \/ exists b, In b d /\ snd q = route (fst b) /\ In (fst q) (snd b).
Proof.
  induction d as [|b d IH]; intros st Hn q; simpl.
  - split; [auto|]. intros [H|[b [[] _]]]. exact H.
  - rewrite IH; [|intros b' Hb'; apply Hn; now right].
    assert (forall q, In q (p_out (step_block false base st b))
                      <-> In q (p_out st) \/ (snd q = route (fst b) /\ In (fst q) (snd b))) as Hb.
    { intros q'. unfold step_block. destruct b as [l ts]. simpl. destruct l as [|c|].
      - apply fold_plain.
      - simpl. rewrite (proj2 (fold_plain base c ts _)). simpl. tauto.
      - exfalso. apply (Hn (GAnon, ts)); simpl; auto. }
    rewrite Hb. split.
    + intros [[H|H]|[b' [H1 H2]]]; auto.
      * right. exists b. auto.
      * right. exists b'. auto.
    + intros [H|[b' [[<-|H1] H2]]]; auto. right. exists b'. auto.
Qed.

Lemma parse_plain_In d q : named_only d ->
  In q (parse_doc false d) <-> exists b, In b d /\ snd q = route (fst b) /\ In (fst q) (snd b).
Proof.
  intros Hn. unfold parse_doc, parse_with. rewrite fold_blocks_plain; auto. simpl. tauto.
Qed.

Lemma blocks_of_named lab D cs : (forall c, lab c <> GAnon) -> named_only (blocks_of lab D cs).
Proof.
  intros H b Hb. unfold blocks_of in Hb. apply in_map_iff in Hb. destruct Hb as [c [<- _]]. apply H.
Qed.

Lemma lab_std_named c : lab_std c <> GAnon.
Proof. unfold lab_std. destruct (N.eqb c 0); discriminate. Qed.

(* reading back a document whose blocks are the graphs [cs] of D under the
   standard label rule *)
Lemma parse_plain_blocks D cs q :
  In q (parse_doc false (blocks_of lab_std D cs)) <-> In (snd q) cs /\ In q (d_quads D).
Proof.
  rewrite parse_plain_In; [|apply blocks_of_named, lab_std_named]. unfold blocks_of. split.
  - intros [b [Hb [Hr Ht]]]. apply in_map_iff in Hb. destruct Hb as [c [<- Hc]]. simpl in *.
    rewrite route_lab_std in Hr. subst c. split; [auto|]. apply g_triples_In in Ht. now destruct q.
  - intros [Hc Hq]. exists (lab_std (snd q), g_triples D (snd q)). split; [|split].
    + apply in_map_iff. eauto.
    + simpl. now rewrite route_lab_std.
    + simpl. apply g_triples_In. now destruct q.
Qed.

Lemma hext_roundtrip D : wfd D -> qseteq (parse_doc false (ser_hext D)) (d_quads D).
Proof.
  intros [_ [_ Hc]] q. unfold ser_hext. rewrite parse_plain_blocks. split; [tauto|].
  intros Hq. split; [|auto]. unfold ctxs_plus_default. apply in_app_iff. left. auto.
Qed.

(* JSON-LD: what comes back, in general *)
Lemma jsonld_roundtrip_In D q :
  In q (parse_doc false (ser_jsonld D)) <->
    (snd q = 0%N /\ (In (fst q, 0%N) (d_quads D)
                     \/ exists c, isb c = true /\ In c (ds_contexts D) /\ In (fst q, c) (d_quads D)))
    \/ (isb (snd q) = false /\ snd q <> 0%N /\ In (snd q) (ds_contexts D) /\ In q (d_quads D)).
Proof.
  unfold ser_jsonld. rewrite parse_plain_In.
  2:{ intros b [<-|Hb]; [discriminate|]. revert b Hb. apply blocks_of_named, lab_std_named. }
  split.
  - intros [b [[<-|Hb] [Hr Ht]]]; simpl in *.
    + left. split; [auto|]. apply in_app_iff in Ht. destruct Ht as [Ht|Ht].
      * left. now apply g_triples_In.
      * right. apply in_flat_map in Ht. destruct Ht as [c [Hc Ht]]. apply filter_In in Hc.
        exists c. rewrite <- g_triples_In. tauto.
    + right. unfold blocks_of in Hb. apply in_map_iff in Hb. destruct Hb as [c [<- Hc]]. simpl in *.
      rewrite route_lab_std in Hr. subst c. apply filter_In in Hc. destruct Hc as [Hc Hf].
      apply andb_true_iff in Hf. destruct Hf as [H1 H2]. apply negb_true_iff in H1, H2.
      apply N.eqb_neq in H2. apply g_triples_In in Ht. destruct q; simpl in *. auto.
  - intros [[H0 H]|[Hb [Hn [Hc Hq]]]].
    + exists (GDefault, g_triples D 0%N ++ flat_map (g_triples D) (filter isb (ds_contexts D))).
      split; [now left|]. split; [exact H0|]. simpl. apply in_app_iff. destruct H as [H|[c [Hb [Hc Hq]]]].
      * left. now apply g_triples_In.
      * right. apply in_flat_map. exists c. split; [apply filter_In; auto|now apply g_triples_In].
    + exists (lab_std (snd q), g_triples D (snd q)). split; [right|split].
      * unfold blocks_of. apply in_map_iff. exists (snd q). split; [reflexivity|].
        apply filter_In. split; [auto|]. rewrite Hb. simpl. apply negb_true_iff. now apply N.eqb_neq.
      * simpl. now rewrite route_lab_std.
      * simpl. apply g_triples_In. now destruct q.
Qed.

Definition no_bnode_graph (D : dset) : Prop := forall q, In q (d_quads D) -> isb (snd q) = false.

Lemma jsonld_roundtrip D : wfd D -> no_bnode_graph D ->
  qseteq (parse_doc false (ser_jsonld D)) (d_quads D).
Proof.
  intros [_ [_ Hc]] Hnb q. rewrite jsonld_roundtrip_In. split.
  - intros [[H0 [H|[c [Hb [_ Hq]]]]]|H].
    + destruct q; simpl in *; now subst.
    + apply Hnb in Hq. simpl in Hq. congruence.
    + tauto.
  - intros Hq. destruct (N.eqb_spec (snd q) 0) as [E|E].
    + left. split; [auto|]. left. destruct q; simpl in *; now subst.
    + right. auto.
Qed.

(* inside finding F8b nothing ELSE happens: what comes back is the dataset with every
   blank-node-named graph folded into the default graph - no statement is lost, none invented *)
Definition f8b_expected (D : dset) : qset :=
  map (fun q => (fst q, if isb (snd q) then 0%N else snd q)) (d_quads D).

Lemma jsonld_only_merges D : wfd D -> qseteq (parse_doc false (ser_jsonld D)) (f8b_expected D).
Proof.
  intros [_ [_ Hc]] q. rewrite jsonld_roundtrip_In. unfold f8b_expected. rewrite in_map_iff. split.
  - intros [[H0 [H|[c [Hb [_ Hq]]]]]|[Hb [Hn [_ Hq]]]].
    + exists (fst q, 0%N). split; [|exact H]. destruct q; simpl in *. now subst.
    + exists (fst q, c). split; [|exact Hq]. simpl. rewrite Hb. destruct q; simpl in *. now subst.
    + exists q. split; [|exact Hq]. destruct q as [t c]. simpl in *. now rewrite Hb.
  - intros [[t c] [<- Hq]]. simpl. destruct (isb c) eqn:Hb.
    + left. split; [reflexivity|]. right. exists c. split; [auto|]. split; [apply (Hc _ Hq)|exact Hq].
    + destruct (N.eqb_spec c 0) as [->|Hn].
      * left. split; [reflexivity|]. now left.
      * right. simpl. split; [auto|]. split; [auto|]. split; [apply (Hc _ Hq)|exact Hq].
Qed.
