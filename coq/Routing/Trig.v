(* Lemmas for C06, part 3b: TriG at full strength.  A blank-node object with a
   single reference is written inline as [ ... ] and read back as a brand-new
   node; since the graph label counts as a reference (repair of F19) such a
   node occurs nowhere else in the dataset, so this is just one more renaming. *)
From Coq Require Import PeanoNat.
From RV Require Import Routing.Model Routing.Proofs Routing.Relabel Routing.Trix.

Lemma rn_comp r1 r2 x : (forall y, isb y = true -> isb (r1 y) = true) ->
  rn (fun y => r2 (r1 y)) x = rn r2 (rn r1 x).
Proof.
  intros O1. unfold rn. destruct (isb x) eqn:E; [now rewrite (O1 x E)|now rewrite E].
Qed.

Lemma iso_trans A B C : iso A B -> iso B C -> iso A C.
Proof.
  intros [r1 [O1 [I1 S1]]] [r2 [O2 [I2 S2]]].
  exists (fun x => r2 (r1 x)). split; [auto|]. split.
  - intros x y Hx Hy E. apply I1; auto. apply I2; auto; eapply iso_image_bnode; eauto.
  - assert (map (rn_quad (fun x => r2 (r1 x))) A = map (rn_quad r2) (map (rn_quad r1) A)) as ->.
    { rewrite map_map. apply map_ext. intros [[[s p] o] c]. unfold rn_quad, rn_triple. simpl.
      now rewrite !(rn_comp r1 r2) by exact O1. }
    eapply seteq_trans; [apply seteq_map; exact S1|exact S2].
Qed.

(* ------------------------------------------------------------------ *)
(* reference counts *)

Lemma count_app x l1 l2 : count_occ_N x (l1 ++ l2) = (count_occ_N x l1 + count_occ_N x l2)%nat.
Proof. unfold count_occ_N. now rewrite filter_app, app_length. Qed.

Lemma count_In x l : In x l -> (1 <= count_occ_N x l)%nat.
Proof.
  unfold count_occ_N. induction l as [|a l IH]; simpl; [tauto|]. intros [->|H].
  - rewrite N.eqb_refl. simpl. lia.
  - destruct (N.eqb x a); simpl; [lia|auto].
Qed.

Lemma listed_In D t c : wfd D -> In (t, c) (d_quads D) -> In c (trig_listed D).
Proof.
  intros [_ [_ Hc]] Hq. unfold trig_listed. apply filter_In. split.
  - unfold ctxs_plus_default. apply in_app_iff. left. apply (Hc _ Hq).
  - apply negb_true_iff. apply isnil_false. exists t. now apply g_triples_In.
Qed.

Definition seg_obj (D : dset) := flat_map (fun c => map (fun t : triple => snd t) (g_triples D c)) (trig_listed D).
Definition seg_pred (D : dset) :=
  flat_map (fun c => filter isb (map (fun t : triple => snd (fst t)) (g_triples D c))) (trig_listed D).
Definition seg_subj (D : dset) :=
  flat_map (fun c => dedup N.eqb (map (fun t : triple => fst (fst t)) (g_triples D c))) (trig_listed D).
Definition seg_lab (D : dset) := filter isb (trig_listed D).

Lemma trig_refs_segs D : trig_refs D = seg_obj D ++ seg_pred D ++ seg_subj D ++ seg_lab D.
Proof. reflexivity. Qed.

Lemma two_refs D x :
  In x (seg_obj D) -> In x (seg_pred D) \/ In x (seg_subj D) \/ In x (seg_lab D) -> inlined D x = false.
Proof.
  intros H1 H2. unfold inlined, inlined_gen. fold (trig_refs D). rewrite trig_refs_segs, !count_app.
  apply count_In in H1.
  assert (1 <= count_occ_N x (seg_pred D) + (count_occ_N x (seg_subj D) + count_occ_N x (seg_lab D)))%nat as H.
  { destruct H2 as [H|[H|H]]; apply count_In in H; lia. }
  destruct (isb x); [|reflexivity]. simpl. apply Nat.leb_gt. lia.
Qed.

Definition objs_of (D : dset) : list N := map (fun q : quad => snd (fst q)) (d_quads D).

Lemma objs_seg D x : wfd D -> In x (objs_of D) -> In x (seg_obj D).
Proof.
  intros HW Hx. unfold objs_of in Hx. apply in_map_iff in Hx. destruct Hx as [[t c] [<- Hq]]. simpl.
  unfold seg_obj. apply in_flat_map. exists c. split; [eapply listed_In; eauto|].
  apply in_map_iff. exists t. split; [reflexivity|now apply g_triples_In].
Qed.

(* the renaming the serialiser performs *)
Definition tau (D : dset) (x : N) : N :=
  if inlined D x && memb N.eqb x (objs_of D) then anon_label D x else x.

Lemma tau_fix D x : wfd D ->
  In x (seg_pred D) \/ In x (seg_subj D) \/ In x (seg_lab D) -> tau D x = x.
Proof.
  intros HW H. unfold tau. destruct (inlined D x && memb N.eqb x (objs_of D)) eqn:E; [|reflexivity].
  apply andb_true_iff in E. destruct E as [E1 E2]. apply (memb_In N.eqb N.eqb_spec) in E2.
  rewrite (two_refs D x (objs_seg D x HW E2) H) in E1. discriminate.
Qed.

Lemma tau_even D x : isb x = false -> tau D x = x.
Proof. intros H. unfold tau, inlined, inlined_gen. now rewrite H. Qed.

Lemma rn_tau D x : rn (tau D) x = tau D x.
Proof. unfold rn. destruct (isb x) eqn:E; [reflexivity|]. symmetry. now apply tau_even. Qed.

Lemma rn_quad_tau D t c : wfd D -> In (t, c) (d_quads D) ->
  rn_quad (tau D) (t, c) = (inl_triple D t, c).
Proof.
  intros HW Hq. pose proof (listed_In D t c HW Hq) as HL. destruct t as [[s p] o].
  unfold rn_quad, rn_triple, inl_triple, inl_triple_gen. simpl. rewrite !rn_tau.
  assert (tau D s = s) as ->.
  { apply tau_fix; auto. right. left. unfold seg_subj. apply in_flat_map. exists c. split; [auto|].
    apply (dedup_In N.eqb N.eqb_spec). apply in_map_iff. exists (s, p, o). split; [reflexivity|now apply g_triples_In]. }
  assert (tau D p = p) as ->.
  { destruct (isb p) eqn:Hb; [|now apply tau_even]. apply tau_fix; auto. left.
    unfold seg_pred. apply in_flat_map. exists c. split; [auto|]. apply filter_In. split; [|auto].
    apply in_map_iff. exists (s, p, o). split; [reflexivity|now apply g_triples_In]. }
  assert (tau D c = c) as ->.
  { destruct (isb c) eqn:Hb; [|now apply tau_even]. apply tau_fix; auto. right. right.
    unfold seg_lab. apply filter_In. auto. }
  assert (tau D o = (if inlined_gen true D o then anon_label D o else o)) as ->; [|reflexivity].
  unfold tau. fold (inlined D o).
  assert (memb N.eqb o (objs_of D) = true) as ->.
  { apply (memb_In N.eqb N.eqb_spec). unfold objs_of. apply in_map_iff. exists (s, p, o, c). auto. }
  now rewrite andb_true_r.
Qed.

Lemma anon_label_odd D x : isb (anon_label D x) = true.
Proof. unfold isb, anon_label. rewrite N.add_comm, N.odd_add_mul_2. reflexivity. Qed.

Lemma tau_odd D x : isb x = true -> isb (tau D x) = true.
Proof. intros H. unfold tau. destruct (_ && _); [apply anon_label_odd|exact H]. Qed.

Lemma tau_inj D x y : In x (bnodes (d_quads D)) -> In y (bnodes (d_quads D)) -> tau D x = tau D y -> x = y.
Proof.
  intros Hx Hy. apply bnodes_In in Hx, Hy. destruct Hx as [_ Hx], Hy as [_ Hy].
  apply list_max_ge in Hx, Hy. unfold tau, anon_label.
  destruct (inlined D x && memb N.eqb x (objs_of D)), (inlined D y && memb N.eqb y (objs_of D)); lia.
Qed.

Lemma trig_roundtrip D : wfd D -> iso (d_quads D) (parse_doc true (ser_trig D)).
Proof.
  intros HW. apply iso_trans with (map (rn_quad (tau D)) (d_quads D)).
  - exists (tau D). split; [apply tau_odd|]. split; [apply tau_inj|apply seteq_refl].
  - apply parse_relabel_iso.
    + intros b Hb. unfold ser_trig, ser_trig_gen in Hb. apply in_map_iff in Hb. destruct Hb as [c [<- _]].
      apply lab_std_named.
    + intros q. rewrite in_map_iff. split.
      * intros [[t c] [<- Hq]]. rewrite (rn_quad_tau D t c HW Hq).
        exists (lab_std c, map (inl_triple D) (g_triples D c)). split; [|split].
        -- unfold ser_trig, ser_trig_gen. apply in_map_iff. exists c. split; [reflexivity|].
           apply (dedup_In N.eqb N.eqb_spec). eapply listed_In; eauto.
        -- simpl. now rewrite route_lab_std.
        -- simpl. apply in_map. now apply g_triples_In.
      * intros [b [Hb [Hr Ht]]]. unfold ser_trig, ser_trig_gen in Hb. apply in_map_iff in Hb.
        destruct Hb as [c [<- _]]. simpl in Hr, Ht. rewrite route_lab_std in Hr.
        apply in_map_iff in Ht. destruct Ht as [t [Et Ht]]. apply g_triples_In in Ht.
        exists (t, c). split; [|exact Ht]. rewrite (rn_quad_tau D t c HW Ht).
        destruct q as [tq cq]. simpl in *. subst. reflexivity.
Qed.

(* ------------------------------------------------------------------ iso is symmetric *)
Lemma bnode_preimage r A B y :
  qseteq (map (rn_quad r) A) B -> In y (bnodes B) -> exists x, In x (bnodes A) /\ r x = y.
Proof.
  intros Hs Hy. apply bnodes_In in Hy. destruct Hy as [Hb Hi]. apply ids_of_In in Hi.
  destruct Hi as [q' [Hq' Hyq]]. apply Hs in Hq'. apply in_map_iff in Hq'. destruct Hq' as [q [<- Hq]].
  apply rn_quad_ids_inv in Hyq. destruct Hyq as [x [Hx ->]]. unfold rn in *. destruct (isb x) eqn:Ex.
  - exists x. split; [|reflexivity]. apply bnodes_In. split; [auto|]. apply ids_of_In. eauto.
  - congruence.
Qed.

Definition inv_on (r : N -> N) (dom : list N) (y : N) : N :=
  match find (fun x => N.eqb (r x) y) dom with Some x => x | None => y end.

Lemma inv_on_left r dom x :
  (forall a b, In a dom -> In b dom -> r a = r b -> a = b) -> In x dom -> inv_on r dom (r x) = x.
Proof.
  intros Hinj Hx. unfold inv_on. destruct (find (fun x0 => N.eqb (r x0) (r x)) dom) as [x'|] eqn:E.
  - apply find_some in E. destruct E as [Hx' E]. apply N.eqb_eq in E. now apply Hinj.
  - exfalso. apply (find_none _ _ E) in Hx. rewrite N.eqb_refl in Hx. discriminate.
Qed.

Theorem iso_sym A B : iso A B -> iso B A.
Proof.
  intros [r [Hodd [Hinj Hs]]]. exists (inv_on r (bnodes A)). split; [|split].
  - intros y Hy. unfold inv_on. destruct (find _ _) as [x|] eqn:E; [|exact Hy].
    apply find_some in E. destruct E as [Hx _]. now apply bnodes_In in Hx.
  - intros y1 y2 H1 H2 E.
    destruct (bnode_preimage r A B y1 Hs H1) as [x1 [Hx1 <-]].
    destruct (bnode_preimage r A B y2 Hs H2) as [x2 [Hx2 <-]].
    rewrite !inv_on_left in E by auto. now subst.
  - apply seteq_trans with (map (rn_quad (inv_on r (bnodes A))) (map (rn_quad r) A)).
    + apply seteq_map. apply seteq_sym. exact Hs.
    + assert (map (rn_quad (inv_on r (bnodes A))) (map (rn_quad r) A) = A) as ->; [|apply seteq_refl].
      rewrite map_map. rewrite <- (map_id A) at 2. apply map_ext_in. intros q Hq.
      assert (forall x, In x (ids_of_quad q) -> rn (inv_on r (bnodes A)) (rn r x) = x) as Hx.
      { intros x Hx. unfold rn at 2. destruct (isb x) eqn:Ex.
        - unfold rn. rewrite (Hodd x Ex). apply inv_on_left; [auto|]. apply bnodes_In. split; [auto|].
          apply ids_of_In. eauto.
        - unfold rn. now rewrite Ex. }
      destruct q as [[[s p] o] c]. unfold rn_quad, rn_triple. simpl.
      rewrite (Hx s), (Hx p), (Hx o), (Hx c); simpl; auto.
Qed.
