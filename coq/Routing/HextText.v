(* C06, text level: HexTuples rows of DATASETS.  C03's coq/Codec/Hext.v models one
   row <-> one triple for a plain Graph (context column empty) and the reader's
   context column; added here:
     serializers/hext.py  _context_str (the graph column: "" for the default graph,
                          the IRI, or _:label), the default graph listed twice
     parsers/hext.py      _parse_hextuple routing: column 6 None -> default graph,
                          "_:..." -> BNode(label), else URIRef
   A row is the list of six strings handed to / returned by CPython's json
   (the JSON text itself is not modelled). *)
From Coq Require Import List NArith Bool Lia.
From RV Require Import Codec.Model Codec.Proofs Codec.Hext Routing.Text Routing.TextProofs.
Import ListNotations.
Open Scope N_scope.

(* _context_str for a Dataset: None = the default graph *)
Definition hext_ctx_str (g : option node) : str :=
  match g with None => [] | Some n => iri_or_bn n end.

Definition hext_row_q (q : tquad) : list str :=
  match hext_row (fst q) with
  | [f0; f1; f2; f3; f4; _] => [f0; f1; f2; f3; f4; hext_ctx_str (snd q)]
  | r => r
  end.

Definition is_default (q : tquad) : bool := match snd q with None => true | Some _ => false end.

(* HextuplesSerializer: contexts = list(store.contexts()) + [default_context] when
   the default graph is non-empty: its rows are written twice *)
Definition hext_doc (qs : list tquad) : list (list str) :=
  map hext_row_q qs ++ map hext_row_q (filter is_default qs).

Fixpoint hext_read (rows : list (list str)) : option (list tquad) :=
  match rows with
  | [] => Some []
  | r :: t => match hext_parse r, hext_read t with
              | Some q, Some qs => Some (q :: qs)
              | _, _ => None
              end
  end.

Definition hext_norm_q (q : tquad) : tquad := (hext_norm (fst q), snd q).

Definition hext_good (q : tquad) : bool :=
  wf_triple (fst q) && hext_ok (fst q)
  && match snd q with Some n => wf_node n && hext_node_ok n | None => true end.

(* suite *)
Inductive hq_case := HqWrite (qs : list tquad).
Inductive hq_obs := HqObs (rows : list (list str)) (back : option (list tquad)).
Definition hq_model (c : hq_case) : hq_obs :=
  match c with HqWrite qs => HqObs (hext_doc qs) (hext_read (hext_doc qs)) end.
Definition rows_eqb (a b : list (list str)) : bool :=
  Nat.eqb (length a) (length b) && seteq_l (list_eqb str_eqb) a b.
Definition hq_obs_eqb (a b : hq_obs) : bool :=
  match a, b with HqObs r x, HqObs r' x' => rows_eqb r r' && opt_eqb (seteq_l tquad_eqb) x x' end.
(* the property: the quads come back (a simple literal as xsd:string, the one identification RDF 1.1 makes) *)
Definition hq_spec (c : hq_case) (o : hq_obs) : bool :=
  match c, o with
  | HqWrite qs, HqObs _ back =>
      if forallb hext_good qs then opt_eqb (seteq_l tquad_eqb) back (Some (map hext_norm_q qs)) else true
  end.

(* ------------------------------------------------------------------ proofs *)
Lemma hext_row_shape t : exists f0 f1 f2 f3 f4 : str,
  hext_row t = @cons str f0 (@cons str f1 (@cons str f2 (@cons str f3 (@cons str f4 (@cons str (@nil N) (@nil str)))))).
Proof. destruct t as [[s p] o]. unfold hext_row. eauto 10. Qed.

(* the graph column does not influence the triple, and is read by itself *)
Definition ctx_of (f5 : str) : option node :=
  match nonempty f5 with
  | None => None
  | Some c => Some (if starts_bn c then Bnode (strip_bn c) else Iri c)
  end.

Lemma hext_parse_ctx f0 f1 f2 f3 f4 f5 :
  hext_parse [f0; f1; f2; f3; f4; f5] =
  match hext_parse (@cons str f0 (@cons str f1 (@cons str f2 (@cons str f3 (@cons str f4 (@cons str (@nil N) (@nil str))))))) with
  | Some (t, _) => Some (t, ctx_of f5)
  | None => None
  end.
Proof.
  unfold hext_parse, ctx_of. destruct (nonempty f0), (nonempty f1), (nonempty f3); try reflexivity.
  cbn [nonempty]. destruct (str_eqb s1 s_globalId); [reflexivity|]. destruct (str_eqb s1 s_localId); [reflexivity|].
  destruct (nonempty f4); [|reflexivity]. destruct (valid_langtag s2); reflexivity.
Qed.

Lemma ctx_back n : wf_node n = true -> hext_node_ok n = true -> ctx_of (iri_or_bn n) = Some n.
Proof.
  intros Hwf Hok. destruct n as [u|l]; simpl in Hwf, Hok.
  - destruct (wf_iri_nonempty u Hwf) as (c & r & ->). unfold ctx_of. cbn [iri_or_bn nonempty].
    apply negb_true_iff in Hok. unfold starts_us in Hok. unfold starts_bn. destruct r as [|b r]; [reflexivity|].
    rewrite Hok. reflexivity.
  - unfold ctx_of. cbn [iri_or_bn app nonempty]. apply negb_true_iff in Hok.
    change (starts_bn (95 :: 58 :: l)) with true. cbv iota.
    change (95 :: 58 :: l) with ([95; 58] ++ l). now rewrite strip_bn_label.
Qed.

Theorem hext_row_q_roundtrip q : hext_good q = true -> hext_parse (hext_row_q q) = Some (hext_norm_q q).
Proof.
  intros H. destruct q as [t g]. unfold hext_good in H. cbn [fst snd] in H.
  apply andb_true_iff in H as [H Hg]. apply andb_true_iff in H as [Hwf Hok].
  unfold hext_row_q, hext_norm_q. cbn [fst snd].
  destruct (hext_row_shape t) as (f0 & f1 & f2 & f3 & f4 & Hrow). rewrite Hrow. cbv beta iota.
  rewrite hext_parse_ctx.
  pose proof (hext_row_roundtrip t Hwf Hok) as Hrt. rewrite Hrow in Hrt. rewrite Hrt. f_equal. f_equal.
  destruct g as [n|]; [|reflexivity]. apply andb_true_iff in Hg as [Hgw Hgo]. cbn [hext_ctx_str].
  now apply ctx_back.
Qed.

Lemma hext_read_rows qs : forallb hext_good qs = true ->
  hext_read (map hext_row_q qs) = Some (map hext_norm_q qs).
Proof.
  induction qs as [|q qs IH]; intros H; [reflexivity|]. simpl in H. apply andb_true_iff in H as [Hq Hqs].
  cbn [map hext_read]. now rewrite (hext_row_q_roundtrip q Hq), (IH Hqs).
Qed.

Lemma hext_read_app a b x y : hext_read a = Some x -> hext_read b = Some y -> hext_read (a ++ b) = Some (x ++ y).
Proof.
  revert x. induction a as [|r a IH]; intros x Ha Hb.
  - simpl in Ha. inversion Ha. exact Hb.
  - cbn [app hext_read] in *. destruct (hext_parse r); [|discriminate]. destruct (hext_read a) eqn:E; [|discriminate].
    inversion Ha; subst. now rewrite (IH l eq_refl Hb).
Qed.

(* every well-formed dataset: the rows written (default graph twice) are read back
   as the quads of the dataset, as a set *)
Theorem hext_text_roundtrip qs : forallb hext_good qs = true ->
  exists back, hext_read (hext_doc qs) = Some back /\ forall q, In q back <-> In q (map hext_norm_q qs).
Proof.
  intros H. exists (map hext_norm_q qs ++ map hext_norm_q (filter is_default qs)). split.
  - unfold hext_doc. apply hext_read_app; apply hext_read_rows; [exact H|].
    rewrite forallb_forall in *. intros q Hq. apply filter_In in Hq. apply H. tauto.
  - intros q. rewrite in_app_iff, !in_map_iff. split; [|tauto].
    intros [H1|[x [E Hx]]]; [exact H1|]. exists x. apply filter_In in Hx. tauto.
Qed.

Theorem hq_spec_model : forall c, hq_spec c (hq_model c) = true.
Proof.
  intros [qs]. unfold hq_spec, hq_model. destruct (forallb hext_good qs) eqn:H; [|reflexivity].
  destruct (hext_text_roundtrip qs H) as (back & -> & Hb). simpl. now apply seteq_l_iff.
Qed.
