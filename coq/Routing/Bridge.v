(* C06: the bridge between the number-labelled ROUTING level (Routing/Model.v: terms,
   blank nodes and graph names are numbers, a document is a list of blocks) and the
   string-labelled TEXT level (Routing/Text.v on coq/Codec: terms are strings of code
   points, a document is a string).

   An encoding [enc] spells every number: even numbers as IRIs (subject, predicate,
   graph name) or as an arbitrary object term, odd numbers as blank-node labels - the
   SAME label wherever the number stands (term or graph name).  The encoding is a
   parameter: any spelling that rdflib accepts when writing (the H_ hypotheses) will do.
   Under it
     - the rows the routing-level serialiser describes, encoded, ARE the rows the
       text-level writer is given (label rule = graph column rule),
     - the text written is read back, for every buffer size, as exactly those rows
       (labels included: the text layer is lossless),
     - and the routing-level parser's label policy applied to these rows yields a dataset
       isomorphic to the original.
   So the routing theorems are theorems about the text the model writes. *)
From RV Require Import Routing.Model Routing.Proofs Routing.Relabel Routing.Patch.
From RV Require Codec.Model Codec.Proofs Routing.Text Routing.TextProofs.

Module CM := RV.Codec.Model.
Module CP := RV.Codec.Proofs.
Module TX := RV.Routing.Text.
Module TP := RV.Routing.TextProofs.

(* a row of a routing-level document: one statement with the label of its block *)
Definition row := (triple * glabel)%type.
Definition rows (d : doc) : list row := flat_map (fun b => map (fun t => (t, fst b)) (snd b)) d.
(* the same statements, one block per row (what a line-oriented reader sees) *)
Definition rowdoc (R : list row) : doc := map (fun r => (snd r, [fst r])) R.
Definition row_quad (r : row) : quad := (fst r, route (snd r)).

Lemma rows_In d t l : In (t, l) (rows d) <-> exists b, In b d /\ fst b = l /\ In t (snd b).
Proof.
  unfold rows. rewrite in_flat_map. split.
  - intros [b [Hb Hin]]. apply in_map_iff in Hin. destruct Hin as [t' [E Ht]]. inversion E; subst. eauto.
  - intros [b [Hb [<- Ht]]]. exists b. split; [auto|]. apply in_map_iff. eauto.
Qed.

Lemma rowdoc_named R : (forall r, In r R -> snd r <> GAnon) -> named_only (rowdoc R).
Proof. intros H b Hb. unfold rowdoc in Hb. apply in_map_iff in Hb. destruct Hb as [r [<- Hr]]. simpl. auto. Qed.

Lemma rowdoc_describes R q :
  (exists b, In b (rowdoc R) /\ snd q = route (fst b) /\ In (fst q) (snd b)) <-> In q (map row_quad R).
Proof.
  unfold rowdoc, row_quad. rewrite in_map_iff. split.
  - intros [b [Hb [Hr Ht]]]. apply in_map_iff in Hb. destruct Hb as [r [<- Hin]]. simpl in *.
    destruct Ht as [E|[]]. exists r. split; [|auto]. destruct q as [t c]; simpl in *. now subst.
  - intros [r [<- Hr]]. exists (snd r, [fst r]). split; [apply in_map_iff; eauto|]. simpl. auto.
Qed.

(* the rows of a document built from the graphs [cs] of D under the standard label rule *)
Lemma rows_blocks_std D cs r :
  In r (rows (blocks_of lab_std D cs)) <-> exists c, In c cs /\ snd r = lab_std c /\ In (fst r, c) (d_quads D).
Proof.
  destruct r as [t l]. rewrite rows_In. unfold blocks_of. simpl. split.
  - intros [b [Hb [Hl Ht]]]. apply in_map_iff in Hb. destruct Hb as [c [<- Hc]]. simpl in *. exists c.
    rewrite <- g_triples_In. auto.
  - intros [c [Hc [-> Hq]]]. exists (lab_std c, g_triples D c). split; [apply in_map_iff; eauto|].
    simpl. split; [reflexivity|now apply g_triples_In].
Qed.

Section Enc.
  Variable iri_of : N -> CM.str.       (* an even number as IRI *)
  Variable obj_of : N -> CM.obj.       (* an even number in object position: IRI or literal *)
  Variable lab_of : N -> CM.str.       (* an odd number as blank-node label *)

  (* what rdflib accepts when writing, and Python strings *)
  Hypothesis H_iri : forall x, CM.wf_iri (iri_of x) = true /\ CP.valid_str (iri_of x) = true.
  Hypothesis H_lab : forall x, CM.wf_label (lab_of x) = true /\ CP.valid_str (lab_of x) = true.
  Hypothesis H_obj : forall x, CM.wf_obj (obj_of x) = true /\ CP.pystr_obj (obj_of x) = true.

  Definition enc_node (x : N) : CM.node := if isb x then CM.Bnode (lab_of x) else CM.Iri (iri_of x).
  Definition enc_obj (x : N) : CM.obj := if isb x then CM.ONode (CM.Bnode (lab_of x)) else obj_of x.
  Definition enc_triple (t : triple) : CM.triple :=
    (enc_node (fst (fst t)), iri_of (snd (fst t)), enc_obj (snd t)).
  Definition enc_lab (l : glabel) : option CM.node := match l with GName c => Some (enc_node c) | _ => None end.
  Definition enc_row (r : row) : TX.tquad := (enc_triple (fst r), enc_lab (snd r)).
  (* a quad of the dataset: graph 0 is the default graph (no graph column) *)
  Definition enc_quad (q : quad) : TX.tquad :=
    (enc_triple (fst q), if N.eqb (snd q) 0 then None else Some (enc_node (snd q))).

  Lemma enc_node_good x :
    CM.wf_node (enc_node x) = true /\ CM.node_readable (enc_node x) = true /\ CP.pystr_node (enc_node x) = true.
  Proof.
    unfold enc_node. destruct (isb x); simpl.
    - destruct (H_lab x). auto.
    - destruct (H_iri x) as [H1 H2]. split; [auto|]. split; [now apply CP.wf_iri_readable|auto].
  Qed.

  Lemma enc_triple_good t : CP.good_triple (enc_triple t) = true.
  Proof.
    destruct t as [[s p] o]. unfold enc_triple. simpl.
    destruct (enc_node_good s) as [Hs1 [_ Hs3]]. destruct (H_iri p) as [Hp1 Hp2].
    assert (CM.wf_obj (enc_obj o) = true /\ CP.pystr_obj (enc_obj o) = true) as [Ho1 Ho2].
    { unfold enc_obj. destruct (isb o); [|apply H_obj]. simpl. destruct (H_lab o). auto. }
    assert (CM.wf_triple (enc_node s, iri_of p, enc_obj o) = true) as Hwf.
    { unfold CM.wf_triple. now rewrite Hs1, Hp1, Ho1. }
    unfold CP.good_triple. rewrite Hwf, (CP.wf_triple_readable _ Hwf). simpl.
    unfold CP.pystr_obj in Ho2. now rewrite Hs3, Hp2, Ho2.
  Qed.

  Lemma enc_row_good r : TX.good_tquad (enc_row r) = true.
  Proof.
    unfold TX.good_tquad, enc_row. simpl. rewrite enc_triple_good. simpl.
    destruct (snd r) as [|c|]; simpl; try reflexivity.
    destruct (enc_node_good c) as [H1 [H2 H3]]. now rewrite H1, H2, H3.
  Qed.

  (* the label rule of the serialisers is the graph-column rule of the text level *)
  Lemma enc_row_std t c : enc_row (t, lab_std c) = enc_quad (t, c).
  Proof. unfold enc_row, enc_quad, lab_std. simpl. destruct (N.eqb c 0); reflexivity. Qed.

  (* ---------------------------------------------------------------- N-Quads *)
  Theorem nquads_levels_agree D : wfd D -> forall n, (1 <= n)%nat ->
    let R := rows (ser_nquads D) in
    (* 1. the encoded rows of the routing-level document are the encoded quads of the dataset *)
    map enc_row R = map enc_quad (map row_quad R)
    /\ (forall q, In q (d_quads D) <-> In q (map row_quad R))
    (* 2. the text written for them is read back as exactly these rows, for every buffer size *)
    /\ (exists text, TX.nq_doc (map enc_row R) = Some text /\ TX.nq_parse_doc n text = Some (map enc_row R))
    (* 3. the routing-level reader (one label dictionary per document) on these rows: the original
          dataset up to blank-node renaming *)
    /\ iso (d_quads D) (parse_doc true (rowdoc R)).
  Proof.
    intros HW n Hn R. pose proof HW as [_ [_ Hc]].
    assert (forall r, In r R -> exists c, In c (ds_contexts D) /\ snd r = lab_std c /\ In (fst r, c) (d_quads D)) as HR.
    { intros r Hr. now apply rows_blocks_std. }
    assert (forall q, In q (d_quads D) <-> In q (map row_quad R)) as HQ.
    { intros q. rewrite in_map_iff. split.
      - intros Hq. exists (fst q, lab_std (snd q)). split.
        + unfold row_quad. simpl. rewrite route_lab_std. now destruct q.
        + apply rows_blocks_std. exists (snd q). simpl. split; [auto|]. split; [reflexivity|now destruct q].
      - intros [r [<- Hr]]. destruct (HR r Hr) as [c [_ [Hl Hq]]]. unfold row_quad. rewrite Hl, route_lab_std. exact Hq. }
    split; [|split; [exact HQ|split]].
    - rewrite map_map. apply map_ext_in. intros r Hr. destruct (HR r Hr) as [c [_ [Hl _]]].
      destruct r as [t l]. simpl in Hl. subst l. unfold row_quad. simpl. rewrite route_lab_std. apply enc_row_std.
    - apply TP.nq_text_roundtrip; [exact Hn|]. apply forallb_forall. intros q Hq. apply in_map_iff in Hq.
      destruct Hq as [r [<- _]]. apply enc_row_good.
    - apply parse_relabel_iso.
      + apply rowdoc_named. intros r Hr. destruct (HR r Hr) as [c [_ [Hl _]]]. rewrite Hl. apply lab_std_named.
      + intros q. rewrite rowdoc_describes. apply HQ.
  Qed.

  (* ---------------------------------------------------------------- RDF Patch *)
  (* the patch reader takes "<_" for a labelled blank node: no IRI begins with '_' *)
  Hypothesis H_us : forall x, match iri_of x with c :: _ => N.eqb c 95 = false | [] => True end.
  Hypothesis H_obj_us : forall x, match obj_of x with
                                  | CM.ONode (CM.Iri (c :: _)) => N.eqb c 95 = false
                                  | _ => True
                                  end.

  Definition enc_prow (r : prow) : TX.prow := (fst (fst r), (enc_triple (snd r), enc_lab (snd (fst r)))).

  Lemma enc_node_us x : TX.iri_no_us (enc_node x) = true.
  Proof.
    unfold enc_node. destruct (isb x); [reflexivity|]. simpl. specialize (H_us x).
    destruct (iri_of x); [reflexivity|]. now rewrite H_us.
  Qed.

  Lemma enc_prow_good r : TP.good_prow (enc_prow r) = true.
  Proof.
    unfold TP.good_prow, enc_prow. cbn [snd].
    change (TX.good_tquad (enc_row (snd r, snd (fst r))) && TX.patch_ok (enc_row (snd r, snd (fst r))) = true).
    rewrite enc_row_good. simpl. destruct r as [[op l] [[s p] o]]. unfold TX.patch_ok, enc_row, enc_triple. simpl.
    rewrite enc_node_us. simpl.
    assert (match enc_obj o with CM.ONode n => TX.iri_no_us n | _ => true end = true) as ->.
    { unfold enc_obj. destruct (isb o); [reflexivity|]. specialize (H_obj_us o).
      destruct (obj_of o) as [[[|c u]|l']|]; try reflexivity. simpl. now rewrite H_obj_us. }
    simpl. destruct l as [|c|]; try reflexivity. simpl. apply enc_node_us.
  Qed.

  Theorem patch_levels_agree S T : forall n, (1 <= n)%nat ->
    let R := ser_patch_diff S T in
    (* the text written for the encoded rows (TX, A / D rows, TC) is read back as exactly these rows *)
    (exists text, TX.patch_doc None None (map enc_prow R) = Some text
                  /\ TX.patch_parse_doc n text = Some (map enc_prow R))
    (* and the routing-level application of the rows to the first dataset yields the second *)
    /\ qseteq (apply_patch R (d_quads S)) (d_quads T).
  Proof.
    intros n Hn R. split; [|apply patch_diff_apply].
    apply TP.patch_text_roundtrip; auto. apply forallb_forall. intros r Hr. apply in_map_iff in Hr.
    destruct Hr as [r0 [<- _]]. apply enc_prow_good.
  Qed.
End Enc.

(* ================================================================== HexTuples rows and the TriX tree *)
From RV Require Codec.Hext Routing.HextText Routing.TrixTree.
Module CH := RV.Codec.Hext.
Module HT := RV.Routing.HextText.
Module XT := RV.Routing.TrixTree.

Section Enc2.
  Variable iri_of : N -> CM.str.
  Variable obj_of : N -> CM.obj.
  Variable lab_of : N -> CM.str.
  Hypothesis H_iri : forall x, CM.wf_iri (iri_of x) = true /\ CP.valid_str (iri_of x) = true.
  Hypothesis H_lab : forall x, CM.wf_label (lab_of x) = true /\ CP.valid_str (lab_of x) = true.
  Hypothesis H_obj : forall x, CM.wf_obj (obj_of x) = true /\ CP.pystr_obj (obj_of x) = true.
  (* HexTuples: an IRI does not begin with '_' and a label does not contain "_:" (the reader
     tells blank nodes by a leading "_" and removes every "_:") *)
  Hypothesis H_us : forall x, match iri_of x with c :: _ => N.eqb c 95 = false | [] => True end.
  Hypothesis H_mark : forall x, CH.has_bn_marker (lab_of x) = false.
  Hypothesis H_obj_hext : forall x, match obj_of x with CM.ONode n => CH.hext_node_ok n = true | _ => True end.

  Notation encn := (enc_node iri_of lab_of).
  Notation encr := (enc_row iri_of obj_of lab_of).
  Notation enct := (enc_triple iri_of obj_of lab_of).

  Lemma enc_node_hext x : CH.hext_node_ok (encn x) = true.
  Proof.
    unfold enc_node. destruct (isb x); simpl.
    - now rewrite H_mark.
    - specialize (H_us x). unfold CH.starts_us. destruct (iri_of x); [reflexivity|]. now rewrite H_us.
  Qed.

  Lemma enc_row_hext_good r : HT.hext_good (encr r) = true.
  Proof.
    unfold HT.hext_good, enc_row. cbn [fst snd].
    pose proof (enc_triple_good iri_of obj_of lab_of H_iri H_lab H_obj (fst r)) as Hg.
    unfold CP.good_triple in Hg. apply andb_true_iff in Hg as [Hg _]. apply andb_true_iff in Hg as [Hwf _].
    rewrite Hwf. cbn [andb].
    assert (CH.hext_ok (enct (fst r)) = true) as ->.
    { destruct (fst r) as [[s p] o]. unfold enc_triple, CH.hext_ok. cbn [fst snd]. rewrite enc_node_hext. cbn [andb].
      unfold enc_obj. destruct (isb o) eqn:Eo.
      - pose proof (enc_node_hext o) as H. unfold enc_node in H. now rewrite Eo in H.
      - specialize (H_obj_hext o). destruct (obj_of o); [exact H_obj_hext|reflexivity]. }
    cbn [andb]. destruct (snd r) as [|c|]; cbn [enc_lab]; try reflexivity.
    destruct (enc_node_good iri_of lab_of H_iri H_lab c) as [H1 _]. now rewrite H1, enc_node_hext.
  Qed.

  Theorem hext_levels_agree D : wfd D ->
    let R := rows (ser_hext D) in
    let R0 := rows (blocks_of lab_std D (ds_contexts D)) in
    (* the rows the text-level writer produces for the encoded dataset (default graph twice) are the
       encoded rows of the routing-level document *)
    (forall x, In x (HT.hext_doc (map encr R0)) <-> In x (map HT.hext_row_q (map encr R)))
    /\ (forall q, In q (d_quads D) <-> In q (map row_quad R))
    (* they are read back as exactly these rows (a simple literal as xsd:string) *)
    /\ HT.hext_read (map HT.hext_row_q (map encr R)) = Some (map HT.hext_norm_q (map encr R))
    (* and the routing-level reader (labels kept) gives back the dataset itself *)
    /\ qseteq (parse_doc false (ser_hext D)) (d_quads D).
  Proof.
    intros HW R R0. pose proof HW as [_ [_ Hc]].
    assert (forall r, In r R <-> In r R0) as HRR.
    { intros r. unfold R, R0, ser_hext. rewrite !rows_blocks_std. split; intros [c [Hin H]]; exists c; (split; [|exact H]).
      - unfold ctxs_plus_default in Hin. apply in_app_iff in Hin. destruct Hin as [Hin|Hin]; [exact Hin|].
        destruct (isnil (g_triples D 0%N)); [destruct Hin|]. destruct Hin as [<-|[]]. apply ds_contexts_In. now right.
      - unfold ctxs_plus_default. apply in_app_iff. now left. }
    split; [|split; [|split]].
    - intros x. unfold HT.hext_doc. rewrite in_app_iff, !in_map_iff. split.
      + intros [[q [<- Hq]]|[q [<- Hq]]].
        * apply in_map_iff in Hq. destruct Hq as [r [<- Hr]]. exists (encr r). split; [reflexivity|].
          apply in_map. now apply HRR.
        * apply filter_In in Hq. destruct Hq as [Hq _]. apply in_map_iff in Hq. destruct Hq as [r [<- Hr]].
          exists (encr r). split; [reflexivity|]. apply in_map. now apply HRR.
      + intros [q [<- Hq]]. apply in_map_iff in Hq. destruct Hq as [r [<- Hr]]. left. exists (encr r).
        split; [reflexivity|]. apply in_map. now apply HRR.
    - intros q. rewrite in_map_iff. split.
      + intros Hq. exists (fst q, lab_std (snd q)). split.
        * unfold row_quad. simpl. rewrite route_lab_std. now destruct q.
        * apply HRR. apply rows_blocks_std. exists (snd q). simpl. split; [auto|]. split; [reflexivity|now destruct q].
      + intros [r [<- Hr]]. apply HRR in Hr. apply rows_blocks_std in Hr. destruct Hr as [c [_ [Hl Hq]]].
        unfold row_quad. rewrite Hl, route_lab_std. exact Hq.
    - apply HT.hext_read_rows. apply forallb_forall. intros q Hq. apply in_map_iff in Hq.
      destruct Hq as [r [<- _]]. apply enc_row_hext_good.
    - now apply hext_roundtrip.
  Qed.
End Enc2.

From RV Require Import Routing.Trix.

Section Enc3.
  Variable iri_of : N -> CM.str.
  Variable obj_of : N -> CM.obj.
  Variable lab_of : N -> CM.str.
  Hypothesis H_iri : forall x, CM.wf_iri (iri_of x) = true /\ CP.valid_str (iri_of x) = true.
  Hypothesis H_lab : forall x, CM.wf_label (lab_of x) = true /\ CP.valid_str (lab_of x) = true.
  Hypothesis H_obj : forall x, CM.wf_obj (obj_of x) = true /\ CP.pystr_obj (obj_of x) = true.

  Notation encn := (enc_node iri_of lab_of).
  Notation enct := (enc_triple iri_of obj_of lab_of).

  (* a graph of the dataset as the TriX writer is handed it: identifier (graph 0 is the default
     graph, with its own IRI) and triples *)
  Definition enc_graph (D : dset) (c : cid) : XT.ingraph := (encn c, map enct (g_triples D c)).

  (* the XML tree a routing-level block stands for: a name child for GName, none for GAnon *)
  Definition tree_block (b : block) : XT.xgraph :=
    (match fst b with GName c => [XT.GName (XT.XUri (iri_of c))] | _ => [] end)
    ++ map (fun t => XT.GTriple (XT.wr_triple (enct t))) (snd b).

  (* what the tree reader returns for a block: a named segment, or an anonymous one (none when empty) *)
  Definition seg_block (b : block) : list XT.seg :=
    match fst b with
    | GName c => [(Some (CM.Iri (iri_of c)), map (fun t => XT.emb (enct t)) (snd b))]
    | _ => match snd b with
           | [] => []
           | _ => [(None, map (fun t => XT.emb (enct t)) (snd b))]
           end
    end.

  Lemma enc_graph_wf D c : XT.trix_wf (enc_graph D c) = true.
  Proof.
    unfold XT.trix_wf, enc_graph. cbn [fst snd].
    destruct (enc_node_good iri_of lab_of H_iri H_lab c) as [H1 _]. rewrite H1. cbn [andb].
    apply forallb_forall. intros t Ht. apply in_map_iff in Ht. destruct Ht as [t0 [<- _]].
    pose proof (enc_triple_good iri_of obj_of lab_of H_iri H_lab H_obj t0) as Hg.
    unfold CP.good_triple in Hg. apply andb_true_iff in Hg as [Hg _]. now apply andb_true_iff in Hg as [Hwf _].
  Qed.

  Lemma expect_segments D cs :
    XT.expect_doc (map (enc_graph D) cs) = flat_map seg_block (blocks_of lab_trix D cs).
  Proof.
    unfold XT.expect_doc, blocks_of. induction cs as [|c cs IH]; [reflexivity|].
    cbn [map flat_map]. rewrite IH. f_equal.
    unfold XT.expect_graph, seg_block, enc_graph, lab_trix, enc_node. cbn [fst snd].
    destruct (isb c); [|now rewrite map_map]. destruct (g_triples D c); [reflexivity|].
    cbn [map]. now rewrite map_map.
  Qed.

  Theorem trix_levels_agree D : wfd D -> names_apart D ->
    (* the tree the writer builds for the encoded graphs is the tree of the routing-level document *)
    XT.wr_doc (map (enc_graph D) (ds_contexts D)) = map tree_block (ser_trix D)
    (* the TriXHandler state machine reads it as the segments of that document: IRI-named graphs
       under their name, blank-node-named ones anonymous (F17) *)
    /\ XT.rd_doc (map tree_block (ser_trix D)) = Some (flat_map seg_block (ser_trix D))
    (* and the routing-level reader (label dictionary, fresh name per anonymous graph) gives the
       dataset back up to blank-node renaming - under the hypothesis of F17 *)
    /\ iso (d_quads D) (parse_doc true (ser_trix D)).
  Proof.
    intros HW Hap.
    assert (XT.wr_doc (map (enc_graph D) (ds_contexts D)) = map tree_block (ser_trix D)) as H1.
    { unfold XT.wr_doc, ser_trix, blocks_of. rewrite !map_map. apply map_ext. intros c.
      unfold XT.wr_graph, tree_block, enc_graph, lab_trix, enc_node. cbn [fst snd]. rewrite map_map.
      destruct (isb c); reflexivity. }
    split; [exact H1|]. split; [|now apply trix_roundtrip].
    rewrite <- H1. rewrite XT.trix_tree_roundtrip.
    - f_equal. apply expect_segments.
    - apply forallb_forall. intros g Hg. apply in_map_iff in Hg. destruct Hg as [c [<- _]]. apply enc_graph_wf.
  Qed.
End Enc3.

(* ------------------------------------------------------------------ a spelling exists *)
Definition xs (x : N) : CM.str := repeat 120%N (N.to_nat x).       (* "xx...x" *)
Definition iri_x (x : N) : CM.str := 117%N :: 58%N :: xs x.         (* u:xx...x *)
Definition lab_x (x : N) : CM.str := 98%N :: xs x.                  (* bxx...x *)

Lemma xs_inj x y : xs x = xs y -> x = y.
Proof.
  unfold xs. intros H. apply (f_equal (@length N)) in H. rewrite !repeat_length in H. now apply Nnat.N2Nat.inj.
Qed.

Lemma forallb_repeat (p : N -> bool) c n : p c = true -> forallb p (repeat c n) = true.
Proof. intros H. induction n; simpl; [reflexivity|now rewrite H]. Qed.

Lemma fa1 (p : N -> bool) a c n : p a = true -> p c = true -> forallb p (a :: repeat c n) = true.
Proof. intros Ha Hc. simpl. now rewrite Ha, forallb_repeat. Qed.
Lemma fa2 (p : N -> bool) a b c n : p a = true -> p b = true -> p c = true -> forallb p (a :: b :: repeat c n) = true.
Proof. intros Ha Hb Hc. simpl. now rewrite Ha, Hb, forallb_repeat. Qed.

Lemma spelling_exists :
  exists (iri_of : N -> CM.str) (obj_of : N -> CM.obj) (lab_of : N -> CM.str),
    (forall x, CM.wf_iri (iri_of x) = true /\ CP.valid_str (iri_of x) = true)
    /\ (forall x, CM.wf_label (lab_of x) = true /\ CP.valid_str (lab_of x) = true)
    /\ (forall x, CM.wf_obj (obj_of x) = true /\ CP.pystr_obj (obj_of x) = true)
    /\ (forall x y, iri_of x = iri_of y -> x = y) /\ (forall x y, lab_of x = lab_of y -> x = y).
Proof.
  assert (forall x, CM.wf_iri (iri_x x) = true /\ CP.valid_str (iri_x x) = true) as Hi.
  { intros x. split.
    - unfold CM.wf_iri, iri_x. apply andb_true_iff. split; [|reflexivity].
      unfold CM.valid_uri, xs. apply fa2; reflexivity.
    - unfold CP.valid_str, iri_x, xs. apply fa2; reflexivity. }
  assert (forall x, CM.wf_label (lab_x x) = true /\ CP.valid_str (lab_x x) = true) as Hl.
  { intros x. split.
    - unfold CM.wf_label, lab_x. unfold xs at 1. rewrite forallb_repeat by reflexivity.
      assert (last (98%N :: xs x) 0%N = 98%N \/ last (98%N :: xs x) 0%N = 120%N) as [-> | ->]; [|reflexivity|reflexivity].
      unfold xs. induction (N.to_nat x) as [|n IH]; [now left|]. right. clear IH.
      induction n as [|n IH]; [reflexivity|]. exact IH.
    - unfold CP.valid_str, lab_x, xs. apply fa1; reflexivity. }
  exists iri_x, (fun x => CM.ONode (CM.Iri (iri_x x))), lab_x.
  split; [exact Hi|]. split; [exact Hl|]. split; [intros x; simpl; apply Hi|]. split.
  - intros x y H. unfold iri_x in H. inversion H. now apply xs_inj.
  - intros x y H. unfold lab_x in H. inversion H. now apply xs_inj.
Qed.
