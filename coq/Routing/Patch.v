(* Lemmas for C06, part 4: RDF Patch (add patch, diff patch + apply) and the
   theorem tying model and specification checker. *)
From RV Require Import Routing.Model Routing.Proofs Routing.Relabel Routing.Trix Routing.Trig.

Lemma qsel_pat_of t g x : qsel (pat_of t) (Some g) x = true <-> x = (t, g).
Proof.
  unfold qsel. rewrite andb_true_iff, matches_pat_of, N.eqb_eq. destruct x as [t' g']. simpl.
  split; [intros [-> ->]; reflexivity|intros [= -> ->]; auto].
Qed.

Definition row_quad (r : prow) : quad := (snd r, route (snd (fst r))).

Lemma apply_add_rows rows : (forall r, In r rows -> fst (fst r) = true) -> forall Q q,
  In q (apply_patch rows Q) <-> In q Q \/ exists r, In r rows /\ q = row_quad r.
Proof.
  unfold apply_patch. induction rows as [|r rows IH]; intros Hop Q q; cbn [fold_left].
  - split; [auto|]. intros [H|[r [[] _]]]. exact H.
  - rewrite IH; [|intros r' Hr'; apply Hop; now right]. unfold apply_row.
    rewrite (Hop r); [|now left]. rewrite q_add_In. fold (row_quad r). split.
    + intros [[->|H]|[r' [Hr' E]]]; auto.
      * right. exists r. split; [now left|reflexivity].
      * right. exists r'. split; [now right|exact E].
    + intros [H|[r' [[<-|Hr'] E]]]; auto. right. exists r'. split; [exact Hr'|exact E].
Qed.

Lemma apply_del_rows rows : (forall r, In r rows -> fst (fst r) = false) -> forall Q q,
  In q (apply_patch rows Q) <-> In q Q /\ ~ exists r, In r rows /\ q = row_quad r.
Proof.
  unfold apply_patch. induction rows as [|r rows IH]; intros Hop Q q; cbn [fold_left].
  - split; [intros H; split; [auto|intros [r [[] _]]]|tauto].
  - rewrite IH; [|intros r' Hr'; apply Hop; now right]. unfold apply_row.
    rewrite (Hop r); [|now left]. rewrite q_remove_In.
    assert (qsel (pat_of (snd r)) (Some (route (snd (fst r)))) q = false <-> q <> row_quad r) as ->.
    { unfold row_quad. pose proof (qsel_pat_of (snd r) (route (snd (fst r))) q) as Hq.
      destruct (qsel (pat_of (snd r)) (Some (route (snd (fst r)))) q); split.
      - discriminate.
      - intros H. exfalso. apply H. now apply Hq.
      - intros _ E. apply Hq in E. discriminate.
      - reflexivity. }
    split.
    + intros [[H1 H2] H3]. split; [auto|]. intros [r' [[<-|Hr'] E]]; [auto|]. apply H3. exists r'. split; [exact Hr'|exact E].
    + intros [H1 H2]. split; [split; [auto|]|].
      * intros E. apply H2. exists r. split; [now left|exact E].
      * intros [r' [Hr' E]]. apply H2. exists r'. split; [now right|exact E].
Qed.

Lemma patch_rows_op op X r : In r (patch_rows op X) -> fst (fst r) = op.
Proof.
  unfold patch_rows. rewrite in_flat_map. intros [c [_ Hr]]. apply in_map_iff in Hr.
  destruct Hr as [t [<- _]]. reflexivity.
Qed.

Definition ctx_cover (X : dset) : Prop := forall q, In q (d_quads X) -> In (snd q) (ds_contexts X).

Lemma rows_quads op X q : ctx_cover X ->
  (exists r, In r (patch_rows op X) /\ q = row_quad r) <-> In q (d_quads X).
Proof.
  intros Hc. unfold patch_rows. split.
  - intros [r [Hr ->]]. apply in_flat_map in Hr. destruct Hr as [c [_ Hr]]. apply in_map_iff in Hr.
    destruct Hr as [t [<- Ht]]. unfold row_quad. simpl. rewrite route_lab_std. now apply g_triples_In.
  - intros Hq. exists (op, lab_std (snd q), fst q). split.
    + apply in_flat_map. exists (snd q). split; [now apply Hc|]. apply in_map_iff. exists (fst q).
      split; [reflexivity|]. apply g_triples_In. now destruct q.
    + unfold row_quad. simpl. rewrite route_lab_std. now destruct q.
Qed.

Lemma patch_add_roundtrip D : wfd D -> qseteq (apply_patch (patch_rows true D) []) (d_quads D).
Proof.
  intros [_ [_ Hc]] q. rewrite apply_add_rows; [|apply patch_rows_op].
  rewrite (rows_quads true D q Hc). simpl. tauto.
Qed.

Lemma ds_sub_In A B q : In q (d_quads (ds_sub A B)) <-> In q (d_quads A) /\ ~ In q (d_quads B).
Proof.
  unfold ds_sub. simpl. rewrite filter_In, negb_true_iff. unfold q_mem.
  now rewrite (memb_false quad_eqb quad_eqb_spec).
Qed.

Lemma ds_sub_cover A B : ctx_cover (ds_sub A B).
Proof.
  intros q Hq. apply ds_contexts_In. left. unfold ds_sub in *. simpl in *.
  apply (dedup_In N.eqb N.eqb_spec). right. now apply in_map.
Qed.

Lemma In_dec_quad (q : quad) Q : In q Q \/ ~ In q Q.
Proof.
  destruct (q_mem q Q) eqn:E; [left; now apply q_mem_In|right].
  intros H. apply q_mem_In in H. congruence.
Qed.

(* apply (diff S T) S = T, for every pair of datasets *)
Lemma patch_diff_apply S T :
  qseteq (apply_patch (ser_patch_diff S T) (d_quads S)) (d_quads T).
Proof.
  intros q. unfold ser_patch_diff. unfold apply_patch. rewrite fold_left_app.
  fold (apply_patch (patch_rows true (ds_sub T S)) (d_quads S)).
  fold (apply_patch (patch_rows false (ds_sub S T)) (apply_patch (patch_rows true (ds_sub T S)) (d_quads S))).
  rewrite apply_del_rows; [|apply patch_rows_op]. rewrite apply_add_rows; [|apply patch_rows_op].
  rewrite !rows_quads; [|apply ds_sub_cover|apply ds_sub_cover]. rewrite !ds_sub_In.
  destruct (In_dec_quad q (d_quads S)), (In_dec_quad q (d_quads T)); tauto.
Qed.

(* ------------------------------------------------------------------ *)
(* model and checker *)

Lemma existsb_false (X : Type) (f : X -> bool) l : existsb f l = false -> forall x, In x l -> f x = false.
Proof.
  intros H x Hx. destruct (f x) eqn:E; [|reflexivity].
  assert (existsb f l = true) by (apply existsb_exists; eauto). congruence.
Qed.

Lemma iso_of_seteq_back A B : qseteq B A -> iso A B.
Proof. intros H. apply iso_refl_seteq. now apply seteq_sym. Qed.

Lemma spec_ok_model c : wf c -> kf c = 0%N -> spec_ok c (model_obs c) = true.
Proof.
  destruct c as [f S T]. unfold wf, kf, spec_ok, model_obs. simpl. intros [HS HT] Hk.
  destruct f; simpl.
  - apply isob_complete. now apply nquads_roundtrip.
  - apply isob_complete. apply iso_of_seteq_back. now apply hext_roundtrip.
  - apply isob_complete. now apply trig_roundtrip.
  - apply isob_complete. apply trix_roundtrip; [auto|].
    destruct (existsb (fun q => isb (snd q) && memb N.eqb (snd q) (term_ids (d_quads S))) (d_quads S)) eqn:E; [discriminate|].
    intros q Hq Hb Hin. assert (isb (snd q) && memb N.eqb (snd q) (term_ids (d_quads S)) = false) as H
      by exact (existsb_false _ _ _ E q Hq).
    rewrite Hb in H. cbn [andb] in H.
    apply (memb_false N.eqb N.eqb_spec) in H. auto.
  - apply isob_complete. apply iso_of_seteq_back. apply jsonld_roundtrip; [auto|].
    destruct (existsb (fun q => isb (snd q)) (d_quads S)) eqn:E; [discriminate|].
    intros q Hq. exact (existsb_false _ _ _ E q Hq).
  - apply isob_complete. apply iso_of_seteq_back. now apply patch_add_roundtrip.
  - apply qseteqb_spec. apply patch_diff_apply.
Qed.

Lemma wfdb_spec D : wfdb D = true <-> wfd D.
Proof.
  unfold wfdb, wfd. rewrite !andb_true_iff, (nodupb_spec quad_eqb quad_eqb_spec), (nodupb_spec N.eqb N.eqb_spec), forallb_forall.
  split.
  - intros [[H1 H2] H3]. split; [auto|split; [auto|]]. intros q Hq. apply (memb_In N.eqb N.eqb_spec). auto.
  - intros [H1 [H2 H3]]. split; [split; auto|]. intros q Hq. apply (memb_In N.eqb N.eqb_spec). auto.
Qed.
