(* C06, TriX at the level of the XML TREE (elements, attributes and character
   content as values; the XML text itself - escaping, namespaces, whitespace
   between elements - is the XML library's and is not modelled):
     serializers/trix.py  _writeGraph (name element only for URIRef identifiers),
                          _writeTriple (uri / id / plainLiteral [xml:lang] / typedLiteral)
     parsers/trix.py      TriXHandler: the state machine over graph children
                          (name element -> self.graph, triple -> three terms ->
                          self.graph.add, anonymous graph at the first triple),
                          URIRef(chars.strip()), get_bnode(chars.strip()),
                          Literal(chars, lang=, datatype=)
   Terms are C03's text-level terms (coq/Codec).  The reader returns blank-node
   LABELS and marks anonymous graphs; what becomes of labels and anonymous
   graphs (dictionary, fresh names) is the routing level (Routing/Model.v). *)
From Coq Require Import List NArith Bool Lia PeanoNat.
From RV Require Import Codec.Model Codec.Proofs Routing.Text Routing.TextProofs.
Import ListNotations.
Open Scope N_scope.

Inductive xterm :=
| XUri (s : str)
| XId (s : str)
| XPlain (s : str) (lang : option str)
| XTyped (s : str) (lang : option str) (dt : str).

Inductive gchild := GName (x : xterm) | GTriple (l : list xterm).
Definition xgraph := list gchild.
Definition xdoc := list xgraph.

(* ---- writer *)
Definition wr_node (n : node) : xterm := match n with Iri u => XUri u | Bnode l => XId l end.
(* if component.datatype: ... elif component.language: ... else plain   (truthiness) *)
Definition wr_obj (o : obj) : xterm :=
  match o with
  | ONode n => wr_node n
  | OLit lex lang dt =>
      match truthy dt with
      | Some d => XTyped lex None d
      | None => XPlain lex (truthy lang)
      end
  end.
Definition wr_triple (t : triple) : list xterm := let '(s, p, o) := t in [wr_node s; XUri p; wr_obj o].
(* a graph of the dataset: its identifier and its triples *)
Definition ingraph := (node * list triple)%type.
Definition wr_graph (g : ingraph) : xgraph :=
  (match fst g with Iri u => [GName (XUri u)] | Bnode _ => [] end) ++ map (fun t => GTriple (wr_triple t)) (snd g).
Definition wr_doc (gs : list ingraph) : xdoc := map wr_graph gs.

(* ---- reader *)
(* str.strip(chars): the characters of the class [ws], at both ends.  Since the repair of
   finding F20 the reader strips XML white space only (_XML_WS = " \t\r\n"); the historical
   code called str.strip() without argument, i.e. the class str.isspace *)
Definition strip_with (ws : N -> bool) (s : str) : str := rev (drop_while ws (rev (drop_while ws s))).
Definition is_xml_ws (c : N) : bool := (c =? 32) || (c =? 9) || (c =? 13) || (c =? 10).

(* a term in any position: C03's [obj] is node-or-literal *)
Definition gtriple := (obj * obj * obj)%type.
Definition rd_term_gen (ws : N -> bool) (x : xterm) : option obj :=
  match x with
  | XUri s => Some (ONode (Iri (strip_with ws s)))
  | XId s => Some (ONode (Bnode (strip_with ws s)))
  | XPlain s lang => Some (OLit s (truthy lang) None)
  | XTyped s lang dt => match truthy lang with
                        | Some _ => None                      (* Literal(): language and datatype *)
                        | None => Some (OLit s None (Some dt))
                        end
  end.

(* a maximal run of triples under one name: None = anonymous graph (Graph(store)) *)
Definition seg := (option node * list gtriple)%type.

Fixpoint rd_graph_gen (ws : N -> bool) (cs : list gchild) (cur : option node) (acc : list gtriple) : option (list seg) :=
  match cs with
  | [] => Some [(cur, rev acc)]
  | GName (XUri s) :: r =>
      match rd_graph_gen ws r (Some (Iri (strip_with ws s))) [] with Some l => Some ((cur, rev acc) :: l) | None => None end
  | GName (XId s) :: r =>
      match rd_graph_gen ws r (Some (Bnode (strip_with ws s))) [] with Some l => Some ((cur, rev acc) :: l) | None => None end
  | GName _ :: _ => None                                       (* "Unexpected ... element" *)
  | GTriple [a; b; c] :: r =>
      match rd_term_gen ws a, rd_term_gen ws b, rd_term_gen ws c with
      | Some x, Some y, Some z => rd_graph_gen ws r cur ((x, y, z) :: acc)
      | _, _, _ => None
      end
  | GTriple _ :: _ => None                                     (* "Triple has wrong length" *)
  end.

(* an anonymous graph exists only once it has a triple *)
Definition keep_seg (s : seg) : bool := match s with (None, []) => false | _ => true end.

Fixpoint rd_doc_gen (ws : N -> bool) (d : xdoc) : option (list seg) :=
  match d with
  | [] => Some []
  | g :: r => match rd_graph_gen ws g None [], rd_doc_gen ws r with
              | Some a, Some b => Some (filter keep_seg a ++ b)
              | _, _ => None
              end
  end.

Definition rd_term := rd_term_gen is_xml_ws.
Definition rd_graph := rd_graph_gen is_xml_ws.
Definition rd_doc := rd_doc_gen is_xml_ws.

(* ---- what the dataset should come back as: an IRI-named graph under its name, a
   blank-node-named graph as an anonymous one (finding F17: the name is not written) *)
Definition emb (t : triple) : gtriple := let '(s, p, o) := t in (ONode s, ONode (Iri p), o).
Definition expect_graph (g : ingraph) : list seg :=
  match fst g with
  | Iri u => [(Some (Iri u), map emb (snd g))]
  | Bnode _ => match snd g with [] => [] | _ => [(None, map emb (snd g))] end
  end.
Definition expect_doc (gs : list ingraph) : list seg := flat_map expect_graph gs.

(* strip leaves a string alone iff it neither begins nor ends with a character of the class *)
Definition edge_ok (ws : N -> bool) (s : str) : bool :=
  match s with
  | [] => true
  | c :: _ => negb (ws c) && negb (ws (last s 0))
  end.
Definition trix_wf (g : ingraph) : bool := wf_node (fst g) && forallb wf_triple (snd g).

(* ---- suite *)
Inductive xt_case := XtWrite (gs : list ingraph) | XtRead (d : xdoc).
Inductive xt_obs := XtObs (tree : option xdoc) (back : option (list seg)).

Definition xt_model (c : xt_case) : xt_obs :=
  match c with
  | XtWrite gs => XtObs (Some (wr_doc gs)) (rd_doc (wr_doc gs))
  | XtRead d => XtObs None (rd_doc d)
  end.

Definition xterm_eqb (a b : xterm) : bool :=
  match a, b with
  | XUri s, XUri s' => str_eqb s s'
  | XId s, XId s' => str_eqb s s'
  | XPlain s l, XPlain s' l' => str_eqb s s' && opt_eqb str_eqb l l'
  | XTyped s l d, XTyped s' l' d' => str_eqb s s' && opt_eqb str_eqb l l' && str_eqb d d'
  | _, _ => false
  end.
Definition gchild_eqb (a b : gchild) : bool :=
  match a, b with
  | GName x, GName y => xterm_eqb x y
  | GTriple l, GTriple l' => list_eqb xterm_eqb l l'
  | _, _ => false
  end.
Definition is_name (c : gchild) : bool := match c with GName _ => true | _ => false end.
(* rdflib writes graphs and triples in store order: same name children, same set of triple children *)
Definition xgraph_eqb (a b : xgraph) : bool :=
  list_eqb gchild_eqb (filter is_name a) (filter is_name b)
  && Nat.eqb (length a) (length b) && seteq_l gchild_eqb a b.
Definition xdoc_eqb (a b : xdoc) : bool := Nat.eqb (length a) (length b) && seteq_l xgraph_eqb a b.

Definition gtriple_eqb (a b : gtriple) : bool :=
  obj_eqb (fst (fst a)) (fst (fst b)) && obj_eqb (snd (fst a)) (snd (fst b)) && obj_eqb (snd a) (snd b).
Definition named_quads (l : list seg) : list (node * gtriple) :=
  flat_map (fun s => match fst s with Some n => map (fun t => (n, t)) (snd s) | None => [] end) l.
Definition anon_graphs (l : list seg) : list (list gtriple) :=
  flat_map (fun s => match fst s with None => [snd s] | Some _ => [] end) l.
Definition nq_eqb (a b : node * gtriple) : bool := node_eqb (fst a) (fst b) && gtriple_eqb (snd a) (snd b).
(* the store merges the segments that carry the same name; anonymous graphs stay apart *)
Definition segs_eqb (a b : list seg) : bool :=
  seteq_l nq_eqb (named_quads a) (named_quads b)
  && Nat.eqb (length (anon_graphs a)) (length (anon_graphs b))
  && seteq_l (seteq_l gtriple_eqb) (anon_graphs a) (anon_graphs b).

Definition xt_obs_eqb (a b : xt_obs) : bool :=
  match a, b with XtObs t r, XtObs t' r' => opt_eqb xdoc_eqb t t' && opt_eqb segs_eqb r r' end.

Definition xt_wf (c : xt_case) : bool :=
  match c with XtWrite gs => forallb trix_wf gs | XtRead _ => true end.

(* the property at tree level *)
Definition xt_spec (c : xt_case) (o : xt_obs) : bool :=
  match c, o with
  | XtWrite gs, XtObs _ back =>
      if forallb trix_wf gs then opt_eqb segs_eqb back (Some (expect_doc gs)) else true
  | XtRead _, _ => true
  end.

(* no open finding at tree level (F20 - str.strip() without argument - is repaired) *)
Definition xt_kf (c : xt_case) : N := 0.

(* ------------------------------------------------------------------ proofs *)
Lemma drop_while_head (p : N -> bool) c r : p c = false -> drop_while p (c :: r) = c :: r.
Proof. intros H. simpl. now rewrite H. Qed.

Lemma last_rev_cons (l : list N) x : last (rev (x :: l)) 0 = x.
Proof. simpl. induction (rev l) as [|a t IH]; [reflexivity|]. simpl. destruct (t ++ [x]) eqn:E; [destruct t; discriminate|exact IH]. Qed.

Lemma strip_with_id ws s : edge_ok ws s = true -> strip_with ws s = s.
Proof.
  destruct s as [|c r]; [reflexivity|]. intros H. unfold edge_ok in H. apply andb_true_iff in H as [H1 H2].
  apply negb_true_iff in H1, H2. unfold strip_with. rewrite (drop_while_head _ c r H1).
  destruct (rev (c :: r)) as [|x t] eqn:E.
  - apply (f_equal (@length N)) in E. rewrite rev_length in E. discriminate.
  - assert (last (c :: r) 0 = x) as Hl.
    { rewrite <- (rev_involutive (c :: r)), E. apply last_rev_cons. }
    rewrite Hl in H2. rewrite (drop_while_head _ x t H2), <- E. apply rev_involutive.
Qed.

Lemma last_In (l : list N) a : l <> [] -> In (last l a) l.
Proof.
  induction l as [|y l IH]; intros Hne; [congruence|]. destruct l as [|z l']; [now left|]. right. apply IH. discriminate.
Qed.

Lemma forallb_edge ws (p : N -> bool) s :
  (forall c, p c = true -> ws c = false) -> forallb p s = true -> edge_ok ws s = true.
Proof.
  intros Hp H. destruct s as [|c r]; [reflexivity|]. unfold edge_ok. rewrite forallb_forall in H.
  apply andb_true_iff. split; apply negb_true_iff, Hp, H; [now left|apply last_In; discriminate].
Qed.

(* XML white space cannot occur in an IRI rdflib accepts, nor in a blank-node label *)
Lemma xml_ws_invalid c : is_xml_ws c = true -> mem c invalid_uri = true.
Proof.
  unfold is_xml_ws. intros H. apply orb_true_iff in H as [H|H]; [apply orb_true_iff in H as [H|H]; [apply orb_true_iff in H as [H|H]|]|];
    apply N.eqb_eq in H; subst c; reflexivity.
Qed.

Lemma iri_edge_ok u : wf_iri u = true -> edge_ok is_xml_ws u = true.
Proof.
  intros H. unfold wf_iri in H. apply andb_true_iff in H as [H _]. unfold valid_uri in H.
  apply (forallb_edge is_xml_ws (fun c => negb (mem c invalid_uri))); [|exact H].
  intros c Hc. destruct (is_xml_ws c) eqn:E; [|reflexivity]. apply xml_ws_invalid in E. now rewrite E in Hc.
Qed.

Lemma label_edge_ok l : wf_label l = true -> edge_ok is_xml_ws l = true.
Proof.
  intros H. unfold wf_label in H. destruct l as [|c r]; [discriminate|].
  apply andb_true_iff in H as [H _]. apply andb_true_iff in H as [Hc Hr].
  apply (forallb_edge is_xml_ws name_char).
  - intros x Hx. destruct (is_xml_ws x) eqn:E; [|reflexivity]. unfold is_xml_ws in E.
    apply orb_true_iff in E as [E|E]; [apply orb_true_iff in E as [E|E]; [apply orb_true_iff in E as [E|E]|]|];
      apply N.eqb_eq in E; subst x; discriminate.
  - cbn [forallb]. unfold name_char at 1. now rewrite Hc, Hr.
Qed.

Lemma rd_wr_node n : wf_node n = true -> rd_term (wr_node n) = Some (ONode n).
Proof.
  destruct n as [u|l]; intros Hwf; simpl in *; unfold rd_term; cbn [rd_term_gen].
  - now rewrite strip_with_id by (now apply iri_edge_ok).
  - now rewrite strip_with_id by (now apply label_edge_ok).
Qed.

Lemma rd_wr_obj o : wf_obj o = true -> rd_term (wr_obj o) = Some o.
Proof.
  destruct o as [n|lex lang dt]; intros Hwf.
  - now apply rd_wr_node.
  - destruct lang as [l|], dt as [d|]; simpl in Hwf; try discriminate.
    + destruct (valid_langtag_nonempty l Hwf) as (c & r & ->). reflexivity.
    + destruct d as [|c r]; [discriminate|]. reflexivity.
    + reflexivity.
Qed.

Lemma rd_wr_triple t : wf_triple t = true ->
  exists x y z, wr_triple t = [x; y; z] /\ rd_term x = Some (fst (fst (emb t)))
                /\ rd_term y = Some (snd (fst (emb t))) /\ rd_term z = Some (snd (emb t)).
Proof.
  destruct t as [[s p] o]. intros Hwf. unfold wf_triple in Hwf.
  apply andb_true_iff in Hwf as [Hwf Hwo]. apply andb_true_iff in Hwf as [Hws Hwp].
  exists (wr_node s), (XUri p), (wr_obj o). split; [reflexivity|]. simpl. split; [now apply rd_wr_node|].
  split; [unfold rd_term; cbn [rd_term_gen]; now rewrite strip_with_id by (now apply iri_edge_ok)|]. now apply rd_wr_obj.
Qed.

Lemma rd_graph_triples ts : forall cur acc,
  forallb wf_triple ts = true ->
  rd_graph (map (fun t => GTriple (wr_triple t)) ts) cur acc = Some [(cur, rev acc ++ map emb ts)].
Proof.
  induction ts as [|t ts IH]; intros cur acc Hwf; [simpl; now rewrite app_nil_r|].
  simpl in Hwf. apply andb_true_iff in Hwf as [Ht Hts].
  destruct (rd_wr_triple t Ht) as (x & y & z & E & Hx & Hy & Hz).
  unfold rd_graph, rd_term in *. cbn [map rd_graph_gen]. rewrite E, Hx, Hy, Hz. rewrite (IH cur _ Hts). cbn [rev].
  rewrite <- app_assoc. destruct (emb t) as [[a b] c]. reflexivity.
Qed.

Lemma rd_wr_graph g : trix_wf g = true ->
  exists segs, rd_graph (wr_graph g) None [] = Some segs /\ filter keep_seg segs = expect_graph g.
Proof.
  destruct g as [n ts]. unfold trix_wf. cbn [fst snd]. intros Hwf.
  apply andb_true_iff in Hwf as [Hn Hts].
  unfold wr_graph, expect_graph. cbn [fst snd]. destruct n as [u|l].
  - pose proof (rd_graph_triples ts (Some (Iri (strip_with is_xml_ws u))) [] Hts) as Hg.
    unfold rd_graph in *. cbn [app rd_graph_gen]. rewrite Hg. eexists. split; [reflexivity|].
    simpl in Hn. rewrite strip_with_id by (now apply iri_edge_ok). reflexivity.
  - cbn [app]. rewrite (rd_graph_triples ts None [] Hts). eexists. split; [reflexivity|].
    destruct ts; reflexivity.
Qed.

(* every well-formed dataset: the tree written is read back as the graphs of the
   dataset, blank-node names lost (F17) *)
Theorem trix_tree_roundtrip gs : forallb trix_wf gs = true -> rd_doc (wr_doc gs) = Some (expect_doc gs).
Proof.
  induction gs as [|g gs IH]; intros Hwf; [reflexivity|].
  simpl in Hwf. apply andb_true_iff in Hwf as [Hg Hgs].
  destruct (rd_wr_graph g Hg) as (segs & Hs & Hf).
  unfold rd_doc, rd_graph in *. cbn [wr_doc map rd_doc_gen]. fold (wr_doc gs). rewrite Hs, (IH Hgs), Hf. reflexivity.
Qed.

(* ------------------------------------------------------------------ model and checker *)
Lemma seteq_l_refl (A : Type) (f : A -> A -> bool) (l : list A) :
  (forall x, In x l -> f x x = true) -> seteq_l f l l = true.
Proof.
  intros H. unfold seteq_l, sub_l. assert (forallb (fun x => existsb (f x) l) l = true) as E.
  { apply forallb_forall. intros x Hx. apply existsb_exists. exists x. auto. }
  now rewrite E.
Qed.

Lemma gtriple_eqb_refl t : gtriple_eqb t t = true.
Proof.
  destruct t as [[a b] c]. unfold gtriple_eqb. simpl.
  now rewrite (proj2 (obj_eqb_eq a a) eq_refl), (proj2 (obj_eqb_eq b b) eq_refl), (proj2 (obj_eqb_eq c c) eq_refl).
Qed.

Lemma segs_eqb_refl l : segs_eqb l l = true.
Proof.
  unfold segs_eqb. rewrite Nat.eqb_refl. rewrite !seteq_l_refl; [reflexivity| |].
  - intros x _. apply seteq_l_refl. intros t _. apply gtriple_eqb_refl.
  - intros [n t] _. unfold nq_eqb. simpl. now rewrite (proj2 (node_eqb_eq n n) eq_refl), gtriple_eqb_refl.
Qed.

Theorem xt_spec_model : forall c, xt_wf c = true -> xt_spec c (xt_model c) = true.
Proof.
  intros [gs|d] Hwf; [|reflexivity]. simpl in Hwf. unfold xt_spec, xt_model. rewrite Hwf.
  rewrite (trix_tree_roundtrip gs Hwf). simpl. apply segs_eqb_refl.
Qed.

(* the historical reader (str.strip() without argument, finding F20): U+00A0 at the end of an IRI was stripped *)
Definition f20_witness : list ingraph :=
  [(Iri [117; 58; 103], [((Iri [104; 58; 97; 160], [104; 58; 112], ONode (Iri [104; 58; 98])) : triple)])].

Lemma trix_strip_prefix_refuted :
  forallb trix_wf f20_witness = true
  /\ opt_eqb segs_eqb (rd_doc_gen is_space (wr_doc f20_witness)) (Some (expect_doc f20_witness)) = false.
Proof. split; vm_compute; reflexivity. Qed.
