(* C06, TriX at the level of the XML TREE (elements, attributes and character
   content as values; the XML text itself - escaping, namespaces, whitespace
   between elements - is the XML library's and is not modelled):
     serializers/trix.py  _writeGraph (name element only for URIRef identifiers),
                          _writeTriple (uri / id / plainLiteral [xml:lang] / typedLiteral)
     parsers/trix.py      TriXHandler: the state machine over graph children
                          (name element -> self.graph, triple -> three terms ->
                          self.graph.add, anonymous graph at the first triple),
                          URIRef(chars.strip()), get_bnode(chars.strip()),
                          Literal(chars, lang=, datatype=)
   Terms are C03's text-level terms (coq/Codec).  The reader returns blank-node
   LABELS and marks anonymous graphs; what becomes of labels and anonymous
   graphs (dictionary, fresh names) is the routing level (Routing/Model.v). *)
From Coq Require Import List NArith Bool Lia PeanoNat.
From RV Require Import Codec.Model Codec.Proofs Routing.Text Routing.TextProofs.
Import ListNotations.
Open Scope N_scope.

Inductive xterm :=
| XUri (s : str)
| XId (s : str)
| XPlain (s : str) (lang : option str)
| XTyped (s : str) (lang : option str) (dt : str).

Inductive gchild := GName (x : xterm) | GTriple (l : list xterm).
Definition xgraph := list gchild.
Definition xdoc := list xgraph.

(* ---- writer *)
Definition wr_node (n : node) : xterm := match n with Iri u => XUri u | Bnode l => XId l end.
(* if component.datatype: ... elif component.language: ... else plain   (truthiness) *)
Definition wr_obj (o : obj) : xterm :=
  match o with
  | ONode n => wr_node n
  | OLit lex lang dt =>
      match truthy dt with
      | Some d => XTyped lex None d
      | None => XPlain lex (truthy lang)
      end
  end.
Definition wr_triple (t : triple) : list xterm := let '(s, p, o) := t in [wr_node s; XUri p; wr_obj o].
(* a graph of the dataset: its identifier and its triples *)
Definition ingraph := (node * list triple)%type.
Definition wr_graph (g : ingraph) : xgraph :=
  (match fst g with Iri u => [GName (XUri u)] | Bnode _ => [] end) ++ map (fun t => GTriple (wr_triple t)) (snd g).
Definition wr_doc (gs : list ingraph) : xdoc := map wr_graph gs.

(* ---- reader *)
(* str.strip(): the characters str.isspace accepts, at both ends *)
Definition py_strip (s : str) : str := rev (drop_while is_space (rev (drop_while is_space s))).

(* a term in any position: C03's [obj] is node-or-literal *)
Definition gtriple := (obj * obj * obj)%type.
Definition rd_term (x : xterm) : option obj :=
  match x with
  | XUri s => Some (ONode (Iri (py_strip s)))
  | XId s => Some (ONode (Bnode (py_strip s)))
  | XPlain s lang => Some (OLit s (truthy lang) None)
  | XTyped s lang dt => match truthy lang with
                        | Some _ => None                      (* Literal(): language and datatype *)
                        | None => Some (OLit s None (Some dt))
                        end
  end.

(* a maximal run of triples under one name: None = anonymous graph (Graph(store)) *)
Definition seg := (option node * list gtriple)%type.

Fixpoint rd_graph (cs : list gchild) (cur : option node) (acc : list gtriple) : option (list seg) :=
  match cs with
  | [] => Some [(cur, rev acc)]
  | GName (XUri s) :: r =>
      match rd_graph r (Some (Iri (py_strip s))) [] with Some l => Some ((cur, rev acc) :: l) | None => None end
  | GName (XId s) :: r =>
      match rd_graph r (Some (Bnode (py_strip s))) [] with Some l => Some ((cur, rev acc) :: l) | None => None end
  | GName _ :: _ => None                                       (* "Unexpected ... element" *)
  | GTriple [a; b; c] :: r =>
      match rd_term a, rd_term b, rd_term c with
      | Some x, Some y, Some z => rd_graph r cur ((x, y, z) :: acc)
      | _, _, _ => None
      end
  | GTriple _ :: _ => None                                     (* "Triple has wrong length" *)
  end.

(* an anonymous graph exists only once it has a triple *)
Definition keep_seg (s : seg) : bool := match s with (None, []) => false | _ => true end.

Fixpoint rd_doc (d : xdoc) : option (list seg) :=
  match d with
  | [] => Some []
  | g :: r => match rd_graph g None [], rd_doc r with
              | Some a, Some b => Some (filter keep_seg a ++ b)
              | _, _ => None
              end
  end.

(* ---- what the dataset should come back as: an IRI-named graph under its name, a
   blank-node-named graph as an anonymous one (finding F17: the name is not written) *)
Definition emb (t : triple) : gtriple := let '(s, p, o) := t in (ONode s, ONode (Iri p), o).
Definition expect_graph (g : ingraph) : list seg :=
  match fst g with
  | Iri u => [(Some (Iri u), map emb (snd g))]
  | Bnode _ => match snd g with [] => [] | _ => [(None, map emb (snd g))] end
  end.
Definition expect_doc (gs : list ingraph) : list seg := flat_map expect_graph gs.

(* str.strip() leaves an IRI alone iff it neither begins nor ends with a character of str.isspace *)
Definition edge_ok (s : str) : bool :=
  match s with
  | [] => true
  | c :: _ => negb (is_space c) && negb (is_space (last s 0))
  end.
Definition node_edge_ok (n : node) : bool := match n with Iri u => edge_ok u | Bnode _ => true end.
Definition trix_ok_triple (t : triple) : bool :=
  let '(s, p, o) := t in
  node_edge_ok s && edge_ok p && match o with ONode n => node_edge_ok n | _ => true end.
Definition trix_wf (g : ingraph) : bool := wf_node (fst g) && forallb wf_triple (snd g).
Definition trix_ok (g : ingraph) : bool := node_edge_ok (fst g) && forallb trix_ok_triple (snd g).

(* ---- suite *)
Inductive xt_case := XtWrite (gs : list ingraph) | XtRead (d : xdoc).
Inductive xt_obs := XtObs (tree : option xdoc) (back : option (list seg)).

Definition xt_model (c : xt_case) : xt_obs :=
  match c with
  | XtWrite gs => XtObs (Some (wr_doc gs)) (rd_doc (wr_doc gs))
  | XtRead d => XtObs None (rd_doc d)
  end.

Definition xterm_eqb (a b : xterm) : bool :=
  match a, b with
  | XUri s, XUri s' => str_eqb s s'
  | XId s, XId s' => str_eqb s s'
  | XPlain s l, XPlain s' l' => str_eqb s s' && opt_eqb str_eqb l l'
  | XTyped s l d, XTyped s' l' d' => str_eqb s s' && opt_eqb str_eqb l l' && str_eqb d d'
  | _, _ => false
  end.
Definition gchild_eqb (a b : gchild) : bool :=
  match a, b with
  | GName x, GName y => xterm_eqb x y
  | GTriple l, GTriple l' => list_eqb xterm_eqb l l'
  | _, _ => false
  end.
Definition is_name (c : gchild) : bool := match c with GName _ => true | _ => false end.
(* rdflib writes graphs and triples in store order: same name children, same set of triple children *)
Definition xgraph_eqb (a b : xgraph) : bool :=
  list_eqb gchild_eqb (filter is_name a) (filter is_name b)
  && Nat.eqb (length a) (length b) && seteq_l gchild_eqb a b.
Definition xdoc_eqb (a b : xdoc) : bool := Nat.eqb (length a) (length b) && seteq_l xgraph_eqb a b.

Definition gtriple_eqb (a b : gtriple) : bool :=
  obj_eqb (fst (fst a)) (fst (fst b)) && obj_eqb (snd (fst a)) (snd (fst b)) && obj_eqb (snd a) (snd b).
Definition named_quads (l : list seg) : list (node * gtriple) :=
  flat_map (fun s => match fst s with Some n => map (fun t => (n, t)) (snd s) | None => [] end) l.
Definition anon_graphs (l : list seg) : list (list gtriple) :=
  flat_map (fun s => match fst s with None => [snd s] | Some _ => [] end) l.
Definition nq_eqb (a b : node * gtriple) : bool := node_eqb (fst a) (fst b) && gtriple_eqb (snd a) (snd b).
(* the store merges the segments that carry the same name; anonymous graphs stay apart *)
Definition segs_eqb (a b : list seg) : bool :=
  seteq_l nq_eqb (named_quads a) (named_quads b)
  && Nat.eqb (length (anon_graphs a)) (length (anon_graphs b))
  && seteq_l (seteq_l gtriple_eqb) (anon_graphs a) (anon_graphs b).

Definition xt_obs_eqb (a b : xt_obs) : bool :=
  match a, b with XtObs t r, XtObs t' r' => opt_eqb xdoc_eqb t t' && opt_eqb segs_eqb r r' end.

Definition xt_wf (c : xt_case) : bool :=
  match c with XtWrite gs => forallb trix_wf gs | XtRead _ => true end.

(* the property at tree level *)
Definition xt_spec (c : xt_case) (o : xt_obs) : bool :=
  match c, o with
  | XtWrite gs, XtObs _ back =>
      if forallb trix_wf gs then opt_eqb segs_eqb back (Some (expect_doc gs)) else true
  | XtRead _, _ => true
  end.

(* known finding F20: an IRI that begins or ends with a whitespace character of
   str.isspace (rdflib accepts e.g. U+00A0 in IRIs) is stripped by the reader *)
Definition xt_kf (c : xt_case) : N :=
  match c with
  | XtWrite gs => if forallb trix_ok gs then 0 else 1
  | XtRead _ => 0
  end.

(* ------------------------------------------------------------------ proofs *)
Lemma drop_while_head (p : N -> bool) c r : p c = false -> drop_while p (c :: r) = c :: r.
Proof. intros H. simpl. now rewrite H. Qed.

Lemma last_rev_cons (l : list N) x : last (rev (x :: l)) 0 = x.
Proof. simpl. induction (rev l) as [|a t IH]; [reflexivity|]. simpl. destruct (t ++ [x]) eqn:E; [destruct t; discriminate|exact IH]. Qed.

Lemma py_strip_id s : edge_ok s = true -> py_strip s = s.
Proof.
  destruct s as [|c r]; [reflexivity|]. intros H. unfold edge_ok in H. apply andb_true_iff in H as [H1 H2].
  apply negb_true_iff in H1, H2. unfold py_strip. rewrite (drop_while_head _ c r H1).
  destruct (rev (c :: r)) as [|x t] eqn:E.
  - apply (f_equal (@length N)) in E. rewrite rev_length in E. discriminate.
  - assert (last (c :: r) 0 = x) as Hl.
    { rewrite <- (rev_involutive (c :: r)), E. apply last_rev_cons. }
    rewrite Hl in H2. rewrite (drop_while_head _ x t H2), <- E. apply rev_involutive.
Qed.

Lemma label_edge_ok l : wf_label l = true -> edge_ok l = true.
Proof.
  assert (forall c, name_char c = true -> is_space c = false) as Hns.
  { intros c Hc. destruct (is_space c) eqn:E; [|reflexivity]. unfold is_space in E. apply mem_true_in in E.
    assert (forallb (fun x => negb (name_char x)) py_isspace = true) as Ht by reflexivity.
    rewrite forallb_forall in Ht. specialize (Ht c E). now rewrite Hc in Ht. }
  intros H. unfold wf_label in H. destruct l as [|c r]; [discriminate|].
  apply andb_true_iff in H as [H _]. apply andb_true_iff in H as [Hc Hr].
  unfold edge_ok. apply andb_true_iff. split; apply negb_true_iff, Hns.
  - unfold name_char. now rewrite Hc.
  - destruct r as [|d r']; [cbn [last]; unfold name_char; now rewrite Hc|].
    rewrite forallb_forall in Hr. apply Hr. change (last (c :: d :: r') 0) with (last (d :: r') 0).
    assert (forall (l : list N) a, l <> [] -> In (last l a) l) as Hin.
    { induction l as [|y l IH]; intros a Hne; [congruence|]. destruct l as [|z l']; [now left|]. right. apply IH. discriminate. }
    apply Hin. discriminate.
Qed.

Lemma rd_wr_node n : wf_node n = true -> node_edge_ok n = true -> rd_term (wr_node n) = Some (ONode n).
Proof.
  destruct n as [u|l]; intros Hwf Hok; simpl in *.
  - now rewrite py_strip_id.
  - now rewrite py_strip_id by (now apply label_edge_ok).
Qed.

Lemma rd_wr_obj o : wf_obj o = true -> match o with ONode n => node_edge_ok n = true | _ => True end ->
  rd_term (wr_obj o) = Some o.
Proof.
  destruct o as [n|lex lang dt]; intros Hwf Hok.
  - now apply rd_wr_node.
  - destruct lang as [l|], dt as [d|]; simpl in Hwf; try discriminate.
    + destruct (valid_langtag_nonempty l Hwf) as (c & r & ->). reflexivity.
    + destruct d as [|c r]; [discriminate|]. reflexivity.
    + reflexivity.
Qed.

Lemma rd_wr_triple t : wf_triple t = true -> trix_ok_triple t = true ->
  exists x y z, wr_triple t = [x; y; z] /\ rd_term x = Some (fst (fst (emb t)))
                /\ rd_term y = Some (snd (fst (emb t))) /\ rd_term z = Some (snd (emb t)).
Proof.
  destruct t as [[s p] o]. intros Hwf Hok. unfold wf_triple in Hwf.
  apply andb_true_iff in Hwf as [Hwf Hwo]. apply andb_true_iff in Hwf as [Hws Hwp].
  unfold trix_ok_triple in Hok. apply andb_true_iff in Hok as [Hok Hoo]. apply andb_true_iff in Hok as [Hos Hop].
  exists (wr_node s), (XUri p), (wr_obj o). split; [reflexivity|]. simpl. split; [now apply rd_wr_node|].
  split; [now rewrite py_strip_id|]. apply rd_wr_obj; [exact Hwo|]. destruct o; [exact Hoo|exact I].
Qed.

Lemma rd_graph_triples ts : forall cur acc,
  forallb wf_triple ts = true -> forallb trix_ok_triple ts = true ->
  rd_graph (map (fun t => GTriple (wr_triple t)) ts) cur acc = Some [(cur, rev acc ++ map emb ts)].
Proof.
  induction ts as [|t ts IH]; intros cur acc Hwf Hok; [simpl; now rewrite app_nil_r|].
  simpl in Hwf, Hok. apply andb_true_iff in Hwf as [Ht Hts]. apply andb_true_iff in Hok as [Ho Hos].
  destruct (rd_wr_triple t Ht Ho) as (x & y & z & E & Hx & Hy & Hz).
  cbn [map rd_graph]. rewrite E, Hx, Hy, Hz. rewrite (IH cur _ Hts Hos). cbn [rev].
  rewrite <- app_assoc. destruct (emb t) as [[a b] c]. reflexivity.
Qed.

Lemma rd_wr_graph g : trix_wf g = true -> trix_ok g = true ->
  exists segs, rd_graph (wr_graph g) None [] = Some segs /\ filter keep_seg segs = expect_graph g.
Proof.
  destruct g as [n ts]. unfold trix_wf, trix_ok. cbn [fst snd]. intros Hwf Hok.
  apply andb_true_iff in Hwf as [Hn Hts]. apply andb_true_iff in Hok as [Hno Hto].
  unfold wr_graph, expect_graph. cbn [fst snd]. destruct n as [u|l].
  - cbn [app rd_graph]. rewrite (rd_graph_triples ts _ [] Hts Hto). eexists. split; [reflexivity|].
    simpl in Hno. rewrite py_strip_id by exact Hno. reflexivity.
  - cbn [app]. rewrite (rd_graph_triples ts None [] Hts Hto). eexists. split; [reflexivity|].
    destruct ts; reflexivity.
Qed.

(* every well-formed dataset whose IRIs are not touched by str.strip(): the tree
   written is read back as the graphs of the dataset, blank-node names lost (F17) *)
Theorem trix_tree_roundtrip gs : forallb trix_wf gs = true -> forallb trix_ok gs = true ->
  rd_doc (wr_doc gs) = Some (expect_doc gs).
Proof.
  induction gs as [|g gs IH]; intros Hwf Hok; [reflexivity|].
  simpl in Hwf, Hok. apply andb_true_iff in Hwf as [Hg Hgs]. apply andb_true_iff in Hok as [Ho Hos].
  destruct (rd_wr_graph g Hg Ho) as (segs & Hs & Hf).
  cbn [wr_doc map rd_doc]. fold (wr_doc gs). rewrite Hs, (IH Hgs Hos), Hf. reflexivity.
Qed.

(* ------------------------------------------------------------------ model and checker *)
Lemma seteq_l_refl (A : Type) (f : A -> A -> bool) (l : list A) :
  (forall x, In x l -> f x x = true) -> seteq_l f l l = true.
Proof.
  intros H. unfold seteq_l, sub_l. assert (forallb (fun x => existsb (f x) l) l = true) as E.
  { apply forallb_forall. intros x Hx. apply existsb_exists. exists x. auto. }
  now rewrite E.
Qed.

Lemma gtriple_eqb_refl t : gtriple_eqb t t = true.
Proof.
  destruct t as [[a b] c]. unfold gtriple_eqb. simpl.
  now rewrite (proj2 (obj_eqb_eq a a) eq_refl), (proj2 (obj_eqb_eq b b) eq_refl), (proj2 (obj_eqb_eq c c) eq_refl).
Qed.

Lemma segs_eqb_refl l : segs_eqb l l = true.
Proof.
  unfold segs_eqb. rewrite Nat.eqb_refl. rewrite !seteq_l_refl; [reflexivity| |].
  - intros x _. apply seteq_l_refl. intros t _. apply gtriple_eqb_refl.
  - intros [n t] _. unfold nq_eqb. simpl. now rewrite (proj2 (node_eqb_eq n n) eq_refl), gtriple_eqb_refl.
Qed.

Theorem xt_spec_model : forall c, xt_wf c = true -> xt_kf c = 0 -> xt_spec c (xt_model c) = true.
Proof.
  intros [gs|d] Hwf Hk; [|reflexivity]. simpl in Hwf. unfold xt_kf in Hk. unfold xt_spec, xt_model. rewrite Hwf.
  destruct (forallb trix_ok gs) eqn:Hok; [|discriminate].
  rewrite (trix_tree_roundtrip gs Hwf Hok). simpl. apply segs_eqb_refl.
Qed.

(* the edge hypothesis is needed: U+00A0 at the end of an IRI is stripped (finding F20) *)
Definition f20_witness : list ingraph :=
  [(Iri [117; 58; 103], [((Iri [104; 58; 97; 160], [104; 58; 112], ONode (Iri [104; 58; 98])) : triple)])].

Lemma trix_strip_refuted :
  forallb trix_wf f20_witness = true /\ xt_kf (XtWrite f20_witness) = 1
  /\ xt_spec (XtWrite f20_witness) (xt_model (XtWrite f20_witness)) = false.
Proof. repeat split; vm_compute; reflexivity. Qed.
