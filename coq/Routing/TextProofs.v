(* C06, text level: proofs about Routing/Text.v, on top of C03's lemmas about the
   N-Triples term readers (Codec/Proofs.v). *)
From Coq Require Import List NArith Bool Lia.
From RV Require Import Codec.Model Codec.Proofs Routing.Text.
Import ListNotations.
Open Scope N_scope.

(* ------------------------------------------------------------------ equality *)
Lemma tquad_eqb_eq a b : tquad_eqb a b = true <-> a = b.
Proof.
  destruct a as [t g], b as [t' g']. unfold tquad_eqb. simpl. rewrite andb_true_iff, triple_eqb_eq.
  assert (opt_eqb node_eqb g g' = true <-> g = g') as ->.
  { destruct g as [n|], g' as [n'|]; simpl; try (split; congruence).
    rewrite node_eqb_eq. split; congruence. }
  split; [intros [-> ->]; reflexivity|intros [= -> ->]; auto].
Qed.

Lemma tq_mem_In q l : tq_mem q l = true <-> In q l.
Proof.
  unfold tq_mem. rewrite existsb_exists. split.
  - intros [x [Hx E]]. apply tquad_eqb_eq in E. now subst.
  - intros H. exists q. split; [auto|]. now apply tquad_eqb_eq.
Qed.

(* ------------------------------------------------------------------ one statement line *)
Lemma wf_iri_cons u : wf_iri u = true -> exists c r, u = c :: r.
Proof. destruct u as [|c r]; [discriminate|eauto]. Qed.

Lemma rd_labeled_node n rest : wf_node n = true -> iri_no_us n = true ->
  rd_labeled (n3_node n ++ rest) = Some None.
Proof.
  destruct n as [u|l]; intros Hwf Hus.
  - destruct (wf_iri_cons u Hwf) as (c & r & ->). cbn [n3_node app]. unfold rd_labeled.
    simpl in Hus. apply negb_true_iff in Hus. rewrite N.eqb_refl, Hus. reflexivity.
  - reflexivity.
Qed.

Lemma rd_labeled_obj o rest : wf_obj o = true ->
  match o with ONode n => iri_no_us n = true | _ => True end ->
  rd_labeled (obj_text o ++ rest) = Some None.
Proof.
  destruct o as [n|lex lang dt]; intros Hwf Hus.
  - now apply rd_labeled_node.
  - cbn [obj_text]. unfold quote_literal, nt_quote_encode. rewrite <- !app_assoc. cbn [app].
    unfold rd_labeled. destruct (nt_encode_body lex ++ _); reflexivity.
Qed.

Lemma eat_sp_cons rest : eat_wspace (32 :: rest) = eat_wspace rest.
Proof. reflexivity. Qed.

Lemma eat_node n rest : eat_wspace (n3_node n ++ rest) = n3_node n ++ rest.
Proof.
  destruct (n3_node_head n) as (c & q & Hq & Hsp & _). rewrite Hq. cbn [app]. unfold eat_wspace.
  now rewrite (drop_while_stop _ c _ Hsp).
Qed.

Lemma eat_obj o rest : eat_wspace (obj_text o ++ rest) = obj_text o ++ rest.
Proof.
  destruct (obj_text_head o) as (c & q & Hq & Hsp). rewrite Hq. cbn [app]. unfold eat_wspace.
  now rewrite (drop_while_stop _ c _ Hsp).
Qed.

Definition us_ok (lb : bool) (s : node) (o : obj) : Prop :=
  lb = true -> iri_no_us s = true /\ match o with ONode n => iri_no_us n = true | _ => True end.

Lemma rd_quad_gen lb s p o tailtext g l7 :
  wf_triple (s, p, o) = true -> triple_readable (s, p, o) = true -> pystr_triple (s, p, o) = true ->
  us_ok lb s o ->
  rd_context lb (eat_wspace (32 :: tailtext)) = Some (g, l7) -> tail_ok l7 = true ->
  rd_quad lb (n3_node s ++ 32 :: 60 :: p ++ 62 :: 32 :: obj_text o ++ 32 :: tailtext) = Some ((s, p, o), g).
Proof.
  intros Hwf Hrd Hv Hus Hctx Htail.
  unfold wf_triple in Hwf. apply andb_true_iff in Hwf as [Hwf Hwo]. apply andb_true_iff in Hwf as [Hws Hwp].
  unfold triple_readable in Hrd. apply andb_true_iff in Hrd as [Hrd Hro]. apply andb_true_iff in Hrd as [Hrs Hrp].
  unfold pystr_triple in Hv. apply andb_true_iff in Hv as [Hv Hvo]. apply andb_true_iff in Hv as [Hvs Hvp].
  unfold rd_quad.
  assert (rd_subject_l lb (n3_node s ++ 32 :: 60 :: p ++ 62 :: 32 :: obj_text o ++ 32 :: tailtext)
          = Some (s, 32 :: 60 :: p ++ 62 :: 32 :: obj_text o ++ 32 :: tailtext)) as ->.
  { unfold rd_subject_l. destruct lb.
    - rewrite rd_labeled_node; [|exact Hws|apply Hus; reflexivity]. now apply rd_subject_ok.
    - now apply rd_subject_ok. }
  rewrite eat_sp_cons.
  assert (forall rest, eat_wspace (60 :: rest) = 60 :: rest) as Hlt by reflexivity.
  rewrite Hlt. cbv zeta. rewrite N.eqb_refl. rewrite rd_uriref_ok by assumption.
  rewrite eat_sp_cons, eat_obj.
  assert (rd_object_l lb (obj_text o ++ 32 :: tailtext) = Some (o, 32 :: tailtext)) as ->.
  { assert (obj_readable o = true) as Hor.
    { destruct o as [n|lex lang dt]; [exact Hro|]. destruct dt; [|reflexivity]. destruct lang; exact Hro. }
    unfold rd_object_l. destruct lb.
    - rewrite rd_labeled_obj; [|exact Hwo|apply Hus; reflexivity]. now apply rd_object_ok.
    - now apply rd_object_ok. }
  rewrite Hctx, Htail. reflexivity.
Qed.

(* the three tails: N-Triples row, N-Quads row without / with a graph label *)
Lemma ctx_dot lb : rd_context lb (eat_wspace (32 :: [46])) = Some (None, [46]).
Proof. destruct lb; reflexivity. Qed.

Lemma ctx_sp_dot lb : rd_context lb (eat_wspace (32 :: [32; 46])) = Some (None, [46]).
Proof. destruct lb; reflexivity. Qed.

Lemma ctx_label lb n : wf_node n = true -> node_readable n = true -> pystr_node n = true ->
  (lb = true -> iri_no_us n = true) ->
  rd_context lb (eat_wspace (32 :: n3_node n ++ [32; 46])) = Some (Some n, [32; 46]).
Proof.
  intros Hwf Hrd Hv Hus. rewrite eat_sp_cons, eat_node.
  assert (forall plain, (if lb then match rd_labeled (n3_node n ++ [32; 46]) with
                                     | None => None
                                     | Some (Some (l, r)) => Some (Some (Bnode l), r)
                                     | Some None => plain
                                     end else plain) = plain) as Hlb.
  { intros plain. destruct lb; [|reflexivity]. now rewrite rd_labeled_node by auto. }
  unfold rd_context. rewrite Hlb. destruct n as [u|l]; simpl in Hwf, Hrd, Hv.
  - cbn [n3_node]. rewrite <- !app_assoc. cbn [app]. rewrite N.eqb_refl.
    now rewrite rd_uriref_ok by assumption.
  - cbn [n3_node app]. replace (95 =? 60) with false by reflexivity. rewrite N.eqb_refl.
    change (l ++ [32; 46]) with (l ++ 32 :: [46]). now rewrite scan_nodeid_ok.
Qed.

Lemma good_g_gtext n : wf_node n = true -> gtext (Some n) = n3_node n.
Proof.
  destruct n as [u|l]; intros H; simpl in H.
  - destruct (wf_iri_cons u H) as (c & r & ->). reflexivity.
  - destruct l; [discriminate|reflexivity].
Qed.

Definition gus_ok (lb : bool) (g : option node) : Prop :=
  lb = true -> match g with Some n => iri_no_us n = true | None => True end.

Lemma rd_quad_nq_line lb t g :
  good_triple t = true -> good_g g = true ->
  us_ok lb (fst (fst t)) (snd t) -> gus_ok lb g ->
  rd_quad lb (nq_line (t, g)) = Some (t, g).
Proof.
  intros Ht Hg Hus Hgus. destruct t as [[s p] o].
  unfold good_triple in Ht. apply andb_true_iff in Ht as [Ht Hv]. apply andb_true_iff in Ht as [Hwf Hrd].
  unfold nq_line. destruct g as [n|].
  - simpl in Hg. apply andb_true_iff in Hg as [Hg Hgv]. apply andb_true_iff in Hg as [Hgw Hgr].
    rewrite (good_g_gtext n Hgw).
    apply (rd_quad_gen lb s p o (n3_node n ++ [32; 46]) (Some n) [32; 46]); auto.
    apply ctx_label; auto.
  - cbn [gtext app]. apply (rd_quad_gen lb s p o [32; 46] None [46]); auto. apply ctx_sp_dot.
Qed.

Lemma rd_quad_row_line lb t :
  good_triple t = true -> us_ok lb (fst (fst t)) (snd t) ->
  rd_quad lb (row_line t) = Some (t, None).
Proof.
  intros Ht Hus. destruct t as [[s p] o].
  unfold good_triple in Ht. apply andb_true_iff in Ht as [Ht Hv]. apply andb_true_iff in Ht as [Hwf Hrd].
  unfold row_line. apply (rd_quad_gen lb s p o [46] None [46]); auto. apply ctx_dot.
Qed.

Lemma no_us_false s o : us_ok false s o.
Proof. intros H. discriminate. Qed.
Lemma no_gus_false g : gus_ok false g.
Proof. intros H. discriminate. Qed.

Lemma nq_line_head q : exists c r, nq_line q = c :: r /\ is_sp c = false /\ (c =? 35) = false.
Proof.
  destruct q as [[[s p] o] g]. unfold nq_line. destruct (n3_node_head s) as (c & r & Hq & H1 & H2).
  rewrite Hq. cbn [app]. eauto.
Qed.

Theorem nq_parseline_line q : good_tquad q = true -> nq_parseline (nq_line q) = Got q.
Proof.
  intros H. destruct q as [t g]. unfold good_tquad in H. simpl in H. apply andb_true_iff in H as [Ht Hg].
  unfold nq_parseline. destruct (nq_line_head (t, g)) as (c & r & Hq & Hsp & Hh).
  rewrite Hq, (drop_while_stop _ c _ Hsp), Hh, <- Hq.
  rewrite rd_quad_nq_line; auto using no_us_false, no_gus_false.
Qed.

(* ------------------------------------------------------------------ lines have no line break *)
Lemma g_no_nl n : wf_node n = true -> node_readable n = true -> no_nl (n3_node n) = true.
Proof. apply node_no_nl. Qed.

Lemma nq_line_no_nl q : good_tquad q = true -> no_nl (nq_line q) = true.
Proof.
  intros H. destruct q as [[[s p] o] g]. unfold good_tquad in H. simpl in H. apply andb_true_iff in H as [Ht Hg].
  unfold good_triple in Ht. apply andb_true_iff in Ht as [Ht Hv]. apply andb_true_iff in Ht as [Hwf Hrd].
  unfold wf_triple in Hwf. apply andb_true_iff in Hwf as [Hwf Hwo]. apply andb_true_iff in Hwf as [Hws Hwp].
  unfold triple_readable in Hrd. apply andb_true_iff in Hrd as [Hrd Hro]. apply andb_true_iff in Hrd as [Hrs Hrp].
  assert (no_nl (gtext g) = true) as Hgt.
  { destruct g as [n|]; [|reflexivity]. simpl in Hg. apply andb_true_iff in Hg as [Hg _].
    apply andb_true_iff in Hg as [Hgw Hgr]. rewrite (good_g_gtext n Hgw). now apply node_no_nl. }
  assert (no_nl (obj_text o) = true) as Hot.
  { apply obj_no_nl; [exact Hwo|]. destruct o as [n|lex lang dt]; [exact Hro|]. destruct dt; [|reflexivity].
    destruct lang; exact Hro. }
  unfold nq_line. rewrite no_nl_app, (node_no_nl s Hws Hrs).
  rewrite !no_nl_cons, no_nl_app, (iri_no_nl p Hrp).
  rewrite !no_nl_cons, no_nl_app, Hot. rewrite no_nl_cons, no_nl_app, Hgt. reflexivity.
Qed.

(* ------------------------------------------------------------------ readline over any list of lines *)
Definition text_of (ls : list str) : str := flat_map (fun l => l ++ [10]) ls.

Lemma read_all_lines : forall n, (1 <= n)%nat -> forall ls, forallb no_nl ls = true ->
  forall fuel buf file, buf ++ file = text_of ls -> (length ls < fuel)%nat ->
  read_all n fuel buf file = Some ls.
Proof.
  intros n Hn. induction ls as [|l ls IH]; intros Hg fuel buf file Heq Hfuel.
  - destruct fuel as [|k]; [lia|]. cbn [text_of flat_map] in Heq.
    apply app_eq_nil in Heq as [-> ->]. cbn [read_all length readline find_line]. rewrite firstn_nil. reflexivity.
  - destruct fuel as [|k]; [cbn [length] in Hfuel; lia|].
    simpl in Hg. apply andb_true_iff in Hg as [Hl Hls].
    cbn [text_of flat_map] in Heq. rewrite <- app_assoc in Heq. cbn [app] in Heq.
    destruct (readline_line n Hn (S (S (length file))) buf file l (text_of ls) Heq Hl) as (b & f & Hr & Hbf);
      [lia|].
    cbn [read_all]. rewrite Hr. rewrite (IH Hls k b f Hbf) by (cbn [length] in Hfuel; lia). reflexivity.
Qed.

Lemma text_of_length ls : (length ls <= length (text_of ls))%nat.
Proof.
  induction ls as [|l ls IH]; [cbn; lia|]. cbn [text_of flat_map length]. rewrite !app_length. cbn [length].
  fold (text_of ls). lia.
Qed.

Lemma read_text n ls : (1 <= n)%nat -> forallb no_nl ls = true ->
  read_all n (S (S (length (text_of ls)))) [] (text_of ls) = Some ls.
Proof.
  intros Hn H. apply read_all_lines; auto. pose proof (text_of_length ls). lia.
Qed.

Lemma text_of_app a b : text_of (a ++ b) = text_of a ++ text_of b.
Proof. unfold text_of. apply flat_map_app. Qed.

(* ------------------------------------------------------------------ N-Quads documents *)
Lemma nq_row_line q : good_tquad q = true -> nq_row q = Some (nq_line q ++ [10]).
Proof.
  intros H. destruct q as [[[s p] o] g]. unfold good_tquad in H. simpl in H. apply andb_true_iff in H as [Ht Hg].
  unfold good_triple in Ht. apply andb_true_iff in Ht as [Ht _]. apply andb_true_iff in Ht as [Hwf _].
  pose proof (nt_row_line _ Hwf) as Hrow. unfold nt_row in Hrow. unfold nq_row.
  destruct (node_ok s && valid_uri p && obj_ok o); [|discriminate].
  assert (g_ok g = true) as ->; [|reflexivity].
  destruct g as [[[|c r]|l]|]; try reflexivity. simpl in Hg.
  apply andb_true_iff in Hg as [Hg _]. apply andb_true_iff in Hg as [Hgw _]. unfold wf_iri in Hgw.
  now apply andb_true_iff in Hgw as [? _].
Qed.

Lemma nq_rows_text qs : forallb good_tquad qs = true -> nq_rows qs = Some (text_of (map nq_line qs)).
Proof.
  induction qs as [|q qs IH]; intros H; [reflexivity|].
  simpl in H. apply andb_true_iff in H as [Hq Hqs].
  cbn [nq_rows map text_of flat_map]. rewrite (nq_row_line q Hq), (IH Hqs). reflexivity.
Qed.

Lemma nq_parse_lines_rows qs : forallb good_tquad qs = true ->
  nq_parse_lines (map nq_line qs ++ [[]]) = Some qs.
Proof.
  induction qs as [|q qs IH]; intros H; [reflexivity|].
  simpl in H. apply andb_true_iff in H as [Hq Hqs].
  cbn [map app nq_parse_lines]. rewrite (nq_parseline_line q Hq), (IH Hqs). reflexivity.
Qed.

(* every well-formed dataset, any chunk size of the reader's buffer: the document
   the serialiser writes is read back as exactly the quads of the dataset *)
Theorem nq_text_roundtrip : forall n, (1 <= n)%nat -> forall qs, forallb good_tquad qs = true ->
  exists s, nq_doc qs = Some s /\ nq_parse_doc n s = Some qs.
Proof.
  intros n Hn qs H. exists (text_of (map nq_line qs ++ [[]])). split.
  - unfold nq_doc. rewrite (nq_rows_text qs H), text_of_app. reflexivity.
  - unfold nq_parse_doc. rewrite read_text; [now apply nq_parse_lines_rows|exact Hn|].
    rewrite forallb_app. simpl. rewrite andb_true_r. rewrite forallb_forall in *. intros l Hl.
    apply in_map_iff in Hl. destruct Hl as [q [<- Hq]]. apply nq_line_no_nl. auto.
Qed.

(* ------------------------------------------------------------------ RDF Patch documents *)
Definition good_prow (r : prow) : bool := good_tquad (snd r) && patch_ok (snd r).

Lemma patch_us (r : prow) : patch_ok (snd r) = true ->
  us_ok true (fst (fst (fst (snd r)))) (snd (fst (snd r))) /\ gus_ok true (snd (snd r)).
Proof.
  destruct r as [op [[[s p] o] g]]. simpl. unfold patch_ok. intros H.
  apply andb_true_iff in H as [H Hg]. apply andb_true_iff in H as [Hs Ho]. split.
  - intros _. split; [exact Hs|]. destruct o; [exact Ho|exact I].
  - intros _. destruct g; [exact Hg|exact I].
Qed.

Lemma patch_body_head (r : prow) : exists c q,
  patch_body (snd r) = c :: q
  /\ is_sp c = false /\ (c =? 35) = false /\ (c =? 65) = false /\ (c =? 68) = false.
Proof.
  destruct r as [op [[[s p] o] g]]. unfold patch_body. simpl.
  assert (exists c q, n3_node s = c :: q /\ is_sp c = false /\ (c =? 35) = false /\ (c =? 65) = false /\ (c =? 68) = false)
    as (c & q & Hq & H1 & H2 & H3 & H4).
  { destruct s as [u|l]; cbn [n3_node app]; eauto 10. }
  destruct g; unfold nq_line, row_line; rewrite Hq; cbn [app]; eauto 10.
Qed.

Theorem patch_parseline_line (r : prow) : good_prow r = true -> patch_parseline (patch_line r) = Got r.
Proof.
  intros H. unfold good_prow in H. apply andb_true_iff in H as [Hg Hok].
  destruct (patch_us r Hok) as [Hus Hgus].
  destruct (patch_body_head r) as (c & q & Hq & Hsp & Hh & HA & HD).
  assert (rd_quad true (patch_body (snd r)) = Some (snd r)) as Hrd.
  { destruct r as [op [t g]]. unfold patch_body. simpl in *. unfold good_tquad in Hg. simpl in Hg.
    apply andb_true_iff in Hg as [Ht Hgg]. destruct g as [n|].
    - now apply rd_quad_nq_line.
    - now apply rd_quad_row_line. }
  unfold patch_line. rewrite Hq in *. unfold patch_parseline. destruct r as [[|] tq]; cbn [fst snd] in *.
  - cbn [drop_while]. replace (is_sp 65) with false by reflexivity. replace (65 =? 35) with false by reflexivity.
    cbn [find_op op_table strip_prefix]. rewrite N.eqb_refl. unfold lstrip_chars. cbn [drop_while mem existsb].
    rewrite N.eqb_refl. cbn [orb]. replace (32 =? 65) with false by reflexivity. cbn [orb].
    cbn [drop_while]. replace (is_sp 32) with true by reflexivity. rewrite Hsp, Hh, Hrd. reflexivity.
  - cbn [drop_while]. replace (is_sp 68) with false by reflexivity. replace (68 =? 35) with false by reflexivity.
    cbn [find_op op_table strip_prefix]. replace (65 =? 68) with false by reflexivity. rewrite N.eqb_refl.
    unfold lstrip_chars. cbn [drop_while mem existsb].
    rewrite N.eqb_refl. cbn [orb]. replace (32 =? 68) with false by reflexivity. cbn [orb].
    cbn [drop_while]. replace (is_sp 32) with true by reflexivity. rewrite Hsp, Hh, Hrd. reflexivity.
Qed.

Lemma patch_line_no_nl (r : prow) : good_prow r = true -> no_nl (patch_line r) = true.
Proof.
  intros H. unfold good_prow in H. apply andb_true_iff in H as [Hg _].
  unfold patch_line. rewrite !no_nl_cons.
  assert (negb (((if fst r then 65 else 68) =? 10) || ((if fst r then 65 else 68) =? 13)) = true) as ->
    by (destruct (fst r); reflexivity).
  cbn [andb negb orb N.eqb]. destruct r as [op [t g]]. unfold patch_body. cbn [fst snd] in *. destruct g as [n|].
  - now apply nq_line_no_nl.
  - unfold good_tquad in Hg. simpl in Hg. rewrite andb_true_r in Hg.
    unfold good_triple in Hg. apply andb_true_iff in Hg as [Ht _]. apply andb_true_iff in Ht as [Hwf Hrd].
    now apply row_line_no_nl.
Qed.

Lemma patch_row_line (r : prow) : good_prow r = true -> patch_row r = Some (patch_line r ++ [10]).
Proof.
  intros H. unfold good_prow in H. apply andb_true_iff in H as [Hg _].
  pose proof (nq_row_line (snd r) Hg) as Hrow. unfold nq_row in Hrow. unfold patch_row.
  destruct (snd r) as [[[s p] o] g]. destruct (node_ok s && valid_uri p && obj_ok o && g_ok g); [reflexivity|discriminate].
Qed.

Lemma patch_rows_lines rs : forallb good_prow rs = true ->
  patch_rows_text rs = Some (text_of (map patch_line rs)).
Proof.
  induction rs as [|r rs IH]; intros H; [reflexivity|].
  simpl in H. apply andb_true_iff in H as [Hr Hrs].
  cbn [patch_rows_text map text_of flat_map]. rewrite (patch_row_line r Hr), (IH Hrs). reflexivity.
Qed.

Definition header_lines (hid hprev : option str) : list str :=
  (match truthy hid with Some h => [h_line s_id h] | None => [] end)
  ++ (match truthy hprev with Some h => [h_line s_prev h] | None => [] end) ++ [s_TX].

Lemma patch_header_text hid hprev : patch_header hid hprev = text_of (header_lines hid hprev).
Proof.
  unfold patch_header, header_lines. destruct (truthy hid), (truthy hprev); cbn [text_of flat_map app];
    rewrite <- ?app_assoc; reflexivity.
Qed.


Lemma truthy_sub h s : truthy h = Some s -> h = Some s.
Proof. destruct h as [[|c r]|]; simpl; congruence. Qed.

Lemma header_skip hid hprev : forall rest,
  patch_parse_lines (header_lines hid hprev ++ rest) = patch_parse_lines rest.
Proof.
  intros rest. unfold header_lines.
  assert (forall key h t, patch_parse_lines (h_line key h :: t) = patch_parse_lines t) as Hh.
  { intros key h t. reflexivity. }
  destruct (truthy hid), (truthy hprev); cbn [app]; rewrite ?Hh; reflexivity.
Qed.

Lemma header_no_nl hid hprev : h_no_nl hid = true -> h_no_nl hprev = true ->
  forallb no_nl (header_lines hid hprev) = true.
Proof.
  intros H1 H2. unfold header_lines. rewrite !forallb_app.
  assert (forall key h, no_nl key = true -> no_nl h = true -> no_nl (h_line key h) = true) as Hl.
  { intros key h Hk Hh. unfold h_line. rewrite !no_nl_app, Hk, Hh. reflexivity. }
  destruct (truthy hid) eqn:E1, (truthy hprev) eqn:E2; cbn [forallb andb];
    try (apply truthy_sub in E1; subst hid); try (apply truthy_sub in E2; subst hprev);
    rewrite ?Hl; auto.
Qed.

Lemma patch_parse_lines_rows rs : forallb good_prow rs = true ->
  patch_parse_lines (map patch_line rs ++ [s_TC]) = Some rs.
Proof.
  induction rs as [|r rs IH]; intros H; [reflexivity|].
  simpl in H. apply andb_true_iff in H as [Hr Hrs].
  cbn [map app patch_parse_lines]. rewrite (patch_parseline_line r Hr), (IH Hrs). reflexivity.
Qed.

(* header rows, TX, the A / D rows, TC: read back as exactly the rows *)
Theorem patch_text_roundtrip : forall n, (1 <= n)%nat -> forall hid hprev rs,
  h_no_nl hid = true -> h_no_nl hprev = true -> forallb good_prow rs = true ->
  exists s, patch_doc hid hprev rs = Some s /\ patch_parse_doc n s = Some rs.
Proof.
  intros n Hn hid hprev rs H1 H2 H.
  exists (text_of (header_lines hid hprev ++ map patch_line rs ++ [s_TC])). split.
  - unfold patch_doc. rewrite (patch_rows_lines rs H), patch_header_text, !text_of_app.
    cbn [text_of flat_map]. rewrite app_nil_r. reflexivity.
  - unfold patch_parse_doc. rewrite read_text.
    + rewrite header_skip. now apply patch_parse_lines_rows.
    + exact Hn.
    + rewrite !forallb_app, header_no_nl by auto. cbn [andb forallb]. rewrite andb_true_r.
      rewrite forallb_forall in *. intros l Hl. apply in_map_iff in Hl. destruct Hl as [r [<- Hr]].
      apply patch_line_no_nl. auto.
Qed.

(* ------------------------------------------------------------------ diff and apply on sets of quads *)
Lemma apply_adds qs : forall ds q,
  In q (apply_prows (map (fun x => (true, x)) qs) ds) <-> In q ds \/ In q qs.
Proof.
  unfold apply_prows. induction qs as [|x qs IH]; intros ds q; cbn [map fold_left]; [simpl; tauto|].
  rewrite IH. unfold apply_prow. cbn [fst snd]. destruct (tq_mem x ds) eqn:E.
  - apply tq_mem_In in E. simpl. split; [intros [H|H]; auto|intros [H|[<-|H]]; auto].
  - rewrite in_app_iff. simpl. tauto.
Qed.

Lemma apply_dels qs : forall ds q,
  In q (apply_prows (map (fun x => (false, x)) qs) ds) <-> In q ds /\ ~ In q qs.
Proof.
  unfold apply_prows. induction qs as [|x qs IH]; intros ds q; cbn [map fold_left]; [simpl; tauto|].
  rewrite IH. unfold apply_prow. cbn [fst snd]. rewrite filter_In, negb_true_iff.
  assert (tquad_eqb x q = false <-> x <> q) as ->.
  { pose proof (tquad_eqb_eq x q) as He. destruct (tquad_eqb x q); split.
    - discriminate.
    - intros H. exfalso. apply H. now apply He.
    - intros _ E. apply He in E. discriminate.
    - reflexivity. }
  simpl. split; [intros [[H1 H2] H3]; split; [auto|]; intros [E|E]; auto|intros [H1 H2]; tauto].
Qed.

Lemma tq_sub_In a b q : In q (tq_sub a b) <-> In q a /\ ~ In q b.
Proof.
  unfold tq_sub. rewrite filter_In, negb_true_iff. split; intros [H1 H2]; split; auto.
  - intros Hin. apply tq_mem_In in Hin. congruence.
  - destruct (tq_mem q b) eqn:E; [|reflexivity]. apply tq_mem_In in E. contradiction.
Qed.

Theorem diff_apply_sets a b q : In q (apply_prows (diff_rows a b) a) <-> In q b.
Proof.
  unfold diff_rows, apply_prows. rewrite fold_left_app.
  fold (apply_prows (map (fun x => (true, x)) (tq_sub b a)) a).
  fold (apply_prows (map (fun x => (false, x)) (tq_sub a b)) (apply_prows (map (fun x => (true, x)) (tq_sub b a)) a)).
  rewrite apply_dels, apply_adds, !tq_sub_In.
  destruct (tq_mem q a) eqn:Ea, (tq_mem q b) eqn:Eb;
    try apply tq_mem_In in Ea; try apply tq_mem_In in Eb;
    try (assert (~ In q a) as Na by (rewrite <- tq_mem_In; congruence));
    try (assert (~ In q b) as Nb by (rewrite <- tq_mem_In; congruence)); tauto.
Qed.

Lemma diff_rows_good a b : forallb good_tquad a = true -> forallb good_tquad b = true ->
  forallb patch_ok a = true -> forallb patch_ok b = true -> forallb good_prow (diff_rows a b) = true.
Proof.
  intros Ha Hb Pa Pb. unfold diff_rows. rewrite forallb_app, !forallb_forall in *.
  assert (forall op x, good_tquad x = true -> patch_ok x = true -> good_prow (op, x) = true) as Hg.
  { intros op x H1 H2. unfold good_prow. simpl. now rewrite H1, H2. }
  apply andb_true_iff. rewrite !forallb_forall. split; intros r Hr; apply in_map_iff in Hr;
    destruct Hr as [x [<- Hx]]; apply tq_sub_In in Hx; destruct Hx as [Hx _]; apply Hg; auto.
Qed.

(* apply(read(write(diff a b)), a) = b *)
Theorem patch_text_diff_apply : forall n, (1 <= n)%nat -> forall hid hprev a b,
  h_no_nl hid = true -> h_no_nl hprev = true ->
  forallb good_tquad a = true -> forallb good_tquad b = true ->
  forallb patch_ok a = true -> forallb patch_ok b = true ->
  exists s rs, patch_doc hid hprev (diff_rows a b) = Some s /\ patch_parse_doc n s = Some rs
               /\ forall q, In q (apply_prows rs a) <-> In q b.
Proof.
  intros n Hn hid hprev a b H1 H2 Ha Hb Pa Pb.
  destruct (patch_text_roundtrip n Hn hid hprev (diff_rows a b) H1 H2 (diff_rows_good a b Ha Hb Pa Pb))
    as (s & Hs & Hp).
  exists s, (diff_rows a b). split; [exact Hs|]. split; [exact Hp|]. apply diff_apply_sets.
Qed.

(* ------------------------------------------------------------------ model and checker *)
Lemma seteq_l_iff x y : (forall q : tquad, In q x <-> In q y) -> seteq_l tquad_eqb x y = true.
Proof.
  intros H. unfold seteq_l, sub_l. apply andb_true_iff. split; apply forallb_forall; intros q Hq;
    apply existsb_exists; exists q; (split; [now apply H|now apply tquad_eqb_eq]).
Qed.

Lemma bufsiz_pos : (1 <= bufsiz)%nat.
Proof. unfold bufsiz. lia. Qed.

Theorem tx_spec_model : forall c, tx_wf c = true -> tx_spec c (tx_model c) = true.
Proof.
  intros [qs|s|hid hprev a b|a s] Hwf; try reflexivity.
  - simpl in Hwf. unfold tx_spec, tx_model. rewrite Hwf.
    destruct (nq_text_roundtrip bufsiz bufsiz_pos qs Hwf) as (s & -> & ->). simpl.
    apply seteq_l_iff. intros q. tauto.
  - unfold tx_spec. rewrite Hwf. simpl in Hwf.
    apply andb_true_iff in Hwf as [Hwf H2]. apply andb_true_iff in Hwf as [Hwf H1].
    apply andb_true_iff in Hwf as [Hwf Pb]. apply andb_true_iff in Hwf as [Hwf Pa].
    apply andb_true_iff in Hwf as [Ha Hb].
    destruct (patch_text_diff_apply bufsiz bufsiz_pos hid hprev a b H1 H2 Ha Hb Pa Pb) as (s & rs & Hs & Hp & Hq).
    unfold tx_model. rewrite Hs, Hp. simpl. now apply seteq_l_iff.
Qed.

(* Prop-level reading of the checker on the two write cases *)
Lemma seteq_l_sound x y : seteq_l tquad_eqb x y = true -> forall q : tquad, In q x <-> In q y.
Proof.
  unfold seteq_l, sub_l. intros H q. apply andb_true_iff in H as [H1 H2]. rewrite forallb_forall in H1, H2.
  split; intros Hq; [specialize (H1 q Hq)|specialize (H2 q Hq)]; apply existsb_exists in H1 || apply existsb_exists in H2.
  - destruct H1 as [z [Hz E]]. apply tquad_eqb_eq in E. now subst.
  - destruct H2 as [z [Hz E]]. apply tquad_eqb_eq in E. now subst.
Qed.

Theorem tx_spec_reading_nq : forall qs text back,
  forallb good_tquad qs = true -> tx_spec (NqWrite qs) (ObsNq text back) = true ->
  exists t r, text = Some t /\ back = Some r /\ forall q, In q r <-> In q qs.
Proof.
  intros qs text back Hg H. unfold tx_spec in H. rewrite Hg in H. destruct text as [t|]; [|discriminate].
  destruct back as [r|]; [|discriminate]. simpl in H. exists t, r. split; [reflexivity|]. split; [reflexivity|].
  now apply seteq_l_sound.
Qed.

Theorem tx_spec_reading_patch : forall hid hprev a b text applied,
  tx_wf (PtWrite hid hprev a b) = true -> tx_spec (PtWrite hid hprev a b) (ObsPt text applied) = true ->
  exists t r, text = Some t /\ applied = Some r /\ forall q, In q r <-> In q b.
Proof.
  intros hid hprev a b text applied Hg H. unfold tx_spec in H. rewrite Hg in H. destruct text as [t|]; [|discriminate].
  destruct applied as [r|]; [|discriminate]. simpl in H. exists t, r. split; [reflexivity|]. split; [reflexivity|].
  now apply seteq_l_sound.
Qed.
