(* Lemmas for C06, part 2: the parsers that re-map blank-node labels through one
   get-or-create dictionary per document (N-Quads, TriG). *)
From RV Require Import Routing.Model Routing.Proofs.

Lemma fresh_id_odd base k : isb (fresh_id base k) = true.
Proof.
  unfold isb, fresh_id. rewrite N.add_comm. rewrite N.odd_add_mul_2. reflexivity.
Qed.

Lemma fresh_id_inj base k1 k2 : fresh_id base k1 = fresh_id base k2 -> k1 = k2.
Proof. unfold fresh_id. lia. Qed.

Lemma fresh_id_gt base k : (base < fresh_id base k)%N.
Proof. unfold fresh_id. lia. Qed.

(* the dictionary invariant *)
Definition EI (base : N) (e : penv) : Prop :=
  NoDup (map fst (fst e)) /\
  (forall x y, In (x, y) (fst e) -> isb x = true /\ exists k, (k < snd e)%N /\ y = fresh_id base k) /\
  NoDup (map snd (fst e)).

Definition ext (e e' : penv) : Prop :=
  forall x y, afind (fst e) x = Some y -> afind (fst e') x = Some y.

Definition covers (e : penv) (x : N) : Prop := isb x = true -> afind (fst e) x <> None.

Lemma ext_refl e : ext e e.
Proof. intros x y H. exact H. Qed.

Lemma ext_trans e1 e2 e3 : ext e1 e2 -> ext e2 e3 -> ext e1 e3.
Proof. intros H1 H2 x y H. auto. Qed.

Lemma covers_ext e e' x : ext e e' -> covers e x -> covers e' x.
Proof.
  intros He Hc Hb. specialize (Hc Hb). destruct (afind (fst e) x) eqn:E; [|congruence].
  rewrite (He _ _ E). discriminate.
Qed.

Lemma rn_stable e e' x : ext e e' -> covers e x -> rn (alookup (fst e)) x = rn (alookup (fst e')) x.
Proof.
  intros He Hc. unfold rn. destruct (isb x) eqn:Hb; [|reflexivity].
  specialize (Hc Hb). unfold alookup. destruct (afind (fst e) x) eqn:E; [|congruence].
  now rewrite (He _ _ E).
Qed.

Lemma res_spec base e x : EI base e ->
  EI base (fst (res true base e x)) /\ ext e (fst (res true base e x))
  /\ covers (fst (res true base e x)) x
  /\ snd (res true base e x) = rn (alookup (fst (fst (res true base e x)))) x.
Proof.
  intros HE. unfold res. simpl. destruct (isb x) eqn:Hb.
  - destruct (afind (fst e) x) eqn:Ef; simpl.
    + split; [auto|]. split; [apply ext_refl|]. split.
      * intros _. rewrite Ef. discriminate.
      * unfold rn, alookup. now rewrite Hb, Ef.
    + destruct HE as [Hk [Hp Hv]]. split; [|split; [|split]].
      * split; [|split]; simpl.
        -- constructor; [now apply afind_None_notin|auto].
        -- intros x0 y [[= <- <-]|Hin].
           ++ split; [auto|]. exists (snd e). split; [lia|reflexivity].
           ++ destruct (Hp _ _ Hin) as [H1 [k [H2 H3]]]. split; [auto|]. exists k. split; [lia|auto].
        -- constructor; [|auto]. rewrite in_map_iff. intros [[x0 y0] [Ey Hin]]. simpl in Ey. subst y0.
           destruct (Hp _ _ Hin) as [_ [k [Hk1 Hk2]]]. apply fresh_id_inj in Hk2. lia.
      * intros z y Hz. simpl. destruct (N.eqb_spec z x) as [->|]; [congruence|auto].
      * intros _. simpl. rewrite N.eqb_refl. discriminate.
      * unfold rn, alookup. simpl. now rewrite Hb, N.eqb_refl.
  - simpl. split; [auto|]. split; [apply ext_refl|]. split.
    + intros H. congruence.
    + unfold rn. now rewrite Hb.
Qed.

(* the parser invariant: [P] is the list of document quads read so far *)
Definition PI (base : N) (P : qset) (st : pst) : Prop :=
  EI base (p_env st) /\
  (forall x, In x (ids_of P) -> covers (p_env st) x) /\
  qseteq (p_out st) (map (rn_quad (alookup (fst (p_env st)))) P).

Lemma map_rn_stable e e' P :
  ext e e' -> (forall x, In x (ids_of P) -> covers e x) ->
  map (rn_quad (alookup (fst e))) P = map (rn_quad (alookup (fst e'))) P.
Proof.
  intros He Hc. apply map_ext_in. intros q Hq. apply rn_quad_ext. intros x Hx.
  apply rn_stable; auto. apply Hc. apply ids_of_In. eauto.
Qed.

Lemma PI_ext base P st e' :
  PI base P st -> EI base e' -> ext (p_env st) e' -> PI base P {| p_env := e'; p_out := p_out st |}.
Proof.
  intros [HE [Hc Hs]] HE' He. split; [exact HE'|]. split.
  - intros x Hx. simpl. eapply covers_ext; eauto.
  - simpl. rewrite <- (map_rn_stable _ _ P He Hc). exact Hs.
Qed.

Lemma step_triple_relabel base P st t c g :
  PI base P st -> covers (p_env st) c -> g = rn (alookup (fst (p_env st))) c ->
  PI base ((t, c) :: P) (step_triple true base g st t)
  /\ ext (p_env st) (p_env (step_triple true base g st t)).
Proof.
  intros [HE [Hc Hs]] Hcc Hg. destruct t as [[s p] o]. unfold step_triple. simpl.
  set (e0 := p_env st) in *.
  destruct (res_spec base e0 s HE) as [HE1 [X1 [C1 V1]]].
  set (r1 := res true base e0 s) in *.
  destruct (res_spec base (fst r1) p HE1) as [HE2 [X2 [C2 V2]]].
  set (r2 := res true base (fst r1) p) in *.
  destruct (res_spec base (fst r2) o HE2) as [HE3 [X3 [C3 V3]]].
  set (r3 := res true base (fst r2) o) in *.
  assert (ext e0 (fst r3)) as X03 by (eapply ext_trans; [exact X1|eapply ext_trans; eauto]).
  assert (ext (fst r1) (fst r3)) as X13 by (eapply ext_trans; eauto).
  split; [|exact X03]. split; [exact HE3|]. split.
  - simpl. intros x Hx. unfold ids_of in Hx. simpl in Hx.
    destruct Hx as [<-|[<-|[<-|[<-|Hx]]]].
    + exact (covers_ext _ _ _ X13 C1).
    + exact (covers_ext _ _ _ X3 C2).
    + exact C3.
    + exact (covers_ext _ _ _ X03 Hcc).
    + eapply covers_ext; [exact X03|]. apply Hc. exact Hx.
  - simpl. intros q. rewrite q_add_In. rewrite (Hs q).
    rewrite (map_rn_stable e0 (fst r3) P X03 Hc).
    assert (rn_quad (alookup (fst (fst r3))) (s, p, o, c) = (snd r1, snd r2, snd r3, g)) as Eq.
    { unfold rn_quad, rn_triple. simpl. rewrite V1, V2, V3, Hg.
      rewrite (rn_stable (fst r1) (fst r3) s X13 C1).
      rewrite (rn_stable (fst r2) (fst r3) p X3 C2).
      rewrite (rn_stable e0 (fst r3) c X03 Hcc). reflexivity. }
    simpl. split.
    + intros [->|H]; [left; exact Eq|right; exact H].
    + intros [E|H]; [left; rewrite <- E; exact Eq|right; exact H].
Qed.

Lemma fold_triples_relabel base c g ts : forall P st,
  PI base P st -> covers (p_env st) c -> g = rn (alookup (fst (p_env st))) c ->
  exists P', PI base P' (fold_left (step_triple true base g) ts st)
             /\ ext (p_env st) (p_env (fold_left (step_triple true base g) ts st))
             /\ forall q, In q P' <-> In q P \/ (snd q = c /\ In (fst q) ts).
Proof.
  induction ts as [|t ts IH]; intros P st HP Hc Hg; simpl.
  - exists P. split; [auto|]. split; [apply ext_refl|]. intros q. tauto.
  - destruct (step_triple_relabel base P st t c g HP Hc Hg) as [HP' Hx].
    destruct (IH ((t, c) :: P) (step_triple true base g st t) HP') as [P' [H1 [H2 H3]]].
    + eapply covers_ext; eauto.
    + rewrite Hg. apply rn_stable; auto.
    + exists P'. split; [auto|]. split; [eapply ext_trans; eauto|].
      intros q. rewrite H3. simpl. split.
      * intros [[<-|H]|[Hc' Ht]]; simpl; auto.
      * intros [H|[Hc' [Et|Ht]]]; auto. left. left. destruct q as [tq cq]; simpl in *. now rewrite Et, Hc'.
Qed.

Lemma step_block_relabel base P st b : fst b <> GAnon -> PI base P st ->
  exists P', PI base P' (step_block true base st b)
             /\ forall q, In q P' <-> In q P \/ (snd q = route (fst b) /\ In (fst q) (snd b)).
Proof.
  destruct b as [l ts]. simpl. intros Hl HP. unfold step_block. simpl. destruct l as [|c|].
  - destruct (fold_triples_relabel base 0%N 0%N ts P st HP) as [P' [H1 [_ H3]]].
    + intros H. discriminate.
    + reflexivity.
    + exists P'. auto.
  - destruct HP as [HE [Hc Hs]].
    destruct (res_spec base (p_env st) c HE) as [HE1 [X1 [C1 V1]]].
    destruct (fold_triples_relabel base c (snd (res true base (p_env st) c)) ts P
                {| p_env := fst (res true base (p_env st) c); p_out := p_out st |}) as [P' [H1 [_ H3]]].
    + apply PI_ext; [split; auto|auto|auto].
    + exact C1.
    + exact V1.
    + exists P'. auto.
  - congruence.
Qed.

Lemma fold_blocks_relabel base d : forall P st, named_only d -> PI base P st ->
  exists P', PI base P' (fold_left (step_block true base) d st)
             /\ forall q, In q P' <-> In q P \/ exists b, In b d /\ snd q = route (fst b) /\ In (fst q) (snd b).
Proof.
  induction d as [|b d IH]; intros P st Hn HP; simpl.
  - exists P. split; [auto|]. intros q. split; [auto|]. intros [H|[b [[] _]]]. exact H.
  - destruct (step_block_relabel base P st b) as [P1 [H1 H2]]; [apply Hn; now left|auto|].
    destruct (IH P1 (step_block true base st b)) as [P' [H3 H4]]; [intros b' Hb'; apply Hn; now right|auto|].
    exists P'. split; [auto|]. intros q. rewrite H4, H2. split.
    + intros [[H|H]|[b' [Hb' H]]]; auto.
      * right. exists b. auto.
      * right. exists b'. auto.
    + intros [H|[b' [[<-|Hb'] H]]]; auto. right. exists b'. auto.
Qed.

(* reading a document with the re-mapping parser yields a renamed copy of the
   quads the document describes *)
Lemma parse_with_relabel_iso d Q : named_only d ->
  (forall q, In q Q <-> exists b, In b d /\ snd q = route (fst b) /\ In (fst q) (snd b)) ->
  forall base, iso Q (parse_with true base d).
Proof.
  intros Hn HQ base. unfold parse_with.
  destruct (fold_blocks_relabel base d [] {| p_env := ([], 0%N); p_out := [] |} Hn) as [P' [[HE [Hc Hs]] HP']].
  { split; [|split]; simpl.
    - split; [constructor|]. split; [intros x y []|constructor].
    - intros x [].
    - intros q. tauto. }
  set (st := fold_left (step_block true base) d {| p_env := ([], 0%N); p_out := [] |}) in *.
  assert (qseteq Q P') as HQP.
  { intros q. rewrite HQ, HP'. simpl. tauto. }
  exists (alookup (fst (p_env st))). split; [|split].
  - intros x Hx. unfold alookup. destruct (afind (fst (p_env st)) x) eqn:E; [|exact Hx].
    apply afind_Some_In in E. destruct HE as [_ [Hp _]]. destruct (Hp _ _ E) as [_ [k [_ ->]]].
    apply fresh_id_odd.
  - intros x y Hx Hy. destruct HE as [_ [_ Hv]]. apply alookup_inj; auto.
    + apply bnodes_In in Hx. destruct Hx as [Hb Hi].
      assert (In x (ids_of P')) as Hi'.
      { apply ids_of_In in Hi. destruct Hi as [q [Hq Hxq]]. apply ids_of_In. exists q. split; [now apply HQP|auto]. }
      specialize (Hc x Hi' Hb). destruct (afind (fst (p_env st)) x) eqn:E; [|congruence].
      apply afind_Some_In in E. apply in_map_iff. exists (x, n). auto.
    + apply bnodes_In in Hy. destruct Hy as [Hb Hi].
      assert (In y (ids_of P')) as Hi'.
      { apply ids_of_In in Hi. destruct Hi as [q [Hq Hxq]]. apply ids_of_In. exists q. split; [now apply HQP|auto]. }
      specialize (Hc y Hi' Hb). destruct (afind (fst (p_env st)) y) eqn:E; [|congruence].
      apply afind_Some_In in E. apply in_map_iff. exists (y, n). auto.
  - apply seteq_trans with (map (rn_quad (alookup (fst (p_env st)))) P').
    + now apply seteq_map.
    + apply seteq_sym. exact Hs.
Qed.

Lemma parse_relabel_iso d Q : named_only d ->
  (forall q, In q Q <-> exists b, In b d /\ snd q = route (fst b) /\ In (fst q) (snd b)) ->
  iso Q (parse_doc true d).
Proof. intros Hn HQ. unfold parse_doc. now apply parse_with_relabel_iso. Qed.

Lemma blocks_quads D cs q :
  (exists b, In b (blocks_of lab_std D cs) /\ snd q = route (fst b) /\ In (fst q) (snd b))
  <-> In (snd q) cs /\ In q (d_quads D).
Proof.
  unfold blocks_of. split.
  - intros [b [Hb [Hr Ht]]]. apply in_map_iff in Hb. destruct Hb as [c [<- Hc]]. simpl in *.
    rewrite route_lab_std in Hr. subst c. split; [auto|]. apply g_triples_In in Ht. now destruct q.
  - intros [Hc Hq]. exists (lab_std (snd q), g_triples D (snd q)). split; [|split].
    + apply in_map_iff. eauto.
    + simpl. now rewrite route_lab_std.
    + simpl. apply g_triples_In. now destruct q.
Qed.

Lemma nquads_roundtrip D : wfd D -> iso (d_quads D) (parse_doc true (ser_nquads D)).
Proof.
  intros [_ [_ Hc]]. apply parse_relabel_iso.
  - apply blocks_of_named, lab_std_named.
  - intros q. unfold ser_nquads. rewrite blocks_quads. split; [auto|tauto].
Qed.

