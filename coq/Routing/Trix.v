(* Lemmas for C06, part 3: TriX (labels kept, anonymous <graph> elements get a
   fresh blank-node name). *)
From RV Require Import Routing.Model Routing.Proofs Routing.Relabel.

Lemma isnil_true (X : Type) (l : list X) : isnil l = true -> l = [].
Proof. destruct l; [reflexivity|discriminate]. Qed.

Lemma list_max_ge l x : In x l -> (x <= list_max l)%N.
Proof.
  induction l as [|y l IH]; simpl; [tauto|]. intros [->|H]; [lia|]. specialize (IH H). lia.
Qed.

(* [m]: which fresh name each blank-node-named, non-empty graph received *)
Definition TI (base : N) (D : dset) (done : list cid) (st : pst) (m : list (N * N)) : Prop :=
  (forall c y, In (c, y) m ->
     isb c = true /\ In c done /\ (exists t, In t (g_triples D c))
     /\ exists k, (k < snd (p_env st))%N /\ y = fresh_id base k) /\
  NoDup (map snd m) /\
  (forall c, In c done -> isb c = true -> (exists t, In t (g_triples D c)) -> afind m c <> None) /\
  (forall q, In q (p_out st) <->
             exists c, In c done /\ In (fst q) (g_triples D c) /\ snd q = alookup m c).

Lemma TI_even_lookup base D done st m c : TI base D done st m -> isb c = false -> alookup m c = c.
Proof.
  intros [H2 _] Hb. unfold alookup. destruct (afind m c) eqn:E; [|reflexivity].
  apply afind_Some_In in E. destruct (H2 _ _ E) as [Hb' _]. congruence.
Qed.

Lemma trix_step base D done st m c :
  TI base D done st m -> ~ In c done ->
  exists m', TI base D (c :: done) (step_block false base st (lab_trix c, g_triples D c)) m'.
Proof.
  intros HT Hc. pose proof (TI_even_lookup _ _ _ _ _ c HT) as Hev.
  destruct HT as [H2 [H3 [H4 H5]]]. unfold step_block, lab_trix. simpl. destruct (isb c) eqn:Hb.
  - simpl. destruct (isnil (g_triples D c)) eqn:En.
    + (* an empty anonymous graph leaves no trace *)
      apply isnil_true in En. exists m. split; [|split; [|split]].
      * intros c0 y Hin. destruct (H2 _ _ Hin) as (A & B & C & Dk). repeat split; auto. now right.
      * exact H3.
      * intros c0 [<-|Hd] Hb0 [t Ht]; [rewrite En in Ht; destruct Ht|apply H4; eauto].
      * intros q. rewrite H5. split; intros [c0 [Hd [Ht Hs]]]; exists c0.
        -- split; [now right|auto].
        -- destruct Hd as [<-|Hd]; [rewrite En in Ht; destruct Ht|auto].
    + set (n := snd (p_env st)). set (g := fresh_id base n).
      destruct (fold_plain base g (g_triples D c)
                  {| p_env := (fst (p_env st), N.succ n); p_out := p_out st |}) as [Ee Ho].
      exists ((c, g) :: m). split; [|split; [|split]].
      * intros c0 y [E|Hin].
        -- inversion E; subst c0 y. split; [auto|]. split; [now left|]. split; [now apply isnil_false|].
           exists n. rewrite Ee. simpl. split; [lia|reflexivity].
        -- destruct (H2 _ _ Hin) as (A & B & C & k & Hk & Hy). split; [auto|]. split; [now right|].
           split; [auto|]. exists k. rewrite Ee. simpl. split; [unfold n; lia|auto].
      * simpl. constructor; [|auto]. rewrite in_map_iff. intros [[c0 y0] [Ey Hin]]. simpl in Ey. subst y0.
        destruct (H2 _ _ Hin) as (_ & _ & _ & k & Hk & Hy). apply fresh_id_inj in Hy. unfold n in Hy. lia.
      * intros c0 Hd Hb0 Hex. simpl. destruct (N.eqb_spec c0 c) as [->|Hn]; [discriminate|].
        destruct Hd as [E|Hd]; [congruence|]. apply H4; auto.
      * intros q. rewrite Ho. simpl. rewrite H5. split.
        -- intros [[c0 [Hd [Ht Hs]]]|[Hs Ht]].
           ++ exists c0. split; [now right|]. split; [auto|]. rewrite Hs. unfold alookup. simpl.
              destruct (N.eqb_spec c0 c) as [->|Hn]; [contradiction|reflexivity].
           ++ exists c. split; [now left|]. split; [auto|]. unfold alookup. simpl. now rewrite N.eqb_refl.
        -- intros [c0 [[<-|Hd] [Ht Hs]]].
           ++ right. split; [|auto]. rewrite Hs. unfold alookup. simpl. now rewrite N.eqb_refl.
           ++ left. exists c0. split; [auto|]. split; [auto|]. rewrite Hs. unfold alookup. simpl.
              destruct (N.eqb_spec c0 c) as [->|Hn]; [contradiction|reflexivity].
  - simpl. destruct (fold_plain base c (g_triples D c) {| p_env := p_env st; p_out := p_out st |}) as [Ee Ho].
    exists m. split; [|split; [|split]].
    + intros c0 y Hin. destruct (H2 _ _ Hin) as (A & B & C & k & Hk & Hy). split; [auto|]. split; [now right|].
      split; [auto|]. exists k. rewrite Ee. simpl. auto.
    + exact H3.
    + intros c0 [<-|Hd] Hb0; [congruence|apply H4; auto].
    + intros q. rewrite Ho. simpl. rewrite H5. split.
      * intros [[c0 [Hd [Ht Hs]]]|[Hs Ht]].
        -- exists c0. split; [now right|auto].
        -- exists c. split; [now left|]. split; [auto|]. rewrite Hs. symmetry. now apply Hev.
      * intros [c0 [[<-|Hd] [Ht Hs]]].
        -- right. split; [|auto]. rewrite Hs. now apply Hev.
        -- left. exists c0. auto.
Qed.

Lemma trix_fold base D cs : forall done st m,
  TI base D done st m -> NoDup cs -> (forall c, In c cs -> ~ In c done) ->
  exists done' m', (forall c, In c done' <-> In c done \/ In c cs)
                   /\ TI base D done' (fold_left (step_block false base) (blocks_of lab_trix D cs) st) m'.
Proof.
  induction cs as [|c cs IH]; intros done st m HT Hn Hd; simpl.
  - exists done, m. split; [intros c; tauto|exact HT].
  - inversion Hn as [|? ? Hni Hn']; subst.
    destruct (trix_step base D done st m c HT) as [m1 HT1]; [apply Hd; now left|].
    destruct (IH (c :: done) _ m1 HT1 Hn') as [done' [m' [Hd' HT']]].
    + intros c' Hc' [E|Hin]; [congruence|]. apply (Hd c'); [now right|auto].
    + exists done', m'. split; [|exact HT']. intros c'. rewrite Hd'. simpl. tauto.
Qed.

Lemma ds_contexts_NoDup D : NoDup (d_ctxs D) -> NoDup (ds_contexts D).
Proof.
  intros H. unfold ds_contexts. destruct (memb N.eqb 0%N (d_ctxs D)) eqn:E; [auto|].
  apply NoDup_app_single; [auto|]. now apply (memb_false N.eqb N.eqb_spec).
Qed.

(* the name of a non-empty blank-node-named graph is not a node of any triple *)
Definition names_apart (D : dset) : Prop :=
  forall q, In q (d_quads D) -> isb (snd q) = true -> ~ In (snd q) (term_ids (d_quads D)).

Lemma term_ids_In x Q : In x (term_ids Q) <-> exists q, In q Q /\ In x [fst (fst (fst q)); snd (fst (fst q)); snd (fst q)].
Proof. unfold term_ids. apply in_flat_map. Qed.

Lemma doc_ids_terms lab D cs c t x :
  In c cs -> In t (g_triples D c) -> In x [fst (fst t); snd (fst t); snd t] ->
  In x (doc_ids (blocks_of lab D cs)).
Proof.
  intros Hc Ht Hx. unfold doc_ids. apply in_flat_map. exists (lab c, g_triples D c). split.
  - unfold blocks_of. apply in_map_iff. eauto.
  - apply in_app_iff. right. simpl. apply in_flat_map. eauto.
Qed.

Lemma trix_roundtrip D : wfd D -> names_apart D -> iso (d_quads D) (parse_doc false (ser_trix D)).
Proof.
  intros [_ [Hnd Hcov]] Hap. unfold parse_doc, ser_trix.
  set (cs := ds_contexts D). set (base := N.succ (list_max (doc_ids (blocks_of lab_trix D cs)))).
  destruct (trix_fold base D cs [] {| p_env := ([], 0%N); p_out := [] |} []) as [done [m [Hdone HT]]].
  { split; [intros c y []|]. split; [constructor|]. split; [intros c []|].
    intros q. simpl. split; [tauto|]. intros [c [[] _]]. }
  { now apply ds_contexts_NoDup. }
  { intros c _ []. }
  set (st := fold_left (step_block false base) (blocks_of lab_trix D cs) {| p_env := ([], 0%N); p_out := [] |}) in *.
  assert (forall c, isb c = false -> alookup m c = c) as Hev by (intros c; apply (TI_even_lookup _ _ _ _ _ c HT)).
  destruct HT as [H2 [H3 [H4 H5]]].
  assert (forall c, In c done <-> In c cs) as Hd by (intros c; rewrite Hdone; simpl; tauto).
  (* keys of m are not nodes of triples *)
  assert (forall x, In x (term_ids (d_quads D)) -> afind m x = None) as Hterm.
  { intros x Hx. destruct (afind m x) eqn:E; [|reflexivity]. apply afind_Some_In in E.
    destruct (H2 _ _ E) as (Hb & _ & [t Ht] & _). apply g_triples_In in Ht.
    exfalso. apply (Hap _ Ht); auto. }
  assert (forall q, In q (d_quads D) -> rn_quad (alookup m) q = (fst q, alookup m (snd q))) as Hrq.
  { intros q Hq. destruct q as [[[s p] o] c]. unfold rn_quad, rn_triple. simpl.
    assert (forall x, In x [s; p; o] -> rn (alookup m) x = x) as Hx.
    { intros x Hx. unfold rn. destruct (isb x); [|reflexivity]. unfold alookup. rewrite Hterm; [reflexivity|].
      apply term_ids_In. exists (s, p, o, c). auto. }
    rewrite (Hx s), (Hx p), (Hx o); simpl; auto. f_equal.
    unfold rn. destruct (isb c) eqn:Hb; [reflexivity|]. symmetry. now apply Hev. }
  exists (alookup m). split; [|split].
  - intros x Hx. unfold alookup. destruct (afind m x) eqn:E; [|exact Hx].
    apply afind_Some_In in E. destruct (H2 _ _ E) as (_ & _ & _ & k & _ & ->). apply fresh_id_odd.
  - intros x y Hx Hy. unfold alookup.
    assert (forall z v, In z (bnodes (d_quads D)) -> afind m z = None -> In (z, v) m -> False) as Hfresh.
    { intros z v Hz Hnone Hin. destruct (H2 _ _ Hin) as (Hb & _ & _ & _).
      apply afind_None_notin in Hnone. apply Hnone. apply in_map_iff. exists (z, v). auto. }
    assert (forall z w v, In z (bnodes (d_quads D)) -> afind m z = None -> In (w, v) m -> v <> z) as Hne.
    { intros z w v Hz Hnone Hin E. subst v.
      destruct (H2 _ _ Hin) as (_ & _ & _ & k & _ & Hzk).
      apply bnodes_In in Hz. destruct Hz as [Hb Hi]. apply ids_of_In in Hi. destruct Hi as [q [Hq Hzq]].
      destruct q as [[[s p] o] c]. unfold ids_of_quad in Hzq. simpl in Hzq.
      assert (z = c \/ In z [s; p; o]) as [->|Hzt] by (simpl; intuition).
      - (* a graph name with a triple has an entry *)
        apply (H4 c); auto.
        + apply Hd. apply (Hcov _ Hq).
        + exists (s, p, o). now apply g_triples_In.
      - assert (In z (doc_ids (blocks_of lab_trix D cs))) as Hdoc.
        { apply (doc_ids_terms lab_trix D cs c (s, p, o) z); auto.
          - apply (Hcov _ Hq).
          - now apply g_triples_In. }
        apply list_max_ge in Hdoc. pose proof (fresh_id_gt base k). unfold base in *. lia. }
    destruct (afind m x) eqn:Ex, (afind m y) eqn:Ey.
    + intros ->. apply afind_Some_In in Ex. apply afind_Some_In in Ey. eapply snd_inj_of_NoDup; eauto.
    + intros E. subst n. apply afind_Some_In in Ex. exfalso. exact (Hne y x y Hy Ey Ex eq_refl).
    + intros E. subst n. apply afind_Some_In in Ey. exfalso. exact (Hne x y x Hx Ex Ey eq_refl).
    + auto.
  - intros q'. rewrite in_map_iff. rewrite H5. split.
    + intros [q [<- Hq]]. rewrite (Hrq _ Hq). simpl. exists (snd q). split; [apply Hd; apply (Hcov _ Hq)|].
      split; [|reflexivity]. apply g_triples_In. now destruct q.
    + intros [c [Hc [Ht Hs]]]. apply g_triples_In in Ht. exists (fst q', c). split; [|exact Ht].
      rewrite (Hrq _ Ht). simpl. destruct q'; simpl in *. now subst.
Qed.
