(* Lemmas for C06, part 3: TriX (labels kept, anonymous <graph> elements get a
   fresh blank-node name). *)
From RV Require Import Routing.Model Routing.Proofs Routing.Relabel.

Lemma isnil_true (X : Type) (l : list X) : isnil l = true -> l = [].
Proof. destruct l; [reflexivity|discriminate]. Qed.

Lemma list_max_ge l x : In x l -> (x <= list_max l)%N.
Proof.
  induction l as [|y l IH]; simpl; [tauto|]. intros [->|H]; [lia|]. specialize (IH H). lia.
Qed.

Lemma ds_contexts_NoDup D : NoDup (d_ctxs D) -> NoDup (ds_contexts D).
Proof.
  intros H. unfold ds_contexts. destruct (memb N.eqb 0%N (d_ctxs D)) eqn:E; [auto|].
  apply NoDup_app_single; [auto|]. now apply (memb_false N.eqb N.eqb_spec).
Qed.

(* the name of a non-empty blank-node-named graph is not a node of any triple *)
Definition names_apart (D : dset) : Prop :=
  forall q, In q (d_quads D) -> isb (snd q) = true -> ~ In (snd q) (term_ids (d_quads D)).

Lemma term_ids_In x Q : In x (term_ids Q) <-> exists q, In q Q /\ In x [fst (fst (fst q)); snd (fst (fst q)); snd (fst q)].
Proof. unfold term_ids. apply in_flat_map. Qed.


(* ------------------------------------------------------------------ *)
(* Simulation: reading an anonymous non-empty <graph> behaves like reading a
   graph whose label is a blank node never seen before and never seen again
   (the dictionary entry it would create is never consulted). *)

Definition keepc (D : dset) (c : cid) : bool := negb (isb c) || negb (isnil (g_triples D c)).
Definition trix_named (D : dset) (cs : list cid) : doc := blocks_of GName D (filter (keepc D) cs).

(* ghost keys: names of the anonymous graphs read so far *)
Definition KI (D : dset) (K : list N) : Prop :=
  forall k, In k K -> isb k = true /\ exists t, In (t, k) (d_quads D).

Definition ER (D : dset) (K : list N) (eA eN : penv) : Prop :=
  snd eA = snd eN /\
  (forall z, ~ In z K -> afind (fst eN) z = afind (fst eA) z) /\
  (forall z, In z (map fst (fst eN)) -> In z K \/ In z (term_ids (d_quads D))).

Definition tok (D : dset) (K : list N) (x : N) : Prop :=
  ~ In x K /\ (In x (term_ids (d_quads D)) \/ isb x = false).

Lemma res_sim base D K eA eN x : ER D K eA eN -> tok D K x ->
  ER D K (fst (res true base eA x)) (fst (res true base eN x))
  /\ snd (res true base eA x) = snd (res true base eN x).
Proof.
  intros [Hn [Hf Hk]] [HxK Hx]. unfold res. simpl. destruct (isb x) eqn:Hb; simpl; [|repeat split; auto].
  rewrite (Hf x HxK). destruct (afind (fst eA) x) eqn:Ef; simpl; [repeat split; auto|].
  rewrite Hn. split; [|reflexivity]. split; [reflexivity|]. split; simpl.
  - intros z Hz. destruct (N.eqb z x); auto.
  - intros z [<-|Hz]; [|auto]. right. destruct Hx as [Hx|Hx]; [auto|congruence].
Qed.

Lemma step_triple_sim base D K g stA stN (t : triple) :
  ER D K (p_env stA) (p_env stN) -> p_out stA = p_out stN ->
  (forall x, In x [fst (fst t); snd (fst t); snd t] -> tok D K x) ->
  ER D K (p_env (step_triple true base g stA t)) (p_env (step_triple true base g stN t))
  /\ p_out (step_triple true base g stA t) = p_out (step_triple true base g stN t).
Proof.
  intros HE Ho Ht. unfold step_triple. cbn [p_env p_out].
  destruct (res_sim base D K _ _ (fst (fst t)) HE) as [E1 V1]; [apply Ht; simpl; auto|].
  destruct (res_sim base D K _ _ (snd (fst t)) E1) as [E2 V2]; [apply Ht; simpl; auto|].
  destruct (res_sim base D K _ _ (snd t) E2) as [E3 V3]; [apply Ht; simpl; auto|].
  split; [exact E3|]. now rewrite V1, V2, V3, Ho.
Qed.

Lemma fold_sim base D K g (ts : list triple) : forall stA stN,
  (forall t, In t ts -> forall x, In x [fst (fst t); snd (fst t); snd t] -> tok D K x) ->
  ER D K (p_env stA) (p_env stN) -> p_out stA = p_out stN ->
  ER D K (p_env (fold_left (step_triple true base g) ts stA)) (p_env (fold_left (step_triple true base g) ts stN))
  /\ p_out (fold_left (step_triple true base g) ts stA) = p_out (fold_left (step_triple true base g) ts stN).
Proof.
  induction ts as [|t ts IH]; intros stA stN Ht HE Ho; simpl; [auto|].
  destruct (step_triple_sim base D K g stA stN t HE Ho) as [HE' Ho']; [apply Ht; now left|].
  apply IH; auto. intros t' Ht'. apply Ht. now right.
Qed.

Lemma graph_terms_tok D K c : names_apart D -> KI D K ->
  forall t : triple, In t (g_triples D c) -> forall x, In x [fst (fst t); snd (fst t); snd t] -> tok D K x.
Proof.
  intros Hap HK t Ht x Hx. apply g_triples_In in Ht.
  assert (In x (term_ids (d_quads D))) as Hti by (apply term_ids_In; exists (t, c); auto).
  split; [|now left]. intros HxK. destruct (HK _ HxK) as [Hb [t' Ht']].
  apply (Hap _ Ht'); auto.
Qed.

Lemma step_block_anon_empty r base st ts : isnil ts = true -> step_block r base st (GAnon, ts) = st.
Proof. intros H. unfold step_block. cbn [fst snd]. now rewrite H. Qed.

Lemma step_block_anon r base st ts : isnil ts = false ->
  step_block r base st (GAnon, ts)
  = fold_left (step_triple r base (fresh_id base (snd (p_env st)))) ts
      {| p_env := (fst (p_env st), N.succ (snd (p_env st))); p_out := p_out st |}.
Proof. intros H. unfold step_block. cbn [fst snd]. now rewrite H. Qed.

Lemma step_block_name r base st c ts :
  step_block r base st (GName c, ts)
  = fold_left (step_triple r base (snd (res r base (p_env st) c))) ts
      {| p_env := fst (res r base (p_env st) c); p_out := p_out st |}.
Proof. reflexivity. Qed.

Lemma trix_sim base D : names_apart D -> forall cs K stA stN,
  NoDup cs -> (forall c, In c cs -> ~ In c K) -> KI D K ->
  ER D K (p_env stA) (p_env stN) -> p_out stA = p_out stN ->
  p_out (fold_left (step_block true base) (blocks_of lab_trix D cs) stA)
  = p_out (fold_left (step_block true base) (trix_named D cs) stN).
Proof.
  intros Hap. induction cs as [|c cs IH]; intros K stA stN Hnd HcK HK HE Ho; [exact Ho|].
  inversion Hnd as [|? ? Hni Hnd']; subst. unfold trix_named, blocks_of. cbn [map filter fold_left].
  fold (blocks_of lab_trix D cs).
  destruct (isb c) eqn:Hb.
  - assert (lab_trix c = GAnon) as -> by (unfold lab_trix; now rewrite Hb).
    assert (keepc D c = negb (isnil (g_triples D c))) as -> by (unfold keepc; now rewrite Hb).
    destruct (isnil (g_triples D c)) eqn:En; cbn [negb].
    + (* empty anonymous graph: no trace on either side *)
      rewrite (step_block_anon_empty _ _ _ _ En).
      apply (IH K); auto. intros c' Hc'. apply HcK. now right.
    + cbn [map fold_left]. rewrite (step_block_anon _ _ _ _ En), step_block_name.
      assert (afind (fst (p_env stN)) c = None) as Hnone.
      { apply afind_notin_keys. intros Hin. destruct HE as [_ [_ Hk]]. destruct (Hk _ Hin) as [H|H].
        - apply (HcK c); [now left|auto].
        - apply isnil_false in En. destruct En as [t Ht]. apply g_triples_In in Ht. apply (Hap _ Ht); auto. }
      assert (res true base (p_env stN) c
              = (((c, fresh_id base (snd (p_env stN))) :: fst (p_env stN), N.succ (snd (p_env stN))),
                 fresh_id base (snd (p_env stN)))) as ->.
      { unfold res. cbn [andb]. now rewrite Hb, Hnone. }
      cbn [fst snd].
      assert (KI D (c :: K)) as HK'.
      { intros k [<-|Hk]; [|auto]. split; [auto|]. apply isnil_false in En. destruct En as [t Ht].
        exists t. now apply g_triples_In. }
      pose proof HE as [Hn [Hf Hk]]. rewrite Hn.
      assert (ER D (c :: K) (fst (p_env stA), N.succ (snd (p_env stN)))
                 ((c, fresh_id base (snd (p_env stN))) :: fst (p_env stN), N.succ (snd (p_env stN)))) as HE'.
      { split; [reflexivity|]. split; simpl.
        - intros z Hz. destruct (N.eqb_spec z c) as [->|Hne]; [exfalso; apply Hz; now left|].
          apply Hf. intros Hin. apply Hz. now right.
        - intros z [<-|Hz]; [left; now left|]. destruct (Hk _ Hz); [left; now right|now right]. }
      destruct (fold_sim base D (c :: K) (fresh_id base (snd (p_env stN))) (g_triples D c)
                  {| p_env := (fst (p_env stA), N.succ (snd (p_env stN))); p_out := p_out stA |}
                  {| p_env := ((c, fresh_id base (snd (p_env stN))) :: fst (p_env stN), N.succ (snd (p_env stN)));
                     p_out := p_out stN |}) as [HE2 Ho2].
      * now apply graph_terms_tok.
      * exact HE'.
      * exact Ho.
      * apply (IH (c :: K)); auto. intros c' Hc' [E|Hin]; [congruence|]. apply (HcK c'); [now right|auto].
  - assert (lab_trix c = GName c) as -> by (unfold lab_trix; now rewrite Hb).
    assert (keepc D c = true) as -> by (unfold keepc; now rewrite Hb).
    cbn [map fold_left]. rewrite !step_block_name.
    assert (tok D K c) as Htc.
    { split; [|now right]. intros Hin. destruct (HK _ Hin). congruence. }
    destruct (res_sim base D K _ _ c HE Htc) as [HE1 V1]. rewrite V1.
    destruct (fold_sim base D K (snd (res true base (p_env stN) c)) (g_triples D c)
                {| p_env := fst (res true base (p_env stA) c); p_out := p_out stA |}
                {| p_env := fst (res true base (p_env stN) c); p_out := p_out stN |}) as [HE2 Ho2].
    + now apply graph_terms_tok.
    + exact HE1.
    + exact Ho.
    + apply (IH K); auto. intros c' Hc'. apply HcK. now right.
Qed.

Lemma trix_roundtrip D : wfd D -> names_apart D -> iso (d_quads D) (parse_doc true (ser_trix D)).
Proof.
  intros [_ [Hnd Hcov]] Hap. unfold parse_doc. set (base := N.succ (list_max (doc_ids (ser_trix D)))).
  unfold parse_with, ser_trix.
  rewrite (trix_sim base D Hap (ds_contexts D) [] _ {| p_env := ([], 0%N); p_out := [] |}).
  - fold (parse_with true base (trix_named D (ds_contexts D))). apply parse_with_relabel_iso.
    + unfold trix_named. apply blocks_of_named. discriminate.
    + intros q. unfold trix_named, blocks_of. split.
      * intros Hq. exists (GName (snd q), g_triples D (snd q)). split; [|split].
        -- apply in_map_iff. exists (snd q). split; [reflexivity|]. apply filter_In. split; [auto|].
           unfold keepc. apply orb_true_iff. right. apply negb_true_iff. apply isnil_false.
           exists (fst q). apply g_triples_In. now destruct q.
        -- reflexivity.
        -- simpl. apply g_triples_In. now destruct q.
      * intros [b [Hb [Hr Ht]]]. apply in_map_iff in Hb. destruct Hb as [c [<- _]]. simpl in *.
        subst c. apply g_triples_In in Ht. now destruct q.
  - now apply ds_contexts_NoDup.
  - intros c _ [].
  - intros k [].
  - split; [reflexivity|]. split; [reflexivity|]. intros z [].
  - reflexivity.
Qed.
