(* Read programs (Purity/Model.v): whatever a program computes with what the
   store tells it, running it leaves the dataset as it was and - once the
   default graph is registered - leaves the whole state as it was, so that every
   read program answers the same again, with any other read programs run in
   between.  Proved by induction over programs (continuations are arbitrary
   Gallina functions). *)
From RV Require Import Dataset.Model Dataset.Proofs Purity.Model.
Local Open Scope N_scope.

Definition ds_of (s : rstate) : ds := r_ds s.

(* what every program preserves *)
Definition same_data (s s' : rstate) : Prop :=
  quads (st (r_ds s')) = quads (st (r_ds s)) /\ orphans (st (r_ds s')) = orphans (st (r_ds s))
  /\ is_ds (r_ds s') = is_ds (r_ds s) /\ fresh (r_ds s') = fresh (r_ds s)
  /\ (forall g, (g = 0 \/ In g (known (st (r_ds s')))) <-> (g = 0 \/ In g (known (st (r_ds s)))))
  /\ (forall g, In g (known (st (r_ds s))) -> In g (known (st (r_ds s')))).

Lemma same_data_refl s : same_data s s.
Proof. unfold same_data. repeat split; auto; tauto. Qed.

Lemma same_data_trans s1 s2 s3 : same_data s1 s2 -> same_data s2 s3 -> same_data s1 s3.
Proof.
  intros (A1 & A2 & A3 & A4 & A5 & A6) (B1 & B2 & B3 & B4 & B5 & B6). unfold same_data.
  repeat split; try congruence; auto.
  - intros H. apply A5, B5, H.
  - intros H. apply B5, A5, H.
Qed.

Lemma same_data_touch s : same_data s (touch0 s).
Proof.
  unfold same_data, touch0. cbn [r_ds set_st st st_add_graph quads orphans known is_ds fresh].
  repeat split; auto; rewrite ?N_sadd_In; try tauto. intros H. rewrite N_sadd_In. auto.
Qed.

Lemma same_data_bind s a b : same_data s {| r_ds := r_ds s; r_ns := bind_ns a b (r_ns s) |}.
Proof. unfold same_data. cbn [r_ds]. repeat split; auto; tauto. Qed.

(* 1. purity: ANY program leaves quads, union-only triples and the set of
   graph names (the default graph counting as always present) unchanged *)
Theorem run_pure : forall A (pr : prog A) s, same_data s (fst (run pr s)).
Proof.
  induction pr as [a|p oc k IH|ot k IH|oc k IH|k IH|k IH|a b k IH]; intros s; cbn [run].
  - apply same_data_refl.
  - apply IH.
  - apply IH.
  - apply IH.
  - apply IH.
  - eapply same_data_trans; [apply same_data_touch|apply IH].
  - eapply same_data_trans; [apply same_data_bind|apply IH].
Qed.

(* the prefix table is touched by [PBind] only *)
Theorem run_bind_free_ns : forall A (pr : prog A), bind_free pr -> forall s, r_ns (fst (run pr s)) = r_ns s.
Proof.
  induction 1 as [a|p oc k _ IH|ot k _ IH|oc k _ IH|k _ IH|k _ IH]; intros s; cbn [run]; auto.
  rewrite IH. reflexivity.
Qed.

(* 2. a program that only asks changes NOTHING (Leibniz) *)
Theorem run_quiet_id : forall A (pr : prog A), quiet pr -> forall s, fst (run pr s) = s.
Proof. induction 1; intros s; cbn [run]; auto. Qed.

Lemma touch0_settled s : settled s -> touch0 s = s.
Proof.
  unfold settled, touch0. destruct s as [[[q o k] b f] ns]. cbn [r_ds r_ns st set_st st_add_graph quads orphans known is_ds fresh].
  intros H. apply (memb_In _ N.eqb_spec) in H. unfold set_st, st_add_graph, sadd. cbn [st quads orphans known is_ds fresh].
  rewrite H. reflexivity.
Qed.

Lemma settled_touch0 s : settled (touch0 s).
Proof. unfold settled, touch0. cbn [r_ds set_st st st_add_graph known]. apply N_sadd_In. auto. Qed.

(* 3. once the default graph is registered, a program that binds no prefix
   changes NOTHING either: the one write a read issues is idempotent *)
Theorem run_settled_id : forall A (pr : prog A), bind_free pr -> forall s, settled s -> fst (run pr s) = s.
Proof.
  induction 1 as [a|p oc k _ IH|ot k _ IH|oc k _ IH|k _ IH|k _ IH]; intros s Hs; cbn [run]; auto.
  rewrite (touch0_settled s Hs). auto.
Qed.

Theorem settled_preserved : forall A (pr : prog A) s, settled s -> settled (fst (run pr s)).
Proof. intros A pr s Hs. unfold settled in *. destruct (run_pure A pr s) as (_ & _ & _ & _ & _ & H). auto. Qed.

(* a bind-free program changes at most the store's registry, and only by the default graph *)
Theorem run_bind_free_known : forall A (pr : prog A), bind_free pr -> forall s,
  fst (run pr s) = s \/ (fst (run pr s) = touch0 s /\ ~ settled s).
Proof.
  induction 1 as [a|p oc k _ IH|ot k _ IH|oc k _ IH|k _ IH|k H IH]; intros s; cbn [run]; auto.
  destruct (in_dec N.eq_dec 0 (known (st (r_ds s)))) as [Hs|Hn].
  - rewrite (touch0_settled s Hs). left. now apply run_settled_id.
  - right. split; auto. apply run_settled_id; auto. apply settled_touch0.
Qed.

(* 4. repeatability: from a settled state, a read program answers the same
   when run again - immediately, or after any other read programs *)
Inductive some_prog := SP (A : Type) (pr : prog A).
Definition sp_bind_free (x : some_prog) : Prop := match x with SP _ pr => bind_free pr end.
Definition sp_run (s : rstate) (x : some_prog) : rstate := match x with SP _ pr => fst (run pr s) end.

Lemma runs_settled_id : forall between s, settled s -> Forall sp_bind_free between -> fold_left sp_run between s = s.
Proof.
  induction between as [|[B q] r IH]; intros s Hs Hf; auto. inversion Hf as [|? ? H1 H2]; subst.
  cbn [fold_left sp_run]. cbn [sp_bind_free] in H1. rewrite (run_settled_id B q H1 s Hs). auto.
Qed.

Theorem run_repeatable : forall A (pr : prog A) between s,
  settled s -> bind_free pr -> Forall sp_bind_free between ->
  snd (run pr (fold_left sp_run between (fst (run pr s)))) = snd (run pr s).
Proof.
  intros A pr between s Hs Hb Hf. rewrite (run_settled_id A pr Hb s Hs), (runs_settled_id between s Hs Hf). reflexivity.
Qed.

(* the same at ANY state for programs that only ask *)
Definition sp_quiet (x : some_prog) : Prop := match x with SP _ pr => quiet pr end.
Theorem run_repeatable_quiet : forall A (pr : prog A) between s,
  quiet pr -> Forall sp_quiet between ->
  snd (run pr (fold_left sp_run between (fst (run pr s)))) = snd (run pr s).
Proof.
  intros A pr between s Hq Hf. rewrite (run_quiet_id A pr Hq s).
  assert (H : fold_left sp_run between s = s).
  { clear Hq. induction between as [|[B q] r IH]; auto. inversion Hf as [|? ? H1 H2]; subst.
    cbn [fold_left sp_run]. cbn [sp_quiet] in H1. rewrite (run_quiet_id B q H1 s). auto. }
  now rewrite H.
Qed.

(* with prefix bindings in between, the DATA a program sees is still the same:
   a program that never asks for the prefix table answers the same *)
Inductive ns_blind {A} : prog A -> Prop :=
| nb_ret a : ns_blind (PRet a)
| nb_triples p oc k : (forall x, ns_blind (k x)) -> ns_blind (PTriples p oc k)
| nb_contexts ot k : (forall x, ns_blind (k x)) -> ns_blind (PContexts ot k)
| nb_len oc k : (forall x, ns_blind (k x)) -> ns_blind (PLen oc k)
| nb_touch k : ns_blind k -> ns_blind (PTouchDefault k)
| nb_bind a b k : ns_blind k -> ns_blind (PBind a b k).

Theorem run_ns_blind : forall A (pr : prog A), ns_blind pr -> forall s s',
  r_ds s = r_ds s' -> snd (run pr s) = snd (run pr s') /\ r_ds (fst (run pr s)) = r_ds (fst (run pr s')).
Proof.
  induction 1 as [a|p oc k _ IH|ot k _ IH|oc k _ IH|k _ IH|a b k _ IH]; intros s s' E; cbn [run].
  - auto.
  - rewrite E. apply IH, E.
  - rewrite E. apply IH, E.
  - rewrite E. apply IH, E.
  - apply IH. unfold touch0. cbn [r_ds]. now rewrite E.
  - apply IH. exact E.
Qed.

(* ---- the front end's own reads ARE such programs ---- *)
Lemma quads_is_program d ns p :
  cg_quads d p CTriple = (let (s', l) := run (prog_quads p) {| r_ds := d; r_ns := ns |} in (r_ds s', l)).
Proof. reflexivity. Qed.

Lemma graphs_is_program d ns :
  ds_graphs d = (let (s', l) := run (prog_graphs (is_ds d)) {| r_ds := d; r_ns := ns |} in (r_ds s', l)).
Proof.
  unfold ds_graphs, prog_graphs. cbn [run st_contexts r_ds]. destruct (is_ds d); cbn [andb]; [|reflexivity].
  destruct (memb N.eqb 0 (known (st d))); reflexivity.
Qed.

Lemma len_is_program d ns : cg_len d = snd (run prog_len {| r_ds := d; r_ns := ns |}).
Proof. reflexivity. Qed.

Lemma prog_graphs_bind_free b : bind_free (prog_graphs b).
Proof.
  unfold prog_graphs. constructor. intros k. destruct (b && negb (memb N.eqb 0 k)); repeat constructor.
Qed.

Lemma prog_quads_quiet p : quiet (prog_quads p).
Proof. unfold prog_quads. constructor. intros x. constructor. Qed.

(* every store method the checker lets a read call is an operation of the language *)
Lemma call_ok_is_op c : call_ok c = true -> meth_kind c <> None.
Proof.
  unfold call_ok. intros H. apply (memb_In _ N.eqb_spec) in H. cbn in H.
  repeat (destruct H as [<-|H]; [vm_compute; discriminate|]). destruct H.
Qed.

Lemma write_codes_rejected :
  forallb (fun c => negb (call_ok c)) [30; 31; 32; 33; 34; 35; 36; 37; 38; 39; 40; 41; 42; 43; 44] = true.
Proof. reflexivity. Qed.
