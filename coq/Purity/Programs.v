(* Read programs (Purity/Model.v).  These are facts about the store's read
   INTERFACE: no operation of the language writes to the dataset, so a program
   - whatever it computes with what the store tells it - leaves the dataset
   (Leibniz) as it was, and answers the same again.  They hold by construction
   of the language; what connects them to a serialiser or a query is the
   per-run recording of the store methods it calls (harness/c13.py). *)
From RV Require Import Dataset.Model Dataset.Proofs Purity.Model.
Local Open Scope N_scope.

(* 1. ANY program leaves the dataset component exactly as it was *)
Theorem run_ds : forall A (pr : prog A) s, r_ds (fst (run pr s)) = r_ds s.
Proof.
  induction pr as [a|p oc k IH|ot k IH|oc k IH|k IH|a b k IH]; intros s; cbn [run]; auto.
  rewrite IH. reflexivity.
Qed.

(* 2. a program that binds no prefix changes NOTHING *)
Theorem run_bind_free_id : forall A (pr : prog A), bind_free pr -> forall s, fst (run pr s) = s.
Proof. induction 1; intros s; cbn [run]; auto. Qed.

(* 3. repeatability with other read programs in between *)
Inductive some_prog := SP (A : Type) (pr : prog A).
Definition sp_bind_free (x : some_prog) : Prop := match x with SP _ pr => bind_free pr end.
Definition sp_run (s : rstate) (x : some_prog) : rstate := match x with SP _ pr => fst (run pr s) end.

Lemma runs_id : forall between s, Forall sp_bind_free between -> fold_left sp_run between s = s.
Proof.
  induction between as [|[B q] r IH]; intros s Hf; auto. inversion Hf as [|? ? H1 H2]; subst.
  cbn [fold_left sp_run]. cbn [sp_bind_free] in H1. rewrite (run_bind_free_id B q H1 s). auto.
Qed.

Theorem run_repeatable : forall A (pr : prog A) between s,
  bind_free pr -> Forall sp_bind_free between ->
  snd (run pr (fold_left sp_run between (fst (run pr s)))) = snd (run pr s).
Proof.
  intros A pr between s Hb Hf. rewrite (run_bind_free_id A pr Hb s), (runs_id between s Hf). reflexivity.
Qed.

(* 4. prefix bindings do not reach the data: a program that never asks for the
   prefix table answers the same whatever the table is, binds included *)
Inductive ns_blind {A} : prog A -> Prop :=
| nb_ret a : ns_blind (PRet a)
| nb_triples p oc k : (forall x, ns_blind (k x)) -> ns_blind (PTriples p oc k)
| nb_contexts ot k : (forall x, ns_blind (k x)) -> ns_blind (PContexts ot k)
| nb_len oc k : (forall x, ns_blind (k x)) -> ns_blind (PLen oc k)
| nb_bind a b k : ns_blind k -> ns_blind (PBind a b k).

Theorem run_ns_blind : forall A (pr : prog A), ns_blind pr -> forall s s',
  r_ds s = r_ds s' -> snd (run pr s) = snd (run pr s').
Proof.
  induction 1 as [a|p oc k _ IH|ot k _ IH|oc k _ IH|a b k _ IH]; intros s s' E; cbn [run].
  - auto.
  - rewrite E. apply IH, E.
  - rewrite E. apply IH, E.
  - rewrite E. apply IH, E.
  - apply IH. exact E.
Qed.

(* ---- the front end's own reads unfold to such programs (by definition) ---- *)
Lemma quads_is_program d ns p :
  cg_quads d p CTriple = (let (s', l) := run (prog_quads p) {| r_ds := d; r_ns := ns |} in (r_ds s', l)).
Proof. reflexivity. Qed.

Lemma graphs_is_program d ns :
  ds_graphs d = (let (s', l) := run (prog_graphs (is_ds d)) {| r_ds := d; r_ns := ns |} in (r_ds s', l)).
Proof. unfold ds_graphs, prog_graphs. cbn [run st_contexts r_ds]. destruct (is_ds d); reflexivity. Qed.

Lemma len_is_program d ns : cg_len d = snd (run prog_len {| r_ds := d; r_ns := ns |}).
Proof. reflexivity. Qed.

(* every store method the checker lets a read call is an operation of the language *)
Lemma call_ok_is_op c : call_ok c = true -> meth_kind c <> None.
Proof.
  unfold call_ok. intros H. apply (memb_In _ N.eqb_spec) in H. cbn in H.
  repeat (destruct H as [<-|H]; [vm_compute; discriminate|]). destruct H.
Qed.

Lemma write_codes_rejected :
  forallb (fun c => negb (call_ok c)) [21; 30; 31; 32; 33; 34; 35; 36; 37; 38; 39; 40; 41; 42; 43; 44] = true.
Proof. reflexivity. Qed.
