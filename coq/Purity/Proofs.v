(* Proofs for C13 over the Dataset model.  Since the "fix:" commits for F19
   (_graph copies only on write paths) and 6844ed54 (listing the graphs of a
   Dataset registers nothing) NO modelled read changes the state at all: the
   state after a read is the state before it (Leibniz), hence the same read
   answers the same again. *)
From Coq Require Import PeanoNat.
From RV Require Import Dataset.Model Dataset.Proofs Purity.Model.
Local Open Scope N_scope.

Lemma leaks_write sp o : is_read o = false -> leaks sp o = false.
Proof. destruct o; try reflexivity; discriminate. Qed.

Lemma build_R : forall ops d sp,
  R d sp -> forallb (fun o => negb (is_read o)) ops = true ->
  R (build d ops) (fold_left sp_step ops sp).
Proof.
  induction ops as [|o r IH]; intros d sp H Hw; [exact H|].
  cbn [forallb] in Hw. apply andb_true_iff in Hw. destruct Hw as [H1 Hr]. apply negb_true_iff in H1.
  destruct (do_op_spec d sp o H) as (d1 & rs & E & R1 & _).
  unfold build in *. cbn [fold_left]. rewrite E. cbn [fst]. apply IH; auto.
Qed.

(* ---- a read is the identity on the state ---- *)
Lemma cg_graph_read_state d oa : fst (cg_graph d oa false) = d.
Proof. destruct oa as [[c|c|c ts]|]; reflexivity. Qed.

Lemma cg_spoc_read_state d ca : fst (cg_spoc d ca false) = d.
Proof.
  destruct ca as [|oa]; cbn [cg_spoc fst]; auto. pose proof (cg_graph_read_state d oa) as H.
  destruct (cg_graph d oa false) as [d1 c]. exact H.
Qed.

Lemma cg_triples_state d p ca kw du : fst (cg_triples d p ca kw du) = d.
Proof.
  unfold cg_triples. pose proof (cg_spoc_read_state d ca) as H1.
  destruct (cg_spoc d ca false) as [d1 c]. cbn [fst] in H1. subst d1.
  match goal with |- context [cg_graph d ?a false] => pose proof (cg_graph_read_state d a) as H2; destruct (cg_graph d a false) as [d2 x] end.
  exact H2.
Qed.

Lemma cg_quads_state d p ca : fst (cg_quads d p ca) = d.
Proof.
  unfold cg_quads. pose proof (cg_spoc_read_state d ca) as H1. destruct (cg_spoc d ca false) as [d1 c]. exact H1.
Qed.

Lemma cg_contains_state d p ca du : fst (cg_contains d p ca du) = d.
Proof.
  unfold cg_contains. pose proof (cg_spoc_read_state d ca) as H1.
  destruct (cg_spoc d ca false) as [d1 c]. cbn [fst] in H1. subst d1.
  pose proof (cg_triples_state d p CTriple (regraph c) du) as H2.
  destruct (cg_triples d p CTriple (regraph c) du) as [d2 l]. exact H2.
Qed.

Theorem do_read_state d r : fst (do_read d r) = d.
Proof.
  destruct r as [id|p ca kw du|p ca|p ca du|]; cbn [do_read].
  - reflexivity.
  - pose proof (cg_triples_state d p ca kw du) as H. destruct (cg_triples d p ca kw du). exact H.
  - pose proof (cg_quads_state d p ca) as H. destruct (cg_quads d p ca). exact H.
  - pose proof (cg_contains_state d p ca du) as H. destruct (cg_contains d p ca du). exact H.
  - pose proof (ds_graphs_state d) as H. destruct (ds_graphs d). exact H.
Qed.

Theorem do_read_again d r : do_read (fst (do_read d r)) r = do_read d r.
Proof. now rewrite do_read_state. Qed.

Lemma tseteqb_refl l : tseteqb l l = true.
Proof. apply (seteqb_spec _ triple_eqb_spec). intros x; tauto. Qed.
Lemma qseteqb_refl' l : qseteqb l l = true.
Proof. apply qseteqb_spec. intros x; tauto. Qed.
Lemma cseteqb_refl l : cseteqb l l = true.
Proof. apply (seteqb_spec _ N.eqb_spec). intros x; tauto. Qed.

Lemma res_eqb_refl r : res_eqb r r = true.
Proof. destruct r; cbn [res_eqb]; auto using tseteqb_refl, qseteqb_refl', cseteqb_refl, Bool.eqb_reflx. Qed.

Lemma pout_eqb_refl o : pout_eqb o o = true.
Proof. destruct o; cbn [pout_eqb]; auto using res_eqb_refl, cseteqb_refl. Qed.

Lemma psnap_same_refl a : psnap_same a a = true.
Proof. unfold psnap_same. now rewrite qseteqb_refl', cseteqb_refl. Qed.

Lemma read_run_pure : forall rs d,
  pure_run (snap_of d) (read_run d rs) = true /\ length (read_run d rs) = length rs.
Proof.
  induction rs as [|r rest IH]; intros d; [split; reflexivity|].
  cbn [read_run]. pose proof (do_read_state d r) as E1.
  destruct (do_read d r) as [d1 o1] eqn:E. cbn [fst] in E1. subst d1. rewrite E.
  cbn [pure_run length e_snap e_same e_calls forallb]. rewrite psnap_same_refl, pout_eqb_refl. cbn [andb].
  destruct (IH d) as [P L]. split; [exact P|now rewrite L].
Qed.

Theorem spec_ok_model c : pwf c -> spec_ok c (model_obs c) = true.
Proof.
  unfold pwf, spec_ok, model_obs. intros Hwf.
  pose proof (build_R (p_build c) _ _ (R_init (p_ds c)) Hwf) as HR.
  set (d := build (ds_init (p_ds c)) (p_build c)) in *.
  set (sp := fold_left sp_step (p_build c) sp_init) in *.
  destruct (read_run_pure (p_reads c) d) as [P L].
  cbn [fst snd]. rewrite P, L, Nat.eqb_refl, !andb_true_r.
  pose proof HR as (Eq & Eo & _ & Hn & _ & _ & Hiff & _).
  unfold snap_of. cbn [fst snd]. rewrite Eq, Eo. cbn [map]. rewrite app_nil_r.
  apply andb_true_iff. split.
  - apply (enum_ofb_spec _ quad_eqb_spec). split; auto. intros x; tauto.
  - apply (seteqb_spec _ N.eqb_spec). intros x. rewrite N_sadd_In, Hiff. tauto.
Qed.

(* every state a building history reaches is related to the specification state *)
Theorem reachable_R b ops :
  forallb (fun o => negb (is_read o)) ops = true ->
  R (build (ds_init b) ops) (fold_left sp_step ops sp_init).
Proof. intros H. apply build_R; auto using R_init. Qed.

(* ---- historical witnesses ---- *)
(* with the _graph of before the "fix:" commit for F19, a membership test handed
   a Graph of another store copied it in *)
Lemma hist_foreign_read_refuted :
  exists d c ts, quads (st (fst (cg_graph_hist d (Some (GForeign c ts))))) <> quads (st d).
Proof. exists (ds_init true), 1, [(12, 4, 12)]. vm_compute. discriminate. Qed.

(* before 6844ed54 Dataset.graphs() registered the default graph with the store on
   its first pass (which reordered the store's graph list: the first and the
   second TriX serialisation of a fresh dataset differed) *)
Lemma hist_graphs_registers_default_refuted :
  exists d, known (st (fst (ds_graphs_hist d))) <> known (st d).
Proof. exact ds_graphs_hist_refuted. Qed.

(* reading of the checker *)
Lemma psnap_same_reading a b :
  psnap_same a b = true <->
  (forall q, In q (fst a) <-> In q (fst b)) /\ (forall g, In g (snd a) <-> In g (snd b)).
Proof.
  unfold psnap_same. rewrite andb_true_iff, qseteqb_spec, (seteqb_spec _ N.eqb_spec). unfold qseteq, seteq. tauto.
Qed.

Lemma pure_run_reading prev e l :
  pure_run prev (e :: l) = true <->
  psnap_same prev (e_snap e) = true /\ e_same e = true
  /\ (forall c, In c (e_calls e) -> In c (read_meths ++ benign_meths)) /\ pure_run (e_snap e) l = true.
Proof.
  cbn [pure_run]. rewrite !andb_true_iff, forallb_forall. unfold call_ok.
  split; [intros [[[H1 H2] H3] H4]|intros (H1 & H2 & H3 & H4)]; repeat split; auto;
    intros c Hc; apply (memb_In _ N.eqb_spec); auto.
Qed.
