(* Proofs for C13 over the Dataset model: reads that are given no foreign
   Graph object keep the simulation relation of C02 with the SAME
   specification state (hence leave quads and graph names as they were) and
   answer as a function of that state (hence answer the same twice). *)
From Coq Require Import PeanoNat.
From RV Require Import Dataset.Model Dataset.Proofs Purity.Model.
Local Open Scope N_scope.

Lemma leaks_write sp o : is_read o = false -> leaks sp o = false.
Proof. destruct o; try reflexivity; discriminate. Qed.

Lemma build_R : forall ops d sp,
  R d sp -> forallb (fun o => negb (is_read o)) ops = true ->
  R (build d ops) (fold_left sp_step ops sp).
Proof.
  induction ops as [|o r IH]; intros d sp H Hw; [exact H|].
  cbn [forallb] in Hw. apply andb_true_iff in Hw. destruct Hw as [H1 Hr]. apply negb_true_iff in H1.
  destruct (do_op_spec d sp o H (leaks_write sp o H1)) as (d1 & rs & E & R1 & _).
  unfold build in *. cbn [fold_left]. rewrite E. cbn [fst]. apply IH; auto.
Qed.

Lemma is_ds_build : forall ops d, is_ds (build d ops) = is_ds d.
Proof.
  induction ops as [|o r IH]; intros d; auto. unfold build in *. cbn [fold_left]. rewrite IH. apply is_ds_do_op.
Qed.

(* the answer of a read as a function of the specification state *)
Definition sp_store (sp : dspec) : store := {| quads := sq sp; orphans := []; known := [] |}.

Definition out_rel (sp : dspec) (r : read) (o : pout) : Prop :=
  match r with
  | RdOpaque _ => o = PUnit
  | RdTriples p ca kw du => o = PRes (RTriples (sp_triples sp p (eff_graph ca kw) du))
  | RdContains p ca du => o = PRes (RBool (negb (is_nil (sp_triples sp p (eff_graph ca None) du))))
  | RdQuads p ca => o = PRes (RQuads (quads_of (sp_store sp) p (eff_graph ca None)))
  | RdGraphs => exists l, o = PNames l /\ forall x, (x = 0 \/ In x l) <-> In x (sk sp)
  end.

Lemma quads_of_ext s s' p c : quads s = quads s' -> orphans s = orphans s' -> quads_of s p c = quads_of s' p c.
Proof. intros H1 H2. unfold quads_of, st_triples, st_match. now rewrite H1, H2. Qed.

Lemma tseteqb_refl l : tseteqb l l = true.
Proof. apply (seteqb_spec _ triple_eqb_spec). intros x; tauto. Qed.
Lemma qseteqb_refl' l : qseteqb l l = true.
Proof. apply qseteqb_spec. intros x; tauto. Qed.

Lemma out_rel_same sp r o1 o2 : out_rel sp r o1 -> out_rel sp r o2 -> pout_eqb o1 o2 = true.
Proof.
  destruct r as [id|p ca kw du|p ca|p ca du|]; cbn [out_rel].
  - intros -> ->. reflexivity.
  - intros -> ->. apply tseteqb_refl.
  - intros -> ->. apply qseteqb_refl'.
  - intros -> ->. apply Bool.eqb_reflx.
  - intros (l1 & -> & H1) (l2 & -> & H2). cbn [pout_eqb]. apply (seteqb_spec _ N.eqb_spec).
    intros x. now rewrite !N_sadd_In, H1, H2.
Qed.

Lemma do_read_R d sp r :
  R d sp ->
  exists d1 o, do_read d r = (d1, o) /\ R d1 sp /\ out_rel sp r o.
Proof.
  intros H. destruct r as [id|p ca kw du|p ca|p ca du|]; cbn [do_read out_rel] in *.
  - eexists; eexists; split; [reflexivity|]. auto.
  - destruct (cg_triples_spec d sp p ca kw du H) as (d1 & E & HR).
    rewrite E. eexists; eexists; split; [reflexivity|]. auto.
  - unfold cg_quads.
    destruct (cg_spoc_read d sp ca H) as (d1 & E & HR). rewrite E.
    eexists; eexists; split; [reflexivity|]. split; auto.
    fold (quads_of (st d1) p (eff_graph ca None)). do 2 f_equal.
    destruct HR as (Eq & Eo & _). apply quads_of_ext; auto.
  - destruct (cg_contains_spec d sp p ca du H) as (d1 & E & HR).
    rewrite E. eexists; eexists; split; [reflexivity|]. auto.
  - pose proof H as (_ & _ & _ & _ & Hn & Hk & Hiff & _).
    unfold ds_graphs. destruct (is_ds d) eqn:Eds.
    + destruct (memb N.eqb 0 (known (st d))) eqn:Em.
      * eexists; eexists; split; [reflexivity|]. split; auto. eexists; split; [reflexivity|].
        intros x. rewrite Hiff. tauto.
      * eexists; eexists; split; [reflexivity|]. split; [now apply R_know0|]. eexists; split; [reflexivity|].
        intros x. rewrite Hiff, in_app_iff. simpl. intuition.
    + eexists; eexists; split; [reflexivity|]. split; auto. eexists; split; [reflexivity|].
      intros x. rewrite Hiff. tauto.
Qed.

Lemma psnap_same_R d d' sp : R d sp -> R d' sp -> psnap_same (snap_of d) (snap_of d') = true.
Proof.
  intros (Eq & Eo & _ & _ & _ & _ & Hiff & _) (Eq' & Eo' & _ & _ & _ & _ & Hiff' & _).
  unfold psnap_same, snap_of. cbn [fst snd]. rewrite Eq, Eo, Eq', Eo'. cbn [map]. rewrite app_nil_r.
  rewrite qseteqb_refl'. cbn [andb]. apply (seteqb_spec _ N.eqb_spec). intros x.
  rewrite !N_sadd_In, <- Hiff, <- Hiff'. tauto.
Qed.

Lemma read_run_pure : forall rs d sp,
  R d sp ->
  pure_run (snap_of d) (read_run d rs) = true /\ length (read_run d rs) = length rs.
Proof.
  induction rs as [|r rest IH]; intros d sp H; [split; reflexivity|].
  destruct (do_read_R d sp r H) as (d1 & o1 & E1 & R1 & O1).
  destruct (do_read_R d1 sp r R1) as (d2 & o2 & E2 & R2 & O2).
  cbn [read_run]. rewrite E1, E2. cbn [pure_run length e_snap e_same e_calls forallb].
  rewrite (psnap_same_R d d1 sp H R1), (out_rel_same sp r o1 o2 O1 O2), (psnap_same_R d1 d2 sp R1 R2). cbn [andb].
  destruct (IH d2 sp R2) as [P L]. split; [|now rewrite L].
  (* the next read starts from d2, whose snapshot shows the same dataset as d1's *)
  clear - P R1 R2. revert P. generalize (read_run d2 rest). intros l.
  destruct l as [|[s f cs] l]; auto. cbn [pure_run e_snap e_same e_calls]. intros P.
  apply andb_true_iff in P. destruct P as [P1 P3]. apply andb_true_iff in P1. destruct P1 as [P1 P4].
  apply andb_true_iff in P1. destruct P1 as [P1 P2].
  rewrite P2, P3, P4, !andb_true_r.
  (* psnap_same is transitive *)
  pose proof (psnap_same_R d1 d2 sp R1 R2) as T.
  unfold psnap_same in *. apply andb_true_iff in T, P1. destruct T as [T1 T2], P1 as [Q1 Q2].
  apply andb_true_iff. split.
  - apply qseteqb_spec. apply qseteqb_spec in T1, Q1. intros x. rewrite (T1 x). apply Q1.
  - apply (seteqb_spec _ N.eqb_spec). apply (seteqb_spec _ N.eqb_spec) in T2, Q2. intros x. rewrite (T2 x). apply Q2.
Qed.

Theorem spec_ok_model c : pwf c -> spec_ok c (model_obs c) = true.
Proof.
  unfold pwf, spec_ok, model_obs. intros Hwf.
  pose proof (build_R (p_build c) _ _ (R_init (p_ds c)) Hwf) as HR.
  set (d := build (ds_init (p_ds c)) (p_build c)) in *.
  set (sp := fold_left sp_step (p_build c) sp_init) in *.
  destruct (read_run_pure (p_reads c) d sp HR) as [P L].
  cbn [fst snd]. rewrite P, L, Nat.eqb_refl, !andb_true_r.
  pose proof HR as (Eq & Eo & _ & Hn & _ & _ & Hiff & _).
  unfold snap_of. cbn [fst snd]. rewrite Eq, Eo. cbn [map]. rewrite app_nil_r.
  apply andb_true_iff. split.
  - apply (enum_ofb_spec _ quad_eqb_spec). split; auto. intros x; tauto.
  - apply (seteqb_spec _ N.eqb_spec). intros x. rewrite N_sadd_In, Hiff. tauto.
Qed.

(* ---- purity and repeatability, read by read, on every reachable state ---- *)
Definition names (d : ds) (g : cid) : Prop := g = 0 \/ In g (known (st d)).

Theorem read_pure d sp r :
  R d sp ->
  quads (st (fst (do_read d r))) = quads (st d)
  /\ orphans (st (fst (do_read d r))) = orphans (st d)
  /\ (forall g, names (fst (do_read d r)) g <-> names d g).
Proof.
  intros H. destruct (do_read_R d sp r H) as (d1 & o & E & R1 & _). rewrite E. cbn [fst].
  destruct H as (Eq & Eo & _ & _ & _ & _ & Hiff & _), R1 as (Eq' & Eo' & _ & _ & _ & _ & Hiff' & _).
  split; [congruence|]. split; [congruence|]. intros g. unfold names. now rewrite <- Hiff, <- Hiff'.
Qed.

Theorem read_repeatable d sp r :
  R d sp ->
  pout_eqb (snd (do_read d r)) (snd (do_read (fst (do_read d r)) r)) = true.
Proof.
  intros H. destruct (do_read_R d sp r H) as (d1 & o1 & E1 & R1 & O1). rewrite E1. cbn [fst snd].
  destruct (do_read_R d1 sp r R1) as (d2 & o2 & E2 & R2 & O2). rewrite E2. cbn [snd].
  exact (out_rel_same sp r o1 o2 O1 O2).
Qed.

(* every state a building history reaches is related to the specification state *)
Theorem reachable_R b ops :
  forallb (fun o => negb (is_read o)) ops = true ->
  R (build (ds_init b) ops) (fold_left sp_step ops sp_init).
Proof. intros H. apply build_R; auto using R_init. Qed.

(* ---- what is left of the writes on read paths ---- *)
(* with the _graph of before the "fix:" commit for F19, a membership test handed
   a Graph of another store copied it in; with the repaired one it does not *)
Lemma hist_foreign_read_refuted :
  exists d c ts,
    quads (st (fst (cg_graph_hist d (Some (GForeign c ts))))) <> quads (st d)
    /\ quads (st (fst (do_read d (RdContains (pat_of (12, 4, 12)) (CQuad (Some (GForeign c ts))) false)))) = quads (st d).
Proof. exists (ds_init true), 1, [(12, 4, 12)]. split; [vm_compute; discriminate|reflexivity]. Qed.

(* at the level of the store's own registry, Dataset.graphs() is a write: the
   first call registers the default graph (invisible through graphs() itself) *)
Lemma graphs_registers_default_refuted :
  exists d, known (st (fst (do_read d RdGraphs))) <> known (st d).
Proof. exists (ds_init true). vm_compute. discriminate. Qed.

(* reading of the checker *)
Lemma psnap_same_reading a b :
  psnap_same a b = true <->
  (forall q, In q (fst a) <-> In q (fst b)) /\ (forall g, g = 0 \/ In g (snd a) <-> g = 0 \/ In g (snd b)).
Proof.
  unfold psnap_same. rewrite andb_true_iff, qseteqb_spec, (seteqb_spec _ N.eqb_spec). unfold qseteq, seteq.
  split; intros [H1 H2]; split; auto; intros g; specialize (H2 g); now rewrite !N_sadd_In in *.
Qed.

Lemma pure_run_reading prev e l :
  pure_run prev (e :: l) = true <->
  psnap_same prev (e_snap e) = true /\ e_same e = true
  /\ (forall c, In c (e_calls e) -> In c (read_meths ++ benign_meths)) /\ pure_run (e_snap e) l = true.
Proof.
  cbn [pure_run]. rewrite !andb_true_iff, forallb_forall. unfold call_ok.
  split; [intros [[[H1 H2] H3] H4]|intros (H1 & H2 & H3 & H4)]; repeat split; auto;
    intros c Hc; apply (memb_In _ N.eqb_spec); auto.
Qed.
