(* C13 - reads are pure and repeatable.  Reads of the Dataset model
   (Dataset/Model.v) are functions [ds -> ds * out] because the Python has
   had writes on several read paths: ConjunctiveGraph._graph copied a Graph
   object of another store into this one (reached from triples(context=), quads,
   __contains__; repaired by the "fix:" commit for F19: _graph(c, copy=False) on
   read paths), and a full pass of Dataset.contexts()/graphs() re-creates the
   default graph (still so; it is reached from _graph for any Graph object).  The
   bodies of the serialisers, of the SPARQL engine, of rdflib.compare and of
   slicing/iteration are OPAQUE here: they build their answer from iteration
   only, so in the model they do not touch the state by construction; for them
   only the snapshot runs of harness/c13.py speak.  No proofs in this file. *)
From RV Require Export Dataset.Model.
Local Open Scope N_scope.

Inductive read :=
| RdOpaque (id : N)                       (* serialize / query / compare / slice / iterate ...: number in the harness catalogue *)
| RdTriples (p : pat) (ca : ctxarg) (kw : option garg) (du : bool)
| RdQuads (p : pat) (ca : ctxarg)
| RdContains (p : pat) (ca : ctxarg) (du : bool)
| RdGraphs.                               (* Dataset.graphs() / contexts() *)

Inductive pout := PUnit | PRes (r : res) | PNames (l : list cid).

Definition do_read (d : ds) (r : read) : ds * pout :=
  match r with
  | RdOpaque _ => (d, PUnit)
  | RdTriples p ca kw du => let (d1, l) := cg_triples d p ca kw du in (d1, PRes (RTriples l))
  | RdQuads p ca => let (d1, l) := cg_quads d p ca in (d1, PRes (RQuads l))
  | RdContains p ca du => let (d1, b) := cg_contains d p ca du in (d1, PRes (RBool b))
  | RdGraphs => let (d1, l) := ds_graphs d in (d1, PNames l)
  end.

Definition pout_eqb (a b : pout) : bool :=
  match a, b with
  | PUnit, PUnit => true
  | PRes x, PRes y => res_eqb x y
  | PNames x, PNames y => cseteqb (sadd N.eqb 0 x) (sadd N.eqb 0 y)   (* the default graph counts as always listed *)
  | _, _ => false
  end.

(* what is looked at: the quads (a triple the store holds under no graph is
   reported under the pseudo-name 996) and the graph names the store lists *)
Definition psnap := (list quad * list cid)%type.
Definition NO_GRAPH : cid := 996.
Definition snap_of (d : ds) : psnap :=
  (quads (st d) ++ map (fun t => (t, NO_GRAPH)) (orphans (st d)), known (st d)).

(* two snapshots show the same dataset: same quads, same graph names, the
   default graph (0) counting as always present (Dataset.graphs() lists it
   whether or not the store has registered it yet) *)
Definition psnap_same (a b : psnap) : bool :=
  qseteqb (fst a) (fst b) && cseteqb (sadd N.eqb 0 (snd a)) (sadd N.eqb 0 (snd b)).

Record pcase := { p_ds : bool; p_build : list op; p_reads : list read }.

Definition pobs := (psnap * list (psnap * bool))%type.

Definition build (d : ds) (ops : list op) : ds := fold_left (fun d o => fst (do_op d o)) ops d.

(* every read is issued twice: the snapshot after the first call, and whether
   the second call answered the same and left the dataset as it was *)
Fixpoint read_run (d : ds) (rs : list read) : list (psnap * bool) :=
  match rs with
  | [] => []
  | r :: rest =>
      let (d1, o1) := do_read d r in
      let (d2, o2) := do_read d1 r in
      (snap_of d1, pout_eqb o1 o2 && psnap_same (snap_of d1) (snap_of d2)) :: read_run d2 rest
  end.

Definition model_obs (c : pcase) : pobs :=
  let d := build (ds_init (p_ds c)) (p_build c) in (snap_of d, read_run d (p_reads c)).

Definition obs_eqb (a b : pobs) : bool :=
  psnap_same (fst a) (fst b)
  && list_eqb (fun x y => psnap_same (fst x) (fst y) && Bool.eqb (snd x) (snd y)) (snd a) (snd b).

(* Specification: the state the reads start from is the one the C02 mapping
   prescribes for the building history; every read leaves the dataset as it
   was just before it; every read answers the same twice. *)
Fixpoint pure_run (prev : psnap) (l : list (psnap * bool)) : bool :=
  match l with
  | [] => true
  | (s, f) :: r => psnap_same prev s && f && pure_run s r
  end.

Definition spec_ok (c : pcase) (o : pobs) : bool :=
  let sp := fold_left sp_step (p_build c) sp_init in
  qenum (fst (fst o)) (sq sp) && cseteqb (sadd N.eqb 0 (snd (fst o))) (sk sp)
  && Nat.eqb (length (snd o)) (length (p_reads c))
  && pure_run (fst o) (snd o).

(* well-formed: the building history consists of writes *)
Definition pwf (c : pcase) : Prop :=
  forallb (fun o => negb (is_read o)) (p_build c) = true.
