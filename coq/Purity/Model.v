(* C13 - reads are pure and repeatable.  Reads of the Dataset model
   (Dataset/Model.v) are functions [ds -> ds * out] because the Python has
   had writes on several read paths: ConjunctiveGraph._graph copied a Graph
   object of another store into this one (reached from triples(context=), quads,
   __contains__; repaired by the "fix:" commit for F19: _graph(c, copy=False) on
   read paths), and a full pass of Dataset.contexts()/graphs() re-creates the
   default graph (still so; it is reached from _graph for any Graph object).  The
   bodies of the serialisers, of the SPARQL engine, of rdflib.compare and of
   slicing/iteration are OPAQUE here: they build their answer from iteration
   only, so in the model they do not touch the state by construction; for them
   only the snapshot runs of harness/c13.py speak.  No proofs in this file. *)
From RV Require Export Dataset.Model.
Local Open Scope N_scope.

Inductive read :=
| RdOpaque (id : N)                       (* serialize / query / compare / slice / iterate ...: number in the harness catalogue *)
| RdTriples (p : pat) (ca : ctxarg) (kw : option garg) (du : bool)
| RdQuads (p : pat) (ca : ctxarg)
| RdContains (p : pat) (ca : ctxarg) (du : bool)
| RdGraphs.                               (* Dataset.graphs() / contexts() *)

Inductive pout := PUnit | PRes (r : res) | PNames (l : list cid).

Definition do_read (d : ds) (r : read) : ds * pout :=
  match r with
  | RdOpaque _ => (d, PUnit)
  | RdTriples p ca kw du => let (d1, l) := cg_triples d p ca kw du in (d1, PRes (RTriples l))
  | RdQuads p ca => let (d1, l) := cg_quads d p ca in (d1, PRes (RQuads l))
  | RdContains p ca du => let (d1, b) := cg_contains d p ca du in (d1, PRes (RBool b))
  | RdGraphs => let (d1, l) := ds_graphs d in (d1, PNames l)
  end.

Definition pout_eqb (a b : pout) : bool :=
  match a, b with
  | PUnit, PUnit => true
  | PRes x, PRes y => res_eqb x y
  | PNames x, PNames y => cseteqb x y
  | _, _ => false
  end.

(* what is looked at: the quads (a triple the store holds under no graph is
   reported under the pseudo-name 996) and the graph names the store lists *)
Definition psnap := (list quad * list cid)%type.
Definition NO_GRAPH : cid := 996.
Definition snap_of (d : ds) : psnap :=
  (quads (st d) ++ map (fun t => (t, NO_GRAPH)) (orphans (st d)), known (st d)).

(* two snapshots show the same dataset: the same quads and EXACTLY the same
   graph names in the store's own list (nothing is absorbed: a read that
   registers a graph, the default graph included, is a difference) *)
Definition psnap_same (a b : psnap) : bool :=
  qseteqb (fst a) (fst b) && cseteqb (snd a) (snd b).

Record pcase := { p_ds : bool; p_build : list op; p_reads : list read }.

(* ---- the store methods a read may call (recorded by the harness's proxy store) ---- *)
(* codes of the methods of rdflib.store.Store, as the recording proxy numbers them *)
Definition M_TRIPLES : N := 1.
Definition M_TRIPLES_CHOICES : N := 2.
Definition M_CONTEXTS : N := 3.
Definition M_LEN : N := 4.
Definition M_NAMESPACES : N := 5.
Definition M_NAMESPACE : N := 6.
Definition M_PREFIX : N := 7.
Definition M_QUERY : N := 8.            (* Store.query: Memory refuses (NotImplementedError), the engine takes over *)
Definition M_BIND : N := 20.            (* prefix table only: not part of the property's state *)
(* everything else is a write: 21 add_graph(<the default graph>) (what Dataset.graphs() did before 6844ed54), 30 add, 31 addN, 32 remove, 33 add_graph(other), 34 remove_graph,
   35 commit, 36 rollback, 37 open, 38 close, 39 destroy, 40 update, 41 gc, 42 create, 43 attribute assignment,
   44 anything unknown *)

Definition read_meths : list N :=
  [M_TRIPLES; M_TRIPLES_CHOICES; M_CONTEXTS; M_LEN; M_NAMESPACES; M_NAMESPACE; M_PREFIX; M_QUERY].
Definition benign_meths : list N := [M_BIND].
Definition call_ok (c : N) : bool := memb N.eqb c (read_meths ++ benign_meths).

(* per read: the snapshot after the first call, whether the second call
   answered the same and changed nothing, and the (distinct) store methods
   that were called during both calls *)
Record rentry := { e_snap : psnap; e_same : bool; e_calls : list N }.

Definition pobs := (psnap * list rentry)%type.

Definition build (d : ds) (ops : list op) : ds := fold_left (fun d o => fst (do_op d o)) ops d.

(* every read is issued twice.  The model does not say which store methods an
   opaque read calls: its entry carries none, and [obs_eqb] does not compare
   them; the specification checker judges the recorded ones. *)
Fixpoint read_run (d : ds) (rs : list read) : list rentry :=
  match rs with
  | [] => []
  | r :: rest =>
      let (d1, o1) := do_read d r in
      let (d2, o2) := do_read d1 r in
      {| e_snap := snap_of d1; e_same := pout_eqb o1 o2 && psnap_same (snap_of d1) (snap_of d2); e_calls := [] |}
      :: read_run d2 rest
  end.

Definition model_obs (c : pcase) : pobs :=
  let d := build (ds_init (p_ds c)) (p_build c) in (snap_of d, read_run d (p_reads c)).

Definition obs_eqb (a b : pobs) : bool :=
  psnap_same (fst a) (fst b)
  && list_eqb (fun x y => psnap_same (e_snap x) (e_snap y) && Bool.eqb (e_same x) (e_same y)) (snd a) (snd b).

(* Specification: the state the reads start from is the one the C02 mapping
   prescribes for the building history; every read leaves the dataset as it
   was just before it; every read answers the same twice; every read talks to
   the store through read methods only (or bind: the prefix table is not part
   of the property's state). *)
Fixpoint pure_run (prev : psnap) (l : list rentry) : bool :=
  match l with
  | [] => true
  | e :: r => psnap_same prev (e_snap e) && e_same e && forallb call_ok (e_calls e) && pure_run (e_snap e) r
  end.

Definition spec_ok (c : pcase) (o : pobs) : bool :=
  let sp := fold_left sp_step (p_build c) sp_init in
  qenum (fst (fst o)) (sq sp) && cseteqb (sadd N.eqb 0 (snd (fst o))) (sk sp)
  && Nat.eqb (length (snd o)) (length (p_reads c))
  && pure_run (fst o) (snd o).

(* well-formed: the building history consists of writes *)
Definition pwf (c : pcase) : Prop :=
  forallb (fun o => negb (is_read o)) (p_build c) = true.

(* ------------------------------------------------------------------ *)
(* Read programs: the store's READ interface as a small language.  As far as
   the store is concerned a serialiser, a query evaluation, a comparison, an
   iteration is a program of this shape: it asks the store something, computes
   (arbitrarily: the continuations are Gallina functions) and asks again.
   The theorems about this language (Purity/Programs.v) are facts about the
   INTERFACE - none of its operations has a write in its semantics except
   [PBind] on the prefix table, so they hold by construction of the language.
   They say something about a concrete serialiser or query only through the
   per-run recording of the store methods it calls (harness/c13.py); no
   theorem states that a given rdflib function IS such a program.
   (Before 6844ed54 the language needed a [PTouchDefault] operation for
   Dataset.graphs() registering the default graph; no read issues it any more.) *)
Record rstate := { r_ds : ds; r_ns : list (N * N) }.   (* dataset model + the store's prefix table *)

(* Memory.contexts(triple): every known graph, or the graphs holding the triple *)
Definition st_contexts (s : store) (ot : option triple) : list cid :=
  match ot with None => known s | Some t => ctxs_of t (quads s) end.

Inductive prog (A : Type) : Type :=
| PRet (a : A)
| PTriples (p : pat) (oc : option cid) (k : list (triple * list cid) -> prog A)  (* triples / triples_choices *)
| PContexts (ot : option triple) (k : list cid -> prog A)                        (* contexts *)
| PLen (oc : option cid) (k : N -> prog A)                                       (* __len__ *)
| PNamespaces (k : list (N * N) -> prog A)                                       (* namespaces / namespace / prefix *)
| PBind (pfx ns : N) (k : prog A).                                               (* bind *)
Arguments PRet {A} a.
Arguments PTriples {A} p oc k.
Arguments PContexts {A} ot k.
Arguments PLen {A} oc k.
Arguments PNamespaces {A} k.
Arguments PBind {A} pfx ns k.

Definition bind_ns (pfx ns : N) (t : list (N * N)) : list (N * N) :=
  (pfx, ns) :: filter (fun x => negb (N.eqb (fst x) pfx)) t.

Fixpoint run {A} (pr : prog A) (s : rstate) : rstate * A :=
  match pr with
  | PRet a => (s, a)
  | PTriples p oc k => run (k (st_triples (st (r_ds s)) p oc)) s
  | PContexts ot k => run (k (st_contexts (st (r_ds s)) ot)) s
  | PLen oc k => run (k (st_len (st (r_ds s)) oc)) s
  | PNamespaces k => run (k (r_ns s)) s
  | PBind a b k => run k {| r_ds := r_ds s; r_ns := bind_ns a b (r_ns s) |}
  end.

(* programs that bind no prefix *)
Inductive bind_free {A} : prog A -> Prop :=
| bf_ret a : bind_free (PRet a)
| bf_triples p oc k : (forall x, bind_free (k x)) -> bind_free (PTriples p oc k)
| bf_contexts ot k : (forall x, bind_free (k x)) -> bind_free (PContexts ot k)
| bf_len oc k : (forall x, bind_free (k x)) -> bind_free (PLen oc k)
| bf_ns k : (forall x, bind_free (k x)) -> bind_free (PNamespaces k).

(* which operation of the language a recorded store method is *)
Inductive okind := KTriples | KContexts | KLen | KNamespaces | KBind | KRefused.
Definition meth_kind (c : N) : option okind :=
  if N.eqb c M_TRIPLES || N.eqb c M_TRIPLES_CHOICES then Some KTriples
  else if N.eqb c M_CONTEXTS then Some KContexts
  else if N.eqb c M_LEN then Some KLen
  else if N.eqb c M_NAMESPACES || N.eqb c M_NAMESPACE || N.eqb c M_PREFIX then Some KNamespaces
  else if N.eqb c M_QUERY then Some KRefused
  else if N.eqb c M_BIND then Some KBind
  else None.

(* three reads of the front end, written as programs *)
Definition prog_quads (p : pat) : prog (list quad) :=
  PTriples p None (fun l => PRet (flat_map (fun x => map (fun g => (fst x, g)) (snd x)) l)).
Definition prog_graphs (dataset : bool) : prog (list cid) :=
  PContexts None (fun k => PRet (if dataset then (if memb N.eqb 0 k then k else k ++ [0]) else k)).
Definition prog_len : prog N := PLen None (fun n => PRet n).
