(* The specification checker of Auditable/Model.v does not depend on HOW an observed store
   content is listed: two observation sequences whose members are duplicate-free and hold the
   same quads get the same verdict.  (The checker stores the last observation and folds
   lists of changed quads into its tables, so this needs an argument.) *)
From RV Require Import Auditable.Model Auditable.Proofs.

Definition tab_eq (p p' : pre_t) : Prop := forall q, pre_get p q = pre_get p' q.

Definition geq (g g' : sst) : Prop :=
  qseteq (prev g) (prev g') /\ tab_eq (pre0 g) (pre0 g') /\ tab_eq (pre1 g) (pre1 g').

Lemma geq_get_pre g g' w : geq g g' -> tab_eq (get_pre g w) (get_pre g' w).
Proof. intros (_ & H0 & H1). destruct w; auto. Qed.

Lemma forallb_seteq {A} (f f' : A -> bool) l l' :
  (forall x, In x l <-> In x l') -> (forall x, f x = f' x) -> forallb f l = forallb f' l'.
Proof.
  intros Hl Hf. apply eq_true_iff_eq. rewrite !forallb_forall. split; intros H x Hx.
  - rewrite <- Hf. apply H. now apply Hl.
  - rewrite Hf. apply H. now apply Hl.
Qed.

Lemma pre_get_keys p q : pre_get p q <> None <-> In q (map fst p).
Proof.
  induction p as [|[q' b] r IH]; simpl; [tauto|].
  destruct (quad_eqb_spec q q') as [->|Hne].
  - split; [intros _; now left|discriminate].
  - rewrite IH. split; [auto|intros [H|H]; [congruence|auto]].
Qed.

Lemma tab_eq_keys p p' : tab_eq p p' -> forall q, In q (map fst p) <-> In q (map fst p').
Proof. intros H q. rewrite <- !pre_get_keys, H. tauto. Qed.

Lemma pre_get_fold b hits p q :
  pre_get (fold_left (pre_note b) hits p) q =
  match pre_get p q with Some v => Some v | None => if q_mem q hits then Some b else None end.
Proof.
  destruct (pre_get p q) as [v|] eqn:E.
  - now apply pre_get_fold_some.
  - destruct (q_mem q hits) eqn:Em.
    + apply pre_get_fold_hit; auto. now apply q_mem_In.
    + apply pre_get_fold_none; auto. rewrite <- q_mem_In. congruence.
Qed.

Lemma tab_eq_fold b hits hits' p p' :
  (forall q, In q hits <-> In q hits') -> tab_eq p p' ->
  tab_eq (fold_left (pre_note b) hits p) (fold_left (pre_note b) hits' p').
Proof.
  intros Hh Hp q. rewrite !pre_get_fold, Hp. destruct (pre_get p' q); auto.
  replace (q_mem q hits') with (q_mem q hits); auto.
  apply eq_true_iff_eq. rewrite !q_mem_In. apply Hh.
Qed.

Lemma changed_by_eq S S' o : qseteq S S' ->
  snd (changed_by S o) = snd (changed_by S' o) /\
  forall q, In q (fst (changed_by S o)) <-> In q (fst (changed_by S' o)).
Proof.
  intros H. destruct o as [w t c|w p c|w|w]; simpl; split; auto; try tauto.
  - intros q. rewrite (q_mem_seteq _ _ (t, c) H). tauto.
  - intros q. rewrite !filter_In, (H q). tauto.
Qed.

Lemma untouched_eq qs qs' p p' :
  (forall q, In q qs <-> In q qs') -> tab_eq p p' -> untouched qs p = untouched qs' p'.
Proof.
  intros Hq Hp. unfold untouched. apply forallb_seteq; auto. intros x. now rewrite Hp.
Qed.

Lemma qseteqb_ext a a' b b' : qseteq a a' -> qseteq b b' -> qseteqb a b = qseteqb a' b'.
Proof.
  intros Ha Hb. apply eq_true_iff_eq. rewrite !qseteqb_spec. unfold qseteq, seteq in *.
  split; intros H x; [rewrite <- Ha, <- Hb|rewrite Ha, Hb]; apply H.
Qed.

Lemma nodupb_true l : NoDup l -> nodupb quad_eqb l = true.
Proof. apply (@nodupb_spec quad quad_eqb quad_eqb_spec). Qed.

Definition verdict_eq (v v' : verdict) : Prop :=
  match v, v' with
  | Bad, Bad => True
  | OutOfScope, OutOfScope => True
  | Good h, Good h' => geq h h'
  | _, _ => False
  end.

Lemma spec_step_ext g g' o now now' :
  geq g g' -> qseteq now now' -> NoDup now -> NoDup now' ->
  verdict_eq (spec_step g o now) (spec_step g' o now').
Proof.
  intros Hg Hn Hd Hd'. pose proof Hg as (Hp & H0 & H1).
  unfold spec_step. rewrite (nodupb_true _ Hd), (nodupb_true _ Hd'). cbn [negb].
  destruct (changed_by_eq _ _ o Hp) as [Hm Hh].
  rewrite (untouched_eq _ _ _ _ Hh (geq_get_pre _ _ (negb (op_wrapper o)) Hg)).
  destruct (untouched _ _); cbn [negb]; [|exact I].
  destruct o as [w t c|w p c|w|w]; cbn [op_wrapper].
  - rewrite (qseteqb_ext now now' (q_add (t, c) (prev g)) (q_add (t, c) (prev g'))); auto.
    2:{ intros x. rewrite !q_add_In, (Hp x). tauto. }
    destruct (qseteqb now' _); [|exact I]. cbn [verdict_eq].
    unfold note_changes. rewrite Hm. destruct w; (split; [exact Hn|split]); cbn [pre0 pre1]; auto;
      now apply tab_eq_fold.
  - rewrite (qseteqb_ext now now' (q_remove p c (prev g)) (q_remove p c (prev g'))); auto.
    2:{ intros x. rewrite !q_remove_In, (Hp x). tauto. }
    destruct (qseteqb now' _); [|exact I]. cbn [verdict_eq].
    unfold note_changes. rewrite Hm. destruct w; (split; [exact Hn|split]); cbn [pre0 pre1]; auto;
      now apply tab_eq_fold.
  - rewrite (qseteqb_ext now now' (prev g) (prev g')); auto.
    destruct (qseteqb now' _); [|exact I]. cbn [verdict_eq].
    unfold new_txn. destruct w; (split; [exact Hn|split]); cbn [pre0 pre1]; auto; intros q; reflexivity.
  - assert (Hr : rollback_ok g w now = rollback_ok g' w now').
    { unfold rollback_ok. apply forallb_seteq.
      - intros x. rewrite !in_app_iff, (Hn x), (Hp x), (tab_eq_keys _ _ (geq_get_pre _ _ w Hg) x). tauto.
      - intros x. unfold expect_after_rollback.
        rewrite (q_mem_seteq _ _ x Hn), (geq_get_pre _ _ w Hg x), (q_mem_seteq _ _ x Hp). reflexivity. }
    rewrite Hr. destruct (rollback_ok g' w now'); [|exact I]. cbn [verdict_eq].
    unfold new_txn. destruct w; (split; [exact Hn|split]); cbn [pre0 pre1]; auto; intros q; reflexivity.
Qed.

Definition obs_rel (a b : qset) : Prop := qseteq a b /\ NoDup a /\ NoDup b.

Lemma spec_run_ext : forall ops g g' obs obs',
  geq g g' -> Forall2 obs_rel obs obs' -> spec_run g ops obs = spec_run g' ops obs'.
Proof.
  induction ops as [|o r IH]; intros g g' obs obs' Hg HF.
  - inversion HF; subst; reflexivity.
  - inversion HF as [|now now' ob ob' (Hn & Hd & Hd') HF']; subst; [reflexivity|].
    cbn [spec_run]. pose proof (spec_step_ext g g' o now now' Hg Hn Hd Hd') as H.
    destruct (spec_step g o now), (spec_step g' o now'); simpl in H; try contradiction; auto.
Qed.

Lemma single_run_ext : forall ops snap snap' prev prev' obs obs',
  qseteq snap snap' -> qseteq prev prev' -> Forall2 obs_rel obs obs' ->
  single_run snap prev ops obs = single_run snap' prev' ops obs'.
Proof.
  induction ops as [|o r IH]; intros snap snap' prev prev' obs obs' Hs Hp HF.
  - inversion HF; subst; reflexivity.
  - inversion HF as [|now now' ob ob' (Hn & _ & _) HF']; subst; [reflexivity|].
    destruct o as [w t c|w p c|w|w]; cbn [single_run].
    + rewrite (qseteqb_ext now now' (q_add (t, c) prev) (q_add (t, c) prev')); auto.
      2:{ intros x. rewrite !q_add_In, (Hp x). tauto. }
      f_equal. now apply IH.
    + rewrite (qseteqb_ext now now' (q_remove p c prev) (q_remove p c prev')); auto.
      2:{ intros x. rewrite !q_remove_In, (Hp x). tauto. }
      f_equal. now apply IH.
    + rewrite (qseteqb_ext now now' prev prev'); auto. f_equal. now apply IH.
    + rewrite (qseteqb_ext now now' snap snap'); auto. f_equal. now apply IH.
Qed.

Lemma geq_refl g : geq g g.
Proof. split; [intros x; tauto|split; intros q; reflexivity]. Qed.

(* the verdict on a case depends only on WHICH quads each observation holds *)
Theorem spec_ok_ext c obs obs' : Forall2 obs_rel obs obs' -> spec_ok c obs = spec_ok c obs'.
Proof.
  intros HF. unfold spec_ok.
  rewrite (spec_run_ext _ _ _ _ _ (geq_refl (s_init (c_init c))) HF).
  destruct (only_wrapper0 (c_ops c)); auto.
  rewrite (single_run_ext _ (c_init c) (c_init c) (c_init c) (c_init c) obs obs'); auto; intros x; tauto.
Qed.
