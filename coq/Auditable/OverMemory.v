(* AuditableStore over the Memory store model of C01 (coq/Store/Model.v): the
   instance of Auditable/OverStore.v that the correspondence suite
   `auditable_memory` evaluates, definitions only; the theorems that tie it to
   Auditable/Model.v are in Auditable/OverMemoryProofs.v. *)
From RV Require Export Auditable.OverStore.
From RV Require Store.Model.

(* Store/Model.v has its own [case], [spec_ok], ...: its names are used qualified *)
Notation mem := Store.Model.mem.
Notation mem_empty := Store.Model.mem_empty.
Notation mem_add := Store.Model.mem_add.
Notation mem_remove := Store.Model.mem_remove.
Notation mem_triples := Store.Model.mem_triples.
Notation mem_holds := Store.Model.mem_holds.

(* a Memory state holding a given list of quads *)
Definition mem_of (S : qset) : mem := fold_left (fun m q => mem_add m (snd q) (fst q)) S mem_empty.

Record mcase := { m_init : qset; m_ops : list cop }.

Definition m_univ (c : mcase) : list quad := dedup quad_eqb (m_init c ++ add_quads (m_ops c)).

Definition mem_xrun (c : mcase) : list mem :=
  x_run mem mem_add mem_remove mem_triples (x_init (mem_of (m_init c))) (m_ops c).

(* the wrapped Memory store after every operation, read off through mem_holds *)
Definition mm_obs (c : mcase) : list qset := map (absl mem mem_holds (m_univ c)) (mem_xrun c).

Definition m_case (c : mcase) : case := {| c_init := m_init c; c_ops := map to_aop (m_ops c) |}.
Definition mspec_ok (c : mcase) (obs : list qset) : bool := spec_ok (m_case c) obs.


Definition mscope_kf (c : mcase) : N := scope_kf (m_case c).
