(* Bulk operations (Graph.addN / ConjunctiveGraph.addN through the wrapper):
   Store.addN is a loop of add() calls, so a batch is a run of AAdd operations
   of which only the final store content can be observed.  The checker rebuilds
   the unobservable intermediate contents from the specification (running
   q_add from the last observed content) and hands the flattened history to the
   checker of Model.v.  Definitions only. *)
From RV Require Export Auditable.Model.

Inductive bop :=
| BOne (o : aop)
| BAddN (w : bool) (qs : list quad).

Definition flat_op (b : bop) : list aop :=
  match b with
  | BOne o => [o]
  | BAddN w qs => map (fun q => AAdd w (fst q) (snd q)) qs
  end.

Definition flat (bs : list bop) : list aop := flat_map flat_op bs.

(* the contents after each add of a batch, by the specification *)
Fixpoint scan (prev : qset) (qs : list quad) : list qset :=
  match qs with
  | [] => []
  | q :: r => let s := q_add q prev in s :: scan s r
  end.

Fixpoint b_run (s : ast) (bs : list bop) : list qset :=
  match bs with
  | [] => []
  | b :: r => let s' := fold_left a_step (flat_op b) s in store s' :: b_run s' r
  end.

Fixpoint fill (prev : qset) (bs : list bop) (obs : list qset) : option (list qset) :=
  match bs, obs with
  | [], [] => Some []
  | BOne _ :: r, now :: obs' =>
      match fill now r obs' with Some rest => Some (now :: rest) | None => None end
  | BAddN _ qs :: r, now :: obs' =>
      match qs with
      | [] => if qseteqb now prev then fill now r obs' else None
      | _ => match fill now r obs' with
             | Some rest => Some (removelast (scan prev qs) ++ now :: rest)
             | None => None
             end
      end
  | _, _ => None
  end.

Record bcase := { b_init : qset; b_ops : list bop }.

Definition bmodel_obs (c : bcase) : list qset := b_run (a_init (b_init c)) (b_ops c).

Definition bspec_ok (c : bcase) (obs : list qset) : bool :=
  match fill (b_init c) (b_ops c) obs with
  | Some obs' => spec_ok {| c_init := b_init c; c_ops := flat (b_ops c) |} obs'
  | None => false
  end.

(* scope statistic of the flattened history (see Model.v scope_kf) *)
Definition bscope_kf (c : bcase) : N := scope_kf {| c_init := b_init c; c_ops := flat (b_ops c) |}.
