From RV Require Import Auditable.Model Auditable.Proofs Auditable.Batch.

Lemma a_run_app s l1 l2 :
  a_run s (l1 ++ l2) = a_run s l1 ++ a_run (fold_left a_step l1 s) l2.
Proof.
  revert s. induction l1 as [|o r IH]; intros s; simpl; auto. now rewrite IH.
Qed.

(* the model's contents during a batch are the specification's scan *)
Lemma a_run_adds w qs : forall s,
  a_run s (map (fun q => AAdd w (fst q) (snd q)) qs) = scan (store s) qs.
Proof.
  induction qs as [|[t c] r IH]; intros s; simpl; auto.
  rewrite store_a_add. f_equal. rewrite IH. now rewrite store_a_add.
Qed.

Lemma store_fold_adds w qs : forall s,
  qs <> [] ->
  store (fold_left a_step (map (fun q => AAdd w (fst q) (snd q)) qs) s) = last (scan (store s) qs) [].
Proof.
  induction qs as [|[t c] r IH]; intros s Hne; [congruence|].
  simpl. destruct r as [|q2 r'].
  - simpl. now rewrite store_a_add.
  - rewrite IH by discriminate. rewrite store_a_add. simpl. reflexivity.
Qed.

Lemma removelast_last {A} (l : list A) d : l <> [] -> removelast l ++ [last l d] = l.
Proof. intros H. symmetry. now apply app_removelast_last. Qed.

Lemma scan_nonempty prev qs : qs <> [] -> scan prev qs <> [].
Proof. destruct qs; simpl; congruence. Qed.

Lemma fill_model bs : forall s,
  fill (store s) bs (b_run s bs) = Some (a_run s (flat bs)).
Proof.
  induction bs as [|b r IH]; intros s; simpl; auto.
  destruct b as [o|w qs].
  - simpl. rewrite IH. reflexivity.
  - cbn [flat_op]. rewrite a_run_app, a_run_adds.
    destruct qs as [|q qs'] eqn:Eq.
    + simpl. rewrite qseteqb_refl. apply IH.
    + rewrite <- Eq in *. assert (Hne : qs <> []) by (subst; discriminate).
      rewrite IH. rewrite (store_fold_adds w qs s Hne).
      set (L := scan (store s) qs).
      set (X := a_run _ (flat r)).
      assert (HL : removelast L ++ [last L []] = L)
        by (apply removelast_last, scan_nonempty, Hne).
      replace (L ++ X) with ((removelast L ++ [last L []]) ++ X) by (now rewrite HL).
      rewrite <- app_assoc. simpl.
      destruct qs; [congruence|reflexivity].
Qed.

Theorem bspec_ok_model c : NoDup (b_init c) -> bspec_ok c (bmodel_obs c) = true.
Proof.
  intros Hn. unfold bspec_ok, bmodel_obs.
  change (b_init c) with (store (a_init (b_init c))) at 1.
  rewrite fill_model.
  apply (spec_ok_model {| c_init := b_init c; c_ops := flat (b_ops c) |}). exact Hn.
Qed.
