(* Model of rdflib/plugins/stores/auditable.py (AuditableStore) over the
   specification-level quad store, for two wrappers sharing one store.
   Mirrors add / remove (three branches) / commit / rollback statement by
   statement; [reverseOps] is a Python list, [list.remove(x)] removes the first
   occurrence.  No proofs in this file. *)
From RV Require Export Base.Quads.

(* a reverseOps entry: the quad and the *reverse* operation recorded for it;
   true = "add" (re-add on rollback), false = "remove" (delete on rollback) *)
Definition entry := (quad * bool)%type.
Definition entry_eqb (a b : entry) : bool := pair_eqb quad_eqb Bool.eqb a b.

Fixpoint remove_first (e : entry) (l : list entry) : option (list entry) :=
  match l with
  | [] => None
  | x :: r => if entry_eqb e x then Some r
              else match remove_first e r with Some r' => Some (x :: r') | None => None end
  end.

(* try: log.remove(e_cancel) except ValueError: log.append(e_append) *)
Definition cancel_or_append (e_cancel e_append : entry) (l : list entry) : list entry :=
  match remove_first e_cancel l with Some l' => l' | None => l ++ [e_append] end.

Inductive aop :=
| AAdd (w : bool) (t : triple) (c : cid)
| ARemove (w : bool) (p : pat) (c : option cid)
| ACommit (w : bool)
| ARollback (w : bool).

Record ast := { store : qset; log0 : list entry; log1 : list entry }.

Definition get_log (s : ast) (w : bool) := if w then log1 s else log0 s.
Definition set_log (s : ast) (w : bool) (l : list entry) : ast :=
  if w then {| store := store s; log0 := log0 s; log1 := l |}
  else {| store := store s; log0 := l; log1 := log1 s |}.
Definition set_store (s : ast) (q : qset) : ast :=
  {| store := q; log0 := log0 s; log1 := log1 s |}.

Definition is_bound (p : pat) : option triple :=
  match p with (Some a, Some b, Some c) => Some (a, b, c) | _ => None end.

(* AuditableStore.add, as repaired by the "fix:" commit for finding F2:
   cancel a pending "add" entry first, append a "remove" entry only if there
   was nothing to cancel. *)
Definition a_add (s : ast) (w : bool) (t : triple) (c : cid) : ast :=
  let q := (t, c) in
  if q_mem q (store s) then s
  else
    let l := cancel_or_append (q, true) (q, false) (get_log s w) in
    set_store (set_log s w l) (q_add q (store s)).

(* the pre-fix behaviour (append first, then try to cancel), kept so that the
   refutation of the log invariant on the historical code stays checkable *)
Definition a_add_prefix (s : ast) (w : bool) (t : triple) (c : cid) : ast :=
  let q := (t, c) in
  if q_mem q (store s) then s
  else
    let l0 := get_log s w ++ [(q, false)] in
    let l := match remove_first (q, true) l0 with Some l' => l' | None => l0 end in
    set_store (set_log s w l) (q_add q (store s)).

Definition log_removed (l : list entry) (qs : list quad) : list entry :=
  fold_left (fun acc q => cancel_or_append (q, false) (q, true) acc) qs l.

Definition a_remove (s : ast) (w : bool) (p : pat) (c : option cid) : ast :=
  match is_bound p, c with
  | Some t, Some c' =>
      (* fully bound, context given *)
      if q_mem (t, c') (store s) then
        let l := cancel_or_append ((t, c'), false) ((t, c'), true) (get_log s w) in
        set_store (set_log s w l) (q_remove p c (store s))
      else s
  | _, _ =>
      (* some wildcard: every matching quad (of the context, or of all contexts) *)
      let hit := filter (qsel p c) (store s) in
      set_store (set_log s w (log_removed (get_log s w) hit)) (q_remove p c (store s))
  end.

Definition replay (st : qset) (e : entry) : qset :=
  let '(q, isadd) := e in
  if isadd then q_add q st else q_remove (pat_of (fst q)) (Some (snd q)) st.

Definition a_rollback (s : ast) (w : bool) : ast :=
  set_log (set_store s (fold_left replay (get_log s w) (store s))) w [].

Definition a_commit (s : ast) (w : bool) : ast := set_log s w [].

Definition a_step (s : ast) (o : aop) : ast :=
  match o with
  | AAdd w t c => a_add s w t c
  | ARemove w p c => a_remove s w p c
  | ACommit w => a_commit s w
  | ARollback w => a_rollback s w
  end.

Definition a_init (i : qset) : ast := {| store := i; log0 := []; log1 := [] |}.

(* observations: the store content after every operation *)
Fixpoint a_run (s : ast) (ops : list aop) : list qset :=
  match ops with
  | [] => []
  | o :: r => let s' := a_step s o in store s' :: a_run s' r
  end.

(* ------------------------------------------------------------------ *)
(* Specification, as a checker over *observed* store contents.         *)

Definition pre_t := list (quad * bool).   (* quad, membership just before first touch *)

Fixpoint pre_get (p : pre_t) (q : quad) : option bool :=
  match p with
  | [] => None
  | (q', b) :: r => if quad_eqb q q' then Some b else pre_get r q
  end.

Definition pre_note (b : bool) (p : pre_t) (q : quad) : pre_t :=
  match pre_get p q with Some _ => p | None => p ++ [(q, b)] end.

Record sst := { prev : qset;                  (* last observed content *)
                pre0 : pre_t; pre1 : pre_t }.  (* per wrapper: quads it changed in its open
                                                  transaction, with their prior membership *)

Definition get_pre (s : sst) (w : bool) := if w then pre1 s else pre0 s.

(* the quads whose membership operation [o] changes in content [s], and the
   membership they had before *)
Definition changed_by (s : qset) (o : aop) : list quad * bool :=
  match o with
  | AAdd _ t c => (if q_mem (t, c) s then [] else [(t, c)], false)
  | ARemove _ p c => (filter (qsel p c) s, true)
  | _ => ([], false)
  end.

Definition op_wrapper (o : aop) : bool :=
  match o with AAdd w _ _ | ARemove w _ _ | ACommit w | ARollback w => w end.

Definition untouched (qs : list quad) (p : pre_t) : bool :=
  forallb (fun q => match pre_get p q with None => true | Some _ => false end) qs.

Inductive verdict := Bad | OutOfScope | Good (s : sst).

Definition new_txn (s : sst) (w : bool) (now : qset) : sst :=
  if w then {| prev := now; pre0 := pre0 s; pre1 := [] |}
  else {| prev := now; pre0 := []; pre1 := pre1 s |}.

Definition note_changes (s : sst) (w : bool) (now : qset) (ch : list quad * bool) : sst :=
  let f := fun p => fold_left (pre_note (snd ch)) (fst ch) p in
  if w then {| prev := now; pre0 := pre0 s; pre1 := f (pre1 s) |}
  else {| prev := now; pre0 := f (pre0 s); pre1 := pre1 s |}.

(* after rollback of w: a quad changed by w in this transaction is present iff
   it was present before w first changed it; any other quad is present iff it
   was present just before the rollback *)
Definition expect_after_rollback (s : sst) (w : bool) (q : quad) : bool :=
  match pre_get (get_pre s w) q with Some b => b | None => q_mem q (prev s) end.

Definition rollback_ok (s : sst) (w : bool) (now : qset) : bool :=
  forallb (fun q => Bool.eqb (q_mem q now) (expect_after_rollback s w q))
          (now ++ prev s ++ map fst (get_pre s w)).

Definition spec_step (s : sst) (o : aop) (now : qset) : verdict :=
  let w := op_wrapper o in
  if negb (nodupb quad_eqb now) then Bad else
  if negb (untouched (fst (changed_by (prev s) o)) (get_pre s (negb w))) then OutOfScope else
  match o with
  | AAdd _ t c =>
      if qseteqb now (q_add (t, c) (prev s))
      then Good (note_changes s w now (changed_by (prev s) o)) else Bad
  | ARemove _ p c =>
      if qseteqb now (q_remove p c (prev s))
      then Good (note_changes s w now (changed_by (prev s) o)) else Bad
  | ACommit _ =>
      if qseteqb now (prev s) then Good (new_txn s w now) else Bad
  | ARollback _ =>
      if rollback_ok s w now then Good (new_txn s w now) else Bad
  end.

Fixpoint spec_run (s : sst) (ops : list aop) (obs : list qset) : bool :=
  match ops, obs with
  | [], [] => true
  | o :: r, now :: obs' =>
      match spec_step s o now with
      | Bad => false
      | OutOfScope => true
      | Good s' => spec_run s' r obs'
      end
  | _, _ => false
  end.

Definition s_init (i : qset) : sst := {| prev := i; pre0 := []; pre1 := [] |}.

(* single wrapper, strong form: after rollback the content IS the snapshot *)
Fixpoint single_run (snap prev : qset) (ops : list aop) (obs : list qset) : bool :=
  match ops, obs with
  | [], [] => true
  | o :: r, now :: obs' =>
      match o with
      | AAdd _ t c => qseteqb now (q_add (t, c) prev) && single_run snap now r obs'
      | ARemove _ p c => qseteqb now (q_remove p c prev) && single_run snap now r obs'
      | ACommit _ => qseteqb now prev && single_run now now r obs'
      | ARollback _ => qseteqb now snap && single_run now now r obs'
      end
  | _, _ => false
  end.

Definition only_wrapper0 (ops : list aop) : bool := forallb (fun o => negb (op_wrapper o)) ops.

(* ------------------------------------------------------------------ *)
(* Entry points used by the correspondence check *)

Record case := { c_init : qset; c_ops : list aop }.

Definition obs_eqb (a b : list qset) : bool := list_eqb qseteqb a b.

Definition model_obs (c : case) : list qset := a_run (a_init (c_init c)) (c_ops c).

Definition spec_ok (c : case) (obs : list qset) : bool :=
  spec_run (s_init (c_init c)) (c_ops c) obs
  && (if only_wrapper0 (c_ops c) then single_run (c_init c) (c_init c) (c_ops c) obs else true).

(* did the two-wrapper disjointness hypothesis cut the check short? (statistics only) *)
Fixpoint in_scope (s : sst) (ops : list aop) (obs : list qset) : bool :=
  match ops, obs with
  | o :: r, now :: obs' =>
      match spec_step s o now with
      | Good s' => in_scope s' r obs'
      | OutOfScope => false
      | Bad => true
      end
  | _, _ => true
  end.

(* statistic for the evidence (NOT a known-finding trigger: its number is mapped to no finding, so a
   specification failure in such a case is still a violation): the history leaves the scope of the
   two-wrapper statement, judged on the model's own observations *)
Definition scope_kf (c : case) : N :=
  if in_scope (s_init (c_init c)) (c_ops c) (model_obs c) then 0%N else 9%N.
