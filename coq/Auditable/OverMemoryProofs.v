(* The Memory instance of Auditable/OverStoreProofs.v: C01's three theorems about the Memory
   model (mem_add_ok, mem_remove_ok, mem_triples_exact) discharge the store laws. *)
From RV Require Import Auditable.OverMemory Auditable.Proofs Auditable.SpecExt Auditable.OverStoreProofs.
From RV Require Store.MemProofs Store.GraphProofs.

Notation MemInv := Store.MemProofs.MemInv.
Notation mem_add_ok := Store.MemProofs.mem_add_ok.
Notation mem_remove_ok := Store.MemProofs.mem_remove_ok.
Notation mem_triples_exact := Store.MemProofs.mem_triples_exact.
Notation MemInv_empty := Store.MemProofs.MemInv_empty.
Notation holds_empty := Store.GraphProofs.holds_empty.

(* ---------------------------------------------------------------- *)
Lemma mem_of_ok S : forall m S0, MemInv m -> Abs mem mem_holds m S0 ->
  MemInv (fold_left (fun m q => mem_add m (snd q) (fst q)) S m) /\
  forall c t, mem_holds (fold_left (fun m q => mem_add m (snd q) (fst q)) S m) c t = q_mem (t, c) (S0 ++ S).
Proof.
  induction S as [|[t0 c0] S IH]; intros m S0 Hi Ha.
  - simpl. rewrite app_nil_r. auto.
  - cbn [fold_left fst snd]. destruct (mem_add_ok m c0 t0 Hi) as [Hi' Hh].
    destruct (IH (mem_add m c0 t0) (S0 ++ [(t0, c0)]) Hi') as [H1 H2].
    + intros c t. rewrite Hh, Ha. apply eq_true_iff_eq.
      rewrite orb_true_iff, !q_mem_In, in_app_iff, hit_add. simpl.
      split.
      * intros [H|H]; [|now left]. right. left. symmetry. exact (proj2 (reflect_iff _ _ (quad_eqb_spec _ _)) H).
      * intros [H|[H|[]]]; [now right|]. left. apply (reflect_iff _ _ (quad_eqb_spec _ _)). now symmetry.
    + split; auto. intros c t. rewrite H2, <- app_assoc. reflexivity.
Qed.

Lemma mem_of_inv S : MemInv (mem_of S) /\ Abs mem mem_holds (mem_of S) S.
Proof.
  destruct (mem_of_ok S mem_empty [] MemInv_empty) as [H1 H2].
  - intros c t. apply holds_empty.
  - split; auto.
Qed.

(* every history, both wrappers: the Memory-level model's observations are, as sets of quads,
   the observations of the list-level model (of which C18_two_wrappers etc. speak) *)
Theorem mm_obs_agrees c : NoDup (m_init c) -> obs_eqb (mm_obs c) (model_obs (m_case c)) = true.
Proof.
  intros Hn. destruct (mem_of_inv (m_init c)) as [Hi Ha].
  unfold mm_obs, mem_xrun, model_obs, m_case. cbn [c_init c_ops].
  apply (over_store_obs_eq mem mem_add mem_remove mem_triples mem_holds MemInv
           mem_add_ok mem_remove_ok mem_triples_exact); auto.
  - intros q Hq. apply dedup_In; [apply quad_eqb_spec|]. apply in_or_app. now left.
  - intros q Hq. apply dedup_In; [apply quad_eqb_spec|]. apply in_or_app. now right.
Qed.

(* any Memory state, any list holding the same quads *)
Theorem mem_refines ops m S :
  MemInv m -> Abs mem mem_holds m S -> NoDup S ->
  Forall2 (Abs mem mem_holds)
          (x_run mem mem_add mem_remove mem_triples (x_init m) ops)
          (a_run (a_init S) (map to_aop ops)).
Proof.
  intros Hi Ha Hn.
  apply (over_store_refines mem mem_add mem_remove mem_triples mem_holds MemInv
           mem_add_ok mem_remove_ok mem_triples_exact).
  now apply Sim_init.
Qed.

(* single wrapper: rollback restores and commit keeps the content of the Memory store,
   in terms of mem_holds, after any history and from any initial content *)
Theorem mem_single S ops :
  NoDup S -> only_w0 ops = true ->
  xsingle mem mem_holds (mem_of S) (mem_of S) ops
          (x_run mem mem_add mem_remove mem_triples (x_init (mem_of S)) ops).
Proof.
  intros Hn Hw. destruct (mem_of_inv S) as [Hi Ha].
  exact (over_store_single mem mem_add mem_remove mem_triples mem_holds MemInv
           mem_add_ok mem_remove_ok mem_triples_exact (mem_of S) S ops Hi Ha Hn Hw).
Qed.

(* the tie theorem of the suite `auditable_memory`: the specification checker accepts the
   Memory-level model's own observations, for every case *)
Theorem mm_spec_ok c : NoDup (m_init c) -> mspec_ok c (mm_obs c) = true.
Proof.
  intros Hn. destruct (mem_of_inv (m_init c)) as [Hi Ha]. unfold mspec_ok.
  rewrite (spec_ok_ext (m_case c) (mm_obs c) (model_obs (m_case c))).
  - apply spec_ok_model. exact Hn.
  - unfold mm_obs, mem_xrun, model_obs, m_case. cbn [c_init c_ops].
    apply (over_store_obs_rel mem mem_add mem_remove mem_triples mem_holds MemInv
             mem_add_ok mem_remove_ok mem_triples_exact); auto.
    + apply dedup_NoDup, quad_eqb_spec.
    + intros q Hq. apply dedup_In; [apply quad_eqb_spec|]. apply in_or_app. now left.
    + intros q Hq. apply dedup_In; [apply quad_eqb_spec|]. apply in_or_app. now right.
Qed.
