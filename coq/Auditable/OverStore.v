(* AuditableStore composed with a CONCRETE store model instead of the
   specification-level quad set: the same Python (auditable.py add / remove /
   commit / rollback), but every access to the wrapped store goes through the
   store's own operations - [s_tri] for `self.store.triples(pattern, context)`
   and `context.triples(pattern)`, [s_add] for `self.store.add`, [s_rem] for
   `self.store.remove`.  The store is abstract here (a Section); the instance
   used by the check is the Memory model of coq/Store/Model.v (C01), see
   Auditable/OverMemory.v.  Every operation of this layer carries a context
   with a non-empty identifier: the routes Graph(AuditableStore(inner), name)
   and ConjunctiveGraph(store=AuditableStore(inner)) with a graph named.  (The
   context-less remove goes through ConjunctiveGraph.quads, which is C02's
   model, and stays with Auditable/Model.v.)
   Definitions only; proofs are in Auditable/OverStoreProofs.v. *)
From RV Require Export Auditable.Model.

Inductive cop :=
| CAdd (w : bool) (t : triple) (c : cid)
| CRemove (w : bool) (p : pat) (c : cid)
| CCommit (w : bool)
| CRollback (w : bool).

Definition to_aop (o : cop) : aop :=
  match o with
  | CAdd w t c => AAdd w t c
  | CRemove w p c => ARemove w p (Some c)
  | CCommit w => ACommit w
  | CRollback w => ARollback w
  end.

Definition nilb {A} (l : list A) : bool := match l with [] => true | _ => false end.

(* the quads a history adds *)
Definition add_quads (ops : list cop) : list quad :=
  flat_map (fun o => match o with CAdd _ t c => [(t, c)] | _ => [] end) ops.

Section Over.
  Variable St : Type.
  Variable s_add : St -> cid -> triple -> St.
  Variable s_rem : St -> cid -> pat -> St.
  Variable s_tri : St -> cid -> pat -> list triple.

  Record xst := { xstore : St; xlog0 : list entry; xlog1 : list entry }.

  Definition xget_log (s : xst) (w : bool) := if w then xlog1 s else xlog0 s.
  Definition xset_log (s : xst) (w : bool) (l : list entry) : xst :=
    if w then {| xstore := xstore s; xlog0 := xlog0 s; xlog1 := l |}
    else {| xstore := xstore s; xlog0 := l; xlog1 := xlog1 s |}.
  Definition xset_store (s : xst) (m : St) : xst :=
    {| xstore := m; xlog0 := xlog0 s; xlog1 := xlog1 s |}.

  (* `if list(self.store.triples(triple, context)): return`, then cancel-or-append, then store.add *)
  Definition x_add (s : xst) (w : bool) (t : triple) (c : cid) : xst :=
    if negb (nilb (s_tri (xstore s) c (pat_of t))) then s
    else
      let l := cancel_or_append ((t, c), true) ((t, c), false) (xget_log s w) in
      xset_store (xset_log s w l) (s_add (xstore s) c t).

  (* `None in [s, p, o, context]` with a context given = the pattern has a wildcard:
     one cancel-or-append per triple that `context.triples(pattern)` yields, in the order
     the STORE yields them; otherwise the presence test `list(self.triples(spo, context))` *)
  Definition x_remove (s : xst) (w : bool) (p : pat) (c : cid) : xst :=
    match is_bound p with
    | Some t =>
        if nilb (s_tri (xstore s) c p) then s
        else
          let l := cancel_or_append ((t, c), false) ((t, c), true) (xget_log s w) in
          xset_store (xset_log s w l) (s_rem (xstore s) c p)
    | None =>
        let hit := map (fun t => (t, c)) (s_tri (xstore s) c p) in
        xset_store (xset_log s w (log_removed (xget_log s w) hit)) (s_rem (xstore s) c p)
    end.

  (* rollback: the log in forward order, `store.add(t, Graph(store, c))` / `store.remove(t, Graph(store, c))` *)
  Definition xreplay (m : St) (e : entry) : St :=
    let '((t, c), isadd) := e in
    if isadd then s_add m c t else s_rem m c (pat_of t).

  Definition x_rollback (s : xst) (w : bool) : xst :=
    xset_log (xset_store s (fold_left xreplay (xget_log s w) (xstore s))) w [].

  Definition x_commit (s : xst) (w : bool) : xst := xset_log s w [].

  Definition x_step (s : xst) (o : cop) : xst :=
    match o with
    | CAdd w t c => x_add s w t c
    | CRemove w p c => x_remove s w p c
    | CCommit w => x_commit s w
    | CRollback w => x_rollback s w
    end.

  Definition x_init (m : St) : xst := {| xstore := m; xlog0 := []; xlog1 := [] |}.

  (* the wrapped store after every operation *)
  Fixpoint x_run (s : xst) (ops : list cop) : list St :=
    match ops with
    | [] => []
    | o :: r => let s' := x_step s o in xstore s' :: x_run s' r
    end.

  (* ---------------------------------------------------------------- *)
  (* The property at the level of the concrete store, single wrapper:
     what must be true of the store's own membership function after every
     operation.  [snap] = the store when the open transaction began. *)
  Variable holds : St -> cid -> triple -> bool.

  Definition same (a b : St) : Prop := forall c t, holds a c t = holds b c t.

  Fixpoint xsingle (snap prev : St) (ops : list cop) (obs : list St) : Prop :=
    match ops, obs with
    | [], [] => True
    | o :: r, now :: obs' =>
        match o with
        | CAdd _ t c =>
            (forall c' t', holds now c' t' = (N.eqb c' c && triple_eqb t' t) || holds prev c' t')
            /\ xsingle snap now r obs'
        | CRemove _ p c =>
            (forall c' t', holds now c' t' = holds prev c' t' && negb (N.eqb c' c && matches p t'))
            /\ xsingle snap now r obs'
        | CCommit _ => same now prev /\ xsingle now now r obs'        (* commit keeps *)
        | CRollback _ => same now snap /\ xsingle now now r obs'      (* rollback restores *)
        end
    | _, _ => False
    end.

  (* a store state as a list of quads: those of the universe [U] it holds (observations
     of the correspondence check) *)
  Definition absl (U : list quad) (m : St) : qset := filter (fun q => holds m (snd q) (fst q)) U.

  Definition cop_wrapper (o : cop) : bool :=
    match o with CAdd w _ _ | CRemove w _ _ | CCommit w | CRollback w => w end.
  Definition only_w0 (ops : list cop) : bool := forallb (fun o => negb (cop_wrapper o)) ops.
End Over.

Arguments xstore {St}. Arguments xlog0 {St}. Arguments xlog1 {St}.
Arguments xget_log {St}. Arguments x_init {St}.
