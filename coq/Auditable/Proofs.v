(* Proofs about the auditable-store model: the log invariant, rollback,
   commit, the two-wrapper theorem and the single-wrapper strong form. *)
From RV Require Import Auditable.Model.

Local Notation mem := (q_mem).

Lemma entry_eqb_spec : forall a b, reflect (a = b) (entry_eqb a b).
Proof. apply pair_eqb_spec; [apply quad_eqb_spec|apply Bool.eqb_spec]. Qed.

(* ---------- list.remove(x) *)
Lemma remove_first_None e l : remove_first e l = None <-> ~ In e l.
Proof.
  induction l as [|x r IH]; simpl; [tauto|].
  destruct (entry_eqb_spec e x) as [->|Hne].
  - split; [discriminate|]. intros H; exfalso; apply H; auto.
  - destruct (remove_first e r) eqn:E.
    + split; [discriminate|]. intros H. exfalso. apply H. right.
      destruct (in_dec (fun a b => reflect_dec _ _ (entry_eqb_spec a b)) e r) as [Hin|Hnin]; auto.
      apply IH in Hnin. discriminate.
    + split; auto. intros _ [H|H]; [congruence|]. apply IH in H; auto.
Qed.

Lemma remove_first_Some e l l' :
  remove_first e l = Some l' -> NoDup (map fst l) ->
  NoDup (map fst l') /\ In e l /\ (forall x, In x l' <-> In x l /\ x <> e).
Proof.
  revert l'. induction l as [|x r IH]; simpl; intros l' H Hn; [discriminate|].
  inversion Hn as [|? ? Hx Hr]; subst.
  destruct (entry_eqb_spec e x) as [->|Hne].
  - injection H as <-. split; auto. split; auto. intros y. split.
    + intros Hy. split; auto. intros ->. apply Hx. now apply in_map.
    + intros [[->|Hy] Hne]; [congruence|auto].
  - destruct (remove_first e r) as [r'|] eqn:E; [|discriminate]. injection H as <-.
    destruct (IH r' eq_refl Hr) as (Hn' & Hin & Hiff). split; [|split].
    + simpl. constructor; auto. intros Hc. apply Hx. rewrite in_map_iff in *.
      destruct Hc as (y & Hy1 & Hy2). exists y. split; auto. now apply Hiff in Hy2.
    + auto.
    + intros y. simpl. rewrite Hiff. split.
      * intros [->|[H1 H2]]; split; auto.
      * intros [[->|H1] H2]; auto.
Qed.

(* ---------- the generic log invariant.
   [orig q = Some b]: the wrapper has changed q in its open transaction and q's
   membership before the first change was b.  [P] is membership in the store. *)
Definition LogInv (log : list entry) (orig : quad -> option bool) (P : quad -> Prop) : Prop :=
  NoDup (map fst log)
  /\ (forall q b, In (q, b) log -> orig q <> None)
  /\ (forall q b0, orig q = Some b0 ->
        (In (q, true) log <-> b0 = true /\ ~ P q) /\ (In (q, false) log <-> b0 = false /\ P q)).

Lemma in_keys (log : list entry) q : In q (map fst log) <-> In (q, true) log \/ In (q, false) log.
Proof.
  rewrite in_map_iff. split.
  - intros ([q' b] & H1 & H2). simpl in H1. subst. destruct b; auto.
  - intros [H|H]; eexists; split; try exact H; auto.
Qed.

Lemma LogInv_frame log orig P P' :
  LogInv log orig P -> (forall x, orig x <> None -> (P' x <-> P x)) -> LogInv log orig P'.
Proof.
  intros (H1 & H2 & H3) Hf. split; [|split]; auto.
  intros q b0 Hq. destruct (H3 q b0 Hq) as [Ha Hb].
  assert (Hp : P' q <-> P q) by (apply Hf; congruence).
  rewrite Ha, Hb, Hp. tauto.
Qed.

(* one quad flips membership: m = its membership before the flip *)
Lemma LogInv_flip log orig orig' P P' q m :
  LogInv log orig P ->
  (P q <-> m = true) ->
  (P' q <-> ~ P q) ->
  (forall x, x <> q -> (P' x <-> P x)) ->
  (forall x, x <> q -> orig' x = orig x) ->
  orig' q = match orig q with None => Some m | o => o end ->
  LogInv (cancel_or_append (q, negb m) (q, m) log) orig' P'.
Proof.
  intros (Hn & Hk & Hc) Hm Hq' Hoth Horig Horigq.
  assert (Hdec : P q \/ ~ P q) by (destruct m; [left; now apply Hm|right; intros H; apply Hm in H; discriminate]).
  unfold cancel_or_append.
  destruct (remove_first (q, negb m) log) as [l'|] eqn:E.
  - (* cancelled *)
    destruct (remove_first_Some _ _ _ E Hn) as (Hn' & Hin & Hiff).
    destruct (orig q) as [b0|] eqn:Eo; [|exfalso; eapply Hk; eauto].
    destruct (Hc q b0 Eo) as [Ha Hb].
    split; [|split]; auto.
    + intros x b Hx. apply Hiff in Hx. destruct Hx as [Hx _].
      destruct (quad_eqb_spec x q) as [->|Hne]; [rewrite Horigq; congruence|].
      rewrite Horig; eauto.
    + intros x b1 Hx. destruct (quad_eqb_spec x q) as [->|Hne].
      * rewrite Horigq in Hx. injection Hx as <-. rewrite !Hiff, Ha, Hb, Hq'.
        destruct m; simpl in *.
        -- apply Hb in Hin. destruct Hin as [-> _]. split; split; try tauto; intros [? ?]; try congruence; tauto.
        -- apply Ha in Hin. destruct Hin as [-> Hnp]. split; split; try tauto; intros [? ?]; try congruence; tauto.
      * rewrite Horig in Hx by auto. destruct (Hc x b1 Hx) as [Hxa Hxb].
        rewrite !Hiff, Hxa, Hxb, (Hoth x Hne).
        split; split; try tauto; intros [? ?]; repeat split; auto; congruence.
  - (* nothing to cancel: append *)
    apply remove_first_None in E.
    assert (Hnokey : ~ In q (map fst log)).
    { rewrite in_keys. intros [H|H].
      - destruct (orig q) as [b0|] eqn:Eo; [|eapply Hk; eauto].
        destruct (Hc q b0 Eo) as [Ha Hb]. destruct m; simpl in E; [|tauto].
        apply Ha in H. destruct H as [_ H]. apply H, Hm; auto.
      - destruct (orig q) as [b0|] eqn:Eo; [|eapply Hk; eauto].
        destruct (Hc q b0 Eo) as [Ha Hb]. destruct m; simpl in E; [tauto|].
        apply Hb in H. destruct H as [_ H]. apply Hm in H. discriminate. }
    split; [|split].
    + rewrite map_app. simpl. apply NoDup_app_single; auto.
    + intros x b Hx. rewrite in_app_iff in Hx. simpl in Hx. destruct Hx as [Hx|[Hx|[]]].
      * destruct (quad_eqb_spec x q) as [->|Hne].
        -- exfalso. apply Hnokey. rewrite in_keys. destruct b; auto.
        -- rewrite Horig; eauto.
      * injection Hx as <- <-. rewrite Horigq. destruct (orig q); congruence.
    + intros x b1 Hx. rewrite !in_app_iff. simpl.
      destruct (quad_eqb_spec x q) as [->|Hne].
      * assert (Hno : forall b, ~ In (q, b) log).
        { intros b Hb. apply Hnokey. rewrite in_keys. destruct b; auto. }
        assert (Hinq : forall b, In (q, b) log \/ (q, m) = (q, b) \/ False <-> m = b).
        { intros b. split; [intros [H|[H|[]]]; [exfalso; eapply Hno; eauto|congruence]|intros ->; auto]. }
        rewrite !Hinq, Hq'. rewrite Horigq in Hx.
        destruct (orig q) as [b0|] eqn:Eo.
        -- injection Hx as <-. destruct (Hc q b0 Eo) as [Ha Hb].
           assert (Hb0 : b0 = m).
           { destruct b0, m; auto.
             - exfalso. apply (Hno true). apply Ha. split; auto. intros Hp. apply Hm in Hp. discriminate.
             - exfalso. apply (Hno false). apply Hb. split; auto. apply Hm; auto. }
           subst b0. destruct m; intuition congruence.
        -- injection Hx as <-. destruct m; intuition congruence.
      * rewrite Horig in Hx by auto. destruct (Hc x b1 Hx) as [Hxa Hxb].
        assert (Hinx : forall b, In (x, b) log \/ (q, m) = (x, b) \/ False <-> In (x, b) log).
        { intros b. split; [intros [H|[H|[]]]; [auto|congruence]|auto]. }
        rewrite !Hinx, Hxa, Hxb, (Hoth x Hne). tauto.
Qed.

(* ---------- prior-membership tables *)
Lemma pre_get_app p q x b :
  pre_get (p ++ [(x, b)]) q = match pre_get p q with Some v => Some v | None => if quad_eqb q x then Some b else None end.
Proof.
  induction p as [|[q' b'] r IH]; simpl.
  - destruct (quad_eqb q x); auto.
  - destruct (quad_eqb q q'); auto.
Qed.

Lemma pre_get_note b p x q :
  pre_get (pre_note b p x) q =
  if quad_eqb q x then match pre_get p x with None => Some b | o => o end else pre_get p q.
Proof.
  unfold pre_note. destruct (quad_eqb_spec q x) as [->|Hne].
  - destruct (pre_get p x) eqn:E; auto. rewrite pre_get_app, E.
    destruct (quad_eqb_spec x x); congruence.
  - destruct (pre_get p x) eqn:E; auto. rewrite pre_get_app.
    destruct (pre_get p q); auto. destruct (quad_eqb_spec q x); congruence.
Qed.

Lemma pre_get_fold_none b hits p q :
  pre_get p q = None -> ~ In q hits -> pre_get (fold_left (pre_note b) hits p) q = None.
Proof.
  revert p. induction hits as [|x r IH]; simpl; intros p Hp Hq; auto.
  apply IH; [|tauto]. rewrite pre_get_note. destruct (quad_eqb_spec q x); [subst; tauto|auto].
Qed.

Lemma pre_get_fold_some b hits p q v :
  pre_get p q = Some v -> pre_get (fold_left (pre_note b) hits p) q = Some v.
Proof.
  revert p. induction hits as [|x r IH]; simpl; intros p Hp; auto.
  apply IH. rewrite pre_get_note. destruct (quad_eqb_spec q x) as [->|]; auto. now rewrite Hp.
Qed.

Lemma pre_get_fold_hit b hits p q :
  pre_get p q = None -> In q hits -> pre_get (fold_left (pre_note b) hits p) q = Some b.
Proof.
  revert p. induction hits as [|x r IH]; simpl; intros p Hp Hq; [tauto|].
  destruct (quad_eqb_spec q x) as [->|Hne].
  - apply pre_get_fold_some. rewrite pre_get_note. destruct (quad_eqb_spec x x); [|congruence]. now rewrite Hp.
  - apply IH; [|destruct Hq; congruence].
    rewrite pre_get_note. destruct (quad_eqb_spec q x); congruence.
Qed.

(* ---------- many quads leave the store at once (wildcard remove) *)
Lemma LogInv_removed hits : forall log pre (P : quad -> Prop),
  NoDup hits -> (forall q, In q hits -> P q) ->
  LogInv log (pre_get pre) P ->
  LogInv (log_removed log hits) (pre_get (fold_left (pre_note true) hits pre))
         (fun x => P x /\ ~ In x hits).
Proof.
  induction hits as [|q r IH]; simpl; intros log pre P Hn Hp Hinv.
  - eapply LogInv_frame; [exact Hinv|]. intros x _. tauto.
  - inversion Hn as [|? ? Hq Hr]; subst.
    eapply LogInv_frame.
    + apply (IH (cancel_or_append (q, false) (q, true) log) (pre_note true pre q)
                (fun x => P x /\ x <> q)); auto.
      * intros x Hx. split; auto. intros ->. tauto.
      * apply LogInv_flip with (m := true) (P := P) (orig := pre_get pre).
        -- exact Hinv.
        -- split; auto.
        -- split; [intros [_ H]; congruence|intros H; exfalso; apply H; auto].
        -- intros x Hx. tauto.
        -- intros x Hx. rewrite pre_get_note. destruct (quad_eqb_spec x q); congruence.
        -- rewrite pre_get_note. destruct (quad_eqb_spec q q); congruence.
    + intros x _. simpl. intuition congruence.
Qed.

(* ---------- replaying a log whose quads are pairwise distinct *)
Lemma replay_NoDup e S : NoDup S -> NoDup (replay S e).
Proof.
  destruct e as [q []]; simpl; intros H; [now apply q_add_NoDup|now apply q_remove_NoDup].
Qed.

Lemma qsel_exact t c x : qsel (pat_of t) (Some c) x = true <-> x = (t, c).
Proof.
  destruct x as [u d]. unfold qsel. simpl. rewrite andb_true_iff, matches_pat_of, N.eqb_eq.
  split; [intros [-> ->]; auto|intros [= -> ->]; auto].
Qed.

Lemma replay_In e S x :
  In x (replay S e) <-> (if snd e then x = fst e \/ In x S else In x S /\ x <> fst e).
Proof.
  destruct e as [[t c] []]; simpl.
  - apply q_add_In.
  - rewrite q_remove_In. split; intros [H1 H2]; split; auto.
    + intros ->. assert (H : qsel (pat_of t) (Some c) (t, c) = true) by now apply qsel_exact. congruence.
    + destruct (qsel (pat_of t) (Some c) x) eqn:E; auto. apply qsel_exact in E. congruence.
Qed.

Lemma replay_fold l : forall S, NoDup (map fst l) ->
  forall x, In x (fold_left replay l S) <-> (In (x, true) l \/ (In x S /\ ~ In (x, false) l)).
Proof.
  induction l as [|[q b] r IH]; intros S Hn x; [simpl; tauto|].
  cbn [fold_left map fst] in *.
  inversion Hn as [|? ? Hq Hr]; subst. rewrite (IH _ Hr), replay_In. cbn [In fst snd].
  assert (Hk : forall b', In (q, b') r -> False).
  { intros b' H. apply Hq. rewrite in_keys. destruct b'; auto. }
  destruct (quad_eqb_spec x q) as [->|Hne].
  - destruct b; split.
    + intros _. left. auto.
    + intros _. right. split; auto. intros H. eapply Hk; eauto.
    + intros [H|[[_ H] _]]; [exfalso; eapply Hk; eauto|congruence].
    + intros [[H|H]|[_ H]]; [congruence|exfalso; eapply Hk; eauto|exfalso; apply H; auto].
  - destruct b; split.
    + intros [H|[[H|H] H2]]; [auto|congruence|]. right. split; auto. intros [H3|H3]; [congruence|auto].
    + intros [[H|H]|[H1 H2]]; [congruence|auto|]. right. split; auto.
    + intros [H|[[H1 H1'] H2]]; [auto|]. right. split; auto. intros [H3|H3]; [congruence|auto].
    + intros [[H|H]|[H1 H2]]; [congruence|auto|]. right. split; auto.
Qed.

Lemma fold_replay_NoDup l : forall S, NoDup S -> NoDup (fold_left replay l S).
Proof. induction l as [|e r IH]; simpl; intros S H; auto. apply IH, replay_NoDup, H. Qed.

(* ---------- the model's store component follows the set operations exactly *)
Lemma store_set_log s w l : store (set_log s w l) = store s.
Proof. destruct w; reflexivity. Qed.
Lemma get_set_log_same s w l : get_log (set_log s w l) w = l.
Proof. destruct w; reflexivity. Qed.
Lemma get_set_log_other s w l : get_log (set_log s w l) (negb w) = get_log s (negb w).
Proof. destruct w; reflexivity. Qed.
Lemma get_log_set_store s w q : get_log (set_store s q) w = get_log s w.
Proof. destruct w; reflexivity. Qed.
Lemma store_set_store s q : store (set_store s q) = q.
Proof. reflexivity. Qed.

Lemma filter_id {A} (f : A -> bool) l : (forall x, In x l -> f x = true) -> filter f l = l.
Proof.
  induction l as [|x r IH]; simpl; intros H; auto.
  rewrite (H x) by auto. f_equal. apply IH. auto.
Qed.

Lemma filter_nil {A} (f : A -> bool) l : (forall x, In x l -> f x = false) -> filter f l = [].
Proof.
  induction l as [|x r IH]; simpl; intros H; auto.
  rewrite (H x) by auto. apply IH. auto.
Qed.

Lemma filter_single (f : quad -> bool) q l :
  NoDup l -> In q l -> (forall x, f x = true <-> x = q) -> filter f l = [q].
Proof.
  induction l as [|x r IH]; simpl; intros Hn Hin Hf; [tauto|].
  inversion Hn as [|? ? Hx Hr]; subst.
  destruct (f x) eqn:E.
  - apply Hf in E. subst x. f_equal. apply filter_nil. intros y Hy.
    destruct (f y) eqn:E2; auto. apply Hf in E2. subst. tauto.
  - destruct Hin as [->|Hin]; [|apply IH; auto].
    assert (f q = true) by now apply Hf. congruence.
Qed.

Lemma is_bound_pat p t : is_bound p = Some t -> p = pat_of t.
Proof.
  destruct p as [[[a|] [b|]] [c|]]; simpl; intros H; try discriminate. now injection H as <-.
Qed.

Lemma store_a_add s w t c : store (a_add s w t c) = q_add (t, c) (store s).
Proof.
  unfold a_add, q_add, sadd, q_mem. destruct (memb quad_eqb (t, c) (store s)); auto.
Qed.

Lemma a_remove_generic s w p c :
  NoDup (store s) ->
  store (a_remove s w p c) = q_remove p c (store s) /\
  get_log (a_remove s w p c) w = log_removed (get_log s w) (filter (qsel p c) (store s)) /\
  get_log (a_remove s w p c) (negb w) = get_log s (negb w).
Proof.
  intros Hn. unfold a_remove.
  destruct (is_bound p) as [t|] eqn:Eb; [destruct c as [c'|]|].
  - apply is_bound_pat in Eb. subst p.
    destruct (q_mem (t, c') (store s)) eqn:Em.
    + apply q_mem_In in Em.
      rewrite (filter_single _ _ _ Hn Em (fun x => qsel_exact t c' x)).
      destruct w, s; simpl; auto.
    + assert (Hnin : ~ In (t, c') (store s)) by (rewrite <- q_mem_In; congruence).
      rewrite filter_nil.
      2:{ intros x Hx. destruct (qsel (pat_of t) (Some c') x) eqn:E; auto. apply qsel_exact in E. subst. tauto. }
      simpl. split; auto. unfold q_remove. rewrite filter_id; auto.
      intros x Hx. destruct (qsel (pat_of t) (Some c') x) eqn:E; auto. apply qsel_exact in E. subst. tauto.
  - destruct w, s; simpl; auto.
  - destruct w, s; simpl; auto.
Qed.

(* ---------- the simulation relation between model states and checker states *)
Definition InS (S : qset) : quad -> Prop := fun q => In q S.

Definition R (s : ast) (g : sst) : Prop :=
  store s = prev g /\ NoDup (store s)
  /\ (forall w, LogInv (get_log s w) (pre_get (get_pre g w)) (InS (store s)))
  /\ (forall w q, pre_get (get_pre g w) q <> None -> pre_get (get_pre g (negb w)) q = None).

Lemma untouched_spec qs p :
  untouched qs p = true <-> forall q, In q qs -> pre_get p q = None.
Proof.
  unfold untouched. rewrite forallb_forall. split; intros H q Hq; specialize (H q Hq).
  - destruct (pre_get p q); [discriminate|auto].
  - now rewrite H.
Qed.

Lemma get_pre_note_same g w now ch : get_pre (note_changes g w now ch) w = fold_left (pre_note (snd ch)) (fst ch) (get_pre g w).
Proof. destruct w; reflexivity. Qed.
Lemma get_pre_note_other g w now ch : get_pre (note_changes g w now ch) (negb w) = get_pre g (negb w).
Proof. destruct w; reflexivity. Qed.
Lemma prev_note g w now ch : prev (note_changes g w now ch) = now.
Proof. destruct w; reflexivity. Qed.
Lemma get_pre_new_same g w now : get_pre (new_txn g w now) w = [].
Proof. destruct w; reflexivity. Qed.
Lemma get_pre_new_other g w now : get_pre (new_txn g w now) (negb w) = get_pre g (negb w).
Proof. destruct w; reflexivity. Qed.
Lemma prev_new g w now : prev (new_txn g w now) = now.
Proof. destruct w; reflexivity. Qed.

Lemma bool_cases (w v : bool) : v = w \/ v = negb w.
Proof. destruct w, v; auto. Qed.

Lemma LogInv_empty P : LogInv [] (pre_get []) P.
Proof.
  split; [constructor|split]; simpl; [tauto|discriminate].
Qed.

Lemma qseteqb_refl S : qseteqb S S = true.
Proof. apply qseteqb_spec. intros x; tauto. Qed.

(* a change by wrapper w of a set [hits] of quads, all with prior membership m,
   none of them changed by the other wrapper in its open transaction *)
Lemma R_change s g s' w now hits m :
  R s g ->
  store s' = now -> NoDup now ->
  NoDup hits ->
  (forall q, In q hits -> (In q (store s) <-> m = true)) ->
  (forall q, In q hits -> (In q now <-> ~ In q (store s))) ->
  (forall q, ~ In q hits -> (In q now <-> In q (store s))) ->
  (forall q, In q hits -> pre_get (get_pre g (negb w)) q = None) ->
  LogInv (get_log s' w) (pre_get (fold_left (pre_note m) hits (get_pre g w))) (InS now) ->
  get_log s' (negb w) = get_log s (negb w) ->
  R s' (note_changes g w now (hits, m)).
Proof.
  intros (Hst & Hnd & Hlogs & Hdisj) Hs' Hn Hh Hm Hflip Hoth Hunt Hlw Hlo.
  split; [|split; [|split]].
  - now rewrite prev_note.
  - now rewrite Hs'.
  - intros v. destruct (bool_cases w v) as [->| ->].
    + rewrite get_pre_note_same, Hs'. exact Hlw.
    + rewrite get_pre_note_other, Hlo, Hs'.
      eapply LogInv_frame; [apply Hlogs|]. intros x Hx. unfold InS.
      apply Hoth. intros Hin. apply Hx. now apply Hunt.
  - intros v q. destruct (bool_cases w v) as [->| ->].
    + rewrite get_pre_note_same, get_pre_note_other. simpl. intros Hq.
      destruct (pre_get (get_pre g w) q) eqn:E.
      * apply Hdisj. congruence.
      * destruct (in_dec (fun a b => reflect_dec _ _ (quad_eqb_spec a b)) q hits) as [Hin|Hnin]; auto.
        exfalso. apply Hq. now apply pre_get_fold_none.
    + rewrite get_pre_note_other, negb_involutive, get_pre_note_same. simpl. intros Hq.
      apply pre_get_fold_none.
      * specialize (Hdisj (negb w) q Hq). now rewrite negb_involutive in Hdisj.
      * intros Hin. apply Hq. now apply Hunt.
Qed.

Lemma filter_qsel_NoDup p c S : NoDup S -> NoDup (filter (qsel p c) S).
Proof. apply filter_NoDup. Qed.

Lemma step_ok s g o :
  R s g ->
  match spec_step g o (store (a_step s o)) with
  | Bad => False
  | OutOfScope => True
  | Good g' => R (a_step s o) g'
  end.
Proof.
  intros HR. pose proof HR as (Hst & Hnd & Hlogs & Hdisj).
  unfold spec_step.
  assert (Hnd' : NoDup (store (a_step s o))).
  { destruct o as [w t c|w p c|w|w]; simpl.
    - rewrite store_a_add. now apply q_add_NoDup.
    - destruct (a_remove_generic s w p c Hnd) as (-> & _ & _). now apply q_remove_NoDup.
    - unfold a_commit. now rewrite store_set_log.
    - unfold a_rollback. rewrite store_set_log, store_set_store. now apply fold_replay_NoDup. }
  apply (@nodupb_spec quad quad_eqb quad_eqb_spec) in Hnd' as Hndb. rewrite Hndb. cbn [negb].
  destruct (untouched (fst (changed_by (prev g) o)) (get_pre g (negb (op_wrapper o)))) eqn:Eu; cbn [negb]; [|exact I].
  rewrite untouched_spec in Eu. rewrite <- Hst in *.
  destruct o as [w t c|w p c|w|w]; cbn [op_wrapper a_step] in *.
  - (* add *)
    rewrite store_a_add, qseteqb_refl.
    cbn [changed_by fst] in *.
    destruct (q_mem (t, c) (store s)) eqn:Em.
    + (* already present: nothing changes *)
      assert (Heq : a_add s w t c = s) by (unfold a_add; now rewrite Em).
      assert (Hq : q_add (t, c) (store s) = store s) by (unfold q_add, sadd, q_mem in *; now rewrite Em).
      rewrite Heq, Hq. apply R_change with (s := s); auto; try (simpl; tauto); try (now constructor).
      simpl. apply Hlogs.
    + assert (Hnin : ~ In (t, c) (store s)) by (rewrite <- q_mem_In; congruence).
      apply R_change with (s := s); auto.
      * apply store_a_add.
      * now apply q_add_NoDup.
      * constructor; [simpl; tauto|constructor].
      * intros q [<-|[]]. split; [tauto|discriminate].
      * intros q [<-|[]]. rewrite q_add_In. tauto.
      * intros q Hq. rewrite q_add_In. simpl in Hq. split; [intros [->|H]; tauto|auto].
      * unfold a_add. rewrite Em, get_log_set_store, get_set_log_same. cbn [fold_left].
        apply LogInv_flip with (m := false) (P := InS (store s)) (orig := pre_get (get_pre g w)).
        -- apply Hlogs.
        -- unfold InS. split; [tauto|discriminate].
        -- unfold InS. rewrite q_add_In. tauto.
        -- intros x Hx. unfold InS. rewrite q_add_In. split; [intros [->|H]; tauto|auto].
        -- intros x Hx. rewrite pre_get_note. destruct (quad_eqb_spec x (t, c)); congruence.
        -- rewrite pre_get_note. destruct (quad_eqb_spec (t, c) (t, c)); congruence.
      * unfold a_add. rewrite Em, get_log_set_store. apply get_set_log_other.
  - (* remove *)
    destruct (a_remove_generic s w p c Hnd) as (Hs1 & Hl1 & Hl2).
    rewrite Hs1, qseteqb_refl. cbn [changed_by fst] in *.
    apply R_change with (s := s); auto.
    + now apply q_remove_NoDup.
    + now apply filter_NoDup.
    + intros q Hq. apply filter_In in Hq. tauto.
    + intros q Hq. rewrite q_remove_In. apply filter_In in Hq. destruct Hq as [H1 H2]. rewrite H2.
      split; [intros [_ H]; discriminate|tauto].
    + intros q Hq. rewrite q_remove_In. rewrite filter_In in Hq.
      destruct (qsel p c q); intuition (try discriminate).
    + rewrite Hl1. eapply LogInv_frame.
      * apply LogInv_removed with (P := InS (store s)).
        -- now apply filter_NoDup.
        -- intros q Hq. apply filter_In in Hq. apply Hq.
        -- apply Hlogs.
      * intros x _. unfold InS. rewrite q_remove_In, filter_In.
        destruct (qsel p c x); intuition (try discriminate).
  - (* commit *)
    unfold a_commit. rewrite store_set_log, qseteqb_refl.
    split; [|split; [|split]].
    + now rewrite store_set_log, prev_new.
    + now rewrite store_set_log.
    + intros v. rewrite store_set_log. destruct (bool_cases w v) as [->| ->].
      * rewrite get_set_log_same, get_pre_new_same. apply LogInv_empty.
      * rewrite get_set_log_other, get_pre_new_other. apply Hlogs.
    + intros v q. destruct (bool_cases w v) as [->| ->].
      * rewrite get_pre_new_same. simpl. tauto.
      * rewrite negb_involutive, get_pre_new_same. reflexivity.
  - (* rollback *)
    unfold a_rollback. rewrite store_set_log, store_set_store.
    set (S' := fold_left replay (get_log s w) (store s)) in *.
    destruct (Hlogs w) as (Hk & Hnone & Hcl).
    assert (Hin : forall x, In x S' <->
                   (In (x, true) (get_log s w) \/ (In x (store s) /\ ~ In (x, false) (get_log s w))))
      by (apply replay_fold; auto).
    assert (Hexp : forall x, q_mem x S' = expect_after_rollback g w x).
    { intros x. unfold expect_after_rollback. rewrite <- Hst.
      destruct (pre_get (get_pre g w) x) as [b0|] eqn:E.
      - destruct (Hcl x b0 E) as [Ha Hb]. unfold InS in *.
        destruct b0.
        + apply q_mem_In. apply Hin.
          destruct (q_mem x (store s)) eqn:Em.
          * apply q_mem_In in Em. right. split; auto. rewrite Hb. intros [? _]; discriminate.
          * left. apply Ha. split; auto. rewrite <- q_mem_In. congruence.
        + destruct (q_mem x S') eqn:Em; auto. apply q_mem_In, Hin in Em.
          destruct Em as [H|[H1 H2]].
          * apply Ha in H. destruct H; discriminate.
          * exfalso. apply H2, Hb. auto.
      - assert (Hno : forall b, ~ In (x, b) (get_log s w)) by (intros b H; eapply Hnone; eauto).
        destruct (q_mem x (store s)) eqn:Em.
        + apply q_mem_In. apply Hin. apply q_mem_In in Em. right. split; auto.
        + destruct (q_mem x S') eqn:Em'; auto. apply q_mem_In, Hin in Em'.
          destruct Em' as [H|[H _]]; [exfalso; eapply Hno; eauto|].
          apply q_mem_In in H. congruence. }
    assert (Hrb : rollback_ok g w S' = true).
    { unfold rollback_ok. apply forallb_forall. intros x _. rewrite Hexp. apply Bool.eqb_reflx. }
    rewrite Hrb.
    split; [|split; [|split]].
    + now rewrite store_set_log, store_set_store, prev_new.
    + rewrite store_set_log, store_set_store. now apply fold_replay_NoDup.
    + intros v. rewrite store_set_log, store_set_store.
      destruct (bool_cases w v) as [->| ->].
      * rewrite get_set_log_same, get_pre_new_same. apply LogInv_empty.
      * rewrite get_set_log_other, get_log_set_store, get_pre_new_other.
        eapply LogInv_frame; [apply Hlogs|]. intros x Hx. unfold InS.
        assert (Hw : pre_get (get_pre g w) x = None).
        { specialize (Hdisj (negb w) x Hx). now rewrite negb_involutive in Hdisj. }
        rewrite <- !q_mem_In, Hexp. unfold expect_after_rollback. now rewrite Hw, Hst.
    + intros v q. destruct (bool_cases w v) as [->| ->].
      * rewrite get_pre_new_same. simpl. tauto.
      * rewrite negb_involutive, get_pre_new_same. reflexivity.
Qed.

Lemma R_init i : NoDup i -> R (a_init i) (s_init i).
Proof.
  intros H. split; [reflexivity|split; [exact H|split]].
  - intros [|]; apply LogInv_empty.
  - intros [|] q; simpl; tauto.
Qed.

Theorem spec_run_model : forall ops s g, R s g -> spec_run g ops (a_run s ops) = true.
Proof.
  induction ops as [|o r IH]; intros s g HR; simpl; auto.
  pose proof (step_ok s g o HR) as H.
  destruct (spec_step g o (store (a_step s o))); [tauto|auto|auto].
Qed.

(* ---------- single wrapper: the general checker implies the strong form
   "after rollback the content IS the content at transaction start" *)
Definition J (g : sst) (snap : qset) : Prop :=
  pre1 g = [] /\ forall q, q_mem q snap = expect_after_rollback g false q.

Lemma q_mem_seteq a b x : qseteq a b -> q_mem x a = q_mem x b.
Proof.
  intros H. destruct (q_mem x b) eqn:E.
  - apply q_mem_In. apply H. now apply q_mem_In.
  - destruct (q_mem x a) eqn:E2; auto. apply q_mem_In, H, q_mem_In in E2. congruence.
Qed.

Lemma J_change g snap now hits m :
  J g snap ->
  (forall q, In q hits -> q_mem q (prev g) = m) ->
  (forall q, ~ In q hits -> q_mem q now = q_mem q (prev g)) ->
  J (note_changes g false now (hits, m)) snap.
Proof.
  intros [Hp HJ] Hm Hoth. split; [exact Hp|].
  intros q. rewrite HJ. unfold expect_after_rollback. cbn [get_pre note_changes pre0 prev fst snd].
  destruct (pre_get (pre0 g) q) as [b|] eqn:E.
  - now rewrite (pre_get_fold_some m hits _ q b E).
  - destruct (in_dec (fun a b => reflect_dec _ _ (quad_eqb_spec a b)) q hits) as [Hin|Hnin].
    + rewrite (pre_get_fold_hit _ _ _ _ E Hin). auto.
    + rewrite (pre_get_fold_none _ _ _ _ E Hnin). symmetry. auto.
Qed.

Lemma single_from_spec : forall ops obs g snap,
  only_wrapper0 ops = true -> J g snap ->
  spec_run g ops obs = true -> single_run snap (prev g) ops obs = true.
Proof.
  induction ops as [|o r IH]; intros obs g snap Hw HJ Hs; destruct obs as [|now obs]; simpl in *; auto.
  apply andb_true_iff in Hw. destruct Hw as [Hw0 Hw].
  unfold spec_step in Hs.
  destruct (nodupb quad_eqb now); cbn [negb] in Hs; [|discriminate].
  assert (Hu : untouched (fst (changed_by (prev g) o)) (get_pre g (negb (op_wrapper o))) = true).
  { destruct HJ as [Hp _].
    destruct o; simpl in Hw0; apply negb_true_iff in Hw0; subst; cbn [op_wrapper negb get_pre];
      rewrite Hp; apply untouched_spec; reflexivity. }
  rewrite Hu in Hs. cbn [negb] in Hs.
  destruct o as [w t c|w p c|w|w]; simpl in Hw0; apply negb_true_iff in Hw0; subst w; cbn [op_wrapper] in Hs.
  - destruct (qseteqb now (q_add (t, c) (prev g))) eqn:E; [|discriminate]. simpl.
    apply qseteqb_spec in E.
    replace now with (prev (note_changes g false now (changed_by (prev g) (AAdd false t c)))) at 1 by reflexivity.
    apply IH; auto. cbn [changed_by].
    destruct (q_mem (t, c) (prev g)) eqn:Em.
    + apply J_change; auto; [simpl; tauto|]. intros q _. rewrite (q_mem_seteq _ _ _ E).
      destruct (q_mem q (prev g)) eqn:E2.
      * apply q_mem_In, q_add_In. right. now apply q_mem_In.
      * destruct (q_mem q (q_add (t, c) (prev g))) eqn:E3; auto.
        apply q_mem_In, q_add_In in E3. destruct E3 as [->|E3]; [congruence|]. apply q_mem_In in E3. congruence.
    + apply J_change; auto.
      * intros q [<-|[]]. auto.
      * intros q Hq. rewrite (q_mem_seteq _ _ _ E).
        destruct (q_mem q (prev g)) eqn:E2.
        -- apply q_mem_In, q_add_In. right. now apply q_mem_In.
        -- destruct (q_mem q (q_add (t, c) (prev g))) eqn:E3; auto.
           apply q_mem_In, q_add_In in E3. destruct E3 as [->|E3]; [simpl in Hq; tauto|]. apply q_mem_In in E3. congruence.
  - destruct (qseteqb now (q_remove p c (prev g))) eqn:E; [|discriminate]. simpl.
    apply qseteqb_spec in E.
    replace now with (prev (note_changes g false now (changed_by (prev g) (ARemove false p c)))) at 1 by reflexivity.
    apply IH; auto. cbn [changed_by]. apply J_change; auto.
    + intros q Hq. apply filter_In in Hq. apply q_mem_In. tauto.
    + intros q Hq. rewrite (q_mem_seteq _ _ _ E). rewrite filter_In in Hq.
      destruct (q_mem q (prev g)) eqn:E2.
      * apply q_mem_In, q_remove_In. apply q_mem_In in E2. split; auto.
        destruct (qsel p c q); auto. exfalso. tauto.
      * destruct (q_mem q (q_remove p c (prev g))) eqn:E3; auto.
        apply q_mem_In, q_remove_In in E3. destruct E3 as [E3 _]. apply q_mem_In in E3. congruence.
  - destruct (qseteqb now (prev g)) eqn:E; [|discriminate]. simpl.
    replace now with (prev (new_txn g false now)) at 2 by reflexivity.
    apply IH; auto. destruct HJ as [Hp _]. split; [exact Hp|]. intros q. reflexivity.
  - destruct (rollback_ok g false now) eqn:E; [|discriminate].
    assert (Hsn : qseteqb now snap = true).
    { unfold rollback_ok in E. rewrite forallb_forall in E. destruct HJ as [_ HJ].
      apply qseteqb_spec. intros x. split; intros Hx.
      - apply q_mem_In. rewrite HJ. specialize (E x). rewrite in_app_iff in E.
        specialize (E (or_introl Hx)). apply Bool.eqb_prop in E. rewrite <- E. now apply q_mem_In.
      - apply q_mem_In in Hx. rewrite HJ in Hx.
        assert (Hl : In x (now ++ prev g ++ map fst (get_pre g false))).
        { rewrite !in_app_iff. unfold expect_after_rollback in Hx.
          destruct (pre_get (get_pre g false) x) eqn:Ep.
          - right. right. clear - Ep. induction (get_pre g false) as [|[q b'] l IHl]; simpl in *; [discriminate|].
            destruct (quad_eqb_spec x q); auto.
          - right. left. now apply q_mem_In. }
        specialize (E x Hl). apply Bool.eqb_prop in E. apply q_mem_In. congruence. }
    rewrite Hsn. simpl.
    replace now with (prev (new_txn g false now)) at 2 by reflexivity.
    apply IH; auto. destruct HJ as [Hp _]. split; [exact Hp|]. intros q. reflexivity.
Qed.

Lemma J_init i : J (s_init i) i.
Proof. split; [reflexivity|]. intros q. reflexivity. Qed.

Theorem single_run_model init ops :
  NoDup init -> only_wrapper0 ops = true ->
  single_run init init ops (a_run (a_init init) ops) = true.
Proof.
  intros Hn Hw. apply (single_from_spec ops _ (s_init init) init Hw (J_init init)).
  apply spec_run_model, R_init, Hn.
Qed.

Theorem spec_ok_model c : NoDup (c_init c) -> spec_ok c (model_obs c) = true.
Proof.
  intros Hn. unfold spec_ok, model_obs. rewrite (spec_run_model _ _ _ (R_init _ Hn)). simpl.
  destruct (only_wrapper0 (c_ops c)) eqn:E; auto. now apply single_run_model.
Qed.

(* a second rollback, or a commit after a rollback, changes nothing *)
Lemma rollback_idempotent s w :
  store (a_rollback (a_rollback s w) w) = store (a_rollback s w)
  /\ store (a_commit (a_rollback s w) w) = store (a_rollback s w)
  /\ store (a_rollback (a_commit s w) w) = store s.
Proof. destruct w, s; simpl; auto. Qed.

(* what the checkers say, in words: readings of the boolean specification *)
Lemma single_run_rollback_reading snap prev w r now obs :
  single_run snap prev (ARollback w :: r) (now :: obs) = true -> qseteq now snap.
Proof. simpl. intros H. apply andb_true_iff in H. apply qseteqb_spec. tauto. Qed.

Lemma single_run_commit_reading snap prev w r now obs :
  single_run snap prev (ACommit w :: r) (now :: obs) = true -> qseteq now prev.
Proof. simpl. intros H. apply andb_true_iff in H. apply qseteqb_spec. tauto. Qed.

(* the historical (pre-fix) add: remove then re-add of a triple present at the
   start leaves a stray "remove" entry and rollback deletes the triple *)
Definition prefix_step (s : ast) (o : aop) : ast :=
  match o with AAdd w t c => a_add_prefix s w t c | _ => a_step s o end.

Lemma prefix_add_refuted :
  exists init ops, NoDup init /\
    ~ qseteq (store (fold_left prefix_step ops (a_init init))) init
    /\ last ops (ACommit false) = ARollback false.
Proof.
  exists [((1, 2, 3), 7)]%N.
  exists [ARemove false (Some 1, Some 2, Some 3)%N (Some 7%N); AAdd false (1, 2, 3)%N 7%N; ARollback false].
  split; [repeat constructor; simpl; tauto|split; [|reflexivity]].
  intros H. specialize (H ((1, 2, 3), 7)%N). vm_compute in H. tauto.
Qed.

(* reading of the two-wrapper rollback clause: if the checker accepts the content observed after a
   rollback of wrapper w (and the history is in scope at that step), every quad is present exactly
   if it was present before w first changed it in this transaction (quads w changed), or just before
   the rollback (all other quads - in particular the other wrapper's changes stay) *)
Lemma spec_step_rollback_reading s w now s' :
  spec_step s (ARollback w) now = Good s' ->
  NoDup now /\ forall q, q_mem q now = expect_after_rollback s w q.
Proof.
  unfold spec_step. destruct (nodupb quad_eqb now) eqn:En; cbn [negb]; [|discriminate].
  cbn [changed_by fst untouched forallb negb op_wrapper].
  destruct (rollback_ok s w now) eqn:Er; [|discriminate]. intros _.
  split; [now apply (@nodupb_spec quad quad_eqb quad_eqb_spec)|].
  intros q. unfold rollback_ok in Er. rewrite forallb_forall in Er.
  destruct (q_mem q now) eqn:E1.
  - apply q_mem_In in E1. specialize (Er q (in_or_app _ _ _ (or_introl E1))).
    apply Bool.eqb_prop in Er. rewrite <- Er. symmetry. now apply q_mem_In.
  - unfold expect_after_rollback. destruct (pre_get (get_pre s w) q) as [b|] eqn:Ep.
    + assert (Hin : In q (map fst (get_pre s w))).
      { clear -Ep. induction (get_pre s w) as [|[q' b'] r IH]; simpl in *; [discriminate|].
        destruct (quad_eqb_spec q q') as [->|]; [now left|right; auto]. }
      specialize (Er q (in_or_app _ _ _ (or_intror (in_or_app _ _ _ (or_intror Hin))))).
      apply Bool.eqb_prop in Er. unfold expect_after_rollback in Er. now rewrite Ep, E1 in Er.
    + destruct (q_mem q (prev s)) eqn:E2; auto. apply q_mem_In in E2.
      specialize (Er q (in_or_app _ _ _ (or_intror (in_or_app _ _ _ (or_introl E2))))).
      apply Bool.eqb_prop in Er. unfold expect_after_rollback in Er. rewrite Ep, E1 in Er.
      apply q_mem_In in E2. congruence.
Qed.
