(* AuditableStore over a concrete store refines AuditableStore over the quad set:
   for ANY store whose add / remove / triples satisfy the three exactness laws
   (which coq/Store/MemProofs.v proves of the Memory model), the store contents
   after every operation of every history are, as sets of quads, those of
   Auditable/Model.v.  The two logs are equal only up to permutation (the
   store's enumeration order decides the order of the entries a wildcard remove
   appends), which is why the argument goes through multiset reasoning and the
   coherence invariant [Coh] (no quad has both an "add" and a "remove" entry)
   instead of list equality. *)
From Coq Require Import Permutation.
From RV Require Import Auditable.OverStore Auditable.Proofs Auditable.SpecExt.

(* ---------- list.remove(x) and cancel-or-append, up to permutation ---------- *)
Lemma remove_first_perm e l l' : remove_first e l = Some l' -> Permutation l (e :: l').
Proof.
  revert l'. induction l as [|x r IH]; simpl; intros l' H; [discriminate|].
  destruct (entry_eqb_spec e x) as [->|Hne].
  - injection H as <-. apply Permutation_refl.
  - destruct (remove_first e r) as [r'|] eqn:E; [|discriminate]. injection H as <-.
    eapply perm_trans; [apply perm_skip, (IH _ eq_refl)|apply perm_swap].
Qed.

Lemma coa_spec ec ea l :
  (In ec l /\ Permutation l (ec :: cancel_or_append ec ea l)) \/
  (~ In ec l /\ cancel_or_append ec ea l = l ++ [ea]).
Proof.
  unfold cancel_or_append. destruct (remove_first ec l) as [l'|] eqn:E.
  - left. pose proof (remove_first_perm _ _ _ E) as P. split; auto.
    apply Permutation_in with (l := ec :: l'); [now apply Permutation_sym|now left].
  - right. split; auto. now apply remove_first_None.
Qed.

Lemma coa_in ec ea l : In ec l -> Permutation l (ec :: cancel_or_append ec ea l).
Proof. destruct (coa_spec ec ea l) as [[_ P]|[N _]]; tauto. Qed.

Lemma coa_notin ec ea l : ~ In ec l -> cancel_or_append ec ea l = l ++ [ea].
Proof. destruct (coa_spec ec ea l) as [[I _]|[_ E]]; tauto. Qed.

Lemma coa_perm ec ea l1 l2 :
  Permutation l1 l2 -> Permutation (cancel_or_append ec ea l1) (cancel_or_append ec ea l2).
Proof.
  intros P.
  destruct (coa_spec ec ea l1) as [[I1 P1]|[N1 E1]], (coa_spec ec ea l2) as [[I2 P2]|[N2 E2]].
  - apply Permutation_cons_inv with (a := ec).
    eapply perm_trans; [apply Permutation_sym, P1|]. eapply perm_trans; [apply P|apply P2].
  - exfalso. apply N2. eapply Permutation_in; eauto.
  - exfalso. apply N1. eapply Permutation_in; [apply Permutation_sym; eauto|auto].
  - rewrite E1, E2. now apply Permutation_app_tail.
Qed.

Lemma coa_In ec ea l x : In x (cancel_or_append ec ea l) -> In x l \/ (x = ea /\ ~ In ec l).
Proof.
  destruct (coa_spec ec ea l) as [[I P]|[N E]]; intros H.
  - left. eapply Permutation_in; [apply Permutation_sym, P|now right].
  - rewrite E in H. apply in_app_or in H. destruct H as [H|[H|[]]]; auto.
Qed.

Lemma coa_In_other ec ea l x : x <> ec -> x <> ea -> (In x (cancel_or_append ec ea l) <-> In x l).
Proof.
  intros H1 H2. destruct (coa_spec ec ea l) as [[I P]|[N E]].
  - split; intros H.
    + eapply Permutation_in; [apply Permutation_sym, P|now right].
    + apply (Permutation_in _ P) in H. destruct H; [congruence|auto].
  - rewrite E, in_app_iff. simpl. intuition congruence.
Qed.

(* two cancel-or-append steps about different quads commute, as multisets *)
Lemma coa_comm e1c e1a e2c e2a l :
  e1c <> e2c -> e1c <> e2a -> e2c <> e1a ->
  Permutation (cancel_or_append e1c e1a (cancel_or_append e2c e2a l))
              (cancel_or_append e2c e2a (cancel_or_append e1c e1a l)).
Proof.
  intros D1 D2 D3.
  assert (K1 : In e1c (cancel_or_append e2c e2a l) <-> In e1c l) by (apply coa_In_other; auto).
  assert (K2 : In e2c (cancel_or_append e1c e1a l) <-> In e2c l) by (apply coa_In_other; auto).
  destruct (coa_spec e1c e1a l) as [[I1 P1]|[N1 E1]], (coa_spec e2c e2a l) as [[I2 P2]|[N2 E2]].
  - pose proof (coa_in e1c e1a _ (proj2 K1 I1)) as Q1.
    pose proof (coa_in e2c e2a _ (proj2 K2 I2)) as Q2.
    apply Permutation_cons_inv with (a := e1c). apply Permutation_cons_inv with (a := e2c).
    eapply perm_trans; [apply perm_skip, Permutation_sym, Q1|].
    eapply perm_trans; [apply Permutation_sym, P2|].
    eapply perm_trans; [apply P1|].
    eapply perm_trans; [apply perm_skip, Q2|]. apply perm_swap.
  - pose proof (coa_in e1c e1a _ (proj2 K1 I1)) as Q1.
    rewrite (coa_notin e2c e2a (cancel_or_append e1c e1a l)) by (rewrite K2; auto).
    apply Permutation_cons_inv with (a := e1c).
    eapply perm_trans; [apply Permutation_sym, Q1|]. rewrite E2.
    change (e1c :: cancel_or_append e1c e1a l ++ [e2a]) with ((e1c :: cancel_or_append e1c e1a l) ++ [e2a]).
    now apply Permutation_app_tail.
  - pose proof (coa_in e2c e2a _ (proj2 K2 I2)) as Q2.
    rewrite (coa_notin e1c e1a (cancel_or_append e2c e2a l)) by (rewrite K1; auto).
    apply Permutation_cons_inv with (a := e2c).
    eapply perm_trans; [|apply Q2]. rewrite E1.
    change (e2c :: cancel_or_append e2c e2a l ++ [e1a]) with ((e2c :: cancel_or_append e2c e2a l) ++ [e1a]).
    apply Permutation_app_tail, Permutation_sym, P2.
  - rewrite (coa_notin e1c e1a (cancel_or_append e2c e2a l)) by (rewrite K1; auto).
    rewrite (coa_notin e2c e2a (cancel_or_append e1c e1a l)) by (rewrite K2; auto).
    rewrite E1, E2, <- !app_assoc. apply Permutation_app_head. simpl. apply perm_swap.
Qed.

Lemma log_removed_cons l q h :
  log_removed l (q :: h) = log_removed (cancel_or_append (q, false) (q, true) l) h.
Proof. reflexivity. Qed.

Lemma log_removed_perm_l h : forall l l',
  Permutation l l' -> Permutation (log_removed l h) (log_removed l' h).
Proof.
  induction h as [|q h IH]; intros l l' P; [exact P|].
  rewrite !log_removed_cons. apply IH. now apply coa_perm.
Qed.

(* the order in which a wildcard remove meets the matching quads does not matter *)
Lemma log_removed_perm h h' : Permutation h h' -> forall l l',
  Permutation l l' -> Permutation (log_removed l h) (log_removed l' h').
Proof.
  induction 1 as [|x h h' _ IH|x y h|h1 h2 h3 _ IH1 _ IH2]; intros l l' P.
  - exact P.
  - rewrite !log_removed_cons. apply IH. now apply coa_perm.
  - rewrite !log_removed_cons. apply log_removed_perm_l.
    destruct (quad_eqb_spec x y) as [->|Hne]; [now apply coa_perm, coa_perm|].
    eapply perm_trans; [apply coa_comm; congruence|]. now apply coa_perm, coa_perm.
  - eapply perm_trans; [apply IH1, P|apply IH2, Permutation_refl].
Qed.

(* ---------- coherence: no quad has both kinds of entry ---------- *)
Definition Coh (l : list entry) : Prop := forall q, In (q, true) l -> In (q, false) l -> False.

Lemma Coh_nil : Coh [].
Proof. intros q []. Qed.

Lemma Coh_tail e r : Coh (e :: r) -> Coh r.
Proof. intros H q H1 H2. apply (H q); now right. Qed.

Lemma Coh_perm l l' : Permutation l l' -> Coh l' -> Coh l.
Proof. intros P H q H1 H2. apply (H q); eapply Permutation_in; eauto. Qed.

Lemma Coh_coa q b l : Coh l -> Coh (cancel_or_append (q, b) (q, negb b) l).
Proof.
  intros H q' H1 H2. apply coa_In in H1, H2.
  destruct H1 as [H1|[H1 N1]], H2 as [H2|[H2 N2]].
  - eauto.
  - injection H2 as -> Hb. destruct b; [|discriminate]. tauto.
  - injection H1 as -> Hb. destruct b; [discriminate|]. tauto.
  - congruence.
Qed.

Lemma Coh_log_removed h : forall l, Coh l -> Coh (log_removed l h).
Proof.
  induction h as [|q h IH]; intros l H; [exact H|].
  rewrite log_removed_cons. apply IH. exact (Coh_coa q false l H).
Qed.

(* replay of a coherent log (no distinctness of keys needed) *)
Lemma replay_fold_coh l : forall S, Coh l ->
  forall x, In x (fold_left replay l S) <-> (In (x, true) l \/ (In x S /\ ~ In (x, false) l)).
Proof.
  induction l as [|[q b] r IH]; intros S Hc x; [simpl; tauto|].
  cbn [fold_left]. rewrite (IH _ (Coh_tail _ _ Hc)), replay_In. cbn [fst snd In].
  destruct (quad_eqb_spec x q) as [->|Hne].
  - destruct b.
    + assert (N : ~ In (q, false) r) by (intros H; apply (Hc q); [now left|now right]).
      split; [intros _; left; left; reflexivity|].
      intros _. right. split; [now left|exact N].
    + assert (N : ~ In (q, true) r) by (intros H; apply (Hc q); [now right|now left]).
      split.
      * intros [H|[[_ H] _]]; [contradiction|congruence].
      * intros [[H|H]|[_ H]]; [discriminate|contradiction|exfalso; apply H; now left].
  - destruct b.
    + split.
      * intros [H|[[H|H] H2]]; [left; now right|congruence|].
        right. split; auto. intros [E|E]; [discriminate|auto].
      * intros [[H|H]|[H1 H2]]; [congruence|now left|].
        right. split; [now right|]. intros E. apply H2. now right.
    + split.
      * intros [H|[[H1 _] H2]]; [left; now right|].
        right. split; auto. intros [E|E]; [congruence|auto].
      * intros [[H|H]|[H1 H2]]; [discriminate|now left|].
        right. split; [split; auto|]. intros E. apply H2. now right.
Qed.

(* ---------- small facts about the list-level store ---------- *)
Lemma q_mem_add x q S : q_mem x (q_add q S) = quad_eqb x q || q_mem x S.
Proof.
  apply eq_true_iff_eq. rewrite orb_true_iff, !q_mem_In, q_add_In.
  destruct (quad_eqb_spec x q); intuition congruence.
Qed.

Lemma q_mem_remove x p c S : q_mem x (q_remove p c S) = q_mem x S && negb (qsel p c x).
Proof.
  apply eq_true_iff_eq. rewrite andb_true_iff, negb_true_iff, !q_mem_In. apply q_remove_In.
Qed.

Lemma hit_add c c0 t t0 : (N.eqb c c0 && triple_eqb t t0) = quad_eqb (t, c) (t0, c0).
Proof. unfold quad_eqb, pair_eqb. simpl. apply andb_comm. Qed.

Lemma hit_rem c c0 t t0 : (N.eqb c c0 && matches (pat_of t0) t) = quad_eqb (t, c) (t0, c0).
Proof.
  rewrite <- hit_add. f_equal. apply eq_true_iff_eq. rewrite matches_pat_of.
  destruct (triple_eqb_spec t t0); intuition congruence.
Qed.

Lemma qsel_some p c t c' : qsel p (Some c) (t, c') = matches p t && N.eqb c c'.
Proof. reflexivity. Qed.

Lemma NoDup_map_pair (c : cid) (l : list triple) : NoDup l -> NoDup (map (fun t => (t, c)) l).
Proof.
  induction 1 as [|x l Hx _ IH]; simpl; constructor; auto.
  rewrite in_map_iff. intros (y & E & Hy). injection E as ->. auto.
Qed.

(* a duplicate-free list all of whose members equal t *)
Lemma NoDup_all_eq {A} (t : A) l : NoDup l -> (forall x, In x l -> x = t) -> l = [] \/ l = [t].
Proof.
  intros Hn H. destruct l as [|a [|b r]]; auto.
  - right. f_equal. apply H. now left.
  - exfalso. inversion Hn as [|? ? Ha _]; subst. apply Ha.
    rewrite (H a), <- (H b); [now left|right; now left|now left].
Qed.

(* ================================================================== *)
Section OverProofs.
  Variable St : Type.
  Variable s_add : St -> cid -> triple -> St.
  Variable s_rem : St -> cid -> pat -> St.
  Variable s_tri : St -> cid -> pat -> list triple.
  Variable holds : St -> cid -> triple -> bool.
  Variable Inv : St -> Prop.

  (* the three laws of a store (C01 proves them of the Memory model) *)
  Hypothesis add_ok : forall m c t0, Inv m ->
    Inv (s_add m c t0) /\
    forall c' t, holds (s_add m c t0) c' t = (N.eqb c' c && triple_eqb t t0) || holds m c' t.
  Hypothesis rem_ok : forall m c p, Inv m ->
    Inv (s_rem m c p) /\
    forall c' t, holds (s_rem m c p) c' t = holds m c' t && negb (N.eqb c' c && matches p t).
  Hypothesis tri_ok : forall m c p, Inv m ->
    NoDup (s_tri m c p) /\
    forall t, In t (s_tri m c p) <-> matches p t = true /\ holds m c t = true.

  Local Notation xst := (xst St).
  Local Notation x_step := (x_step St s_add s_rem s_tri).
  Local Notation x_run := (x_run St s_add s_rem s_tri).
  Local Notation xreplay := (xreplay St s_add s_rem).

  (* the store holds exactly the quads of the list *)
  Definition Abs (m : St) (S : qset) : Prop := forall c t, holds m c t = q_mem (t, c) S.

  Lemma xreplay_one m e : Inv m ->
    Inv (xreplay m e) /\
    forall c t, holds (xreplay m e) c t =
      if snd e then quad_eqb (t, c) (fst e) || holds m c t
      else holds m c t && negb (quad_eqb (t, c) (fst e)).
  Proof.
    destruct e as [[t0 c0] b]. intros Hi. destruct b; cbn [xreplay OverStore.xreplay fst snd].
    - destruct (add_ok m c0 t0 Hi) as [H1 H2]. split; auto. intros c t. now rewrite H2, hit_add.
    - destruct (rem_ok m c0 (pat_of t0) Hi) as [H1 H2]. split; auto. intros c t. now rewrite H2, hit_rem.
  Qed.

  Lemma xreplay_fold l : forall m, Coh l -> Inv m ->
    Inv (fold_left xreplay l m) /\
    forall c t, holds (fold_left xreplay l m) c t = true <->
      (In ((t, c), true) l \/ (holds m c t = true /\ ~ In ((t, c), false) l)).
  Proof.
    induction l as [|[q b] r IH]; intros m Hc Hi; [simpl; split; auto; tauto|].
    cbn [fold_left]. destruct (xreplay_one m (q, b) Hi) as [Hi' Hh].
    destruct (IH _ (Coh_tail _ _ Hc) Hi') as [Hi2 H2]. split; auto.
    intros c t. rewrite H2, Hh. cbn [fst snd In]. set (x := (t, c)).
    destruct (quad_eqb_spec x q) as [<-|Hne].
    - destruct b; simpl.
      + assert (N : ~ In (x, false) r) by (intros H; apply (Hc x); [now left|now right]).
        split; [intros _; left; left; reflexivity|]. intros _. right. split; auto.
      + assert (N : ~ In (x, true) r) by (intros H; apply (Hc x); [now right|now left]).
        rewrite andb_false_r. split.
        * intros [H|[H _]]; [contradiction|discriminate].
        * intros [[H|H]|[_ H]]; [discriminate|contradiction|exfalso; apply H; now left].
    - destruct b; simpl; rewrite ?andb_true_r; intuition congruence.
  Qed.

  (* presence tests *)
  Lemma tri_bound_nil m c t : Inv m -> nilb (s_tri m c (pat_of t)) = negb (holds m c t).
  Proof.
    intros Hi. destruct (tri_ok m c (pat_of t) Hi) as [_ H].
    destruct (s_tri m c (pat_of t)) as [|a r] eqn:E; simpl.
    - destruct (holds m c t) eqn:Eh; auto. exfalso.
      apply (proj2 (H t)). split; auto. now apply matches_pat_of.
    - destruct (H a) as [H1 _]. destruct (H1 (or_introl eq_refl)) as [Hm Hh].
      apply matches_pat_of in Hm. subst a. now rewrite Hh.
  Qed.

  Lemma tri_bound_single m c t : Inv m -> holds m c t = true -> s_tri m c (pat_of t) = [t].
  Proof.
    intros Hi Hh. destruct (tri_ok m c (pat_of t) Hi) as [Hn H].
    destruct (NoDup_all_eq t _ Hn) as [E|E]; auto.
    - intros x Hx. apply H in Hx. symmetry. now apply matches_pat_of.
    - exfalso. assert (Hin : In t (s_tri m c (pat_of t))) by (apply H; split; auto; now apply matches_pat_of).
      rewrite E in Hin. destruct Hin.
  Qed.

  Lemma Abs_add m S c t : Inv m -> Abs m S -> Abs (s_add m c t) (q_add (t, c) S).
  Proof.
    intros Hi Ha c' t'. rewrite (proj2 (add_ok m c t Hi)), q_mem_add, hit_add. f_equal. apply Ha.
  Qed.

  Lemma Abs_rem m S c p : Inv m -> Abs m S -> Abs (s_rem m c p) (q_remove p (Some c) S).
  Proof.
    intros Hi Ha c' t'. rewrite (proj2 (rem_ok m c p Hi)), q_mem_remove, qsel_some, Ha.
    f_equal. f_equal. rewrite andb_comm. f_equal. apply N.eqb_sym.
  Qed.

  (* the store's enumeration of a pattern and the list filter are permutations of each other *)
  Lemma hits_perm m S c p : Inv m -> Abs m S -> NoDup S ->
    Permutation (map (fun t => (t, c)) (s_tri m c p)) (filter (qsel p (Some c)) S).
  Proof.
    intros Hi Ha Hn. destruct (tri_ok m c p Hi) as [Hn' H].
    apply NoDup_Permutation; [now apply NoDup_map_pair|now apply filter_qsel_NoDup|].
    intros [t c']. rewrite in_map_iff, filter_In, qsel_some, <- q_mem_In, <- Ha, andb_true_iff, N.eqb_eq. split.
    - intros (y & E & Hy). injection E as -> ->. apply H in Hy. tauto.
    - intros (Hh & Hm & <-). exists t. split; auto. apply H. tauto.
  Qed.

  (* ---------- the simulation ---------- *)
  Definition Sim (x : xst) (s : ast) : Prop :=
    Inv (xstore x) /\ Abs (xstore x) (store s) /\ NoDup (store s)
    /\ forall w, Permutation (xget_log x w) (get_log s w) /\ Coh (get_log s w).

  Lemma Sim_init m S : Inv m -> Abs m S -> NoDup S -> Sim (x_init m) (a_init S).
  Proof.
    intros Hi Ha Hn. split; [|split; [|split]]; auto.
    intros []; split; simpl; auto using Coh_nil.
  Qed.

  Lemma sim_step x s o : Sim x s -> Sim (x_step x o) (a_step s (to_aop o)).
  Proof.
    intros (Hi & Ha & Hn & Hl). destruct o as [w t c|w p c|w|w]; cbn [x_step OverStore.x_step to_aop a_step].
    - (* add *)
      unfold x_add, a_add. rewrite (tri_bound_nil _ _ _ Hi), negb_involutive, (Ha c t).
      destruct (q_mem (t, c) (store s)) eqn:Em; [split; [|split; [|split]]; auto|].
      split; [|split; [|split]].
      + destruct w, x; simpl in *; now apply add_ok.
      + replace (xstore _) with (s_add (xstore x) c t) by (destruct w, x; reflexivity).
        replace (store _) with (q_add (t, c) (store s)) by (destruct w, s; reflexivity).
        now apply Abs_add.
      + replace (store _) with (q_add (t, c) (store s)) by (destruct w, s; reflexivity).
        now apply q_add_NoDup.
      + intros w'. destruct (Hl w) as [P C], (Hl w') as [P' C'].
        destruct w, w', x, s; simpl in *; split; auto;
          try (now apply coa_perm); try exact (Coh_coa (t, c) true _ C).
    - (* remove *)
      destruct (a_remove_generic s w p (Some c) Hn) as (Es & El & Eo).
      assert (Ho : forall w', w' <> w -> get_log (a_remove s w p (Some c)) w' = get_log s w').
      { intros w' D. destruct w, w'; try congruence; exact Eo. }
      unfold x_remove. destruct (is_bound p) as [t|] eqn:Eb.
      + apply is_bound_pat in Eb. subst p. rewrite (tri_bound_nil _ _ _ Hi).
        destruct (holds (xstore x) c t) eqn:Eh; simpl.
        * (* present *)
          assert (Hin : In (t, c) (store s)) by (apply q_mem_In; now rewrite <- Ha).
          rewrite (filter_single _ _ _ Hn Hin (fun y => qsel_exact t c y)) in El.
          split; [|split; [|split]].
          -- destruct w, x; simpl in *; now apply rem_ok.
          -- replace (xstore _) with (s_rem (xstore x) c (pat_of t)) by (destruct w, x; reflexivity).
             rewrite Es. now apply Abs_rem.
          -- rewrite Es. now apply q_remove_NoDup.
          -- intros w'. destruct (Hl w) as [P C], (Hl w') as [P' C'].
             destruct (Bool.bool_dec w' w) as [->|D].
             ++ rewrite El. split.
                ** replace (xget_log _ w) with (cancel_or_append ((t, c), false) ((t, c), true) (xget_log x w))
                     by (destruct w, x; reflexivity).
                   now apply coa_perm.
                ** exact (Coh_coa (t, c) false _ C).
             ++ rewrite (Ho _ D). split; auto.
                replace (xget_log _ w') with (xget_log x w') by (destruct w, w', x; try congruence; reflexivity).
                exact P'.
        * (* absent: nothing happens *)
          assert (Hnin : ~ In (t, c) (store s)) by (rewrite <- q_mem_In, <- Ha; congruence).
          rewrite filter_nil in El.
          2:{ intros y Hy. destruct (qsel (pat_of t) (Some c) y) eqn:E; auto. apply qsel_exact in E. subst. tauto. }
          split; [|split; [|split]]; auto.
          -- rewrite Es. intros c' t'. rewrite q_mem_remove, <- Ha.
             destruct (qsel (pat_of t) (Some c) (t', c')) eqn:E; [|now rewrite andb_true_r].
             apply qsel_exact in E. injection E as -> ->. now rewrite Eh.
          -- rewrite Es. now apply q_remove_NoDup.
          -- intros w'. destruct (Hl w') as [P' C']. destruct (Bool.bool_dec w' w) as [->|D].
             ++ rewrite El. auto.
             ++ rewrite (Ho _ D). auto.
      + (* wildcard *)
        split; [|split; [|split]].
        * destruct w, x; simpl in *; now apply rem_ok.
        * replace (xstore _) with (s_rem (xstore x) c p) by (destruct w, x; reflexivity).
          rewrite Es. now apply Abs_rem.
        * rewrite Es. now apply q_remove_NoDup.
        * intros w'. destruct (Hl w) as [P C], (Hl w') as [P' C'].
          destruct (Bool.bool_dec w' w) as [->|D].
          -- rewrite El. split; [|now apply Coh_log_removed].
             replace (xget_log _ w) with
               (log_removed (xget_log x w) (map (fun t => (t, c)) (s_tri (xstore x) c p)))
               by (destruct w, x; reflexivity).
             apply log_removed_perm; auto. now apply hits_perm.
          -- rewrite (Ho _ D). split; auto.
             replace (xget_log _ w') with (xget_log x w') by (destruct w, w', x; try congruence; reflexivity).
             exact P'.
    - (* commit *)
      split; [|split; [|split]].
      + destruct w, x; auto.
      + destruct w, x, s; auto.
      + destruct w, s; auto.
      + intros w'. destruct (Hl w') as [P' C']. destruct w, w', x, s; simpl in *; auto using Coh_nil.
    - (* rollback *)
      destruct (Hl w) as [P C].
      assert (Cx : Coh (xget_log x w)) by (eapply Coh_perm; eauto).
      destruct (xreplay_fold _ _ Cx Hi) as [Hi' Hh].
      split; [|split; [|split]].
      + destruct w, x; exact Hi'.
      + replace (xstore _) with (fold_left xreplay (xget_log x w) (xstore x)) by (destruct w, x; reflexivity).
        replace (store _) with (fold_left replay (get_log s w) (store s)) by (destruct w, s; reflexivity).
        intros c t. apply eq_true_iff_eq. rewrite Hh, q_mem_In, (replay_fold_coh _ _ C), <- q_mem_In, <- Ha.
        split; (intros [H|[H1 H2]]; [left|right; split; auto]).
        * eapply Permutation_in; eauto.
        * intros E. apply H2. eapply Permutation_in; [apply Permutation_sym|]; eauto.
        * eapply Permutation_in; [apply Permutation_sym|]; eauto.
        * intros E. apply H2. eapply Permutation_in; eauto.
      + replace (store _) with (fold_left replay (get_log s w) (store s)) by (destruct w, s; reflexivity).
        now apply fold_replay_NoDup.
      + intros w'. destruct (Hl w') as [P' C']. destruct w, w', x, s; simpl in *; auto using Coh_nil.
  Qed.

  (* every observation of the composed model holds exactly the quads of the list-level model's *)
  Theorem over_store_refines : forall ops x s, Sim x s ->
    Forall2 Abs (x_run x ops) (a_run s (map to_aop ops)).
  Proof.
    induction ops as [|o r IH]; intros x s H; simpl; [constructor|].
    pose proof (sim_step x s o H) as H'. constructor; [apply H'|now apply IH].
  Qed.

  (* ---------- the single-wrapper strong form, at the level of the store ---------- *)
  Local Notation xsingle := (xsingle St holds).

  Lemma only_w0_map ops : only_w0 ops = true -> only_wrapper0 (map to_aop ops) = true.
  Proof.
    unfold only_w0, only_wrapper0. rewrite !forallb_forall. intros H o Ho.
    apply in_map_iff in Ho. destruct Ho as (o' & <- & Ho'). specialize (H o' Ho'). now destruct o'.
  Qed.

  Lemma Abs_seteq m S S' : Abs m S -> qseteq S' S -> Abs m S'.
  Proof. intros Ha He c t. rewrite Ha. symmetry. now apply q_mem_seteq. Qed.

  Lemma xsingle_from_single : forall ops obsx obsS snapx snapS prevx prevS,
    Abs snapx snapS -> Abs prevx prevS -> Forall2 Abs obsx obsS ->
    single_run snapS prevS (map to_aop ops) obsS = true ->
    xsingle snapx prevx ops obsx.
  Proof.
    induction ops as [|o r IH]; intros obsx obsS snapx snapS prevx prevS Hs Hp HF H.
    - inversion HF; subst; simpl in *; [exact I|discriminate].
    - inversion HF as [|nowx nowS ox oS Hn HF']; subst; [simpl in H; discriminate|].
      destruct o as [w t c|w p c|w|w]; cbn [map to_aop single_run OverStore.xsingle] in *;
        apply andb_true_iff in H; destruct H as [H1 H2]; apply qseteqb_spec in H1.
      + split; [|eapply IH; eauto].
        intros c' t'. rewrite Hn, (q_mem_seteq _ _ _ H1), q_mem_add, hit_add. f_equal. symmetry. apply Hp.
      + split; [|eapply IH; eauto].
        intros c' t'. rewrite Hn, (q_mem_seteq _ _ _ H1), q_mem_remove, qsel_some, <- Hp.
        f_equal. f_equal. rewrite andb_comm. f_equal. apply N.eqb_sym.
      + split; [|eapply IH; eauto].
        intros c' t'. rewrite Hn, (q_mem_seteq _ _ _ H1). symmetry. apply Hp.
      + split; [|eapply IH; eauto].
        intros c' t'. rewrite Hn, (q_mem_seteq _ _ _ H1). symmetry. apply Hs.
  Qed.

  (* rollback restores, commit keeps - stated about the store's own membership function *)
  Theorem over_store_single m S ops :
    Inv m -> Abs m S -> NoDup S -> only_w0 ops = true ->
    xsingle m m ops (x_run (x_init m) ops).
  Proof.
    intros Hi Ha Hn Hw.
    apply (xsingle_from_single ops _ (a_run (a_init S) (map to_aop ops)) m S m S Ha Ha).
    - apply over_store_refines. now apply Sim_init.
    - apply single_run_model; auto. now apply only_w0_map.
  Qed.

  (* ---------- observations as lists, for the correspondence check ---------- *)
  Local Notation absl := (absl St holds).

  Lemma absl_seteq U m S : Abs m S -> incl S U -> qseteq (absl U m) S.
  Proof.
    intros Ha Hu [t c]. unfold absl. rewrite filter_In. cbn [fst snd]. rewrite Ha, q_mem_In. split; [tauto|].
    intros H. split; auto.
  Qed.

  (* everything the list-level model ever holds or logs lies in U *)
  Definition Uinv (U : list quad) (s : ast) : Prop :=
    incl (store s) U /\ forall w q b, In (q, b) (get_log s w) -> In q U.

  Lemma log_removed_In h : forall l q b, In (q, b) (log_removed l h) -> In (q, b) l \/ In q h.
  Proof.
    induction h as [|x h IH]; intros l q b H; [now left|].
    rewrite log_removed_cons in H. apply IH in H. destruct H as [H|H]; [|right; now right].
    apply coa_In in H. destruct H as [H|[H _]]; [now left|]. injection H as -> _. right. now left.
  Qed.

  Lemma fold_replay_incl l : forall S x, In x (fold_left replay l S) -> In x S \/ In (x, true) l.
  Proof.
    induction l as [|[q b] r IH]; intros S x H; [now left|].
    cbn [fold_left] in H. apply IH in H. destruct H as [H|H]; [|right; now right].
    apply replay_In in H. cbn [fst snd] in H. destruct b.
    - destruct H as [->|H]; [right; now left|now left].
    - left. tauto.
  Qed.

  Lemma Uinv_step U s o : NoDup (store s) -> Uinv U s -> incl (add_quads [o]) U ->
    Uinv U (a_step s (to_aop o)).
  Proof.
    intros Hn [Hs Hl] Ho. destruct o as [w t c|w p c|w|w]; cbn [to_aop a_step].
    - assert (Hq : In (t, c) U) by (apply Ho; now left).
      unfold a_add. destruct (q_mem (t, c) (store s)); [split; auto|]. split.
      + replace (store _) with (q_add (t, c) (store s)) by (destruct w, s; reflexivity).
        intros x Hx. apply q_add_In in Hx. destruct Hx as [->|Hx]; auto.
      + intros w' q b H.
        assert (H' : In (q, b) (cancel_or_append ((t, c), true) ((t, c), false) (get_log s w)) \/ In (q, b) (get_log s w'))
          by (destruct w, w', s; simpl in *; auto).
        destruct H' as [H'|H']; [|eauto]. apply coa_In in H'. destruct H' as [H'|[H' _]]; [eauto|].
        injection H' as -> _. exact Hq.
    - destruct (a_remove_generic s w p (Some c) Hn) as (Es & El & Eo). split.
      + rewrite Es. intros x Hx. apply q_remove_In in Hx. apply Hs. tauto.
      + intros w' q b H. destruct (Bool.bool_dec w' w) as [->|D].
        * rewrite El in H. apply log_removed_In in H. destruct H as [H|H]; [eauto|].
          apply filter_In in H. apply Hs. tauto.
        * replace (get_log (a_remove s w p (Some c)) w') with (get_log s w') in H; [eauto|].
          destruct w, w'; try congruence; symmetry; exact Eo.
    - split; [destruct w, s; exact Hs|].
      intros w' q b H. pose proof (Hl true) as L1. pose proof (Hl false) as L0.
        destruct w, w', s; simpl in *; try contradiction; eauto.
    - split.
      + replace (store _) with (fold_left replay (get_log s w) (store s)) by (destruct w, s; reflexivity).
        intros x Hx. apply fold_replay_incl in Hx. destruct Hx as [Hx|Hx]; eauto.
      + intros w' q b H. pose proof (Hl true) as L1. pose proof (Hl false) as L0.
        destruct w, w', s; simpl in *; try contradiction; eauto.
  Qed.

  Theorem over_store_refines_U U : forall ops x s, Sim x s -> Uinv U s -> incl (add_quads ops) U ->
    Forall2 (fun m S => Abs m S /\ incl S U /\ NoDup S) (x_run x ops) (a_run s (map to_aop ops)).
  Proof.
    induction ops as [|o r IH]; intros x s H Hu Ho; simpl; [constructor|].
    pose proof (sim_step x s o H) as H'.
    assert (Hu' : Uinv U (a_step s (to_aop o))).
    { apply Uinv_step; auto; [apply H|]. intros q Hq. apply Ho. simpl. apply in_or_app. left.
      simpl in Hq. now rewrite app_nil_r in Hq. }
    constructor; [split; [apply H'|split; [apply Hu'|apply H']]|].
    apply IH; auto. intros q Hq. apply Ho. simpl. apply in_or_app. now right.
  Qed.

  Lemma obs_eqb_Forall2 : forall (a b : list qset),
    Forall2 (fun x y => qseteq x y) a b -> obs_eqb a b = true.
  Proof.
    induction 1 as [|x y a b H _ IH]; simpl; auto.
    apply andb_true_iff. split; auto. now apply qseteqb_spec.
  Qed.

  (* the composed model's observations, read off through [holds] over a universe that contains
     the initial content and every quad the history adds, are obs_eqb to the list-level model's *)
  Theorem over_store_obs_eq U m S ops :
    Inv m -> Abs m S -> NoDup S -> incl S U -> incl (add_quads ops) U ->
    obs_eqb (map (absl U) (x_run (x_init m) ops)) (a_run (a_init S) (map to_aop ops)) = true.
  Proof.
    intros Hi Ha Hn Hs Ho. apply obs_eqb_Forall2.
    assert (HF := over_store_refines_U U ops (x_init m) (a_init S) (Sim_init m S Hi Ha Hn)).
    assert (Hu : Uinv U (a_init S)) by (split; [exact Hs|intros [] q b []]).
    specialize (HF Hu Ho). clear -HF. induction HF as [|x y a b (H1 & H2 & _) _ IH]; simpl; constructor; auto.
    now apply absl_seteq.
  Qed.

  (* ... and, the universe being duplicate-free, related the way the specification checker cannot
     tell apart (Auditable/SpecExt.v) *)
  Theorem over_store_obs_rel U m S ops :
    Inv m -> Abs m S -> NoDup S -> NoDup U -> incl S U -> incl (add_quads ops) U ->
    Forall2 obs_rel (map (absl U) (x_run (x_init m) ops)) (a_run (a_init S) (map to_aop ops)).
  Proof.
    intros Hi Ha Hn HU Hs Ho.
    assert (HF := over_store_refines_U U ops (x_init m) (a_init S) (Sim_init m S Hi Ha Hn)).
    assert (Hu : Uinv U (a_init S)) by (split; [exact Hs|intros [] q b []]).
    specialize (HF Hu Ho). clear -HF HU. induction HF as [|x y a b (H1 & H2 & H3) _ IH]; simpl; constructor; auto.
    split; [now apply absl_seteq|split; auto]. unfold OverStore.absl. now apply filter_NoDup.
  Qed.
End OverProofs.
