(* Proofs about coq/Grammar/Reader.v (rdflib's N-Triples / N-Quads line reader).

   1. The scanners of Reader.v were written for specific regular expressions; the expressions are
      reflected from the tree under test into Gen/Tables_c05.v on every run and pinned here, so that an
      edit of any of them breaks the build (and thereby the check) instead of silently leaving the
      model behind.
   2. The reader's escape table agrees with the ECHAR production.
   3. Sanity of the strict reader and of the reader model on the W3C corner cases. *)
From Coq Require Import Lia.
From RV Require Import Grammar.Model Grammar.Reader.
Local Open Scope N_scope.

Lemma nt_uriref_src_pinned : nt_uriref_src =
  [60; 40; 91; 94; 58; 93; 43; 58; 91; 94; 92; 115; 34; 60; 62; 93; 42; 41; 62].
Proof. reflexivity. Qed.

Lemma nt_literal_src_pinned : nt_literal_src =
  [34; 40; 91; 94; 34; 92; 92; 93; 42; 40; 63; 58; 92; 92; 46; 91; 94; 34; 92; 92; 93; 42; 41; 42; 41; 34].
Proof. reflexivity. Qed.

Lemma nt_litinfo_src_pinned : nt_litinfo_src =
  [40; 63; 58; 64; 40; 91; 97; 45; 122; 65; 45; 90; 93; 43; 40; 63; 58; 45; 91; 97; 45; 122; 65; 45; 90; 48; 45; 57; 93; 43; 41; 42; 41; 124; 92; 94; 92; 94; 60; 40; 91; 94; 58; 93; 43; 58; 91; 94; 92; 115; 34; 60; 62; 93; 42; 41; 62; 41; 63].
Proof. reflexivity. Qed.

Lemma nt_r_wspace_src_pinned : nt_r_wspace_src =
  [91; 32; 92; 116; 93; 42].
Proof. reflexivity. Qed.

Lemma nt_r_wspaces_src_pinned : nt_r_wspaces_src =
  [91; 32; 92; 116; 93; 43].
Proof. reflexivity. Qed.

Lemma nt_r_tail_src_pinned : nt_r_tail_src =
  [91; 32; 92; 116; 93; 42; 92; 46; 91; 32; 92; 116; 93; 42; 40; 35; 46; 42; 41; 63].
Proof. reflexivity. Qed.

Lemma nt_r_nodeid_src_pinned : nt_r_nodeid_src =
  [95; 58; 40; 91; 65; 45; 90; 97; 45; 122; 48; 45; 57; 95; 58; 93; 40; 91; 45; 65; 45; 90; 97; 45; 122; 48; 45; 57; 95; 58; 92; 46; 93; 42; 91; 45; 65; 45; 90; 97; 45; 122; 48; 45; 57; 95; 58; 93; 41; 63; 41].
Proof. reflexivity. Qed.

Lemma nt_r_line_src_pinned : nt_r_line_src =
  [40; 91; 94; 92; 114; 92; 110; 93; 42; 41; 40; 63; 58; 92; 114; 92; 110; 124; 92; 114; 124; 92; 110; 41].
Proof. reflexivity. Qed.

Lemma turtle_escape_pattern_src_pinned : turtle_escape_pattern_src =
  [92; 92; 40; 63; 58; 40; 91; 116; 98; 110; 114; 102; 34; 39; 92; 92; 93; 41; 124; 40; 117; 91; 48; 45; 57; 65; 45; 70; 97; 45; 102; 93; 123; 52; 125; 124; 85; 91; 48; 45; 57; 65; 45; 70; 97; 45; 102; 93; 123; 56; 125; 41; 41].
Proof. reflexivity. Qed.

Lemma py_re_space_chars_pinned : py_re_space_chars =
  [9; 10; 11; 12; 13; 28; 29; 30; 31; 32; 133; 160; 5760; 8192; 8193; 8194; 8195; 8196; 8197; 8198; 8199; 8200; 8201; 8202; 8232; 8233; 8239; 8287; 12288].
Proof. reflexivity. Qed.

Lemma py_isspace_chars_pinned : py_isspace_chars =
  [9; 10; 11; 12; 13; 28; 29; 30; 31; 32; 133; 160; 5760; 8192; 8193; 8194; 8195; 8196; 8197; 8198; 8199; 8200; 8201; 8202; 8232; 8233; 8239; 8287; 12288].
Proof. reflexivity. Qed.

Lemma nt_validate_off : nt_validate = false.
Proof. reflexivity. Qed.

(* compat._string_escape_map restricted to the letters of _turtle_escape_pattern is the ECHAR production *)
Lemma rd_echar_eq : forall e, rd_echar e = echar e.
Proof.
  intro e. unfold rd_echar, echar.
  destruct (e =? 116) eqn:E1; [apply N.eqb_eq in E1; subst; reflexivity|].
  destruct (e =? 98) eqn:E2; [apply N.eqb_eq in E2; subst; reflexivity|].
  destruct (e =? 110) eqn:E3; [apply N.eqb_eq in E3; subst; reflexivity|].
  destruct (e =? 114) eqn:E4; [apply N.eqb_eq in E4; subst; reflexivity|].
  destruct (e =? 102) eqn:E5; [apply N.eqb_eq in E5; subst; reflexivity|].
  destruct (e =? 34) eqn:E6; [apply N.eqb_eq in E6; subst; reflexivity|].
  destruct (e =? 39) eqn:E7; [apply N.eqb_eq in E7; subst; reflexivity|].
  destruct (e =? 92) eqn:E8; [apply N.eqb_eq in E8; subst; reflexivity|].
  cbn [memN]. rewrite E1, E2, E3, E4, E5, E6, E7, E8. reflexivity.
Qed.

(* W3C corner cases, both readers (vm_compute on concrete lines) *)
(* <a:s><a:p><a:o>.  - legal; rdflib's N-Triples reader rejects it (finding C05e), its N-Quads reader accepts *)
Example minimal_whitespace :
  let l := [60;97;58;115;62;60;97;58;112;62;60;97;58;111;62;46] in
  strict_doc false l = Some [((Iri [97;58;115], Iri [97;58;112], Iri [97;58;111]), None)]
  /\ rd_doc false l = None
  /\ rd_doc true l = Some [((Iri [97;58;115], Iri [97;58;112], Iri [97;58;111]), None)]
  /\ rd_kf {| r_nq := false; r_doc := l; r_legal := true; r_meaning := None |} = 5.
Proof. vm_compute. repeat split; reflexivity. Qed.
(* <s> <a:p> <a:o> .  - relative IRI: not legal *)
Example relative_iri_rejected :
  strict_doc false [60;115;62;32;60;97;58;112;62;32;60;97;58;111;62;32;46] = None.
Proof. vm_compute. reflexivity. Qed.
