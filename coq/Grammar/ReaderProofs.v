(* Proofs about coq/Grammar/Reader.v (rdflib's N-Triples / N-Quads line reader).

   1. The scanners of Reader.v were written for specific regular expressions; the expressions are
      reflected from the tree under test into Gen/Tables_c05.v on every run and pinned here, so that an
      edit of any of them breaks the build (and thereby the check) instead of silently leaving the
      model behind.
   2. The reader's escape table agrees with the ECHAR production.
   3. Sanity of the strict reader and of the reader model on the W3C corner cases. *)
From Coq Require Import Lia.
From RV Require Import Grammar.Model Grammar.Proofs Grammar.Reader.
Local Open Scope N_scope.

Lemma nt_uriref_src_pinned : nt_uriref_src =
  [60; 40; 91; 94; 58; 93; 43; 58; 91; 94; 92; 120; 48; 48; 45; 92; 120; 50; 48; 34; 60; 62; 93; 42; 41; 62].
Proof. reflexivity. Qed.

Lemma nt_literal_src_pinned : nt_literal_src =
  [34; 40; 91; 94; 34; 92; 92; 93; 42; 40; 63; 58; 92; 92; 46; 91; 94; 34; 92; 92; 93; 42; 41; 42; 41; 34].
Proof. reflexivity. Qed.

Lemma nt_litinfo_src_pinned : nt_litinfo_src =
  [40; 63; 58; 64; 40; 91; 97; 45; 122; 65; 45; 90; 93; 43; 40; 63; 58; 45; 91; 97; 45; 122; 65; 45; 90; 48; 45; 57; 93; 43; 41; 42; 41; 124; 92; 94; 92; 94; 60; 40; 91; 94; 58; 93; 43; 58; 91; 94; 92; 120; 48; 48; 45; 92; 120; 50; 48; 34; 60; 62; 93; 42; 41; 62; 41; 63].
Proof. reflexivity. Qed.

Lemma nt_r_wspace_src_pinned : nt_r_wspace_src =
  [91; 32; 92; 116; 93; 42].
Proof. reflexivity. Qed.

Lemma nt_r_wspaces_src_pinned : nt_r_wspaces_src =
  [91; 32; 92; 116; 93; 43].
Proof. reflexivity. Qed.

Lemma nt_r_tail_src_pinned : nt_r_tail_src =
  [91; 32; 92; 116; 93; 42; 92; 46; 91; 32; 92; 116; 93; 42; 40; 35; 46; 42; 41; 63].
Proof. reflexivity. Qed.

Lemma nt_r_nodeid_src_pinned : nt_r_nodeid_src =
  [95; 58; 40; 91; 65; 45; 90; 97; 45; 122; 48; 45; 57; 95; 58; 93; 40; 91; 45; 65; 45; 90; 97; 45; 122; 48; 45; 57; 95; 58; 92; 46; 93; 42; 91; 45; 65; 45; 90; 97; 45; 122; 48; 45; 57; 95; 58; 93; 41; 63; 41].
Proof. reflexivity. Qed.

Lemma nt_r_line_src_pinned : nt_r_line_src =
  [40; 91; 94; 92; 114; 92; 110; 93; 42; 41; 40; 63; 58; 92; 114; 92; 110; 124; 92; 114; 124; 92; 110; 41].
Proof. reflexivity. Qed.

Lemma turtle_escape_pattern_src_pinned : turtle_escape_pattern_src =
  [92; 92; 40; 63; 58; 40; 91; 116; 98; 110; 114; 102; 34; 39; 92; 92; 93; 41; 124; 40; 117; 91; 48; 45; 57; 65; 45; 70; 97; 45; 102; 93; 123; 52; 125; 124; 85; 91; 48; 45; 57; 65; 45; 70; 97; 45; 102; 93; 123; 56; 125; 41; 41].
Proof. reflexivity. Qed.

Lemma py_re_space_chars_pinned : py_re_space_chars =
  [9; 10; 11; 12; 13; 28; 29; 30; 31; 32; 133; 160; 5760; 8192; 8193; 8194; 8195; 8196; 8197; 8198; 8199; 8200; 8201; 8202; 8232; 8233; 8239; 8287; 12288].
Proof. reflexivity. Qed.

Lemma py_isspace_chars_pinned : py_isspace_chars =
  [9; 10; 11; 12; 13; 28; 29; 30; 31; 32; 133; 160; 5760; 8192; 8193; 8194; 8195; 8196; 8197; 8198; 8199; 8200; 8201; 8202; 8232; 8233; 8239; 8287; 12288].
Proof. reflexivity. Qed.

Lemma nt_validate_off : nt_validate = false.
Proof. reflexivity. Qed.

(* compat._string_escape_map restricted to the letters of _turtle_escape_pattern is the ECHAR production *)
Lemma rd_echar_eq : forall e, rd_echar e = echar e.
Proof.
  intro e. unfold rd_echar, echar.
  destruct (e =? 116) eqn:E1; [apply N.eqb_eq in E1; subst; reflexivity|].
  destruct (e =? 98) eqn:E2; [apply N.eqb_eq in E2; subst; reflexivity|].
  destruct (e =? 110) eqn:E3; [apply N.eqb_eq in E3; subst; reflexivity|].
  destruct (e =? 114) eqn:E4; [apply N.eqb_eq in E4; subst; reflexivity|].
  destruct (e =? 102) eqn:E5; [apply N.eqb_eq in E5; subst; reflexivity|].
  destruct (e =? 34) eqn:E6; [apply N.eqb_eq in E6; subst; reflexivity|].
  destruct (e =? 39) eqn:E7; [apply N.eqb_eq in E7; subst; reflexivity|].
  destruct (e =? 92) eqn:E8; [apply N.eqb_eq in E8; subst; reflexivity|].
  cbn [memN]. rewrite E1, E2, E3, E4, E5, E6, E7, E8. reflexivity.
Qed.

(* W3C corner cases, both readers (vm_compute on concrete lines) *)
(* <a:s><a:p><a:o>.  - legal, no white space at all: read by both readers (N-Triples since 4cbe7459) *)
Example minimal_whitespace :
  let l := [60;97;58;115;62;60;97;58;112;62;60;97;58;111;62;46] in
  strict_doc false l = Some [((Iri [97;58;115], Iri [97;58;112], Iri [97;58;111]), None)]
  /\ rd_doc false l = strict_doc false l
  /\ rd_doc true l = strict_doc false l
  /\ rd_kf {| r_nq := false; r_doc := l; r_legal := true; r_meaning := None |} = 0.
Proof. vm_compute. repeat split; reflexivity. Qed.
(* _:é <a:p> <a:o> .  - legal; rejected by rdflib's readers (finding C05f) *)
Example non_ascii_label :
  let l := [95;58;233;32;60;97;58;112;62;32;60;97;58;111;62;32;46] in
  strict_doc false l = Some [((Bn [233], Iri [97;58;112], Iri [97;58;111]), None)]
  /\ rd_doc false l = None /\ rd_doc true l = None
  /\ rd_kf {| r_nq := false; r_doc := l; r_legal := true; r_meaning := None |} = 6.
Proof. vm_compute. repeat split; reflexivity. Qed.
(* <s> <a:p> <a:o> .  - relative IRI: not legal *)
Example relative_iri_rejected :
  strict_doc false [60;115;62;32;60;97;58;112;62;32;60;97;58;111;62;32;46] = None.
Proof. vm_compute. reflexivity. Qed.

(* ====================================================================== completeness of the line reader
   Every statement the strict W3C reader accepts is read by rdflib's reader (as repaired by 4cbe7459) with the same
   meaning, outside the regions of findings C05f (non-ASCII blank node label) and C05h (no colon written as such in an
   IRIREF). *)

(* ---- boolean comparisons to Prop *)
Ltac b2p :=
  repeat match goal with
  | H : (_ <=? _) = true |- _ => apply N.leb_le in H
  | H : (_ <=? _) = false |- _ => apply N.leb_gt in H
  | H : (_ <? _) = true |- _ => apply N.ltb_lt in H
  | H : (_ <? _) = false |- _ => apply N.ltb_ge in H
  | H : (_ =? _) = true |- _ => apply N.eqb_eq in H
  | H : (_ =? _) = false |- _ => apply N.eqb_neq in H
  | H : (_ && _) = true |- _ => apply andb_true_iff in H; destruct H
  | H : (_ || _) = false |- _ => apply orb_false_iff in H; destruct H
  | H : negb _ = true |- _ => apply negb_true_iff in H
  | H : negb _ = false |- _ => apply negb_false_iff in H
  end.

Lemma eqb_false : forall a b, a <> b -> (a =? b) = false.
Proof. intros. apply N.eqb_neq. assumption. Qed.

(* ---- lists *)
Lemma span_spec : forall p l a b, span p l = (a, b) ->
  l = a ++ b /\ forallb p a = true /\ match b with x :: _ => p x = false | [] => True end.
Proof.
  induction l as [|c l IH]; intros a b H; simpl in H.
  - inversion H; subst. repeat split.
  - destruct (p c) eqn:Hc.
    + destruct (span p l) as [a' b'] eqn:E. inversion H; subst.
      destruct (IH a' b eq_refl) as [H1 [H2 H3]]. subst l. repeat split; [simpl; rewrite Hc, H2; reflexivity|exact H3].
    + inversion H; subst. repeat split. exact Hc.
Qed.

Lemma span_app2' : forall p a b, forallb p a = true ->
  match b with x :: _ => p x = false | [] => True end -> span p (a ++ b) = (a, b).
Proof.
  induction a as [|c a IH]; simpl; intros b Ha Hb.
  - destruct b as [|x b]; [reflexivity|]. simpl. rewrite Hb. reflexivity.
  - apply andb_true_iff in Ha. destruct Ha as [Hc Ha]. rewrite Hc, (IH _ Ha Hb). reflexivity.
Qed.

Lemma strip_dots_spec : forall l k d, strip_dots l = (k, d) -> l = k ++ d /\ forallb (fun c => c =? 46) d = true.
Proof.
  induction l as [|c l IH]; intros k d H; simpl in H.
  - inversion H; subst. split; reflexivity.
  - destruct (strip_dots l) as [k' d'] eqn:E. destruct (IH k' d' eq_refl) as [H1 H2]. subst l.
    destruct k' as [|x k'].
    + destruct (c =? 46) eqn:Ec; inversion H; subst; simpl; [rewrite Ec, H2; split; reflexivity|split; [reflexivity|exact H2]].
    + inversion H; subst. split; [reflexivity|exact H2].
Qed.

Lemma firstn_len_app : forall (a b : str), firstn (length a) (a ++ b) = a.
Proof. induction a as [|c a IH]; intro b; simpl; [reflexivity|rewrite IH; reflexivity]. Qed.
Lemma raw_of_app : forall a b, raw_of (a ++ b) b = a.
Proof.
  intros a b. unfold raw_of. rewrite app_length.
  replace (length a + length b - length b)%nat with (length a) by lia. apply firstn_len_app.
Qed.

Lemma existsb_app_false : forall (p : N -> bool) a b, existsb p (a ++ b) = false -> existsb p a = false /\ existsb p b = false.
Proof. intros p a b H. rewrite existsb_app in H. apply orb_false_iff in H. exact H. Qed.

Lemma existsb_false_forall : forall (p : N -> bool) l, existsb p l = false -> forall c, In c l -> p c = false.
Proof.
  intros p l H c Hc. destruct (p c) eqn:E; [|reflexivity].
  assert (existsb p l = true) by (apply existsb_exists; eauto). congruence.
Qed.

Lemma memN_app : forall x a b, memN x (a ++ b) = memN x a || memN x b.
Proof. induction a as [|c a IH]; intro b; simpl; [reflexivity|rewrite IH, orb_assoc; reflexivity]. Qed.

Lemma memN_split_first : forall x l, memN x l = true ->
  exists a b, l = a ++ x :: b /\ forallb (fun c => negb (c =? x)) a = true.
Proof.
  induction l as [|c l IH]; intro H; simpl in H; [discriminate|].
  destruct (c =? x) eqn:E.
  - apply N.eqb_eq in E. subst. exists [], l. split; reflexivity.
  - rewrite N.eqb_sym in E. rewrite E in H. simpl in H. destruct (IH H) as [a [b [H1 H2]]]. subst l.
    exists (c :: a), b. split; [reflexivity|]. simpl. rewrite N.eqb_sym in E. rewrite E, H2. reflexivity.
Qed.

(* ---- hexadecimal escapes *)
Lemma is_hex_ranges : forall c, is_hex c = true -> (48 <= c <= 57) \/ (65 <= c <= 70) \/ (97 <= c <= 102).
Proof.
  intros c H. unfold is_hex, is_digit, inr in H.
  apply orb_true_iff in H. destruct H as [H|H]; [apply orb_true_iff in H; destruct H as [H|H]|]; b2p; lia.
Qed.
Lemma hexval_bound : forall c, is_hex c = true -> hexval c <= 15.
Proof.
  intros c H. apply is_hex_ranges in H. unfold hexval, is_digit, inr.
  destruct (48 <=? c) eqn:A, (c <=? 57) eqn:B, (65 <=? c) eqn:C, (c <=? 70) eqn:D; simpl; b2p; lia.
Qed.

Lemma hexn_split : forall k acc l x r, hexn k acc l = Some (x, r) ->
  exists hs, l = hs ++ r /\ length hs = k /\ forallb is_hex hs = true /\ forall t, hexn k acc (hs ++ t) = Some (x, t).
Proof.
  induction k as [|k IH]; intros acc l x r H; simpl in H.
  - inversion H; subst. exists []. repeat split.
  - destruct l as [|c l]; [discriminate|]. destruct (is_hex c) eqn:Hc; [|discriminate].
    destruct (IH _ _ _ _ H) as [hs [H1 [H2 [H3 H4]]]]. subst l.
    exists (c :: hs). repeat split; [simpl; congruence|simpl; rewrite Hc, H3; reflexivity|].
    intro t. simpl. rewrite Hc. apply H4.
Qed.

Lemma hexn4_bound : forall l x r, hexn 4 0 l = Some (x, r) -> x <= 65535.
Proof.
  intros l x r H.
  destruct l as [|a [|b [|c [|d l]]]]; cbn [hexn] in H;
    repeat match type of H with context [if is_hex ?z then _ else _] => destruct (is_hex z) eqn:? end; try discriminate.
  assert (Hx : x = 16 * (16 * (16 * (16 * 0 + hexval a) + hexval b) + hexval c) + hexval d) by congruence.
  repeat match goal with Hh : is_hex ?z = true |- _ => apply hexval_bound in Hh end. lia.
Qed.

(* characters an IRIREF is spelled with: the plain ones and those of \uXXXX / \UXXXXXXXX *)
Definition iri_rawc (c : N) : bool := (32 <? c) && negb ((c =? 34) || (c =? 60) || (c =? 62)).

Lemma hex_rawc : forall c, is_hex c = true -> iri_rawc c = true.
Proof.
  intros c H. apply is_hex_ranges in H. unfold iri_rawc.
  apply andb_true_iff. split; [apply N.ltb_lt; lia|].
  rewrite !eqb_false by lia. reflexivity.
Qed.
Lemma plain_rawc : forall c, iri_plain c = true -> iri_rawc c = true /\ (c =? 92) = false /\ (c =? 62) = false.
Proof.
  intros c H. destruct (iri_plain_not_delim c H) as [H62 H92].
  unfold iri_plain in H. apply andb_true_iff in H. destruct H as [H1 H2]. b2p.
  unfold iri_forbidden in H2. cbn [memN] in H2. b2p.
  repeat split; try (apply N.eqb_neq; assumption).
  unfold iri_rawc. apply andb_true_iff. split; [apply N.ltb_lt; lia|].
  rewrite !eqb_false by assumption. reflexivity.
Qed.

(* ---- decodeUnicodeEscape, one step *)
Lemma unq_plain : forall m c r, (c =? 92) = false -> rd_unquote (S m) (c :: r) = oconsv c (rd_unquote m r).
Proof. intros m c r H. cbn [rd_unquote]. rewrite H. reflexivity. Qed.
Lemma unq_echar : forall m e r v, rd_echar e = Some v ->
  rd_unquote (S m) (92 :: e :: r) = oconsv v (rd_unquote m r).
Proof. intros m e r v H. cbn [rd_unquote]. change (92 =? 92) with true. cbv iota. rewrite H. reflexivity. Qed.
Lemma unq_uchar : forall m e r x r', rd_echar e = None -> rd_uchar (e :: r) = Some (x, r') -> x <= 1114111 ->
  rd_unquote (S m) (92 :: e :: r) = oconsv x (rd_unquote m r').
Proof.
  intros m e r x r' H1 H2 H3. cbn [rd_unquote]. change (92 =? 92) with true. cbv iota.
  rewrite H1, H2. apply N.leb_le in H3. rewrite H3. reflexivity.
Qed.

(* a UCHAR the grammar accepts is spelled backslash, u or U, hex digits, and rdflib's reader resolves it alike *)
Lemma uchar_spec : forall l x r, uchar l = Some (x, r) ->
  exists e hs, l = e :: hs ++ r /\ (e = 117 \/ e = 85) /\ forallb is_hex hs = true /\ x <= 1114111 /\
               forall t, rd_uchar (e :: hs ++ t) = Some (x, t).
Proof.
  intros l x r H. destruct l as [|e l]; [discriminate|]. unfold uchar in H.
  destruct (e =? 117) eqn:E1.
  - apply N.eqb_eq in E1. subst e. pose proof (hexn4_bound _ _ _ H) as Hb.
    destruct (hexn_split _ _ _ _ _ H) as [hs [H1 [_ [H3 H4]]]]. subst l.
    exists 117, hs. split; [reflexivity|]. split; [left; reflexivity|]. split; [exact H3|]. split; [lia|].
    intro t. unfold rd_uchar. change (117 =? 117) with true. apply H4.
  - destruct (e =? 85) eqn:E2; [|discriminate]. apply N.eqb_eq in E2. subst e.
    destruct (hexn 8 0 l) as [[v r']|] eqn:Eh; [|discriminate].
    destruct (v <=? 1114111) eqn:Ev; [|discriminate]. inversion H; subst. apply N.leb_le in Ev.
    destruct (hexn_split _ _ _ _ _ Eh) as [hs [H1 [_ [H3 H4]]]]. subst l.
    exists 85, hs. split; [reflexivity|]. split; [right; reflexivity|]. split; [exact H3|]. split; [exact Ev|].
    intro t. unfold rd_uchar. change (85 =? 117) with false. change (85 =? 85) with true. apply H4.
Qed.

Lemma rd_echar_u : rd_echar 117 = None /\ rd_echar 85 = None.
Proof. split; reflexivity. Qed.

(* ---- IRIREF *)
Lemma forallb_app_intro : forall (p : N -> bool) a b, forallb p a = true -> forallb p b = true -> forallb p (a ++ b) = true.
Proof. intros. rewrite forallb_app, H, H0. reflexivity. Qed.

Lemma iri_body_raw : forall n l v r, iri_body n l = Some (v, r) ->
  exists raw, l = raw ++ 62 :: r /\ forallb iri_rawc raw = true /\
    (forall m, (length raw <= m)%nat -> rd_unquote m raw = Some v) /\
    match raw with [] => v = [] | c :: _ => c = 92 \/ exists v', v = c :: v' end.
Proof.
  induction n as [|n IH]; intros l v r H; [discriminate|].
  cbn [iri_body] in H. destruct l as [|c l]; [discriminate|].
  destruct (c =? 62) eqn:E62.
  { apply N.eqb_eq in E62. subst c. inversion H; subst. exists []. repeat split.
    intros m _. destruct m; reflexivity. }
  destruct (c =? 92) eqn:E92.
  { apply N.eqb_eq in E92. subst c.
    destruct (uchar l) as [[x r']|] eqn:Eu; [|discriminate].
    destruct (iri_body n r') as [[v' r'']|] eqn:Eb; [|discriminate]. cbn [consv] in H. inversion H; subst.
    destruct (IH _ _ _ Eb) as [raw' [H1 [H2 [H3 _]]]]. subst r'.
    destruct (uchar_spec _ _ _ Eu) as [e [hs [L1 [L2 [L3 [L4 L5]]]]]]. subst l.
    exists (92 :: e :: hs ++ raw'). split; [|split; [|split]].
    - cbn [app]. rewrite <- app_assoc. reflexivity.
    - cbn [forallb]. apply andb_true_iff. split; [reflexivity|]. apply andb_true_iff. split.
      + destruct L2; subst; reflexivity.
      + apply forallb_app_intro; [|exact H2]. apply forallb_forall. intros z Hz. apply hex_rawc.
        rewrite forallb_forall in L3. auto.
    - intros m Hm. destruct m; [simpl in Hm; lia|].
      rewrite (unq_uchar m e (hs ++ raw') x raw'); [|destruct L2; subst; reflexivity|apply L5|exact L4].
      rewrite H3; [reflexivity|]. simpl in Hm. rewrite app_length in Hm. lia.
    - left. reflexivity. }
  destruct (iri_plain c) eqn:Ep; [|discriminate].
  destruct (iri_body n l) as [[v' r'']|] eqn:Eb; [|discriminate]. cbn [consv] in H. inversion H; subst.
  destruct (IH _ _ _ Eb) as [raw' [H1 [H2 [H3 _]]]]. subst l.
  destruct (plain_rawc c Ep) as [P1 [P2 P3]].
  exists (c :: raw'). split; [reflexivity|split; [|split]].
  - cbn [forallb]. rewrite P1, H2. reflexivity.
  - intros m Hm. destruct m; [simpl in Hm; lia|]. rewrite unq_plain by exact E92.
    rewrite H3; [reflexivity|simpl in Hm; lia].
  - right. eauto.
Qed.

Lemma uri_tail_rawc : forall c, iri_rawc c = true -> uri_tail_char c = true.
Proof.
  intros c H. unfold iri_rawc in H. apply andb_true_iff in H. destruct H as [Hlt Hne].
  apply negb_true_iff in Hne. unfold uri_tail_char. apply N.ltb_lt in Hlt.
  assert (Hs : (c <=? 32) = false) by (apply N.leb_gt; lia).
  rewrite Hs. cbn [orb]. rewrite Hne. reflexivity.
Qed.

Lemma rd_uriref_raw_ok : forall raw r,
  forallb iri_rawc raw = true -> memN 58 raw = true ->
  match raw with c :: _ => (c =? 58) = false | [] => False end ->
  rd_uriref_raw (60 :: raw ++ 62 :: r) = Some (raw, r).
Proof.
  intros raw r Hc Hm Hh.
  destruct (memN_split_first 58 raw Hm) as [pre [post [E Hpre]]]. subst raw.
  destruct pre as [|p0 pre]; [cbn [app] in Hh; rewrite N.eqb_refl in Hh; discriminate|].
  unfold rd_uriref_raw. change (60 =? 60) with true. cbv iota.
  rewrite <- app_assoc. cbn [app].
  change (p0 :: pre ++ 58 :: post ++ 62 :: r) with ((p0 :: pre) ++ 58 :: (post ++ 62 :: r)).
  rewrite (span_app (fun c => negb (c =? 58)) (p0 :: pre) 58 (post ++ 62 :: r) Hpre) by reflexivity.
  rewrite forallb_app in Hc. apply andb_true_iff in Hc. destruct Hc as [_ Hc]. cbn [forallb] in Hc.
  apply andb_true_iff in Hc. destruct Hc as [_ Hc].
  assert (Hpost : forallb uri_tail_char post = true).
  { apply forallb_forall. intros c Hin. apply uri_tail_rawc. rewrite forallb_forall in Hc. auto. }
  rewrite (span_app uri_tail_char post 62 r Hpost).
  - change (62 =? 62) with true. cbv iota. reflexivity.
  - reflexivity.
Qed.

(* an IRIREF of the grammar is read by the reader's regular expression + unquote to the same IRI *)
Lemma p_iriref_rd : forall l v r, p_iriref l = Some (v, r) -> iri_raw_kf (raw_of l r) = 0 ->
  exists raw, rd_uriref_raw l = Some (raw, r) /\ unquote raw = Some v.
Proof.
  intros l v r H K. destruct l as [|c l]; [discriminate|]. unfold p_iriref in H.
  destruct (c =? 60) eqn:E; [|discriminate]. apply N.eqb_eq in E. subst c.
  unfold p_iri_tail in H. destruct (iri_body (S (length l)) l) as [[v' r']|] eqn:Eb; [|discriminate].
  destruct (has_scheme v') eqn:Hs; [|discriminate]. inversion H; subst.
  destruct (iri_body_raw _ _ _ _ Eb) as [raw [H1 [H2 [H3 H4]]]]. subst l.
  replace (60 :: raw ++ 62 :: r) with ((60 :: raw ++ [62]) ++ r) in K by (cbn [app]; rewrite <- app_assoc; reflexivity).
  rewrite raw_of_app in K. unfold iri_raw_kf in K.
  destruct (memN 58 (60 :: raw ++ [62])) eqn:Em; [|discriminate].
  cbn [memN] in Em. change (58 =? 60) with false in Em. cbn [orb] in Em. rewrite memN_app in Em.
  cbn [memN] in Em. change (58 =? 62) with false in Em. cbn [orb] in Em. rewrite orb_false_r in Em.
  exists raw. split.
  - apply rd_uriref_raw_ok; auto.
    destruct raw as [|c0 raw']; [subst v; discriminate|].
    destruct H4 as [H4|[v' H4]]; [subst; reflexivity|]. subst v.
    unfold has_scheme in Hs. apply andb_true_iff in Hs. destruct Hs as [Ha _].
    unfold is_alpha, inr in Ha. apply N.eqb_neq. apply orb_true_iff in Ha. destruct Ha; b2p; lia.
  - unfold unquote. apply H3. lia.
Qed.

(* ---- BLANK_NODE_LABEL: on ASCII the reader's two character classes are PN_CHARS_U|[0-9] and PN_CHARS|'.' *)
Lemma inr_big : forall lo hi c, c <= 127 -> 127 < lo -> inr lo hi c = false.
Proof. intros lo hi c H1 H2. unfold inr. destruct (lo <=? c) eqn:E; [b2p; lia|reflexivity]. Qed.

Ltac kill_ranges c :=
  repeat match goal with
  | |- context [inr ?lo ?hi c] => rewrite (inr_big lo hi c) by lia
  end.

Lemma ascii_first : forall c, c <= 127 -> (pn_chars_u c || is_digit c) = nid1 c.
Proof.
  intros c H. unfold pn_chars_u, pn_chars_base, nid1, is_alnum. kill_ranges c.
  destruct (is_alpha c), (is_digit c), (c =? 95), (c =? 58); reflexivity.
Qed.
Lemma ascii_label : forall c, c <= 127 -> label_char c = nid2 c.
Proof.
  intros c H. unfold label_char, pn_chars, pn_chars_u, pn_chars_base, nid2, nid1, is_alnum. kill_ranges c.
  rewrite (eqb_false c 183) by lia.
  destruct (is_alpha c), (is_digit c), (c =? 95), (c =? 58), (c =? 45), (c =? 46); reflexivity.
Qed.
Lemma nid2_ascii : forall c, nid2 c = true -> c <= 127.
Proof.
  intros c H. unfold nid2, nid1, is_alnum, is_alpha, is_digit, inr in H.
  repeat (apply orb_true_iff in H; destruct H as [H|H]); b2p; lia.
Qed.

Lemma p_bnode_rd : forall l lab r, p_bnode l = Some (lab, r) ->
  existsb (fun c => 127 <? c) (raw_of l r) = false -> rd_nodeid l = Some (lab, r).
Proof.
  intros l lab r H K. destruct l as [|u [|k [|c l]]]; try discriminate. unfold p_bnode in H.
  destruct ((u =? 95) && (k =? 58) && (pn_chars_u c || is_digit c)) eqn:E; [|discriminate].
  destruct (span label_char l) as [run rest] eqn:Es. destruct (strip_dots run) as [kk d] eqn:Ed.
  inversion H; subst lab r. clear H.
  destruct (span_spec _ _ _ _ Es) as [S1 [S2 S3]]. destruct (strip_dots_spec _ _ _ Ed) as [D1 D2]. subst l run.
  replace (u :: k :: c :: (kk ++ d) ++ rest) with ((u :: k :: c :: kk) ++ (d ++ rest)) in K
    by (cbn [app]; rewrite <- app_assoc; reflexivity).
  rewrite raw_of_app in K. cbn [existsb] in K.
  apply orb_false_iff in K. destruct K as [_ K]. apply orb_false_iff in K. destruct K as [_ K].
  apply orb_false_iff in K. destruct K as [Kc Kk]. apply N.ltb_ge in Kc.
  assert (Hrun : forall z, In z (kk ++ d) -> z <= 127).
  { intros z Hz. apply in_app_or in Hz. destruct Hz as [Hz|Hz].
    - pose proof (existsb_false_forall _ _ Kk z Hz) as Q. simpl in Q. apply N.ltb_ge in Q. exact Q.
    - rewrite forallb_forall in D2. specialize (D2 z Hz). b2p. lia. }
  unfold rd_nodeid. apply andb_true_iff in E. destruct E as [E E3]. rewrite E.
  rewrite <- (ascii_first c Kc), E3. cbn [andb].
  assert (Hs : span nid2 ((kk ++ d) ++ rest) = (kk ++ d, rest)).
  { apply span_app2'.
    - apply forallb_forall. intros z Hz. rewrite <- ascii_label by (apply Hrun; exact Hz).
      rewrite forallb_forall in S2. auto.
    - destruct rest as [|h rest']; [exact I|].
      destruct (nid2 h) eqn:Eh; [|reflexivity].
      pose proof (nid2_ascii h Eh) as Ha. rewrite <- ascii_label in Eh by exact Ha. congruence. }
  rewrite Hs, Ed. reflexivity.
Qed.

(* ---- STRING_LITERAL_QUOTE *)
Definition pre_opt (hs : str) (x : option (str * str)) : option (str * str) :=
  match x with Some (v, r) => Some (hs ++ v, r) | None => None end.

Lemma hex_not_delim : forall c, is_hex c = true -> (c =? 34) = false /\ (c =? 92) = false.
Proof. intros c H. apply is_hex_ranges in H. split; apply N.eqb_neq; lia. Qed.

Lemma lit_scan_hex_prefix : forall hs X m, forallb is_hex hs = true ->
  lit_scan (length hs + m) (hs ++ X) = pre_opt hs (lit_scan m X).
Proof.
  induction hs as [|h hs IH]; intros X m H.
  - simpl. destruct (lit_scan m X) as [[v r]|]; reflexivity.
  - cbn [forallb] in H. apply andb_true_iff in H. destruct H as [Hh H].
    destruct (hex_not_delim h Hh) as [E1 E2].
    cbn [length app Nat.add lit_scan]. rewrite E1, E2. rewrite (IH X m H).
    destruct (lit_scan m X) as [[v r]|]; reflexivity.
Qed.

Lemma echar_not_10 : forall e v, echar e = Some v -> (e =? 10) = false.
Proof.
  intros e v H. destruct (e =? 10) eqn:E; [|reflexivity]. apply N.eqb_eq in E. subst e. discriminate.
Qed.

Lemma str_body_raw : forall n l lex r1, str_body n l = Some (lex, r1) ->
  exists raw, l = raw ++ 34 :: r1 /\
    (forall m, (length l < m)%nat -> lit_scan m l = Some (raw, r1)) /\
    (forall m, (length raw <= m)%nat -> rd_unquote m raw = Some lex).
Proof.
  induction n as [|n IH]; intros l lex r1 H; [discriminate|].
  cbn [str_body] in H. destruct l as [|c l]; [discriminate|].
  destruct (c =? 34) eqn:E34.
  { apply N.eqb_eq in E34. subst c. inversion H; subst. exists []. repeat split.
    - intros m Hm. destruct m; [inversion Hm|]. reflexivity.
    - intros m _. destruct m; reflexivity. }
  destruct (c =? 92) eqn:E92.
  { apply N.eqb_eq in E92. subst c. destruct l as [|e l]; [discriminate|].
    destruct (echar e) as [x|] eqn:Ee.
    - destruct (str_body n l) as [[v' r']|] eqn:Eb; [|discriminate]. cbn [consv] in H. inversion H; subst.
      destruct (IH _ _ _ Eb) as [raw' [H1 [H2 H3]]]. subst l.
      exists (92 :: e :: raw'). split; [reflexivity|split].
      + intros m Hm. destruct m; [inversion Hm|]. cbn [lit_scan]. change (92 =? 34) with false. change (92 =? 92) with true. cbv iota.
        rewrite (echar_not_10 e x Ee). rewrite H2; [reflexivity|simpl in Hm; lia].
      + intros m Hm. destruct m; [simpl in Hm; lia|].
        rewrite (unq_echar m e raw' x) by (rewrite rd_echar_eq; exact Ee).
        rewrite H3; [reflexivity|simpl in Hm; lia].
    - destruct (uchar (e :: l)) as [[x r']|] eqn:Eu; [|discriminate].
      destruct (str_body n r') as [[v' r'']|] eqn:Eb; [|discriminate]. cbn [consv] in H. inversion H; subst.
      destruct (IH _ _ _ Eb) as [raw' [H1 [H2 H3]]]. subst r'.
      destruct (uchar_spec _ _ _ Eu) as [e' [hs [L1 [L2 [L3 [L4 L5]]]]]]. inversion L1; subst e' l. clear L1.
      exists (92 :: e :: hs ++ raw'). split; [|split].
      + cbn [app]. rewrite <- app_assoc. reflexivity.
      + intros m Hm. destruct m; [inversion Hm|]. cbn [lit_scan]. change (92 =? 34) with false. change (92 =? 92) with true. cbv iota.
        assert (E10 : (e =? 10) = false) by (destruct L2; subst; reflexivity). rewrite E10.
        simpl in Hm. rewrite app_length in Hm.
        replace m with (length hs + (m - length hs))%nat by lia.
        rewrite (lit_scan_hex_prefix hs (raw' ++ 34 :: r1) _ L3).
        rewrite H2 by lia. cbn [pre_opt]. reflexivity.
      + intros m Hm. destruct m; [simpl in Hm; lia|].
        rewrite (unq_uchar m e (hs ++ raw') x raw'); [|rewrite rd_echar_eq; exact Ee|apply L5|exact L4].
        rewrite H3; [reflexivity|]. simpl in Hm. rewrite app_length in Hm. lia. }
  destruct (is_eol c) eqn:Eeol; [discriminate|].
  destruct (str_body n l) as [[v' r']|] eqn:Eb; [|discriminate]. cbn [consv] in H. inversion H; subst.
  destruct (IH _ _ _ Eb) as [raw' [H1 [H2 H3]]]. subst l.
  exists (c :: raw'). split; [reflexivity|split].
  - intros m Hm. destruct m; [inversion Hm|]. cbn [lit_scan]. rewrite E34, E92.
    rewrite H2; [reflexivity|simpl in Hm; lia].
  - intros m Hm. destruct m; [simpl in Hm; lia|]. rewrite unq_plain by exact E92.
    rewrite H3; [reflexivity|simpl in Hm; lia].
Qed.

(* the datatype IRIREF of a literal is the only part of it a trigger looks at *)
Lemma p_literal_rd : forall r t r3, p_literal_tail r = Some (t, r3) -> object_kf (34 :: r) = 0 ->
  rd_literal (34 :: r) = Some (t, r3).
Proof.
  intros r t r3 H K. unfold p_literal_tail in H. unfold object_kf in K. cbn [starts_with tl] in K.
  change (34 =? 34) with true in K. cbv iota in K.
  destruct (str_body (S (length r)) r) as [[lex r1]|] eqn:Eb; [|discriminate].
  destruct (str_body_raw _ _ _ _ Eb) as [raw [H1 [H2 H3]]].
  unfold rd_literal. change (34 =? 34) with true. cbv iota. rewrite (H2 (S (length r))) by lia.
  assert (Hu : unquote raw = Some lex) by (unfold unquote; apply H3; lia). rewrite Hu.
  unfold p_lit_suffix in H. unfold rd_litinfo.
  destruct r1 as [|c r2]; [inversion H; reflexivity|].
  destruct (c =? 64) eqn:E64.
  { destruct (p_langtag r2) as [[lg r4]|]; [|discriminate]. inversion H; reflexivity. }
  destruct ((c =? 94) && starts_with 94 r2) eqn:E94; [|inversion H; reflexivity].
  destruct (p_iriref (tl r2)) as [[d r4]|] eqn:Ei; [|discriminate]. inversion H; subst. clear H.
  apply andb_true_iff in E94. destruct E94 as [Ec Er]. apply N.eqb_eq in Ec. subst c.
  cbn [starts_with tl] in K. change (94 =? 94) with true in K. rewrite Er in K. cbn [andb] in K.
  unfold node_kf in K.
  assert (St : starts_with 60 (tl r2) = true).
  { destruct (tl r2) as [|z zs]; [discriminate|]. unfold p_iriref in Ei. cbn [starts_with].
    destruct (z =? 60); [reflexivity|discriminate]. }
  rewrite St, Ei in K.
  destruct (p_iriref_rd _ _ _ Ei K) as [rawd [R1 R2]]. rewrite R1, R2. reflexivity.
Qed.

(* ---- subject / predicate / object / graph label *)
Lemma starts_with_cons : forall k l, starts_with k l = true -> exists r, l = k :: r.
Proof. intros k [|c r] H; [discriminate|]. simpl in H. apply N.eqb_eq in H. subst. eauto. Qed.

Lemma p_iriref_starts : forall l v r, p_iriref l = Some (v, r) -> starts_with 60 l = true.
Proof. intros [|c l] v r H; [discriminate|]. unfold p_iriref in H. simpl. destruct (c =? 60); [reflexivity|discriminate]. Qed.

Lemma rd_uriref_of : forall l v r, p_iriref l = Some (v, r) -> node_kf l = 0 -> rd_uriref l = Some (v, r).
Proof.
  intros l v r H K. unfold node_kf in K. rewrite (p_iriref_starts _ _ _ H), H in K.
  destruct (p_iriref_rd _ _ _ H K) as [raw [R1 R2]]. unfold rd_uriref. rewrite R1, R2. reflexivity.
Qed.

Lemma p_subject_rd : forall l t r, p_subject l = Some (t, r) -> node_kf l = 0 -> rd_node l = Some (t, r).
Proof.
  intros l t r H K. unfold p_subject in H. unfold rd_node.
  destruct (starts_with 60 l) eqn:E60.
  - destruct (p_iriref l) as [[v r']|] eqn:Ei; [|discriminate]. cbn [omap] in H. inversion H; subst.
    rewrite (rd_uriref_of _ _ _ Ei K). reflexivity.
  - destruct (starts_with 95 l) eqn:E95; [|discriminate].
    destruct (p_bnode l) as [[v r']|] eqn:Eb; [|discriminate]. cbn [omap] in H. inversion H; subst.
    unfold node_kf in K. rewrite E60, Eb in K.
    destruct (existsb (fun c => 127 <? c) (raw_of l r)) eqn:Ex; [discriminate|].
    rewrite (p_bnode_rd _ _ _ Eb Ex). reflexivity.
Qed.

Lemma p_subject_starts : forall l t r, p_subject l = Some (t, r) ->
  (starts_with 60 l || starts_with 95 l) = true /\ starts_with 34 l = false /\ starts_with 35 l = false /\ starts_with 46 l = false.
Proof.
  intros l t r H. unfold p_subject in H.
  destruct (starts_with 60 l) eqn:E60.
  - destruct (starts_with_cons _ _ E60) as [x E]. subst. repeat split.
  - destruct (starts_with 95 l) eqn:E95; [|discriminate].
    destruct (starts_with_cons _ _ E95) as [x E]. subst. repeat split.
Qed.

Lemma p_object_rd : forall l t r, p_object l = Some (t, r) -> object_kf l = 0 -> rd_object l = Some (t, r).
Proof.
  intros l t r H K. unfold p_object in H. unfold rd_object.
  destruct (starts_with 34 l) eqn:E34.
  - destruct (starts_with_cons _ _ E34) as [x E]. subst l. cbn [tl] in H.
    change (starts_with 60 (34 :: x)) with false. change (starts_with 95 (34 :: x)) with false. cbn [orb].
    change (starts_with 34 (34 :: x)) with true. cbv iota. apply p_literal_rd; assumption.
  - destruct (p_subject_starts _ _ _ H) as [S1 _]. rewrite S1.
    unfold object_kf in K. rewrite E34 in K. apply p_subject_rd; assumption.
Qed.

(* ---- the end of the statement *)
Lemma skip_ws_idem : forall l, skip_ws (skip_ws l) = skip_ws l.
Proof.
  induction l as [|c l IH]; [reflexivity|]. simpl. destruct (is_ws c) eqn:E; [exact IH|]. simpl. rewrite E. reflexivity.
Qed.

Lemma drop_to_eol_nil : forall l, drop_to_eol l = [] -> existsb (fun x => x =? 10) l = false.
Proof.
  induction l as [|c l IH]; intro H; [reflexivity|]. simpl in H.
  destruct (is_eol c) eqn:E; [discriminate|]. simpl. rewrite (IH H).
  unfold is_eol in E. apply orb_false_iff in E. destruct E as [E _]. rewrite E. reflexivity.
Qed.

Lemma rd_tail_of : forall r r5, p_end r = Some r5 -> skip_comment r5 = [] -> rd_tail r = true.
Proof.
  intros r r5 H C. unfold p_end in H. unfold rd_tail.
  destruct (skip_ws r) as [|c r'] eqn:E; [discriminate|].
  destruct (c =? 46) eqn:Ec; [|discriminate]. inversion H; subst r'. cbn [andb].
  unfold skip_comment in C. destruct (skip_ws r5) as [|c' r''] eqn:E5; [reflexivity|].
  destruct (starts_with 35 (c' :: r'')) eqn:Es; [|discriminate].
  cbn [starts_with] in Es. rewrite Es. cbn [andb].
  cbn [drop_to_eol] in C. destruct (is_eol c'); [discriminate|].
  rewrite (drop_to_eol_nil _ C). reflexivity.
Qed.

(* ---- the statement *)
Theorem reads_legal_statement : forall nq l q rest,
  p_statement nq l = Some (q, rest) -> skip_comment rest = [] -> line_kf nq l = 0 ->
  rd_parseline nq l = Some (Some q).
Proof.
  intros nq l q rest H C K. unfold p_statement in H. unfold line_kf in K. cbv zeta in K.
  destruct (p_subject (skip_ws l)) as [[s r1]|] eqn:Es; [|discriminate].
  destruct (p_predicate (skip_ws r1)) as [[p r2]|] eqn:Ep; [|discriminate].
  destruct (p_object (skip_ws r2)) as [[o r3]|] eqn:Eo; [|discriminate].
  pose proof (first_nz_zero _ K) as Z.
  assert (K1 : node_kf (skip_ws l) = 0) by (apply Z; simpl; tauto).
  assert (K2 : node_kf (skip_ws r1) = 0) by (apply Z; simpl; tauto).
  assert (K3 : object_kf (skip_ws r2) = 0) by (apply Z; simpl; tauto).
  assert (K4 : (if nq then node_kf (skip_ws r3) else 0) = 0) by (apply Z; simpl; tauto).
  unfold rd_parseline. cbv zeta.
  destruct (p_subject_starts _ _ _ Es) as [_ [_ [S35 _]]].
  destruct (skip_ws l) as [|c0 l0] eqn:El; [discriminate|].
  cbn [starts_with] in S35. rewrite S35.
  rewrite (p_subject_rd _ _ _ Es K1). unfold eat_sep.
  unfold p_predicate in Ep. destruct (p_iriref (skip_ws r1)) as [[pv r2']|] eqn:Ei; [|discriminate].
  cbn [omap] in Ep. inversion Ep; subst p r2'. clear Ep.
  rewrite (p_iriref_starts _ _ _ Ei). rewrite (rd_uriref_of _ _ _ Ei K2). cbn [omap].
  rewrite (p_object_rd _ _ _ Eo K3).
  destruct (p_end r3) as [r5|] eqn:Ee.
  - inversion H; subst q rest. clear H.
    pose proof (rd_tail_of _ _ Ee C) as T.
    destruct nq; [|rewrite T; reflexivity].
    unfold p_end in Ee. destruct (skip_ws r3) as [|c3 r3'] eqn:E3; [discriminate|].
    destruct (c3 =? 46) eqn:E46; [|discriminate]. apply N.eqb_eq in E46. subst c3.
    change (starts_with 60 (46 :: r3')) with false. change (starts_with 95 (46 :: r3')) with false. cbn [orb].
    assert (T' : rd_tail (46 :: r3') = true).
    { unfold rd_tail in *. rewrite E3 in T. rewrite <- E3, skip_ws_idem, E3. exact T. }
    rewrite T'. reflexivity.
  - destruct nq; [|discriminate].
    destruct (p_subject (skip_ws r3)) as [[g r5]|] eqn:Eg; [|discriminate].
    destruct (p_end r5) as [r6|] eqn:Ee6; [|discriminate]. inversion H; subst q rest. clear H.
    destruct (p_subject_starts _ _ _ Eg) as [G1 _]. rewrite G1.
    rewrite (p_subject_rd _ _ _ Eg K4). rewrite (rd_tail_of _ _ Ee6 C). reflexivity.
Qed.

(* ---- what a parser leaves is a suffix of what it was given *)
Definition suffix (r l : str) : Prop := exists p, l = p ++ r.
Lemma suffix_refl : forall l, suffix l l. Proof. intro l. exists []. reflexivity. Qed.
Lemma suffix_trans : forall a b c, suffix a b -> suffix b c -> suffix a c.
Proof. intros a b c [p H1] [q H2]. subst. exists (q ++ p). rewrite app_assoc. reflexivity. Qed.
Lemma suffix_cons : forall c r l, suffix r l -> suffix r (c :: l).
Proof. intros c r l [p H]. subst. exists (c :: p). reflexivity. Qed.
Lemma suffix_tl : forall r l, suffix r (tl l) -> suffix r l.
Proof. intros r [|c l] H; [exact H|apply suffix_cons; exact H]. Qed.

Lemma skip_ws_suffix : forall l, suffix (skip_ws l) l.
Proof.
  induction l as [|c l IH]; [apply suffix_refl|]. simpl. destruct (is_ws c); [apply suffix_cons; exact IH|apply suffix_refl].
Qed.
Lemma drop_to_eol_suffix : forall l, suffix (drop_to_eol l) l.
Proof.
  induction l as [|c l IH]; [apply suffix_refl|]. simpl. destruct (is_eol c); [apply suffix_refl|apply suffix_cons; exact IH].
Qed.
Lemma skip_comment_suffix : forall l, suffix (skip_comment l) l.
Proof.
  intro l. unfold skip_comment. destruct (starts_with 35 (skip_ws l)).
  - eapply suffix_trans; [apply drop_to_eol_suffix|apply skip_ws_suffix].
  - apply skip_ws_suffix.
Qed.

Lemma p_iriref_suffix : forall l v r, p_iriref l = Some (v, r) -> suffix r l.
Proof.
  intros l v r H. destruct l as [|c l]; [discriminate|]. unfold p_iriref in H.
  destruct (c =? 60); [|discriminate]. unfold p_iri_tail in H.
  destruct (iri_body (S (length l)) l) as [[v' r']|] eqn:Eb; [|discriminate].
  destruct (has_scheme v'); [|discriminate]. inversion H; subst.
  destruct (iri_body_raw _ _ _ _ Eb) as [raw [H1 _]]. subst l.
  exists (c :: raw ++ [62]). cbn [app]. rewrite <- app_assoc. reflexivity.
Qed.
Lemma p_bnode_suffix : forall l v r, p_bnode l = Some (v, r) -> suffix r l.
Proof.
  intros l v r H. destruct l as [|u [|k [|c l]]]; try discriminate. unfold p_bnode in H.
  destruct ((u =? 95) && (k =? 58) && (pn_chars_u c || is_digit c)); [|discriminate].
  destruct (span label_char l) as [run rest] eqn:Es. destruct (strip_dots run) as [kk d] eqn:Ed.
  inversion H; subst. destruct (span_spec _ _ _ _ Es) as [S1 _]. destruct (strip_dots_spec _ _ _ Ed) as [D1 _]. subst.
  exists (u :: k :: c :: kk). cbn [app]. rewrite <- app_assoc. reflexivity.
Qed.
Lemma p_subject_suffix : forall l t r, p_subject l = Some (t, r) -> suffix r l.
Proof.
  intros l t r H. unfold p_subject in H. destruct (starts_with 60 l).
  - destruct (p_iriref l) as [[v r']|] eqn:E; [|discriminate]. inversion H; subst. eapply p_iriref_suffix; eauto.
  - destruct (starts_with 95 l); [|discriminate].
    destruct (p_bnode l) as [[v r']|] eqn:E; [|discriminate]. inversion H; subst. eapply p_bnode_suffix; eauto.
Qed.
Lemma subtags_suffix : forall n l st r, subtags n l = (st, r) -> suffix r l.
Proof.
  induction n as [|n IH]; intros l st r H; simpl in H; [inversion H; apply suffix_refl|].
  destruct l as [|c l]; [inversion H; apply suffix_refl|].
  destruct (c =? 45); [|inversion H; apply suffix_refl].
  destruct (span is_alnum l) as [run rest] eqn:Es. destruct run as [|x run]; [inversion H; apply suffix_refl|].
  destruct (subtags n rest) as [more rest'] eqn:Et. inversion H; subst.
  destruct (span_spec _ _ _ _ Es) as [S1 _]. apply suffix_cons. eapply suffix_trans; [eapply IH; eauto|].
  subst l. exists (x :: run). reflexivity.
Qed.
Lemma p_langtag_suffix : forall l lg r, p_langtag l = Some (lg, r) -> suffix r l.
Proof.
  intros l lg r H. unfold p_langtag in H. destruct (span is_alpha l) as [prim r0] eqn:Es.
  destruct prim as [|x prim]; [discriminate|]. destruct (subtags (length r0) r0) as [st r'] eqn:Et. inversion H; subst.
  destruct (span_spec _ _ _ _ Es) as [S1 _]. eapply suffix_trans; [eapply subtags_suffix; eauto|].
  subst l. exists (x :: prim). reflexivity.
Qed.
Lemma p_object_suffix : forall l t r, p_object l = Some (t, r) -> suffix r l.
Proof.
  intros l t r H. unfold p_object in H. destruct (starts_with 34 l); [|eapply p_subject_suffix; eauto].
  apply suffix_tl. unfold p_literal_tail in H.
  destruct (str_body (S (length (tl l))) (tl l)) as [[lex r1]|] eqn:Eb; [|discriminate].
  destruct (str_body_raw _ _ _ _ Eb) as [raw [H1 _]].
  assert (S1 : suffix r1 (tl l)). { rewrite H1. exists (raw ++ [34]). rewrite <- app_assoc. reflexivity. }
  eapply suffix_trans; [|exact S1]. unfold p_lit_suffix in H.
  destruct r1 as [|c r2]; [inversion H; apply suffix_refl|].
  destruct (c =? 64).
  - destruct (p_langtag r2) as [[lg r4]|] eqn:El; [|discriminate]. inversion H; subst.
    apply suffix_cons. eapply p_langtag_suffix; eauto.
  - destruct ((c =? 94) && starts_with 94 r2); [|inversion H; apply suffix_refl].
    destruct (p_iriref (tl r2)) as [[d r4]|] eqn:Ei; [|discriminate]. inversion H; subst.
    apply suffix_cons. apply suffix_tl. eapply p_iriref_suffix; eauto.
Qed.
Lemma p_end_suffix : forall r r5, p_end r = Some r5 -> suffix r5 r.
Proof.
  intros r r5 H. unfold p_end in H. destruct (skip_ws r) as [|c r'] eqn:E; [discriminate|].
  destruct (c =? 46); [|discriminate]. inversion H; subst.
  eapply suffix_trans; [|apply skip_ws_suffix]. rewrite E. apply suffix_cons, suffix_refl.
Qed.
Lemma p_statement_suffix : forall nq l q rest, p_statement nq l = Some (q, rest) -> suffix rest l.
Proof.
  intros nq l q rest H. unfold p_statement in H.
  destruct (p_subject (skip_ws l)) as [[s r1]|] eqn:Es; [|discriminate].
  destruct (p_predicate (skip_ws r1)) as [[p r2]|] eqn:Ep; [|discriminate].
  destruct (p_object (skip_ws r2)) as [[o r3]|] eqn:Eo; [|discriminate].
  assert (S3 : suffix r3 l).
  { eapply suffix_trans; [eapply p_object_suffix; eauto|]. eapply suffix_trans; [apply skip_ws_suffix|].
    unfold p_predicate in Ep. destruct (p_iriref (skip_ws r1)) as [[pv r2']|] eqn:Ei; [|discriminate]. inversion Ep; subst.
    eapply suffix_trans; [eapply p_iriref_suffix; eauto|]. eapply suffix_trans; [apply skip_ws_suffix|].
    eapply suffix_trans; [eapply p_subject_suffix; eauto|]. apply skip_ws_suffix. }
  destruct (p_end r3) as [r5|] eqn:Ee.
  - inversion H; subst. eapply suffix_trans; [eapply p_end_suffix; eauto|exact S3].
  - destruct nq; [|discriminate].
    destruct (p_subject (skip_ws r3)) as [[g r5]|] eqn:Eg; [|discriminate].
    destruct (p_end r5) as [r6|] eqn:Ee6; [|discriminate]. inversion H; subst.
    eapply suffix_trans; [eapply p_end_suffix; eauto|]. eapply suffix_trans; [eapply p_subject_suffix; eauto|].
    eapply suffix_trans; [apply skip_ws_suffix|exact S3].
Qed.

(* ---- one line, as readline() hands it to parseline(): no CR, no LF *)
Definition no_eol (l : str) : bool := forallb (fun c => negb (is_eol c)) l.
Lemma no_eol_suffix : forall r l, suffix r l -> no_eol l = true -> no_eol r = true.
Proof. intros r l [p H] N. subst. unfold no_eol in *. rewrite forallb_app in N. apply andb_true_iff in N. tauto. Qed.

Lemma skip_ws_kf : forall nq l, line_kf nq (skip_ws l) = line_kf nq l.
Proof. intros nq l. unfold line_kf. rewrite skip_ws_idem. reflexivity. Qed.
Lemma rd_parseline_skip : forall nq l, rd_parseline nq (skip_ws l) = rd_parseline nq l.
Proof. intros nq l. unfold rd_parseline. rewrite skip_ws_idem. reflexivity. Qed.
Lemma p_statement_skip : forall nq l, p_statement nq (skip_ws l) = p_statement nq l.
Proof. intros nq l. unfold p_statement. rewrite skip_ws_idem. reflexivity. Qed.

Theorem reads_legal_line : forall nq l q,
  no_eol l = true -> strict_parse nq l = Some q -> line_kf nq l = 0 -> rd_parseline nq l = Some (Some q).
Proof.
  intros nq l q N H K. unfold strict_parse, strict_doc in H.
  destruct (p_doc (S (length l)) nq l) as [[|q' [|q'' qs]]|] eqn:Ed; try discriminate. inversion H; subst q'. clear H.
  cbn [p_doc] in Ed.
  destruct (skip_ws l) as [|c r] eqn:El; [discriminate|].
  assert (Nc : no_eol (c :: r) = true) by (rewrite <- El; eapply no_eol_suffix; [apply skip_ws_suffix|exact N]).
  assert (Ec : is_eol c = false).
  { unfold no_eol in Nc. cbn [forallb] in Nc. apply andb_true_iff in Nc. destruct Nc as [Nc _]. apply negb_true_iff in Nc. exact Nc. }
  rewrite Ec in Ed.
  destruct (c =? 35) eqn:E35.
  { exfalso. assert (Dn : drop_to_eol r = []).
    { assert (Nr : no_eol r = true) by (eapply no_eol_suffix; [apply suffix_cons, suffix_refl|exact Nc]).
      clear -Nr. induction r as [|x r IH]; [reflexivity|]. unfold no_eol in Nr. cbn [forallb] in Nr.
      apply andb_true_iff in Nr. destruct Nr as [A B]. apply negb_true_iff in A. simpl. rewrite A. apply IH. exact B. }
    rewrite Dn in Ed. destruct (length l); simpl in Ed; discriminate. }
  destruct (p_statement nq (c :: r)) as [[q0 rest]|] eqn:Es; [|discriminate].
  assert (Sr : suffix (skip_comment rest) (c :: r)).
  { eapply suffix_trans; [apply skip_comment_suffix|eapply p_statement_suffix; eauto]. }
  destruct (skip_comment rest) as [|c' r4] eqn:Ec'.
  - inversion Ed; subst q0.
    rewrite <- rd_parseline_skip, El. apply (reads_legal_statement nq (c :: r) q rest Es Ec').
    rewrite <- El, skip_ws_kf. exact K.
  - exfalso. pose proof (no_eol_suffix _ _ Sr Nc) as Nn. unfold no_eol in Nn. cbn [forallb] in Nn.
    apply andb_true_iff in Nn. destruct Nn as [A _]. apply negb_true_iff in A. rewrite A in Ed. discriminate.
Qed.
