(* C05, first half for the line syntaxes: rdflib's N-Triples / N-Quads reader.

   Executable model of rdflib/plugins/parsers/ntriples.py (W3CNTriplesParser:
   readline, parseline, subject, predicate, object, uriref, nodeid, literal,
   eat/peek with the module's regular expressions, unquote with validate =
   False), rdflib/plugins/parsers/nquads.py (NQuadsParser.parseline) and
   rdflib/compat.py (decodeUnicodeEscape).  Each regular expression is modelled
   by the deterministic scanner that Python's backtracking matcher amounts to for
   it (argued next to each definition); the expressions themselves are reflected
   from the source into Gen/Tables_c05.v and pinned in ReaderProofs.v.

   Blank nodes keep their document labels (the harness passes a bnode_context and
   maps rdflib's fresh nodes back).  Literal(lex, lang, datatype) is taken to keep
   lex (rdflib.NORMALIZE_LITERALS rewrites ill-formed lexical forms of datatypes
   it knows: the generator does not produce them).
   No proofs in this file. *)
From RV Require Export Grammar.Model.
Local Open Scope N_scope.

Definition py_isspace (c : N) : bool := memN c py_isspace_chars.     (* str.isspace, per character *)

(* compat.decodeUnicodeEscape: _turtle_escape_pattern.sub(...) - leftmost,
   non-overlapping; a backslash that starts no ECHAR/UCHAR is kept.
   None = chr() raised ValueError (code point above 0x10FFFF). *)
Fixpoint assocN (k : N) (l : list (N * N)) : option N :=
  match l with [] => None | (a, b) :: r => if k =? a then Some b else assocN k r end.
Definition rd_echar (c : N) : option N :=
  if memN c [116; 98; 110; 114; 102; 34; 39; 92] then assocN c string_escape_map else None.
Definition rd_uchar (l : str) : option (N * str) :=
  match l with
  | c :: r => if c =? 117 then hexn 4 0 r else if c =? 85 then hexn 8 0 r else None
  | [] => None
  end.
Definition oconsv (c : N) (x : option str) : option str :=
  match x with Some v => Some (c :: v) | None => None end.
Fixpoint rd_unquote (fuel : nat) (l : str) : option str :=
  match fuel with
  | O => Some []
  | S f =>
    match l with
    | [] => Some []
    | c :: r =>
        if c =? 92 then
          match r with
          | e :: r' =>
              match rd_echar e with
              | Some v => oconsv v (rd_unquote f r')
              | None =>
                  match rd_uchar r with
                  | Some (v, r'') => if v <=? 1114111 then oconsv v (rd_unquote f r'') else None
                  | None => oconsv 92 (rd_unquote f r)
                  end
              end
          | [] => Some [92]
          end
        else oconsv c (rd_unquote f r)
    end
  end.
Definition unquote (l : str) : option str := rd_unquote (length l) l.

(* r_uriref = LT ( [^:]+ : [^\x00-\x20 DQUOTE LT GT]* ) GT (see nt_uriref_src; since 4d2427e4 the second class excludes
   the characters up to U+0020 instead of Python's \s): [^:]+ stops at the first colon (no shorter
   prefix is followed by a colon), the second class stops at the first excluded
   character (no shorter run is followed by '>'): no backtracking can succeed
   where the greedy scan fails. *)
Definition uri_tail_char (c : N) : bool :=
  negb ((c <=? 32) || (c =? 34) || (c =? 60) || (c =? 62)).
Definition rd_uriref_raw (l : str) : option (str * str) :=
  match l with
  | c :: r =>
      if c =? 60 then
        let '(pre, r1) := span (fun c => negb (c =? 58)) r in
        match pre, r1 with
        | _ :: _, _ :: r2 =>
            let '(run, r3) := span uri_tail_char r2 in
            match r3 with
            | c3 :: r4 => if c3 =? 62 then Some (pre ++ 58 :: run, r4) else None
            | [] => None
            end
        | _, _ => None
        end
      else None
  | [] => None
  end.
(* uriref(): eat(r_uriref).group(1), unquote, uriquote (identity when validate is False), URI(...) *)
Definition rd_uriref (l : str) : option (str * str) :=
  match rd_uriref_raw l with
  | Some (raw, r) => match unquote raw with Some v => Some (v, r) | None => None end
  | None => None
  end.

(* r_nodeid = _: ( [A-Za-z0-9_:] ( [-A-Za-z0-9_:\.]* [-A-Za-z0-9_:] )? ) : the greedy run of the
   second class, cut back to its last character that is not a dot *)
Definition nid1 (c : N) : bool := is_alnum c || (c =? 95) || (c =? 58).
Definition nid2 (c : N) : bool := nid1 c || (c =? 45) || (c =? 46).
Definition rd_nodeid (l : str) : option (str * str) :=
  match l with
  | u :: k :: c :: r =>
      if (u =? 95) && (k =? 58) && nid1 c then
        let '(run, rest) := span nid2 r in
        let '(lab, d) := strip_dots run in Some (c :: lab, d ++ rest)
      else None
  | _ => None
  end.

(* literal = DQUOTE ( [^ DQUOTE \\]* (?: \\. [^ DQUOTE \\]* )* ) DQUOTE : up to the first quote that is not
   the character after a backslash; the dot is any character but a line feed *)
Fixpoint lit_scan (fuel : nat) (l : str) : option (str * str) :=
  match fuel with
  | O => None
  | S f =>
    match l with
    | [] => None
    | c :: r =>
        if c =? 34 then Some ([], r)
        else if c =? 92 then
          match r with
          | e :: r' => if e =? 10 then None
                       else match lit_scan f r' with Some (v, x) => Some (92 :: e :: v, x) | None => None end
          | [] => None
          end
        else consv c (lit_scan f r)
    end
  end.
(* litinfo = (?: @ ( [a-zA-Z]+ (?: - [a-zA-Z0-9]+ )* ) | \^\^ uriref )? ; the optional group matches the
   empty string when neither branch does *)
Definition rd_litinfo (r1 : str) : option (lkind * str) :=
  match r1 with
  | c :: r2 =>
      if c =? 64 then
        match p_langtag r2 with
        | Some (lg, r3) => Some (LLang lg, r3)
        | None => Some (LPlain, r1)
        end
      else if (c =? 94) && starts_with 94 r2 then
        match rd_uriref_raw (tl r2) with
        | Some (raw, r3) => match unquote raw with Some d => Some (LDt d, r3) | None => None end
        | None => Some (LPlain, r1)
        end
      else Some (LPlain, r1)
  | [] => Some (LPlain, r1)
  end.
Definition rd_literal (l : str) : option (term * str) :=
  match l with
  | c :: r =>
      if c =? 34 then
        match lit_scan (S (length r)) r with
        | Some (raw, r1) =>
            match rd_litinfo r1 with
            | Some (k, r2) => match unquote raw with Some lex => Some (Lit lex k, r2) | None => None end
            | None => None
            end
        | None => None
        end
      else None
  | [] => None
  end.

(* subject(): self.uriref() or self.nodeid(); peek selects, a failing eat raises *)
Definition rd_node (l : str) : option (term * str) :=
  if starts_with 60 l then omap Iri (rd_uriref l)
  else if starts_with 95 l then omap Bn (rd_nodeid l)
  else None.
Definition rd_object (l : str) : option (term * str) :=
  if starts_with 60 l || starts_with 95 l then rd_node l
  else if starts_with 34 l then rd_literal l
  else None.
(* eat(r_wspace): [ \t]* between the terms, in both parsers (N-Triples since 4cbe7459) *)
Definition eat_sep (nq : bool) (l : str) : option str := Some (skip_ws l).
(* eat(r_tail) then [if self.line: raise] ; r_tail = [ \t]* \. [ \t]* (#.* )? *)
Definition rd_tail (l : str) : bool :=
  match skip_ws l with
  | c :: r => (c =? 46) &&
              match skip_ws r with
              | [] => true
              | c' :: r' => (c' =? 35) && negb (existsb (fun x => x =? 10) r')
              end
  | [] => false
  end.

(* parseline: Some None = nothing on this line, Some (Some q) = one statement, None = ParseError *)
Definition rd_parseline (nq : bool) (line : str) : option (option quad) :=
  let l0 := skip_ws line in
  match l0 with
  | [] => Some None
  | c :: _ =>
    if c =? 35 then Some None else
    match rd_node l0 with
    | Some (s, r1) =>
      match eat_sep nq r1 with
      | Some r1' =>
        match (if starts_with 60 r1' then omap Iri (rd_uriref r1') else None) with
        | Some (p, r2) =>
          match eat_sep nq r2 with
          | Some r2' =>
            match rd_object r2' with
            | Some (o, r3) =>
                if nq then
                  let r3' := skip_ws r3 in
                  if starts_with 60 r3' || starts_with 95 r3' then
                    match rd_node r3' with
                    | Some (g, r4) => if rd_tail r4 then Some (Some (s, p, o, Some g)) else None
                    | None => None
                    end
                  else if rd_tail r3' then Some (Some (s, p, o, None)) else None
                else if rd_tail r3 then Some (Some (s, p, o, None)) else None
            | None => None
            end
          | None => None
          end
        | None => None
        end
      | None => None
      end
    | None => None
    end
  end.

(* readline: lines end in CR LF, CR or LF.  The model cuts at every CR and every LF;
   for CR LF this yields one extra empty line, on which parseline returns at once.
   The unterminated last piece is parsed unless it is empty or str.isspace(). *)
Fixpoint split_eol (l : str) : list str * str :=     (* terminated lines, unterminated rest *)
  match l with
  | [] => ([], [])
  | c :: r => let '(ls, last) := split_eol r in
              if is_eol c then ([] :: ls, last)
              else match ls with
                   | [] => ([], c :: last)
                   | x :: ls' => ((c :: x) :: ls', last)
                   end
  end.
Fixpoint rd_lines (nq : bool) (ls : list str) : option (list quad) :=
  match ls with
  | [] => Some []
  | l :: r => match rd_parseline nq l with
              | Some None => rd_lines nq r
              | Some (Some q) => match rd_lines nq r with Some qs => Some (q :: qs) | None => None end
              | None => None
              end
  end.
Definition rd_doc (nq : bool) (d : str) : option (list quad) :=
  let '(ls, last) := split_eol d in
  rd_lines nq (if forallb py_isspace last then ls else ls ++ [last]).

(* ------------------------------------------------------------ case / observation / checker *)
(* expect: Some true = the document is legal (generated by the independent writer, or a W3C positive
   syntax test), Some false = W3C negative syntax test; meaning: the quads the writer was given *)
Record rcase := { r_nq : bool; r_doc : str; r_legal : bool; r_meaning : option (list quad) }.
Definition robs := option (list quad).            (* None = parse() raised *)

Definition rd_model_obs (c : rcase) : robs := rd_doc (r_nq c) (r_doc c).

(* language tags are compared case-insensitively (RDF 1.1 Concepts 3.3) *)
Definition lower (c : N) : N := if inr 65 90 c then c + 32 else c.
Definition norm_term (t : term) : term :=
  match t with Lit lex (LLang l) => Lit lex (LLang (map lower l)) | _ => t end.
Definition norm_quad (q : quad) : quad :=
  let '(s, p, o, g) := q in (s, p, norm_term o, g).
Definition qs_equiv (a b : list quad) : bool := qset_eqb (map norm_quad a) (map norm_quad b).
Definition robs_eqb (a b : robs) : bool :=
  match a, b with
  | None, None => true
  | Some x, Some y => qs_equiv x y
  | _, _ => false
  end.

(* the strict reader decides: a legal document must be read, to the quads it means there;
   the independent writer's document must be legal and mean what the writer was given *)
Definition rd_spec_ok (c : rcase) (o : robs) : bool :=
  match strict_doc (r_nq c) (r_doc c) with
  | Some qs =>
      r_legal c &&
      (match r_meaning c with Some m => qs_equiv qs m | None => true end) &&
      (match o with Some got => qs_equiv got qs | None => false end)
  | None => negb (r_legal c)
  end.

(* finding triggers, computed on the text with the strict sub-parsers:
   6 C05f  a blank node label with a character outside ASCII
   8 C05h  an IRIREF none of whose colons is written as such (all are UCHARs)
   (repaired: 5 C05e, white space required after subject and predicate in N-Triples, 4cbe7459;
    7 C05g, raw Unicode white space in an IRIREF, 4d2427e4) *)
Definition raw_of (l r : str) : str := firstn (length l - length r) l.
Definition iri_raw_kf (raw : str) : N :=
  (* raw = '<' ... '>' ; the reader's [^:]+: needs some colon written as such *)
  if memN 58 raw then 0 else 8.
(* l: the input where a subject / predicate / graph label / datatype IRIREF starts *)
Definition node_kf (l : str) : N :=
  if starts_with 60 l then
    match p_iriref l with Some (_, r) => iri_raw_kf (raw_of l r) | None => 0 end
  else
    match p_bnode l with
    | Some (_, r) => if existsb (fun c => 127 <? c) (raw_of l r) then 6 else 0
    | None => 0
    end.
Definition object_kf (l : str) : N :=
  if starts_with 34 l then
    match str_body (S (length (tl l))) (tl l) with
    | Some (_, r1) => if starts_with 94 r1 && starts_with 94 (tl r1) then node_kf (tl (tl r1)) else 0
    | None => 0
    end
  else node_kf l.
Definition line_kf (nq : bool) (l : str) : N :=
  let l0 := skip_ws l in
  match p_subject l0 with
  | Some (_, r1) =>
    match p_predicate (skip_ws r1) with
    | Some (_, r2) =>
      match p_object (skip_ws r2) with
      | Some (_, r3) =>
          first_nz [node_kf l0; node_kf (skip_ws r1); object_kf (skip_ws r2);
                    if nq then node_kf (skip_ws r3) else 0]
      | None => 0
      end
    | None => 0
    end
  | None => 0
  end.
Definition rd_kf (c : rcase) : N :=
  let '(ls, last) := split_eol (r_doc c) in
  first_nz (map (line_kf (r_nq c)) (ls ++ [last])).
