(* C05, Turtle term level: IRIREF.
   Part M  MODEL of the '<' branch of SinkParser.uri_ref2 (notation3.py): argstr.find('>'), the TWO substitution passes
           unicodeEscape8.sub(unicodeExpand, .) then unicodeEscape4.sub(unicodeExpand, .), join with the base, the
           trailing-'#' patch.
   Part S  SPECIFICATION: Turtle 1.1 [18] IRIREF ::= '<' ([^#x00-#x20<>DQUOTE{}|^`\] | UCHAR)* '>' with its denotation
           (Model.iri_body; no "absolute" requirement here: a Turtle IRIREF may be relative and is resolved with
           RFC 3986 5.2, Resolve.rdf_resolve).
   No proofs in this file. *)
From RV Require Export Grammar.Model Grammar.Resolve Grammar.TurtleStr.
Local Open Scope N_scope.

(* reg.sub(unicodeExpand, s) for reg = backslash, [letter], exactly k hexadecimal digits: leftmost, non-overlapping;
   unicodeExpand raises for a code point above 0x10FFFF (None) *)
Definition ocons (c : N) (x : option str) : option str := match x with Some v => Some (c :: v) | None => None end.
Fixpoint usub (fuel k : nat) (letter : N) (l : str) : option str :=
  match fuel with
  | O => Some []
  | S f =>
    match l with
    | [] => Some []
    | c :: r =>
      if (c =? BSL) && starts_with letter r then
        match hexn k 0 (tl r) with
        | Some (x, r') => if x <=? 1114111 then ocons x (usub f k letter r') else None
        | None => ocons c (usub f k letter r)
        end
      else ocons c (usub f k letter r)
    end
  end.
Definition two_pass (raw : str) : option str :=
  match usub (length raw) 8 85 raw with
  | Some mid => usub (length mid) 4 117 mid
  | None => None
  end.

(* input: what follows '<'.  Some (iri, rest) | None (BadSyntax / AssertionError / ValueError) *)
Definition n3_iriref (base : option str) (l : str) : option (str * str) :=
  let '(raw, r) := span (fun c => negb (c =? 62)) l in
  match r with
  | [] => None                                           (* unterminated URI reference *)
  | _ :: rest =>
    match two_pass raw with
    | None => None
    | Some uref =>
      let joined : option str :=
        match base with
        | Some (b0 :: b) => match m_join (b0 :: b) uref with JOk t => Some t | _ => None end
        | _ => if memN COLON uref then Some uref else None    (* assert ":" in uref *)
        end in
      match joined with
      | None => None
      | Some t =>
        (* if argstr[i - 1] == "#" and not uref[-1:] == "#": uref += "#" ; argstr[i-1] is '<' when raw is empty *)
        let t' := if (last raw 60 =? HASH) && negb (last t 0 =? HASH) then t ++ [HASH] else t in
        Some (t', rest)
      end
    end
  end.

(* ---- case / observation / checker for the correspondence suite "tterm" *)
Record icase := { i_base : option str; i_text : str }.          (* the text after '<' *)
Definition iobs := option (str * str).
Definition i_model (c : icase) : iobs := n3_iriref (i_base c) (i_text c).
(* a legal IRIREF whose denotation has no backslash, with a well-formed hierarchical base, is read to the RFC 3986
   resolution of its denotation *)
Definition i_spec_ok (c : icase) (o : iobs) : bool :=
  match iri_body (S (length (i_text c))) (i_text c), i_base c with
  | Some (v, rest), Some b =>
      if negb (memN BSL v) && base_ok b && (hierarchical b || same_document v) && negb (match b with [] => true | _ => false end) then
        match rdf_resolve b v, o with
        | Some t, Some (got, rest') => str_eqb got t && str_eqb rest' rest
        | _, _ => false
        end
      else true
  | _, _ => true
  end.
