(* C05, "conversely" half: rdflib's N-Triples / N-Quads output is accepted by a
   strict reader of the W3C grammar and means the same triples there.

   Part A  STRICT READER: the W3C RDF 1.1 N-Triples / N-Quads EBNF transcribed
           production by production as executable prefix parsers over code
           points, with the denotation of every terminal (escapes resolved).
   Part B  WRITER MODEL: rdflib/plugins/serializers/nt.py (_nt_row,
           _quoteLiteral, _quote_encode, NTSerializer.serialize),
           serializers/nquads.py (_nq_row, NQuadsSerializer.serialize),
           term.py (URIRef.n3 with _is_valid_uri, BNode.n3,
           _is_valid_langtag).
   Part C  case / observation / specification checker / finding triggers.
   No proofs in this file. *)
From Coq Require Export List NArith Bool.
Export ListNotations.
From RV Require Export Gen.Tables_c05.
Local Open Scope N_scope.

Definition str := list N.            (* a Python str: the list of its code points *)

(* ------------------------------------------------------------------ terms *)
Inductive lkind :=
| LPlain                 (* no language, no datatype *)
| LLang (l : str)        (* Literal.language *)
| LDt (d : str).         (* str(Literal.datatype) *)
Inductive term :=
| Iri (s : str)
| Bn (s : str)
| Lit (lex : str) (k : lkind).
Definition triple := (term * term * term)%type.
Definition quad := (triple * option term)%type.   (* None = default graph *)

Fixpoint str_eqb (a b : str) : bool :=
  match a, b with
  | [], [] => true
  | x :: a', y :: b' => (x =? y) && str_eqb a' b'
  | _, _ => false
  end.
Definition lkind_eqb (a b : lkind) : bool :=
  match a, b with
  | LPlain, LPlain => true
  | LLang x, LLang y => str_eqb x y
  | LDt x, LDt y => str_eqb x y
  | _, _ => false
  end.
Definition term_eqb (a b : term) : bool :=
  match a, b with
  | Iri x, Iri y => str_eqb x y
  | Bn x, Bn y => str_eqb x y
  | Lit x k, Lit y k' => str_eqb x y && lkind_eqb k k'
  | _, _ => false
  end.
Definition triple_eqb (a b : triple) : bool :=
  let '(s, p, o) := a in let '(s', p', o') := b in
  term_eqb s s' && term_eqb p p' && term_eqb o o'.
Definition oterm_eqb (a b : option term) : bool :=
  match a, b with
  | None, None => true
  | Some x, Some y => term_eqb x y
  | _, _ => false
  end.
Definition quad_eqb (a b : quad) : bool :=
  triple_eqb (fst a) (fst b) && oterm_eqb (snd a) (snd b).

(* ============================================================ Part A
   W3C RDF 1.1 N-Triples (REC 2014-02-25) section 7 / N-Quads section 4.
   Every parser takes the remaining input and returns the value and the rest. *)

Definition inr (lo hi c : N) : bool := (lo <=? c) && (c <=? hi).
Fixpoint memN (c : N) (l : list N) : bool :=
  match l with [] => false | x :: r => (c =? x) || memN c r end.
Fixpoint span (p : N -> bool) (l : str) : str * str :=
  match l with
  | [] => ([], [])
  | c :: r => if p c then let '(a, b) := span p r in (c :: a, b) else ([], l)
  end.

(* [162s] HEX ::= [0-9] | [A-F] | [a-f] *)
Definition is_digit (c : N) := inr 48 57 c.
Definition is_alpha (c : N) := inr 65 90 c || inr 97 122 c.
Definition is_alnum (c : N) := is_alpha c || is_digit c.
Definition is_hex (c : N) := is_digit c || inr 65 70 c || inr 97 102 c.
Definition hexval (c : N) : N :=
  if is_digit c then c - 48 else if inr 65 70 c then c - 55 else c - 87.

(* [157s] PN_CHARS_BASE *)
Definition pn_chars_base (c : N) : bool :=
  is_alpha c || inr 192 214 c || inr 216 246 c || inr 248 767 c
  || inr 880 893 c || inr 895 8191 c || inr 8204 8205 c || inr 8304 8591 c
  || inr 11264 12271 c || inr 12289 55295 c || inr 63744 64975 c
  || inr 65008 65533 c || inr 65536 983039 c.
(* [158s] PN_CHARS_U ::= PN_CHARS_BASE | '_' | ':' *)
Definition pn_chars_u (c : N) : bool := pn_chars_base c || (c =? 95) || (c =? 58).
(* [160s] PN_CHARS ::= PN_CHARS_U | '-' | [0-9] | #x00B7 | [#x0300-#x036F] | [#x203F-#x2040] *)
Definition pn_chars (c : N) : bool :=
  pn_chars_u c || (c =? 45) || is_digit c || (c =? 183) || inr 768 879 c || inr 8255 8256 c.

(* white space between terminals: tab or space *)
Definition is_ws (c : N) := (c =? 9) || (c =? 32).
Definition is_eol (c : N) := (c =? 10) || (c =? 13).     (* [7] EOL ::= [#xD#xA]+ *)
Fixpoint skip_ws (l : str) : str :=
  match l with c :: r => if is_ws c then skip_ws r else l | [] => [] end.
Fixpoint drop_to_eol (l : str) : str :=
  match l with c :: r => if is_eol c then l else drop_to_eol r | [] => [] end.

(* [10] UCHAR ::= '\u' HEX HEX HEX HEX | '\U' HEX{8} ; input: after the backslash.
   A \U value above #x10FFFF names no character and is rejected. *)
Fixpoint hexn (n : nat) (acc : N) (l : str) : option (N * str) :=
  match n with
  | O => Some (acc, l)
  | S n' => match l with
            | c :: r => if is_hex c then hexn n' (16 * acc + hexval c) r else None
            | [] => None
            end
  end.
Definition uchar (l : str) : option (N * str) :=
  match l with
  | c :: r =>
      if c =? 117 then hexn 4 0 r
      else if c =? 85 then
        match hexn 8 0 r with
        | Some (v, r') => if v <=? 1114111 then Some (v, r') else None
        | None => None
        end
      else None
  | [] => None
  end.
(* [153s] ECHAR ::= '\' [tbnrf DQUOTE '\] ; the letter after the backslash *)
Definition echar (c : N) : option N :=
  if c =? 116 then Some 9 else if c =? 98 then Some 8 else if c =? 110 then Some 10
  else if c =? 114 then Some 13 else if c =? 102 then Some 12 else if c =? 34 then Some 34
  else if c =? 39 then Some 39 else if c =? 92 then Some 92 else None.

(* [8] IRIREF ::= '<' ([^#x00-#x20<> DQUOTE {}|^`\] | UCHAR)* '>' *)
Definition iri_forbidden : list N := [60; 62; 34; 123; 125; 124; 94; 96; 92].
Definition iri_plain (c : N) : bool := negb (c <=? 32) && negb (memN c iri_forbidden).
Definition consv {A} (c : N) (x : option (str * A)) : option (str * A) :=
  match x with Some (v, r) => Some (c :: v, r) | None => None end.
Fixpoint iri_body (fuel : nat) (l : str) : option (str * str) :=
  match fuel with
  | O => None
  | S f =>
    match l with
    | [] => None
    | c :: r =>
        if c =? 62 then Some ([], r)
        else if c =? 92 then
          match uchar r with
          | Some (v, r') => consv v (iri_body f r')
          | None => None
          end
        else if iri_plain c then consv c (iri_body f r) else None
    end
  end.
(* IRIs may be written only as absolute IRIs (N-Triples 2.2; the W3C suite's
   nt-syntax-bad-uri-06..09 are negative tests): scheme per RFC 3986 3.1 *)
Definition scheme_char (c : N) := is_alnum c || (c =? 43) || (c =? 45) || (c =? 46).
Definition starts_with (k : N) (l : str) : bool :=
  match l with c :: _ => c =? k | [] => false end.
Definition has_scheme (s : str) : bool :=
  match s with
  | c :: r => is_alpha c && starts_with 58 (snd (span scheme_char r))
  | [] => false
  end.
(* input: after the opening angle bracket *)
Definition p_iri_tail (r : str) : option (str * str) :=
  match iri_body (S (length r)) r with
  | Some (v, r') => if has_scheme v then Some (v, r') else None
  | None => None
  end.
Definition p_iriref (l : str) : option (str * str) :=
  match l with
  | c :: r => if c =? 60 then p_iri_tail r else None
  | [] => None
  end.

(* [141s] BLANK_NODE_LABEL ::= '_:' (PN_CHARS_U | [0-9]) ((PN_CHARS | '.')* PN_CHARS)?
   longest match: the maximal run of PN_CHARS | '.', minus its trailing dots *)
Definition label_char (c : N) := pn_chars c || (c =? 46).
Fixpoint strip_dots (l : str) : str * str :=
  match l with
  | [] => ([], [])
  | c :: r => let '(k, d) := strip_dots r in
              match k with
              | [] => if c =? 46 then ([], c :: d) else ([c], d)
              | _ => (c :: k, d)
              end
  end.
Definition p_bnode (l : str) : option (str * str) :=
  match l with
  | u :: k :: c :: r =>
      if (u =? 95) && (k =? 58) && (pn_chars_u c || is_digit c) then
        let '(run, rest) := span label_char r in
        let '(lab, d) := strip_dots run in Some (c :: lab, d ++ rest)
      else None
  | _ => None
  end.

(* [9] STRING_LITERAL_QUOTE ::= DQUOTE ([^#x22#x5C#xA#xD] | ECHAR | UCHAR)* DQUOTE ; input after the opening quote *)
Fixpoint str_body (fuel : nat) (l : str) : option (str * str) :=
  match fuel with
  | O => None
  | S f =>
    match l with
    | [] => None
    | c :: r =>
        if c =? 34 then Some ([], r)
        else if c =? 92 then
          match r with
          | e :: r' => match echar e with
                       | Some v => consv v (str_body f r')
                       | None => match uchar r with
                                 | Some (v, r'') => consv v (str_body f r'')
                                 | None => None
                                 end
                       end
          | [] => None
          end
        else if is_eol c then None else consv c (str_body f r)
    end
  end.

(* [144s] LANGTAG ::= '@' [a-zA-Z]+ ('-' [a-zA-Z0-9]+)* ; input after '@', longest match *)
Fixpoint subtags (fuel : nat) (l : str) : str * str :=
  match fuel with
  | O => ([], l)
  | S f =>
    match l with
    | c :: r =>
        if c =? 45 then
          let '(run, rest) := span is_alnum r in
          match run with
          | [] => ([], l)
          | _ => let '(more, rest') := subtags f rest in (45 :: run ++ more, rest')
          end
        else ([], l)
    | [] => ([], l)
    end
  end.
Definition p_langtag (l : str) : option (str * str) :=
  let '(prim, r) := span is_alpha l in
  match prim with
  | [] => None
  | _ => let '(st, r') := subtags (length r) r in Some (prim ++ st, r')
  end.

(* [6] literal ::= STRING_LITERAL_QUOTE ('^^' IRIREF | LANGTAG)? ; input after the opening quote *)
Definition p_lit_suffix (lex : str) (r1 : str) : option (term * str) :=
  match r1 with
  | c :: r2 =>
      if c =? 64 then
        match p_langtag r2 with
        | Some (lg, r3) => Some (Lit lex (LLang lg), r3)
        | None => None
        end
      else if (c =? 94) && starts_with 94 r2 then
        match p_iriref (tl r2) with
        | Some (d, r3) => Some (Lit lex (LDt d), r3)
        | None => None
        end
      else Some (Lit lex LPlain, r1)
  | [] => Some (Lit lex LPlain, r1)
  end.
Definition p_literal_tail (r : str) : option (term * str) :=
  match str_body (S (length r)) r with
  | Some (lex, r1) => p_lit_suffix lex r1
  | None => None
  end.

Definition omap {A B} (f : A -> B) (x : option (A * str)) : option (B * str) :=
  match x with Some (v, r) => Some (f v, r) | None => None end.
(* [3] subject ::= IRIREF | BLANK_NODE_LABEL   (also N-Quads graphLabel) *)
Definition p_subject (l : str) : option (term * str) :=
  if starts_with 60 l then omap Iri (p_iriref l)
  else if starts_with 95 l then omap Bn (p_bnode l)
  else None.
(* [4] predicate ::= IRIREF *)
Definition p_predicate (l : str) : option (term * str) := omap Iri (p_iriref l).
(* [5] object ::= IRIREF | BLANK_NODE_LABEL | literal *)
Definition p_object (l : str) : option (term * str) :=
  if starts_with 34 l then p_literal_tail (tl l) else p_subject l.

(* [2] triple ::= subject predicate object '.'
   N-Quads [2] statement ::= subject predicate object graphLabel? '.'
   white space is allowed, never required, between terminals *)
Definition p_end (r : str) : option str :=
  match skip_ws r with c :: r' => if c =? 46 then Some r' else None | [] => None end.
Definition p_statement (nq : bool) (l : str) : option (quad * str) :=
  match p_subject (skip_ws l) with
  | Some (s, r1) =>
    match p_predicate (skip_ws r1) with
    | Some (p, r2) =>
      match p_object (skip_ws r2) with
      | Some (o, r3) =>
        match p_end r3 with
        | Some r5 => Some ((s, p, o, None), r5)
        | None =>
            if nq then
              match p_subject (skip_ws r3) with
              | Some (g, r5) => match p_end r5 with
                                | Some r6 => Some ((s, p, o, Some g), r6)
                                | None => None
                                end
              | None => None
              end
            else None
        end
      | None => None
      end
    | None => None
    end
  | None => None
  end.

(* [1] ntriplesDoc ::= triple? (EOL triple)* EOL?  with comments ('#' to end of
   line, outside IRIREF and STRING_LITERAL_QUOTE) and blank lines *)
Definition skip_comment (r : str) : str :=
  let r2 := skip_ws r in if starts_with 35 r2 then drop_to_eol r2 else r2.
Fixpoint p_doc (fuel : nat) (nq : bool) (l : str) : option (list quad) :=
  match fuel with
  | O => None
  | S f =>
    match skip_ws l with
    | [] => Some []
    | c :: r =>
      if is_eol c then p_doc f nq r
      else if c =? 35 then p_doc f nq (drop_to_eol r)
      else
        match p_statement nq (c :: r) with
        | Some (q, rest) =>
            match skip_comment rest with
            | [] => Some [q]
            | c' :: r4 => if is_eol c' then
                            match p_doc f nq r4 with Some qs => Some (q :: qs) | None => None end
                          else None
            end
        | None => None
        end
    end
  end.
Definition strict_doc (nq : bool) (d : str) : option (list quad) := p_doc (S (length d)) nq d.
(* one line = a document that holds exactly one statement *)
Definition strict_parse (nq : bool) (l : str) : option quad :=
  match strict_doc nq l with Some [q] => Some q | _ => None end.

(* ============================================================ Part B
   the writer, statement by statement *)

(* term._is_valid_uri: for c in _invalid_uri_chars: if c in uri: return False *)
Definition valid_uri (s : str) : bool :=
  forallb (fun c => negb (memN c s)) invalid_uri_chars.

(* str.replace(one char, two chars) *)
Definition replace1 (x : N) (y : str) (s : str) : str :=
  flat_map (fun c => if c =? x then y else [c]) s.
(* nt._quote_encode: DQUOTE + l.replace(BACKSLASH, BACKSLASH BACKSLASH).replace(LF, BACKSLASH n)
   .replace(DQUOTE, BACKSLASH DQUOTE).replace(CR, BACKSLASH r) + DQUOTE, four chained str.replace *)
Definition quote_encode (s : str) : str :=
  34 :: replace1 13 [92; 114] (replace1 34 [92; 34] (replace1 10 [92; 110] (replace1 92 [92; 92] s))) ++ [34].

(* nt._quoteLiteral: [if l_.language: ... elif l_.datatype: ... else] (truthiness of str subclasses);
   the datatype is written with URIRef.n3(), which raises for an invalid IRI (None) *)
Definition iri_n3 (s : str) : option str :=
  if valid_uri s then Some (60 :: s ++ [62]) else None.
Definition quote_literal (lex : str) (k : lkind) : option str :=
  match k with
  | LLang (c :: l) => Some (quote_encode lex ++ 64 :: c :: l)
  | LDt (c :: d) => match iri_n3 (c :: d) with
                    | Some t => Some (quote_encode lex ++ [94; 94] ++ t)
                    | None => None
                    end
  | _ => Some (quote_encode lex)
  end.

(* term._is_valid_langtag: bool(re.match(PATTERN, tag)) with PATTERN = ^[a-zA-Z]+(?:-[a-zA-Z0-9]+)*\Z
   (reflected as lang_tag_regex_src and pinned in Proofs.v): exactly the LANGTAG production without the '@' *)
Fixpoint split_dash (l : str) : list str :=
  match l with
  | [] => [[]]
  | c :: r => match split_dash r with
              | p :: ps => if c =? 45 then [] :: p :: ps else (c :: p) :: ps
              | [] => [[c]]   (* unreachable *)
              end
  end.
Definition nonempty_all (p : N -> bool) (s : str) : bool :=
  match s with [] => false | _ => forallb p s end.
Definition w3c_langtag (l : str) : bool :=
  match split_dash l with
  | prim :: subs => nonempty_all is_alpha prim && forallb (nonempty_all is_alnum) subs
  | [] => false
  end.
Definition py_valid_langtag (l : str) : bool := w3c_langtag l.

(* URIRef.n3() raises when _is_valid_uri fails (None); BNode.n3() = "_:" + self.
   Literal.n3() (Turtle-style text) is outside this model: literal subjects,
   predicates and graph names are outside the property's graphs. *)
Definition n3 (t : term) : option str :=
  match t with
  | Iri s => iri_n3 s
  | Bn s => Some (95 :: 58 :: s)
  | Lit _ _ => None
  end.
(* Literal.__new__ raises ValueError for a language tag that _is_valid_langtag rejects: such a literal does
   not exist (None: the row cannot even be built) *)
Definition lit_exists (k : lkind) : bool :=
  match k with LLang l => py_valid_langtag l | _ => true end.
Definition obj_text (o : term) : option str :=
  match o with
  | Lit lex k => if lit_exists k then quote_literal lex k else None
  | _ => n3 o
  end.
(* nt._nt_row *)
Definition nt_row (t : triple) : option str :=
  let '(s, p, o) := t in
  match n3 s, n3 p, obj_text o with
  | Some a, Some b, Some c => Some (a ++ [32] ++ b ++ [32] ++ c ++ [32; 46; 10])
  | _, _, _ => None
  end.
(* nquads._nq_row: graph_name = context.n3() if context and context != DATASET_DEFAULT_GRAPH_ID else "" *)
Definition is_default_id (g : term) : bool :=
  match g with
  | Iri s => default_graph_id_is_uriref && str_eqb s default_graph_id
  | _ => false
  end.
Definition truthy (g : term) : bool :=
  match g with Iri [] | Bn [] | Lit [] _ => false | _ => true end.
Definition graph_name (g : term) : option str :=
  if truthy g && negb (is_default_id g) then n3 g else Some [].
Definition nq_row (t : triple) (g : term) : option str :=
  let '(s, p, o) := t in
  match graph_name g, n3 s, n3 p, obj_text o with
  | Some gn, Some a, Some b, Some c => Some (a ++ [32] ++ b ++ [32] ++ c ++ [32] ++ gn ++ [32; 46; 10])
  | _, _, _, _ => None
  end.

(* ============================================================ Part C *)

(* a document: the rows in the order the serializer emits them *)
Record case := { c_nq : bool; c_rows : list (triple * term) }.
(* (text of _nt_row/_nq_row per row, None = exception; text of serialize(), None = exception) *)
Definition obs := (list (option str) * option str)%type.

Definition model_row (nq : bool) (r : triple * term) : option str :=
  if nq then nq_row (fst r) (snd r) else nt_row (fst r).
Fixpoint concat_opt (l : list (option str)) : option str :=
  match l with
  | [] => Some []
  | None :: _ => None
  | Some x :: r => match concat_opt r with Some y => Some (x ++ y) | None => None end
  end.
(* NTSerializer.serialize: one _nt_row per triple; NQuadsSerializer.serialize: rows then "\n" *)
Definition model_doc (nq : bool) (rows : list (option str)) : option str :=
  match concat_opt rows with
  | Some d => Some (if nq then d ++ [10] else d)
  | None => None
  end.
Definition model_obs (c : case) : obs :=
  let rows := map (model_row (c_nq c)) (c_rows c) in (rows, model_doc (c_nq c) rows).

(* what the rows are supposed to mean *)
Definition expected (nq : bool) (r : triple * term) : quad :=
  (fst r, if nq && negb (is_default_id (snd r)) then Some (snd r) else None).

(* the graphs of the property: what rdflib accepts when serialising, with
   absolute IRIs; nodes in the positions RDF allows *)
(* an IRI the W3C grammar accepts: every character is allowed by the IRIREF production (written without UCHAR) and it is
   absolute.  NOT defined through rdflib's own acceptance test: that rdflib's _is_valid_uri lets every such IRI through
   (and nothing else) is proved in Proofs.v over the reflected table, in both directions. *)
Definition wf_iri (s : str) : bool := forallb iri_plain s && has_scheme s.
Definition wf_node (t : term) : bool :=
  match t with Iri s => wf_iri s | Bn _ => true | Lit _ _ => false end.
Definition wf_object (t : term) : bool :=
  match t with
  | Lit _ LPlain => true
  | Lit _ (LLang l) => py_valid_langtag l       (* Literal.__new__ raises otherwise *)
  | Lit _ (LDt d) => wf_iri d                   (* _quoteLiteral writes it with URIRef.n3() *)
  | _ => wf_node t
  end.
Definition wf_triple (t : triple) : bool :=
  let '(s, p, o) := t in
  wf_node s && (match p with Iri x => wf_iri x | _ => false end) && wf_object o.
Definition wf_row (nq : bool) (r : triple * term) : bool :=
  wf_triple (fst r) && (negb nq || wf_node (snd r)).

(* known-finding trigger (the only place left where the writer's checks are narrower than the grammar):
   3 C05c  a blank node identifier is not a BLANK_NODE_LABEL (BNode.n3 writes it verbatim)
   (1 C05a control characters in IRIs, 2 C05b unchecked datatype IRI, 4 C05d language tag with a final
   line feed have been repaired in the code: ffbc1d81, 16a2b8eb, d6b3ed8d) *)
Definition valid_label (s : str) : bool :=
  match s with
  | [] => false
  | c :: t => (pn_chars_u c || is_digit c) && forallb label_char t && negb (last t 0 =? 46)
  end.
Definition term_kf (t : term) : N :=
  match t with
  | Bn s => if valid_label s then 0 else 3
  | _ => 0
  end.
Definition first_nz (l : list N) : N :=
  match filter (fun n => negb (n =? 0)) l with x :: _ => x | [] => 0 end.
Definition row_kf (nq : bool) (r : triple * term) : N :=
  let '(s, p, o) := fst r in
  first_nz [term_kf s; term_kf p; term_kf o; if nq then term_kf (snd r) else 0].
Definition kf (c : case) : N := first_nz (map (row_kf (c_nq c)) (c_rows c)).

(* ---- comparison of observations: rows exactly; documents up to the order of their lines
   (the store's iteration order is not part of the model) *)
Definition ostr_eqb (a b : option str) : bool :=
  match a, b with
  | None, None => true
  | Some x, Some y => str_eqb x y
  | _, _ => false
  end.
Fixpoint list_eqb {A} (e : A -> A -> bool) (a b : list A) : bool :=
  match a, b with
  | [], [] => true
  | x :: a', y :: b' => e x y && list_eqb e a' b'
  | _, _ => false
  end.
Fixpoint split_nl (l : str) : list str :=
  match l with
  | [] => [[]]
  | c :: r => match split_nl r with
              | p :: ps => if c =? 10 then [] :: p :: ps else (c :: p) :: ps
              | [] => [[c]]
              end
  end.
Fixpoint remove1 {A} (e : A -> A -> bool) (x : A) (l : list A) : option (list A) :=
  match l with
  | [] => None
  | y :: r => if e x y then Some r
              else match remove1 e x r with Some r' => Some (y :: r') | None => None end
  end.
Fixpoint perm_eqb {A} (e : A -> A -> bool) (a b : list A) : bool :=
  match a with
  | [] => match b with [] => true | _ => false end
  | x :: a' => match remove1 e x b with Some b' => perm_eqb e a' b' | None => false end
  end.
Definition doc_eqb (a b : option str) : bool :=
  match a, b with
  | None, None => true
  | Some x, Some y => perm_eqb str_eqb (split_nl x) (split_nl y)
  | _, _ => false
  end.
Definition obs_eqb (a b : obs) : bool :=
  list_eqb ostr_eqb (fst a) (fst b) && doc_eqb (snd a) (snd b).

(* ---- the specification checker, on ANY observation *)
Definition qmem (q : quad) (l : list quad) : bool := existsb (quad_eqb q) l.
Definition qincl (a b : list quad) : bool := forallb (fun q => qmem q b) a.
Definition qset_eqb (a b : list quad) : bool := qincl a b && qincl b a.

(* a row of a well-formed quad is one strictly legal line meaning that quad; and a row with an IRI (in any position,
   datatype included) that has a character the IRIREF production excludes must be REFUSED, never written *)
Definition bad_iri (s : str) : bool := negb (forallb iri_plain s).
Definition term_bad_iri (t : term) : bool :=
  match t with
  | Iri s => bad_iri s
  | Lit _ (LDt d) => bad_iri d
  | _ => false
  end.
Definition row_bad_iri (nq : bool) (r : triple * term) : bool :=
  let '(s, p, o) := fst r in
  term_bad_iri s || term_bad_iri p || term_bad_iri o || (nq && match snd r with Iri x => bad_iri x | _ => false end).
Definition row_ok (nq : bool) (r : triple * term) (o : option str) : bool :=
  (negb (row_bad_iri nq r) || match o with None => true | Some _ => false end) &&
  (negb (wf_row nq r) ||
   match o with
   | Some l => match strict_parse nq l with Some q => quad_eqb q (expected nq r) | None => false end
   | None => false
   end).
Fixpoint rows_ok (nq : bool) (rs : list (triple * term)) (os : list (option str)) : bool :=
  match rs, os with
  | [], [] => true
  | r :: rs', o :: os' => row_ok nq r o && rows_ok nq rs' os'
  | _, _ => false
  end.
(* the document of a well-formed graph is a strictly legal document meaning that set of quads; and in ANY document
   that was written - also one with rows that are not well-formed, e.g. relative IRIs - every well-formed row stands
   on a line of its own as a strictly legal statement meaning that row *)
Fixpoint suffixes_after_nl (l : str) : list str :=
  match l with
  | [] => []
  | c :: r => (if c =? 10 then [r] else []) ++ suffixes_after_nl r
  end.
Definition line_starts (t : str) : list str := t :: suffixes_after_nl t.
Definition row_in_doc (nq : bool) (r : triple * term) (t : str) : bool :=
  existsb (fun s => match p_statement nq s with
                    | Some (q, rest) => quad_eqb q (expected nq r) && starts_with 10 rest
                    | None => false
                    end) (line_starts t).
Definition doc_ok (nq : bool) (rs : list (triple * term)) (d : option str) : bool :=
  (negb (forallb (wf_row nq) rs) ||
   match d with
   | Some t => match strict_doc nq t with
               | Some qs => qset_eqb qs (map (expected nq) rs)
               | None => false
               end
   | None => false
   end)
  && match d with
     | Some t => forallb (fun r => negb (wf_row nq r) || row_in_doc nq r t) rs
     | None => true
     end.
Definition spec_ok (c : case) (o : obs) : bool :=
  rows_ok (c_nq c) (c_rows c) (fst o) && doc_ok (c_nq c) (c_rows c) (snd o).
