(* C05: relative IRI references.  Every reader of a syntax with a base (Turtle, TriG, N3 through
   notation3.join; the property's "relative IRIs with a base") has to resolve references as RFC 3986
   section 5.2 prescribes.

   Part M  MODEL of rdflib/plugins/parsers/notation3.py as of 2947bd7e: _uri_split (the regular expression
           of RFC 3986 appendix B, modelled by the deterministic scanner it amounts to), _remove_dot_segments
           (the while loop over a list of output segments), splitFragP, join (with its assertion, its
           ValueError for a non-hierarchical base and the TypeError of a base without scheme).
   Part S  SPECIFICATION: RFC 3986 written independently - components by cutting at the first '#', the first
           '?', the first ':' (5.2.1 / appendix B read as prose), 5.2.2 transform references, 5.2.3 merge,
           5.2.4 remove_dot_segments on two string buffers with rules A-E, 5.3 recomposition.
   No proofs in this file. *)
From RV Require Export Grammar.Model.
Local Open Scope N_scope.

Definition COLON := 58. Definition SLASH := 47. Definition QMARK := 63. Definition HASH := 35. Definition DOT := 46.

Fixpoint is_prefix (p l : str) : bool :=
  match p, l with
  | [], _ => true
  | x :: p', y :: l' => (x =? y) && is_prefix p' l'
  | _ :: _, [] => false
  end.

(* ============================================================ Part M *)
Record comps := { c_scheme : option str; c_auth : option str; c_path : str; c_query : option str; c_frag : option str }.

Definition not_in (cs : list N) (c : N) : bool := negb (memN c cs).

(* _uri_parts (reflected as uri_parts_src and pinned in ResolveProofs.v) is the regular expression of RFC 3986
   appendix B, compiled with re.S: optional scheme [^:/?#]+ followed by a colon, optional // and [^/?#] run,
   path = [^?#] run, optional ? and [^#] run, optional # and everything.
   Every optional group is followed by parts that match anything, so the greedy choice never has to be undone;
   [^:/?#]+ followed by ':' can only be the maximal run (a shorter run is followed by a character of the run). *)
Definition m_scheme (u : str) : option str * str :=
  let '(a, r0) := span (not_in [COLON; SLASH; QMARK; HASH]) u in
  match a with
  | [] => (None, u)
  | _ => if starts_with COLON r0 then (Some a, tl r0) else (None, u)
  end.
Definition m_auth (r1 : str) : option str * str :=
  if starts_with SLASH r1 && starts_with SLASH (tl r1)
  then let '(x, r) := span (not_in [SLASH; QMARK; HASH]) (tl (tl r1)) in (Some x, r)
  else (None, r1).
Definition m_query (r3 : str) : option str * str :=
  if starts_with QMARK r3 then let '(q, r) := span (not_in [HASH]) (tl r3) in (Some q, r) else (None, r3).
Definition m_frag (r4 : str) : option str := if starts_with HASH r4 then Some (tl r4) else None.
Definition m_split (u : str) : comps :=
  let '(sch, r1) := m_scheme u in
  let '(au, r2) := m_auth r1 in
  let '(pa, r3) := span (not_in [QMARK; HASH]) r2 in
  let '(qu, r4) := m_query r3 in
  {| c_scheme := sch; c_auth := au; c_path := pa; c_query := qu; c_frag := m_frag r4 |}.

(* path[:i], path[i:] with i = path.find("/", 1)  (the whole path when there is no such slash) *)
Definition m_first_seg (p : str) : str * str :=
  match p with
  | [] => ([], [])
  | c :: r => let '(s, rest) := span (fun x => negb (x =? SLASH)) r in (c :: s, rest)
  end.

(* one round of the while loop of _remove_dot_segments; None = the loop ends (path is empty) *)
Definition m_step (st : str * list str) : option (str * list str) :=
  let '(p, out) := st in
  match p with
  | [] => None
  | _ =>
    Some (if is_prefix [DOT; DOT; SLASH] p then (skipn 3 p, out)
          else if is_prefix [DOT; SLASH] p then (skipn 2 p, out)
          else if is_prefix [SLASH; DOT; SLASH] p then (skipn 2 p, out)
          else if str_eqb p [SLASH; DOT] then ([SLASH], out)
          else if is_prefix [SLASH; DOT; DOT; SLASH] p then (skipn 3 p, removelast out)
          else if str_eqb p [SLASH; DOT; DOT] then ([SLASH], removelast out)
          else if str_eqb p [DOT] || str_eqb p [DOT; DOT] then ([], out)
          else let '(seg, rest) := m_first_seg p in (rest, out ++ [seg]))
  end.
Fixpoint m_loop (fuel : nat) (st : str * list str) : option (list str) :=
  match m_step st with
  | None => Some (snd st)
  | Some st' => match fuel with O => None | S f => m_loop f st' end
  end.
(* None would mean that the Python loop does not end within len(path) rounds: excluded by a theorem *)
Definition m_rds (p : str) : option str :=
  match m_loop (length p) (p, []) with Some out => Some (concat out) | None => None end.

Fixpoint find_from (i : nat) (c : N) (l : str) : option nat :=
  match l with [] => None | x :: r => if x =? c then Some i else find_from (S i) c r end.
Definition find (c : N) (l : str) : option nat := find_from 0 c l.
(* splitFragP(here)[0]: up to the LAST '#' *)
Fixpoint cut_last_hash (l : str) : option str :=      (* None: no '#' *)
  match l with
  | [] => None
  | c :: r => match cut_last_hash r with
              | Some x => Some (c :: x)
              | None => if c =? HASH then Some [] else None
              end
  end.
Definition m_split_frag_head (u : str) : str := match cut_last_hash u with Some x => x | None => u end.

(* bpath[: bpath.rfind("/") + 1] *)
Fixpoint upto_last_slash (l : str) : str :=
  match l with
  | [] => []
  | c :: r => match upto_last_slash r with
              | [] => if c =? SLASH then [c] else []
              | x => c :: x
              end
  end.

Inductive jres := JOk (s : str) | JAssertionError | JValueError | JTypeError.

Definition opt_pre (p : str) (x : option str) : str := match x with Some v => p ++ v | None => [] end.
Definition is_none {A} (x : option A) : bool := match x with None => true | Some _ => false end.

Definition m_join (here there : str) : jres :=
  let R := m_split there in
  match c_scheme R with
  | Some _ => JOk there
  | None =>
    match find COLON here with
    | None => JAssertionError
    | Some bc =>
      let B := m_split here in
      if is_none (c_auth R) && (match c_path R with [] => true | _ => false end) && is_none (c_query R)
      then JOk (m_split_frag_head here ++ opt_pre [HASH] (c_frag R))
      else if negb (match nth_error here (S bc) with Some x => x =? SLASH | None => false end)
      then JValueError
      else
        let t3 : option (option str * str * option str) :=
          match c_auth R with
          | Some ra => match m_rds (c_path R) with Some p => Some (Some ra, p, c_query R) | None => None end
          | None =>
            match c_path R with
            | [] => Some (c_auth B, c_path B, c_query R)
            | rc :: _ =>
                let merged :=
                  if rc =? SLASH then c_path R
                  else if negb (is_none (c_auth B)) && (match c_path B with [] => true | _ => false end)
                       then SLASH :: c_path R
                       else upto_last_slash (c_path B) ++ c_path R in
                match m_rds merged with Some p => Some (c_auth B, p, c_query R) | None => None end
            end
          end in
        match t3, c_scheme B with
        | Some (ta, tp, tq), Some bs =>
            JOk (bs ++ [COLON] ++ opt_pre [SLASH; SLASH] ta ++ tp ++ opt_pre [QMARK] tq ++ opt_pre [HASH] (c_frag R))
        | Some _, None => JTypeError
        | None, _ => JAssertionError
        end
    end
  end.

(* ============================================================ Part S: RFC 3986 *)
(* 5.2.1 / appendix B as prose: the fragment is what follows the first '#', the query what follows the first '?'
   before it, the scheme what precedes the first ':' when that is non-empty and contains no '/', the authority
   what follows a leading "//" up to the next '/' *)
Fixpoint cut_at (c : N) (l : str) : str * option str :=
  match l with
  | [] => ([], None)
  | x :: r => if x =? c then ([], Some r)
              else let '(a, b) := cut_at c r in (x :: a, b)
  end.
Definition s_scheme (u2 : str) : option str * str :=
  match cut_at COLON u2 with
  | (x :: s, Some rest) => if memN SLASH (x :: s) then (None, u2) else (Some (x :: s), rest)
  | _ => (None, u2)
  end.
Definition s_auth (u3 : str) : option str * str :=
  if is_prefix [SLASH; SLASH] u3
  then match cut_at SLASH (skipn 2 u3) with
       | (a, Some rest) => (Some a, SLASH :: rest)
       | (a, None) => (Some a, [])
       end
  else (None, u3).
Definition s_split (u : str) : comps :=
  let '(u1, frag) := cut_at HASH u in
  let '(u2, quer) := cut_at QMARK u1 in
  let '(sch, u3) := s_scheme u2 in
  let '(au, pa) := s_auth u3 in
  {| c_scheme := sch; c_auth := au; c_path := pa; c_query := quer; c_frag := frag |}.

(* 5.2.3 Merge Paths *)
Definition s_all_but_last_segment (p : str) : str :=     (* "excluding any characters after the right-most '/'" *)
  rev (snd (span (fun x => negb (x =? SLASH)) (rev p))).
Definition s_merge (B : comps) (rpath : str) : str :=
  match c_auth B, c_path B with
  | Some _, [] => SLASH :: rpath
  | _, bp => s_all_but_last_segment bp ++ rpath
  end.

(* 5.2.4 Remove Dot Segments: input buffer, output buffer, rules A-E *)
Definition s_remove_last_segment (out : str) : str :=   (* "the last segment and its preceding '/' (if any)" *)
  rev (tl (snd (span (fun x => negb (x =? SLASH)) (rev out)))).
Definition s_first_segment (inp : str) : str * str :=
  (* "including the initial '/' character (if any) and any subsequent characters up to, but not including, the next '/'" *)
  let '(lead, r) := if starts_with SLASH inp then ([SLASH], tl inp) else ([], inp) in
  let '(s, rest) := span (fun x => negb (x =? SLASH)) r in (lead ++ s, rest).
Definition s_step (st : str * str) : option (str * str) :=
  let '(inp, out) := st in
  match inp with
  | [] => None
  | _ =>
    Some (
      (* A *) if is_prefix [DOT; DOT; SLASH] inp then (skipn 3 inp, out)
              else if is_prefix [DOT; SLASH] inp then (skipn 2 inp, out)
      (* B *) else if is_prefix [SLASH; DOT; SLASH] inp then (SLASH :: skipn 3 inp, out)
              else if str_eqb inp [SLASH; DOT] then ([SLASH], out)
      (* C *) else if is_prefix [SLASH; DOT; DOT; SLASH] inp then (SLASH :: skipn 4 inp, s_remove_last_segment out)
              else if str_eqb inp [SLASH; DOT; DOT] then ([SLASH], s_remove_last_segment out)
      (* D *) else if str_eqb inp [DOT] || str_eqb inp [DOT; DOT] then ([], out)
      (* E *) else let '(seg, rest) := s_first_segment inp in (rest, out ++ seg))
  end.
Fixpoint s_loop (fuel : nat) (st : str * str) : option str :=
  match s_step st with
  | None => Some (snd st)
  | Some st' => match fuel with O => None | S f => s_loop f st' end
  end.
Definition s_rds (p : str) : option str := s_loop (length p) (p, []).

(* 5.2.2 Transform References (strict), on components *)
Definition s_transform (B R : comps) : option comps :=
  let with_path (o : option str) (f : str -> comps) := match o with Some p => Some (f p) | None => None end in
  match c_scheme R with
  | Some _ =>
      with_path (s_rds (c_path R)) (fun p =>
        {| c_scheme := c_scheme R; c_auth := c_auth R; c_path := p; c_query := c_query R; c_frag := c_frag R |})
  | None =>
    match c_auth R with
    | Some _ =>
        with_path (s_rds (c_path R)) (fun p =>
          {| c_scheme := c_scheme B; c_auth := c_auth R; c_path := p; c_query := c_query R; c_frag := c_frag R |})
    | None =>
      match c_path R with
      | [] => Some {| c_scheme := c_scheme B; c_auth := c_auth B; c_path := c_path B;
                      c_query := (match c_query R with Some q => Some q | None => c_query B end); c_frag := c_frag R |}
      | x :: _ =>
          with_path (s_rds (if x =? SLASH then c_path R else s_merge B (c_path R))) (fun p =>
            {| c_scheme := c_scheme B; c_auth := c_auth B; c_path := p; c_query := c_query R; c_frag := c_frag R |})
      end
    end
  end.

(* 5.3 Component Recomposition *)
Definition s_recompose (T : comps) : str :=
  (match c_scheme T with Some s => s ++ [COLON] | None => [] end)
  ++ (match c_auth T with Some a => [SLASH; SLASH] ++ a | None => [] end)
  ++ c_path T
  ++ (match c_query T with Some q => QMARK :: q | None => [] end)
  ++ (match c_frag T with Some f => HASH :: f | None => [] end).

Definition rfc_resolve (base ref : str) : option str :=
  match s_transform (s_split base) (s_split ref) with Some T => Some (s_recompose T) | None => None end.

(* RDF resolves relative references only (Turtle 6.3, RDF 1.1 Concepts 3.2: an IRI that is written absolute is
   taken as it is, without normalisation) *)
Definition rdf_resolve (base ref : str) : option str :=
  match c_scheme (s_split ref) with Some _ => Some ref | None => rfc_resolve base ref end.

(* well-formedness of the base as the theorem needs it: it has a scheme (RFC 3986 5.2.1: "a base URI must be an
   absolute URI"), and its fragment contains no '#' (RFC 3986 3.5: with two '#' the base is not a legal IRI at all).  [hier_or_same]: join refuses (ValueError,
   an intended behaviour with its own doctest) a base that is not hierarchical unless the reference is a
   same-document reference. *)
Definition count_hash (l : str) : nat := length (filter (fun c => c =? HASH) l).
Definition base_ok (base : str) : bool :=
  negb (is_none (c_scheme (s_split base))) && Nat.leb (count_hash base) 1.
Definition same_document (ref : str) : bool :=
  let R := s_split ref in
  is_none (c_scheme R) && is_none (c_auth R) && (match c_path R with [] => true | _ => false end) && is_none (c_query R).
Definition hierarchical (base : str) : bool :=
  match c_scheme (s_split base) with
  | Some s => starts_with SLASH (skipn (S (length s)) base)
  | None => false
  end.

(* ---------------------------------------------------------------- case / observation / checker *)
Record jcase := { j_base : str; j_ref : str }.
(* (join(base, ref) called directly, the subject IRI of "@base <base> . <ref> <a:p> <a:o> ." when that document can be written) *)
Definition jobs := (jres * option (option str))%type.

Definition jres_eqb (a b : jres) : bool :=
  match a, b with
  | JOk x, JOk y => str_eqb x y
  | JAssertionError, JAssertionError | JValueError, JValueError | JTypeError, JTypeError => true
  | _, _ => false
  end.
Definition oostr_eqb (a b : option (option str)) : bool :=
  match a, b with
  | None, None => true
  | Some x, Some y => ostr_eqb x y
  | _, _ => false
  end.
Definition jobs_eqb (a b : jobs) : bool := jres_eqb (fst a) (fst b) && (is_none (snd a) || is_none (snd b) || oostr_eqb (snd a) (snd b)).

Definition j_model (c : jcase) : jobs :=
  let r := m_join (j_base c) (j_ref c) in
  (r, Some (match r with JOk s => Some s | _ => None end)).

(* no trigger: a base with more than one '#' is not a legal IRI (RFC 3986 3.5: a fragment cannot contain '#') and is
   excluded by [base_ok], the well-formedness of the base; there join cuts a same-document reference's base at its
   LAST '#' (splitFragP) - behaviour on illegal input, kept as a corpus case for documentation only *)
Definition j_spec_ok (c : jcase) (o : jobs) : bool :=
  let guard := base_ok (j_base c) && (hierarchical (j_base c) || same_document (j_ref c)) in
  negb guard ||
  match rdf_resolve (j_base c) (j_ref c), fst o with
  | Some t, JOk s => str_eqb s t && (match snd o with Some (Some s') => str_eqb s' t | Some None => false | None => true end)
  | _, _ => false
  end.
