(* Proofs about coq/Grammar/Resolve.v: rdflib's join (as repaired by 2947bd7e) is RFC 3986 section 5.2. *)
From Coq Require Import Lia PeanoNat.
From RV Require Import Grammar.Resolve Grammar.Proofs Grammar.ReaderProofs.
Local Open Scope N_scope.

(* the regular expression the scanner m_split was written for *)
Lemma uri_parts_pinned :
  uri_parts_src = [94;40;63;58;40;91;94;58;47;63;35;93;43;41;58;41;63;40;63;58;47;47;40;91;94;47;63;35;93;42;41;41;63;40;91;94;63;35;93;42;41;40;63;58;92;63;40;91;94;35;93;42;41;41;63;40;63;58;35;40;46;42;41;41;63;36]
  /\ uri_parts_dotall = true.
Proof. split; reflexivity. Qed.

(* ------------------------------------------------------------ cutting *)
Definition opt_tail (c : N) (o : option str) : str := match o with Some b => c :: b | None => [] end.

Lemma cut_at_spec : forall c l a ob, cut_at c l = (a, ob) -> l = a ++ opt_tail c ob /\ memN c a = false.
Proof.
  induction l as [|x l IH]; intros a ob H; simpl in H.
  - inversion H; subst. split; reflexivity.
  - destruct (x =? c) eqn:E.
    + inversion H; subst. apply N.eqb_eq in E. subst. split; reflexivity.
    + destruct (cut_at c l) as [a' b'] eqn:Ec. inversion H; subst.
      destruct (IH _ _ eq_refl) as [H1 H2]. split; [simpl; f_equal; exact H1|].
      simpl. rewrite N.eqb_sym, E, H2. reflexivity.
Qed.

Lemma memN_app_false : forall c a b, memN c (a ++ b) = false -> memN c a = false /\ memN c b = false.
Proof. intros c a b H. rewrite memN_app in H. apply orb_false_iff in H. exact H. Qed.

Lemma forallb_not_in : forall cs a, (forall c, In c cs -> memN c a = false) -> forallb (not_in cs) a = true.
Proof.
  intros cs a H. apply forallb_forall. intros x Hx. unfold not_in. apply negb_true_iff.
  destruct (memN x cs) eqn:E; [|reflexivity]. apply memN_In in E. specialize (H x E).
  apply memN_In in Hx. congruence.
Qed.

(* [T] is what may follow the part under consideration: nothing, or something beginning with a delimiter d *)
Definition follows (ds : list N) (T : str) : Prop := match T with [] => True | d :: _ => In d ds end.

Lemma span_follow : forall cs ds x T, (forall d, In d ds -> memN d cs = true) -> follows ds T ->
  span (not_in cs) (x ++ T) = (fst (span (not_in cs) x), snd (span (not_in cs) x) ++ T).
Proof.
  induction x as [|c x IH]; intros T Hd F.
  - cbn [app]. destruct T as [|d T]; [reflexivity|]. simpl in F. simpl. unfold not_in at 1. rewrite (Hd d F). reflexivity.
  - cbn [app span]. destruct (not_in cs c); [|reflexivity]. rewrite (IH T Hd F). destruct (span (not_in cs) x). reflexivity.
Qed.

Lemma starts_with_follow : forall k ds x T, follows ds T -> ~ In k ds -> starts_with k (x ++ T) = starts_with k x.
Proof.
  intros k ds [|c x] T F K; [|reflexivity]. destruct T as [|d T]; [reflexivity|]. simpl in F. simpl.
  apply N.eqb_neq. intro E. subst. contradiction.
Qed.

Definition QH := [QMARK; HASH].
Ltac inQH := let d := fresh "d" in let Hd := fresh "Hd" in
  intros d Hd; simpl in Hd; destruct Hd as [Hd|[Hd|[]]]; subst d; reflexivity.
Ltac notQH := let Hin := fresh "Hin" in
  intro Hin; simpl in Hin; destruct Hin as [Hin|[Hin|[]]]; discriminate Hin.

Lemma m_scheme_follow : forall x T, follows QH T ->
  m_scheme (x ++ T) = (fst (m_scheme x), snd (m_scheme x) ++ T).
Proof.
  intros x T F. unfold m_scheme. rewrite (span_follow _ QH x T) by (try inQH; exact F).
  destruct (span (not_in [COLON; SLASH; QMARK; HASH]) x) as [a r0]. cbn [fst snd].
  destruct a as [|a0 a]; [reflexivity|].
  rewrite (starts_with_follow COLON QH r0 T F) by notQH.
  destruct (starts_with COLON r0) eqn:E; [|reflexivity].
  destruct r0 as [|c r0]; [discriminate|]. reflexivity.
Qed.

Lemma m_auth_follow : forall x T, follows QH T ->
  m_auth (x ++ T) = (fst (m_auth x), snd (m_auth x) ++ T).
Proof.
  intros x T F. unfold m_auth. rewrite (starts_with_follow SLASH QH x T F) by notQH.
  destruct x as [|c x]; [cbn [app starts_with andb]; reflexivity|].
  cbn [app tl]. rewrite (starts_with_follow SLASH QH x T F) by notQH.
  destruct (starts_with SLASH (c :: x) && starts_with SLASH x) eqn:E; [|reflexivity].
  destruct x as [|c2 x]; [rewrite andb_false_r in E; discriminate|]. cbn [app tl].
  rewrite (span_follow _ QH x T) by (try inQH; exact F).
  destruct (span (not_in [SLASH; QMARK; HASH]) x). reflexivity.
Qed.

(* on a string without '?' and '#' the two ways of finding scheme and authority agree *)
Definition nohq (l : str) : Prop := memN QMARK l = false /\ memN HASH l = false.

Lemma s_scheme_suffix : forall u, nohq u -> nohq (snd (s_scheme u)).
Proof.
  intros u [H1 H2]. unfold s_scheme. destruct (cut_at COLON u) as [a ob] eqn:E.
  destruct (cut_at_spec _ _ _ _ E) as [S1 _].
  destruct a as [|x s]; [split; assumption|]. destruct ob as [rest|]; [|split; assumption].
  destruct (memN SLASH (x :: s)); [split; assumption|]. cbn [snd]. subst u. cbn [opt_tail] in *.
  apply memN_app_false in H1. apply memN_app_false in H2. destruct H1 as [_ H1]. destruct H2 as [_ H2].
  cbn [memN] in H1, H2. apply orb_false_iff in H1. apply orb_false_iff in H2. split; tauto.
Qed.

Lemma scheme_eq : forall u, nohq u -> m_scheme u = s_scheme u.
Proof.
  intros u [Hq Hh]. unfold m_scheme, s_scheme.
  destruct (cut_at COLON u) as [a ob] eqn:E. destruct (cut_at_spec _ _ _ _ E) as [S1 S2].
  destruct ob as [rest|]; cbn [opt_tail] in S1.
  - destruct (memN SLASH a) eqn:Es.
    + (* a slash before the first colon *)
      destruct (memN_split_first SLASH a Es) as [p [s [Ea Hp]]].
      assert (Hspan : span (not_in [COLON; SLASH; QMARK; HASH]) u = (p, SLASH :: s ++ COLON :: rest)).
      { subst u a. rewrite <- app_assoc. cbn [app]. apply span_app2'; [|reflexivity].
        apply forallb_not_in. intros c Hc. simpl in Hc.
        rewrite <- app_assoc in Hq, Hh. cbn [app] in Hq, Hh.
        apply memN_app_false in S2. apply memN_app_false in Hq. apply memN_app_false in Hh.
        destruct Hc as [Hc|[Hc|[Hc|[Hc|[]]]]]; subst c; try tauto.
        destruct (memN SLASH p) eqn:Q; [|reflexivity]. apply memN_In in Q. rewrite forallb_forall in Hp.
        specialize (Hp _ Q). rewrite N.eqb_refl in Hp. discriminate. }
      rewrite Hspan. destruct a as [|x0 a0]; [discriminate|]. rewrite Es. destruct p; reflexivity.
    + assert (Hspan : span (not_in [COLON; SLASH; QMARK; HASH]) u = (a, COLON :: rest)).
      { subst u. apply span_app2'; [|reflexivity]. apply forallb_not_in. intros c Hc. simpl in Hc.
        apply memN_app_false in Hq. apply memN_app_false in Hh.
        destruct Hc as [Hc|[Hc|[Hc|[Hc|[]]]]]; subst c; tauto. }
      rewrite Hspan. destruct a as [|x0 a0]; [reflexivity|]. rewrite Es. cbn [starts_with tl]. rewrite N.eqb_refl. reflexivity.
  - (* no colon at all *)
    rewrite app_nil_r in S1. subst a.
    destruct (span (not_in [COLON; SLASH; QMARK; HASH]) u) as [a r0] eqn:Es.
    destruct (span_spec _ _ _ _ Es) as [P1 [P2 P3]].
    assert (Hs : starts_with COLON r0 = false).
    { destruct r0 as [|c r0]; [reflexivity|]. simpl. apply N.eqb_neq. intro Ec. subst c.
      subst u. apply memN_app_false in S2. destruct S2 as [_ S2]. simpl in S2. discriminate. }
    rewrite Hs. destruct a; destruct u; reflexivity.
Qed.

Lemma auth_eq : forall u, nohq u ->
  m_auth u = (fst (s_auth u), snd (s_auth u)) /\ nohq (snd (s_auth u)) /\
  span (not_in [QMARK; HASH]) (snd (s_auth u)) = (snd (s_auth u), []).
Proof.
  intros u [Hq Hh]. unfold m_auth, s_auth.
  assert (Hfull : forall l, nohq l -> span (not_in [QMARK; HASH]) l = (l, [])).
  { intros l [L1 L2]. rewrite <- (app_nil_r l) at 1. apply span_app2'; [|exact I].
    apply forallb_not_in. intros c Hc. simpl in Hc. destruct Hc as [Hc|[Hc|[]]]; subst c; assumption. }
  destruct u as [|c1 [|c2 u]].
  - cbn. repeat split.
  - cbn [starts_with tl is_prefix]. rewrite andb_false_r. destruct (SLASH =? c1); cbn [andb fst snd];
      (split; [reflexivity|split; [split; assumption|apply Hfull; split; assumption]]).
  - cbn [starts_with tl is_prefix skipn]. rewrite (N.eqb_sym SLASH c1), (N.eqb_sym SLASH c2). rewrite andb_true_r.
    destruct ((c1 =? SLASH) && (c2 =? SLASH)) eqn:E.
    + cbn [memN] in Hq, Hh. apply orb_false_iff in Hq. destruct Hq as [_ Hq]. apply orb_false_iff in Hq. destruct Hq as [_ Hq].
      apply orb_false_iff in Hh. destruct Hh as [_ Hh]. apply orb_false_iff in Hh. destruct Hh as [_ Hh].
      destruct (cut_at SLASH u) as [a ob] eqn:Ec. destruct (cut_at_spec _ _ _ _ Ec) as [S1 S2].
      assert (Ha : forallb (not_in [SLASH; QMARK; HASH]) a = true).
      { apply forallb_not_in. intros c Hc. simpl in Hc. subst u.
        apply memN_app_false in Hq. apply memN_app_false in Hh.
        destruct Hc as [Hc|[Hc|[Hc|[]]]]; subst c; tauto. }
      destruct ob as [rest|]; cbn [opt_tail] in S1.
      * rewrite S1. rewrite (span_app2' _ a (SLASH :: rest) Ha) by reflexivity. cbn [fst snd].
        subst u. apply memN_app_false in Hq. apply memN_app_false in Hh.
        split; [reflexivity|]. assert (N1 : nohq (SLASH :: rest)) by (split; tauto). split; [exact N1|apply Hfull; exact N1].
      * rewrite app_nil_r in S1. subst a. rewrite <- (app_nil_r u) at 1. rewrite (span_app2' _ u [] Ha) by exact I.
        cbn [fst snd]. repeat split. 
    + cbn [fst snd]. split; [reflexivity|]. split; [split; assumption|apply Hfull; split; assumption].
Qed.

Lemma is_prefix2_eq : forall c1 c2 u, is_prefix [SLASH; SLASH] (c1 :: c2 :: u) = (c1 =? SLASH) && (c2 =? SLASH).
Proof. intros. cbn [is_prefix]. rewrite (N.eqb_sym SLASH c1), (N.eqb_sym SLASH c2), andb_true_r. reflexivity. Qed.

Theorem split_eq : forall u, m_split u = s_split u.
Proof.
  intro u. unfold s_split.
  destruct (cut_at HASH u) as [u1 frag] eqn:E1. destruct (cut_at_spec _ _ _ _ E1) as [A1 A2].
  destruct (cut_at QMARK u1) as [u2 quer] eqn:E2. destruct (cut_at_spec _ _ _ _ E2) as [B1 B2].
  assert (Hu2 : nohq u2).
  { split; [exact B2|]. subst u1. apply memN_app_false in A2. tauto. }
  set (T := opt_tail QMARK quer ++ opt_tail HASH frag).
  assert (Hu : u = u2 ++ T) by (subst u u1 T; rewrite app_assoc; reflexivity).
  assert (FT : follows QH T).
  { unfold T. destruct quer; cbn; [left; reflexivity|]. destruct frag; cbn; [right; left; reflexivity|exact I]. }
  unfold m_split. rewrite Hu, (m_scheme_follow u2 T FT), (scheme_eq u2 Hu2).
  pose proof (s_scheme_suffix u2 Hu2) as Hu3.
  destruct (s_scheme u2) as [sch u3]. cbn [fst snd] in *.
  rewrite (m_auth_follow u3 T FT). destruct (auth_eq u3 Hu3) as [Ea [Hpa Hsp]]. rewrite Ea.
  destruct (s_auth u3) as [au pa]. cbn [fst snd] in *.
  rewrite (span_follow _ QH pa T) by (try inQH; exact FT). rewrite Hsp. cbn [fst snd app].
  (* query and fragment *)
  assert (Hq : memN HASH (match quer with Some q => q | None => [] end) = false).
  { destruct quer as [q|]; [|reflexivity]. subst u1. cbn [opt_tail] in A2. apply memN_app_false in A2.
    destruct A2 as [_ A2]. cbn [memN] in A2. apply orb_false_iff in A2. tauto. }
  unfold T, m_query, m_frag. destruct quer as [q|]; cbn [opt_tail app starts_with tl].
  - change (QMARK =? QMARK) with true. cbv iota.
    assert (Hs : span (not_in [HASH]) (q ++ opt_tail HASH frag) = (q, opt_tail HASH frag)).
    { apply span_app2'.
      - apply forallb_not_in. intros c Hc. simpl in Hc. destruct Hc as [Hc|[]]. subst c. exact Hq.
      - destruct frag; cbn; [reflexivity|exact I]. }
    rewrite Hs. destruct frag; reflexivity.
  - destruct frag as [f|]; cbn [opt_tail starts_with tl]; reflexivity.
Qed.

(* ------------------------------------------------------------ the last slash *)
Definition noslash (s : str) : Prop := memN SLASH s = false.

Lemma memN_rev : forall c l, memN c (rev l) = memN c l.
Proof.
  induction l as [|x l IH]; [reflexivity|]. cbn [rev]. rewrite memN_app, IH. cbn [memN]. rewrite orb_false_r, orb_comm. reflexivity.
Qed.
Lemma noslash_forallb : forall s, noslash s -> forallb (fun x => negb (x =? SLASH)) s = true.
Proof.
  intros s H. apply forallb_forall. intros x Hx. apply negb_true_iff. destruct (x =? SLASH) eqn:E; [|reflexivity].
  apply N.eqb_eq in E. subst x. apply memN_In in Hx. unfold noslash in H. congruence.
Qed.

Lemma upto_noslash : forall s, noslash s -> upto_last_slash s = [].
Proof.
  induction s as [|c s IH]; intro H; [reflexivity|]. unfold noslash in H. cbn [memN] in H. apply orb_false_iff in H.
  destruct H as [H1 H2]. cbn [upto_last_slash]. rewrite (IH H2). rewrite N.eqb_sym in H1. rewrite H1. reflexivity.
Qed.
Lemma upto_split : forall a s, noslash s -> upto_last_slash (a ++ SLASH :: s) = a ++ [SLASH].
Proof.
  induction a as [|c a IH]; intros s H.
  - cbn [app upto_last_slash]. rewrite (upto_noslash s H). reflexivity.
  - cbn [app upto_last_slash]. rewrite (IH s H). destruct a; reflexivity.
Qed.
Lemma last_slash_split : forall p, memN SLASH p = true -> exists a s, p = a ++ SLASH :: s /\ noslash s.
Proof.
  intros p H. rewrite <- memN_rev in H. destruct (memN_split_first SLASH (rev p) H) as [x [y [E Hx]]].
  exists (rev y), (rev x). split.
  - rewrite <- (rev_involutive p), E, rev_app_distr. cbn [rev]. rewrite <- app_assoc. reflexivity.
  - unfold noslash. rewrite memN_rev. destruct (memN SLASH x) eqn:Q; [|reflexivity].
    apply memN_In in Q. rewrite forallb_forall in Hx. specialize (Hx _ Q). rewrite N.eqb_refl in Hx. discriminate.
Qed.

Lemma rev_span_split : forall a s, noslash s ->
  span (fun x => negb (x =? SLASH)) (rev (a ++ SLASH :: s)) = (rev s, SLASH :: rev a).
Proof.
  intros a s H. rewrite rev_app_distr. cbn [rev]. rewrite <- app_assoc. cbn [app].
  apply span_app; [|reflexivity]. apply noslash_forallb. unfold noslash. rewrite memN_rev. exact H.
Qed.
Lemma rev_span_noslash : forall s, noslash s -> span (fun x => negb (x =? SLASH)) (rev s) = (rev s, []).
Proof.
  intros s H. rewrite <- (app_nil_r (rev s)) at 1. apply span_app2'; [|exact I].
  apply noslash_forallb. unfold noslash. rewrite memN_rev. exact H.
Qed.

(* 5.2.3: "excluding any characters after the right-most '/'" is bpath[: bpath.rfind("/") + 1] *)
Lemma all_but_last_eq : forall p, s_all_but_last_segment p = upto_last_slash p.
Proof.
  intro p. unfold s_all_but_last_segment. destruct (memN SLASH p) eqn:E.
  - destruct (last_slash_split p E) as [a [s [Ep Hs]]]. subst p. rewrite (rev_span_split a s Hs), (upto_split a s Hs).
    cbn [snd rev]. rewrite rev_involutive. reflexivity.
  - rewrite (rev_span_noslash p E), (upto_noslash p E). reflexivity.
Qed.

(* ------------------------------------------------------------ remove_dot_segments: list of segments vs. output buffer *)
Definition seg_lead (e : str) : Prop := exists s, e = SLASH :: s /\ noslash s.
Definition seg_any (e : str) : Prop := exists c s, e = c :: s /\ noslash s.
Definition wf_out (l : list str) : Prop :=
  match l with [] => True | e0 :: rest => seg_any e0 /\ Forall seg_lead rest end.
Definition inv (p : str) (l : list str) : Prop :=
  wf_out l /\ (l <> [] -> p = [] \/ starts_with SLASH p = true).

Lemma wf_out_app : forall l e, wf_out l -> (l = [] -> seg_any e) -> (l <> [] -> seg_lead e) -> wf_out (l ++ [e]).
Proof.
  intros [|e0 l] e W H1 H2; cbn [app wf_out].
  - split; [apply H1; reflexivity|constructor].
  - destruct W as [W1 W2]. split; [exact W1|]. apply Forall_app. split; [exact W2|]. constructor; [apply H2; discriminate|constructor].
Qed.
Lemma wf_out_removelast : forall l, wf_out l -> wf_out (removelast l).
Proof.
  intros l W. destruct l as [|e0 l]; [exact I|]. destruct W as [W1 W2].
  destruct l as [|e1 l]; [exact I|]. change (removelast (e0 :: e1 :: l)) with (e0 :: removelast (e1 :: l)).
  split; [exact W1|]. revert W2. generalize (e1 :: l). clear. intros l W. induction W as [|x l Hx W IH]; [constructor|].
  destruct l; [constructor|]. change (removelast (x :: s :: l)) with (x :: removelast (s :: l)). constructor; assumption.
Qed.

Lemma remove_last_concat : forall l, wf_out l -> s_remove_last_segment (concat l) = concat (removelast l).
Proof.
  intros l W. unfold s_remove_last_segment.
  destruct l as [|e0 l]; [reflexivity|].
  destruct (exists_last (l := e0 :: l)) as [l' [e El]]; [discriminate|]. rewrite El in *. rewrite removelast_last.
  rewrite concat_app. cbn [concat]. rewrite app_nil_r.
  assert (He : seg_lead e \/ (l' = [] /\ seg_any e)).
  { destruct l' as [|x l']; cbn [app] in W.
    - right. split; [reflexivity|]. destruct W as [W _]. exact W.
    - left. destruct W as [_ W]. apply Forall_app in W. destruct W as [_ W]. inversion W; assumption. }
  destruct He as [[s [Ee Hs]]|[El' [c [s [Ee Hs]]]]]; subst e.
  - rewrite (rev_span_split (concat l') s Hs). cbn [snd tl]. apply rev_involutive.
  - subst l'. cbn [concat app]. destruct (c =? SLASH) eqn:Ec.
    + apply N.eqb_eq in Ec. subst c. change (SLASH :: s) with ([] ++ SLASH :: s). rewrite (rev_span_split [] s Hs). reflexivity.
    + assert (Hn : noslash (c :: s)).
      { unfold noslash. cbn [memN]. rewrite N.eqb_sym, Ec. exact Hs. }
      rewrite (rev_span_noslash _ Hn). reflexivity.
Qed.

Lemma is_prefix_app : forall p l, is_prefix p l = true -> l = p ++ skipn (length p) l.
Proof.
  induction p as [|x p IH]; intros l H; [reflexivity|]. destruct l as [|y l]; [discriminate|].
  cbn [is_prefix] in H. apply andb_true_iff in H. destruct H as [H1 H2]. apply N.eqb_eq in H1. subst y.
  cbn [app length skipn]. f_equal. apply IH. exact H2.
Qed.

Lemma skipn_len : forall q p, is_prefix q p = true -> (length p = length q + length (skipn (length q) p))%nat.
Proof.
  intros q p H. pose proof (is_prefix_app _ _ H) as E. rewrite E at 1. rewrite app_length. reflexivity.
Qed.

Lemma first_seg_eq : forall p, p <> [] -> m_first_seg p = s_first_segment p.
Proof.
  intros [|c r] H; [contradiction|]. unfold m_first_seg, s_first_segment. cbn [starts_with tl].
  destruct (c =? SLASH) eqn:E.
  - apply N.eqb_eq in E. subst c. destruct (span (fun x => negb (x =? SLASH)) r). reflexivity.
  - cbn [span]. rewrite E. cbn [negb]. destruct (span (fun x => negb (x =? SLASH)) r). reflexivity.
Qed.

Lemma first_seg_spec : forall c r seg rest, m_first_seg (c :: r) = (seg, rest) ->
  exists s, seg = c :: s /\ noslash s /\ (rest = [] \/ starts_with SLASH rest = true) /\ c :: r = seg ++ rest.
Proof.
  intros c r seg rest H. unfold m_first_seg in H. destruct (span (fun x => negb (x =? SLASH)) r) as [s rs] eqn:Es.
  inversion H; subst. destruct (span_spec _ _ _ _ Es) as [S1 [S2 S3]]. exists s. split; [reflexivity|]. split.
  - unfold noslash. destruct (memN SLASH s) eqn:Q; [|reflexivity]. apply memN_In in Q. rewrite forallb_forall in S2.
    specialize (S2 _ Q). rewrite N.eqb_refl in S2. discriminate.
  - split; [|subst r; reflexivity]. destruct rest as [|x rest]; [left; reflexivity|right]. apply negb_false_iff in S3. exact S3.
Qed.

Ltac fin_nil := split; [reflexivity|split; [reflexivity|split;
  [split; [exact I|let Hc := fresh in intro Hc; exfalso; apply Hc; reflexivity]|cbn [length] in *; lia]]].

(* one round: the same tests on the input; the outputs stay related *)
Lemma step_sim : forall p l, inv p l ->
  match m_step (p, l), s_step (p, concat l) with
  | None, None => True
  | Some (p1, l1), Some (p2, o2) => p1 = p2 /\ o2 = concat l1 /\ inv p1 l1 /\ (length p1 < length p)%nat
  | _, _ => False
  end.
Proof.
  intros p l [W Hh]. unfold m_step, s_step. destruct p as [|c0 p0] eqn:Ep; [exact I|]. rewrite <- Ep in *.
  assert (Hdot : l <> [] -> starts_with DOT p = false).
  { intro Hl. destruct (Hh Hl) as [E|E]; [subst; discriminate|]. rewrite Ep in *. cbn [starts_with] in *.
    apply N.eqb_eq in E. subst c0. reflexivity. }
  assert (Hl0 : starts_with DOT p = true -> l = []).
  { intro E. destruct l; [reflexivity|]. rewrite Hdot in E by discriminate. discriminate. }
  destruct (is_prefix [DOT; DOT; SLASH] p) eqn:A1.
  { pose proof (is_prefix_app _ _ A1) as E. assert (l = []) by (apply Hl0; rewrite E; reflexivity). subst l.
    pose proof (skipn_len _ _ A1) as L. fin_nil. }
  destruct (is_prefix [DOT; SLASH] p) eqn:A2.
  { pose proof (is_prefix_app _ _ A2) as E. assert (l = []) by (apply Hl0; rewrite E; reflexivity). subst l.
    pose proof (skipn_len _ _ A2) as L. fin_nil. }
  destruct (is_prefix [SLASH; DOT; SLASH] p) eqn:B1.
  { pose proof (is_prefix_app _ _ B1) as E. cbn [length] in E.
    assert (E2 : skipn 2 p = SLASH :: skipn 3 p) by (rewrite E at 1; reflexivity).
    pose proof (skipn_len _ _ B1) as L. cbn [length] in L.
    rewrite E2. repeat split; [exact W|intros _; right; reflexivity|]. cbn [length]. lia. }
  destruct (str_eqb p [SLASH; DOT]) eqn:B2.
  { apply str_eqb_eq in B2. repeat split; [exact W|intros _; right; reflexivity|]. rewrite B2. cbn. lia. }
  destruct (is_prefix [SLASH; DOT; DOT; SLASH] p) eqn:C1.
  { pose proof (is_prefix_app _ _ C1) as E. cbn [length] in E.
    assert (E2 : skipn 3 p = SLASH :: skipn 4 p) by (rewrite E at 1; reflexivity).
    rewrite E2. split; [reflexivity|]. split; [apply remove_last_concat; exact W|]. split.
    - split; [apply wf_out_removelast; exact W|intros _; right; reflexivity].
    - pose proof (skipn_len _ _ C1) as L. cbn [length] in L |- *. lia. }
  destruct (str_eqb p [SLASH; DOT; DOT]) eqn:C2.
  { apply str_eqb_eq in C2. split; [reflexivity|]. split; [apply remove_last_concat; exact W|]. split.
    - split; [apply wf_out_removelast; exact W|intros _; right; reflexivity].
    - rewrite C2. cbn. lia. }
  destruct (str_eqb p [DOT] || str_eqb p [DOT; DOT]) eqn:D.
  { assert (l = []).
    { apply Hl0. apply orb_true_iff in D. destruct D as [D|D]; apply str_eqb_eq in D; rewrite D; reflexivity. }
    subst l. rewrite Ep. fin_nil. }
  rewrite <- (first_seg_eq p) by (rewrite Ep; discriminate).
  destruct (m_first_seg p) as [seg rest] eqn:Ef. rewrite Ep in Ef.
  destruct (first_seg_spec _ _ _ _ Ef) as [s [Es [Hs [Hr Hp]]]].
  split; [reflexivity|]. split; [rewrite concat_app; cbn [concat]; rewrite app_nil_r; reflexivity|]. split.
  - split.
    + apply wf_out_app; [exact W| |].
      * intros _. exists c0, s. split; assumption.
      * intro Hl. destruct (Hh Hl) as [E|E]; [rewrite Ep in E; discriminate|]. rewrite Ep in E. cbn [starts_with] in E.
        apply N.eqb_eq in E. subst c0. exists s. split; assumption.
    + intros _. exact Hr.
  - rewrite Ep, Hp, Es, app_length. cbn [length]. lia.
Qed.

Lemma loops_sim : forall n p l, inv p l -> (length p <= n)%nat ->
  exists out, m_loop n (p, l) = Some out /\ s_loop n (p, concat l) = Some (concat out).
Proof.
  induction n as [|n IH]; intros p l I Hn.
  - destruct p; [|simpl in Hn; lia]. exists l. split; reflexivity.
  - pose proof (step_sim p l I) as S. cbn [m_loop s_loop].
    destruct (m_step (p, l)) as [[p1 l1]|]; destruct (s_step (p, concat l)) as [[p2 o2]|]; try contradiction.
    + destruct S as [S1 [S2 [S3 S4]]]. subst p2 o2. apply IH; [exact S3|lia].
    + exists l. split; reflexivity.
Qed.

(* the Python loop ends, and the list of segments it has built, joined, is the RFC's output buffer *)
Theorem rds_eq : forall p, exists r, m_rds p = Some r /\ s_rds p = Some r.
Proof.
  intro p. destruct (loops_sim (length p) p [] ) as [out [H1 H2]]; [split; [exact I|intro H; contradiction]|lia|].
  exists (concat out). unfold m_rds, s_rds. rewrite H1. split; [reflexivity|exact H2].
Qed.

(* ------------------------------------------------------------ join *)
Lemma find_from_app : forall c s r i, memN c s = false -> find_from i c (s ++ c :: r) = Some (i + length s)%nat.
Proof.
  induction s as [|x s IH]; intros r i H.
  - cbn [app find_from]. rewrite N.eqb_refl. f_equal. simpl. lia.
  - cbn [memN] in H. apply orb_false_iff in H. destruct H as [H1 H2]. cbn [app find_from].
    rewrite N.eqb_sym, H1. rewrite (IH r (S i) H2). f_equal. simpl. lia.
Qed.

Lemma scheme_prefix : forall u s, c_scheme (s_split u) = Some s ->
  exists rest, u = s ++ COLON :: rest /\ memN COLON s = false.
Proof.
  intros u s H. unfold s_split in H.
  destruct (cut_at HASH u) as [u1 frag] eqn:E1. destruct (cut_at_spec _ _ _ _ E1) as [A1 _].
  destruct (cut_at QMARK u1) as [u2 quer] eqn:E2. destruct (cut_at_spec _ _ _ _ E2) as [B1 _].
  unfold s_scheme in H. destruct (cut_at COLON u2) as [a ob] eqn:E3. destruct (cut_at_spec _ _ _ _ E3) as [C1 C2].
  destruct a as [|x a].
  - destruct (s_auth u2); cbn in H; discriminate.
  - destruct ob as [rest|].
    + destruct (memN SLASH (x :: a)).
      * destruct (s_auth u2); cbn in H; discriminate.
      * destruct (s_auth rest); cbn in H. inversion H; subst s.
        exists (rest ++ opt_tail QMARK quer ++ opt_tail HASH frag). split; [|exact C2].
        subst u u1 u2. cbn [opt_tail]. rewrite <- !app_assoc. reflexivity.
    + destruct (s_auth u2); cbn in H; discriminate.
Qed.

Lemma nth_skip : forall (s r : str) c, nth_error (s ++ c :: r) (S (length s)) = nth_error r 0 /\
  skipn (S (length s)) (s ++ c :: r) = r.
Proof. induction s as [|x s IH]; intros r c; [split; reflexivity|]. cbn [app length nth_error skipn]. apply IH. Qed.

Lemma cut_last_hash_one : forall u1 f, memN HASH u1 = false -> memN HASH f = false ->
  cut_last_hash (u1 ++ HASH :: f) = Some u1.
Proof.
  intros u1 f H1 H2.
  assert (Hf : cut_last_hash f = None).
  { clear -H2. induction f as [|c f IH]; [reflexivity|]. cbn [memN] in H2. apply orb_false_iff in H2. destruct H2 as [A B].
    cbn [cut_last_hash]. rewrite (IH B). rewrite N.eqb_sym in A. rewrite A. reflexivity. }
  induction u1 as [|c u1 IH].
  - cbn [app cut_last_hash]. rewrite Hf. reflexivity.
  - cbn [memN] in H1. apply orb_false_iff in H1. destruct H1 as [A B]. cbn [app cut_last_hash]. rewrite (IH B). reflexivity.
Qed.
Lemma cut_last_hash_none : forall u, memN HASH u = false -> cut_last_hash u = None.
Proof.
  induction u as [|c u IH]; intro H; [reflexivity|]. cbn [memN] in H. apply orb_false_iff in H. destruct H as [A B].
  cbn [cut_last_hash]. rewrite (IH B). rewrite N.eqb_sym in A. rewrite A. reflexivity.
Qed.

Lemma count_hash_app : forall a b, count_hash (a ++ b) = (count_hash a + count_hash b)%nat.
Proof. intros. unfold count_hash. rewrite filter_app, app_length. reflexivity. Qed.
Lemma count_hash_zero : forall l, count_hash l = O -> memN HASH l = false.
Proof.
  induction l as [|c l IH]; intro H; [reflexivity|]. unfold count_hash in *. cbn [filter] in H. cbn [memN].
  destruct (c =? HASH) eqn:E; [simpl in H; discriminate|]. rewrite N.eqb_sym, E. apply IH. exact H.
Qed.

(* the base without its fragment, put together again from its components *)
Definition nofrag (C : comps) : comps :=
  {| c_scheme := c_scheme C; c_auth := c_auth C; c_path := c_path C; c_query := c_query C; c_frag := None |}.

Lemma recompose_nofrag : forall u, s_recompose (nofrag (s_split u)) = fst (cut_at HASH u).
Proof.
  intro u. unfold s_split.
  destruct (cut_at HASH u) as [u1 frag] eqn:E1. cbn [fst].
  destruct (cut_at QMARK u1) as [u2 quer] eqn:E2. destruct (cut_at_spec _ _ _ _ E2) as [B1 _].
  assert (Hsch : (match fst (s_scheme u2) with Some s => s ++ [COLON] | None => [] end) ++ snd (s_scheme u2) = u2).
  { unfold s_scheme. destruct (cut_at COLON u2) as [a ob] eqn:E3. destruct (cut_at_spec _ _ _ _ E3) as [C1 _].
    destruct a as [|x a]; [reflexivity|]. destruct ob as [rest|]; [|reflexivity].
    destruct (memN SLASH (x :: a)); [reflexivity|]. cbn [fst snd opt_tail] in *. rewrite C1. rewrite <- app_assoc. reflexivity. }
  destruct (s_scheme u2) as [sch u3]. cbn [fst snd] in Hsch.
  assert (Hau : (match fst (s_auth u3) with Some a => [SLASH; SLASH] ++ a | None => [] end) ++ snd (s_auth u3) = u3).
  { unfold s_auth. destruct (is_prefix [SLASH; SLASH] u3) eqn:P; [|reflexivity].
    pose proof (is_prefix_app _ _ P) as E. cbn [length] in E.
    destruct (cut_at SLASH (skipn 2 u3)) as [a ob] eqn:E3. destruct (cut_at_spec _ _ _ _ E3) as [C1 _].
    destruct ob as [rest|]; cbn [fst snd opt_tail] in *; (etransitivity; [|symmetry; exact E]); rewrite C1, <- ?app_assoc, ?app_nil_r; reflexivity. }
  destruct (s_auth u3) as [au pa]. cbn [fst snd] in Hau.
  unfold s_recompose, nofrag. cbn [c_scheme c_auth c_path c_query c_frag]. rewrite app_nil_r.
  rewrite B1, <- Hsch, <- Hau. destruct quer; cbn [opt_tail]; rewrite <- ?app_assoc; reflexivity.
Qed.

Lemma recompose_form : forall bs ta tp tq fr,
  s_recompose {| c_scheme := Some bs; c_auth := ta; c_path := tp; c_query := tq; c_frag := fr |} =
  bs ++ [COLON] ++ opt_pre [SLASH; SLASH] ta ++ tp ++ opt_pre [QMARK] tq ++ opt_pre [HASH] fr.
Proof.
  intros. unfold s_recompose. cbn [c_scheme c_auth c_path c_query c_frag].
  destruct ta, tq, fr; cbn [opt_pre app]; rewrite <- ?app_assoc; reflexivity.
Qed.

Lemma frag_head_eq : forall base, (count_hash base <= 1)%nat -> m_split_frag_head base = fst (cut_at HASH base).
Proof.
  intros base H. unfold m_split_frag_head.
  destruct (cut_at HASH base) as [u1 frag] eqn:E. destruct (cut_at_spec _ _ _ _ E) as [A1 A2]. cbn [fst].
  destruct frag as [f|]; cbn [opt_tail] in A1.
  - assert (Hf : memN HASH f = false).
    { apply count_hash_zero. rewrite A1, count_hash_app in H. unfold count_hash at 2 in H. cbn [filter] in H.
      change (HASH =? HASH) with true in H. cbn [length] in H. fold (count_hash f) in H. lia. }
    rewrite A1, (cut_last_hash_one u1 f A2 Hf). reflexivity.
  - rewrite app_nil_r in A1. subst u1. rewrite (cut_last_hash_none base A2). reflexivity.
Qed.

(* rdflib's join is RFC 3986 section 5.2 reference resolution (for relative references, as RDF prescribes) *)
Theorem join_is_rfc3986_gen : forall base ref,
  is_none (c_scheme (s_split base)) = false -> (hierarchical base || same_document ref) = true ->
  (Nat.leb (count_hash base) 1 || negb (same_document ref)) = true ->
  exists t, rdf_resolve base ref = Some t /\ m_join base ref = JOk t.
Proof.
  intros base ref Hs Hg Hc0.
  destruct (c_scheme (s_split base)) as [bs|] eqn:Ebs; [|discriminate]. clear Hs.
  destruct (scheme_prefix base bs Ebs) as [brest [Ebase Hcol]].
  unfold rdf_resolve, m_join. rewrite !split_eq.
  destruct (c_scheme (s_split ref)) as [rs|] eqn:Ers; [exists ref; split; reflexivity|].
  assert (Hfind : find COLON base = Some (length bs)).
  { unfold find. rewrite Ebase. rewrite (find_from_app COLON bs brest 0 Hcol). reflexivity. }
  rewrite Hfind. unfold rfc_resolve, s_transform. rewrite Ers, Ebs.
  unfold same_document in Hg, Hc0. rewrite Ers in Hg, Hc0. cbn [is_none andb] in Hg, Hc0.
  destruct (is_none (c_auth (s_split ref)) && match c_path (s_split ref) with [] => true | _ :: _ => false end
            && is_none (c_query (s_split ref))) eqn:Esd.
  - (* same-document reference *)
    cbn [negb] in Hc0. rewrite orb_false_r in Hc0. assert (Hc : (count_hash base <= 1)%nat) by (apply Nat.leb_le; exact Hc0).
    apply andb_true_iff in Esd. destruct Esd as [Esd Eq]. apply andb_true_iff in Esd. destruct Esd as [Ea Ep].
    destruct (c_auth (s_split ref)); [discriminate|]. destruct (c_path (s_split ref)); [|discriminate].
    destruct (c_query (s_split ref)); [discriminate|].
    eexists. split; [reflexivity|]. f_equal.
    rewrite (frag_head_eq base Hc), <- recompose_nofrag. unfold s_recompose, nofrag.
    cbn [c_scheme c_auth c_path c_query c_frag]. rewrite Ebs, app_nil_r.
    destruct (c_frag (s_split ref)); cbn [opt_pre]; rewrite <- ?app_assoc, ?app_nil_r; reflexivity.
  - rewrite orb_false_r in Hg. unfold hierarchical in Hg. rewrite Ebs in Hg.
    assert (Hsk : skipn (S (length bs)) base = brest) by (rewrite Ebase; apply nth_skip).
    assert (Hnth : nth_error base (S (length bs)) = nth_error brest 0) by (rewrite Ebase; apply nth_skip).
    rewrite Hsk in Hg. rewrite Hnth.
    assert (Hn : match nth_error brest 0 with Some x => x =? SLASH | None => false end = true).
    { destruct brest as [|x r]; [discriminate|]. cbn [nth_error]. cbn [starts_with] in Hg. exact Hg. }
    rewrite Hn. cbn [negb].
    destruct (c_auth (s_split ref)) as [ra|] eqn:Era.
    + destruct (rds_eq (c_path (s_split ref))) as [r [M S]]. rewrite M, S.
      eexists. split; [reflexivity|]. rewrite recompose_form. reflexivity.
    + destruct (c_path (s_split ref)) as [|rc rp] eqn:Erp.
      * cbn [is_none andb] in Esd. destruct (c_query (s_split ref)) as [q|] eqn:Eq; [|discriminate].
        eexists. split; [reflexivity|]. rewrite recompose_form. reflexivity.
      * assert (Fin : forall P, exists t,
                  match match s_rds P with
                        | Some p => Some {| c_scheme := Some bs; c_auth := c_auth (s_split base); c_path := p;
                                            c_query := c_query (s_split ref); c_frag := c_frag (s_split ref) |}
                        | None => None end
                  with Some T => Some (s_recompose T) | None => None end = Some t /\
                  match match m_rds P with
                        | Some p => Some (c_auth (s_split base), p, c_query (s_split ref))
                        | None => None end
                  with
                  | Some (ta, tp, tq) =>
                      JOk (bs ++ [COLON] ++ opt_pre [SLASH; SLASH] ta ++ tp ++ opt_pre [QMARK] tq ++
                           opt_pre [HASH] (c_frag (s_split ref)))
                  | None => JAssertionError
                  end = JOk t).
        { intro P. destruct (rds_eq P) as [r [M S]]. rewrite M, S.
          eexists. split; [reflexivity|]. rewrite recompose_form. reflexivity. }
        destruct (rc =? SLASH); [apply Fin|]. unfold s_merge.
        destruct (c_auth (s_split base)); destruct (c_path (s_split base)); cbn [is_none negb andb];
          rewrite ?all_but_last_eq; apply Fin.
Qed.

Theorem join_is_rfc3986 : forall base ref,
  base_ok base = true -> (hierarchical base || same_document ref) = true ->
  exists t, rdf_resolve base ref = Some t /\ m_join base ref = JOk t.
Proof.
  intros base ref Hb Hg. unfold base_ok in Hb. apply andb_true_iff in Hb. destruct Hb as [Hs Hc].
  apply join_is_rfc3986_gen; [apply negb_true_iff; exact Hs|exact Hg|rewrite Hc; reflexivity].
Qed.

(* and it never fails on a well-formed hierarchical base *)
Corollary join_total : forall base ref, base_ok base = true -> hierarchical base = true ->
  exists t, m_join base ref = JOk t.
Proof.
  intros base ref H1 H2. destruct (join_is_rfc3986 base ref H1) as [t [_ J]]; [rewrite H2; reflexivity|]. eauto.
Qed.

(* the checker of suite "join" accepts the model *)
Theorem j_spec_ok_model : forall c, j_spec_ok c (j_model c) = true.
Proof.
  intro c. unfold j_spec_ok.
  destruct (base_ok (j_base c) && (hierarchical (j_base c) || same_document (j_ref c))) eqn:G; [|reflexivity]. cbn [negb orb].
  apply andb_true_iff in G. destruct G as [G1 G2].
  destruct (join_is_rfc3986 _ _ G1 G2) as [t [R J]]. unfold j_model. rewrite R, J. cbn [fst snd].
  rewrite str_eqb_refl. reflexivity.
Qed.

(* why [base_ok] asks for at most one '#': on such an (illegal) base join cuts at the last '#' *)
Lemma join_two_hashes_refuted : exists base ref t,
  is_none (c_scheme (s_split base)) = false /\ hierarchical base = true /\
  rdf_resolve base ref = Some t /\ m_join base ref <> JOk t.
Proof.
  exists [104;116;116;112;58;47;47;101;47;97;35;98;35;99], [35;102]. eexists.
  split; [reflexivity|]. split; [reflexivity|]. split; [vm_compute; reflexivity|vm_compute; discriminate].
Qed.
